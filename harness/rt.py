"""Deterministic runtimes for the *unmodified* servers of /repo and a uniform driver interface over them.

ThreadedDriver : engineio.Server(async_mode='threading') whose driver table (`srv._async`) is replaced after
                 construction by greenlet-based SimThread/SimQueue/SimEvent/sleep with a virtual clock, behind the real
                 engineio.WSGIApp.  Every request / WebSocket session / API call is a task; settle() runs tasks until
                 all are blocked or done; advance(dt) fires timers in (deadline, creation) order.
AsyncDriver    : engineio.AsyncServer(async_mode='asgi') on an asyncio loop whose selector advances a virtual clock,
                 behind the real engineio.ASGIApp.

Nothing in /repo is patched except two module attributes that hold the clock (`engineio.socket.time`,
`engineio.async_socket.time`)."""
import asyncio, heapq, io, itertools, selectors, types
import greenlet

T0 = 1000.0


# ==========================================================================================================
# greenlet scheduler
class Empty(Exception):
    pass


class Task:
    def __init__(self, s, fn, a, kw, name):
        self.s, self.name = s, name
        self.state = 'runnable'           # runnable | running | blocked | done
        self.timed_out = False
        self.joiners = []
        self.result = None
        self.exc = None
        self.waiting_on = None
        self.pending_exc = None

        def run():
            try:
                self.result = fn(*a, **kw)
            except BaseException as e:      # noqa
                self.exc = e
            self.state = 'done'
            for j in self.joiners:
                s.wake(j)
        self.g = greenlet.greenlet(run, parent=s.main)

    def join(self):
        if self.state != 'done':
            self.joiners.append(self.s.cur)
            self.s.block('thread.join(%s)' % self.name)


class Sched:
    def __init__(self, t0=T0):
        self.now = t0
        self.runq = []
        self.timers = []
        self.seq = itertools.count()
        self.main = greenlet.getcurrent()
        self.cur = None
        self.tasks = []
        self.choose = lambda n: 0          # schedule: which runnable task runs next
        self.steps = 0
        self.dead = False

    def spawn(self, fn, *a, name='', **kw):
        t = Task(self, fn, a, kw, name)
        self.runq.append(t)
        self.tasks.append(t)
        return t

    def block(self, what=''):
        if self.dead:
            raise SystemExit()
        t = self.cur
        t.waiting_on = what
        self.main.switch()
        t.waiting_on = None
        if self.dead:
            raise SystemExit()
        if t.pending_exc is not None:
            e, t.pending_exc = t.pending_exc, None
            raise e

    def wake(self, t):
        if t.state == 'blocked':
            t.state = 'runnable'
            self.runq.append(t)

    def cancel(self, t, exc):
        """what a green-thread web server does to a handler it gives up on: the exception is raised at the blocking point"""
        if t.state == 'blocked':
            t.pending_exc = exc
            self.wake(t)
            return True
        return False

    def add_timer(self, dt, t):
        tm = [self.now + dt, next(self.seq), t, True]
        heapq.heappush(self.timers, tm)
        return tm

    def settle(self, limit=100000):
        while self.runq:
            self.steps += 1
            if self.steps > limit:
                raise RuntimeError('scheduler livelock')
            k = self.choose(len(self.runq)) if len(self.runq) > 1 else 0
            t = self.runq.pop(k)
            self.cur = t
            t.state = 'running'
            t.g.switch()
            self.cur = None
            if not t.g.dead and t.state == 'running':
                t.state = 'blocked'
        self.steps = 0

    def advance(self, dt):
        end = self.now + dt
        self.settle()
        while self.timers and self.timers[0][0] <= end:
            tm = heapq.heappop(self.timers)
            if not tm[3]:
                continue
            self.now = max(self.now, tm[0])
            tm[3] = False
            tm[2].timed_out = True
            self.wake(tm[2])
            self.settle()
        self.now = end

    def kill_all(self):
        # end every suspended task: SystemExit is what the code's own loops treat as "stop" (the monitor's bare
        # `except:` would swallow GreenletExit and loop for ever)
        self.dead = True
        for t in self.tasks:
            if t.g and not t.g.dead:
                try:
                    t.g.throw(SystemExit)
                except BaseException:   # noqa
                    pass
        self.tasks = []


def make_async_table(S, ws_class):
    class SimThread:
        def __init__(self, target=None, args=(), kwargs=None):
            self.t = None
            self.a = (target, args, kwargs or {})

        def start(self):
            self.t = S.spawn(self.a[0], *self.a[1], name='bg:' + getattr(self.a[0], '__name__', '?'), **self.a[2])

        def join(self):
            self.t.join()

    class SimQueue:
        def __init__(self, *a, **k):
            self.items = []
            self.unfinished = 0
            self.getters = []
            self.joiners = []

        def put(self, x):
            self.items.append(x)
            self.unfinished += 1
            if self.getters:
                S.wake(self.getters.pop(0))

        def get(self, block=True, timeout=None):
            if not self.items and not block:
                raise Empty()
            me = S.cur
            tm = None
            if not self.items and timeout is not None:
                tm = S.add_timer(timeout, me)
                me.timed_out = False
            while not self.items:
                if tm is not None and me.timed_out:
                    raise Empty()
                self.getters.append(me)
                S.block('queue.get')
                if me in self.getters:
                    self.getters.remove(me)
            if tm:
                tm[3] = False
            return self.items.pop(0)

        def task_done(self):
            self.unfinished -= 1
            if self.unfinished == 0:
                for j in self.joiners:
                    S.wake(j)
                self.joiners = []

        def join(self):
            while self.unfinished > 0:
                self.joiners.append(S.cur)
                S.block('queue.join')

        def qsize(self):
            return len(self.items)

    class SimEvent:
        def __init__(self):
            self.flag = False
            self.waiters = []

        def is_set(self):
            return self.flag

        def set(self):
            self.flag = True
            for w in self.waiters:
                S.wake(w)
            self.waiters = []

        def wait(self, timeout=None):
            if self.flag:
                return True
            me = S.cur
            me.timed_out = False
            tm = S.add_timer(timeout, me) if timeout is not None else None
            self.waiters.append(me)
            S.block('event.wait')
            if me in self.waiters:
                self.waiters.remove(me)
            if tm:
                tm[3] = False
            return self.flag

    def sleep(dt=0):
        me = S.cur
        S.add_timer(dt, me)
        S.block('sleep')

    return {'thread': SimThread, 'queue': SimQueue, 'queue_empty': Empty, 'event': SimEvent, 'sleep': sleep, 'websocket': ws_class}


# ==========================================================================================================
# common pieces
class RecInput:
    """wsgi.input that records how much the application asked for and got"""

    def __init__(self, body, log):
        self.b = io.BytesIO(body)
        self.log = log

    def read(self, n=-1):
        r = self.b.read(n)
        self.log.append((n, len(r)))
        return r


class Conn:
    """one WebSocket connection as seen from the test client"""

    def __init__(self, cid):
        self.cid = cid
        self.inbox = []            # frames from client not yet read by the server
        self.sent = []             # frames the server sent
        self.events = []           # 'accept', 'close' ... in order (gateway-level events)
        self.client_closed = False
        self.server_closed = False
        self.accepted = False
        self.waiter = None
        self.rid = None


HANDLER_OUTCOMES = {'none': None, 'true': True, 'false': False, 'zero': 0, 'empty': '', 'text': 'nope', 'dict': {'why': 'no', 'code': 7},
                    'list': [1, 'x']}


def _outcome_of(environ):
    qs = environ.get('QUERY_STRING', '')
    for part in qs.split('&'):
        if part.startswith('ho='):
            return part[3:]
    return 'none'


class DriverBase:
    """handlers shared by both drivers (deterministic functions of their arguments)"""

    def _init_common(self):
        self.events = []           # (sid, kind, payload) in order
        self.trace = []            # every observable, in the order it happened: ('resp', rid) ('ws', cid, what) ('ev', sid, kind, payload) ('api', aid)
        self.rec = {}              # rid -> record
        self.conns = {}
        self.calls = {}
        self._rid = itertools.count(1)
        self._cid = itertools.count(1)
        self._aid = itertools.count(1)
        self.raise_in_disconnect = False
        self.suspend_in_disconnect = 0    # seconds of virtual time the disconnect handler waits before it returns (oracle-only runs)

    def _on_connect(self, sid, environ):
        self.events.append((sid, 'connect', None))
        self.trace.append(('ev', sid, 'connect', None))
        o = _outcome_of(environ)
        if o == 'raise':
            raise RuntimeError('connect handler raises')
        if o == 'typeerror':
            raise TypeError('connect handler raises TypeError')
        if o.startswith('send'):
            self._handler_send(sid, 'from-connect')
            return None
        return HANDLER_OUTCOMES.get(o)

    def _on_message_common(self, sid, data):
        self.events.append((sid, 'message', data))
        self.trace.append(('ev', sid, 'message', data))
        if isinstance(data, str):
            if data.startswith('!raise'):
                raise RuntimeError('message handler raises')
            if data.startswith('!send:'):
                return ('send', 'echo:' + data[6:])
            if data.startswith('!disc'):
                return ('disc',)
        return None

    def _on_disconnect_common(self, sid, reason):
        self.events.append((sid, 'disconnect', reason))
        self.trace.append(('ev', sid, 'disconnect', reason))
        if self.raise_in_disconnect == 'typeerror':
            raise TypeError('disconnect handler raises TypeError')      # also exercises the legacy one-argument fallback
        if self.raise_in_disconnect:
            raise RuntimeError('disconnect handler raises')

    # ---- views used by every suite
    def table(self):
        return list(self.srv.sockets.keys())

    def live(self):
        return [k for k, s in self.srv.sockets.items() if not s.closed]

    def sock(self, sid):
        return self.srv.sockets.get(sid)

    def response(self, rid):
        r = self.rec[rid]
        return r if r.get('done') else None

    def status(self, rid):
        r = self.response(rid)
        if r is None:
            return None
        if r.get('raised'):
            return 'raised:' + r['raised']
        return r.get('status')


# ==========================================================================================================
class ThreadedDriver(DriverBase):
    kind = 'threaded'

    def __init__(self, handlers=('connect', 'message', 'disconnect'), static_files=None, wsgi_app=None, engineio_path='engine.io',
                 websocket=True, **cfg):
        import engineio, engineio.socket
        self._init_common()
        self.S = Sched()
        cfg.setdefault('async_mode', 'threading')
        self.srv = engineio.Server(**cfg)
        self.srv.logger.setLevel(100)         # the harness observes behaviour, not log text
        drv = self
        S = self.S

        class FakeWS:
            def __init__(self, handler, server):
                self.handler = handler
                self.conn = None

            def __call__(self, environ, start_response):
                self.conn = environ['verif.conn']
                self.conn.accepted = True
                self.conn.events.append('accept')
                drv.trace.append(('ws', self.conn.cid, 'accept'))
                ret = self.handler(self)
                return ret

            def wait(self):
                c = self.conn
                if c.server_closed:
                    return None                     # simple_websocket: receive() on a closed connection raises -> None
                while not c.inbox:
                    if c.client_closed or c.server_closed:
                        return None                 # simple_websocket: receive() raises ConnectionClosed -> None
                    c.waiter = S.cur
                    S.block('ws.wait')
                    c.waiter = None
                return c.inbox.pop(0)

            def send(self, msg):
                c = self.conn
                if c.client_closed or c.server_closed:
                    raise OSError('websocket is closed')
                c.sent.append(msg)
                drv.trace.append(('ws', c.cid, ('send', msg)))

            def close(self):
                c = self.conn
                if not c.server_closed:
                    c.server_closed = True
                    c.events.append('close')
                    drv.trace.append(('ws', c.cid, 'close'))
                    if c.waiter is not None:
                        S.wake(c.waiter)

        self.srv._async = make_async_table(S, FakeWS if websocket else None)
        engineio.socket.time = types.SimpleNamespace(time=lambda: S.now)
        if 'connect' in handlers:
            self.srv.on('connect', self._on_connect)
        if 'message' in handlers:
            self.srv.on('message', self._on_message)
        if 'disconnect' in handlers:
            self.srv.on('disconnect', self._on_disconnect)
        self.app = engineio.WSGIApp(self.srv, wsgi_app=wsgi_app, static_files=static_files, engineio_path=engineio_path)

    # handlers
    def _handler_send(self, sid, data):
        self.srv.send(sid, data)

    def _on_message(self, sid, data):
        act = self._on_message_common(sid, data)
        if act and act[0] == 'send':
            self.srv.send(sid, act[1])
        elif act and act[0] == 'disc':
            self.srv.disconnect(sid)

    def _on_disconnect(self, sid, reason):
        self._on_disconnect_common(sid, reason)
        if self.suspend_in_disconnect:
            self.srv.sleep(self.suspend_in_disconnect)

    @property
    def now(self):
        return self.S.now

    # ---- requests
    def _environ(self, req, rec, conn=None):
        body = req.get('body', b'')
        env = {'REQUEST_METHOD': req.get('method', 'GET'), 'QUERY_STRING': req.get('query', ''), 'PATH_INFO': req.get('path', '/engine.io/'),
               'wsgi.input': RecInput(body, rec['reads']), 'wsgi.url_scheme': req.get('scheme', 'http'), 'SERVER_NAME': 'test', 'SERVER_PORT': '80'}
        cl = req.get('content_length', len(body))
        if cl is not None:
            env['CONTENT_LENGTH'] = str(cl)
        for k, v in (req.get('headers') or {}).items():
            env['HTTP_' + k.upper().replace('-', '_')] = v
        if conn is not None:
            env['verif.conn'] = conn
        return env

    def request(self, req, settle=True):
        rid = next(self._rid)
        rec = self.rec[rid] = dict(rid=rid, req=req, reads=[], start=[], done=False, t_start=self.S.now)
        conn = None
        if req.get('ws'):
            conn = Conn(next(self._cid))
            conn.rid = rid
            self.conns[conn.cid] = conn
            rec['conn'] = conn.cid
        env = self._environ(req, rec, conn)

        def start_response(status, headers, exc_info=None):
            rec['start'].append((status, headers))
            return lambda b: None

        def run():
            try:
                ret = self.app(env, start_response)
                rec['ret_type'] = type(ret).__name__
                try:
                    chunks = list(ret)
                except TypeError:
                    chunks = ret
                rec['chunks'] = chunks
            except BaseException as e:   # noqa
                if self.S.dead:
                    return
                rec['raised'] = type(e).__name__
                rec['raised_msg'] = str(e)[:200]
            rec['done'] = True
            rec['t_done'] = self.S.now
            self._finish(rec)
            self.trace.append(('resp', rid))
        self.S.spawn(run, name='req%d' % rid)
        if settle:
            self.S.settle()
        return conn.cid if conn is not None and req.get('ret_conn') else rid

    def _finish(self, rec):
        """WSGI well-formedness verdict + parsed response"""
        problems = []
        if rec.get('raised'):
            rec['wsgi_problems'] = ['exception escaped: ' + rec['raised']]
            return
        if rec['req'].get('ws') and rec.get('conn') and self.conns[rec['conn']].accepted:
            rec['status'] = 'ws'
            rec['wsgi_problems'] = []
            return
        if len(rec['start']) != 1:
            problems.append('start_response called %d times' % len(rec['start']))
        else:
            st, hs = rec['start'][0]
            if not (isinstance(st, str) and len(st) >= 4 and st[:3].isdigit() and st[3] == ' '):
                problems.append('bad status line %r' % (st,))
            else:
                rec['status'] = int(st[:3])
            if not isinstance(hs, list) or not all(isinstance(h, tuple) and len(h) == 2 and isinstance(h[0], str) and isinstance(h[1], str) for h in hs):
                problems.append('headers are not a list of (str, str)')
            rec['headers'] = list(hs) if isinstance(hs, list) else []
        ch = rec.get('chunks')
        if not isinstance(ch, list) or not all(isinstance(c, bytes) for c in ch):
            problems.append('body is not an iterable of bytes (%s)' % rec.get('ret_type'))
            rec['body'] = b''
        else:
            rec['body'] = b''.join(ch)
        rec['wsgi_problems'] = problems

    def ws_open(self, req, settle=True):
        req = dict(req, ws=True)
        req.setdefault('headers', {})
        rid = self.request(req, settle=settle)
        return rid, self.rec[rid]['conn']

    def ws_send(self, cid, frame, settle=True):
        c = self.conns[cid]
        c.inbox.append(frame)
        if c.waiter is not None:
            self.S.wake(c.waiter)
        if settle:
            self.S.settle()

    def ws_close(self, cid, settle=True):
        c = self.conns[cid]
        c.client_closed = True
        if c.waiter is not None:
            self.S.wake(c.waiter)
        if settle:
            self.S.settle()

    def cancel_ws(self, cid, settle=True):
        """the task serving WebSocket `cid` is killed while it waits for a frame (GreenletExit at the blocking point)"""
        c = self.conns[cid]
        ok = c.waiter is not None and self.S.cancel(c.waiter, greenlet.GreenletExit())
        if settle:
            self.S.settle()
        return ok

    def cancel_request(self, rid, settle=True):
        return False            # a thread blocked in a long poll cannot be cancelled

    # ---- application API
    def api(self, name, *args, settle=True):
        aid = next(self._aid)
        rec = self.calls[aid] = dict(done=False, name=name, args=args)

        def run():
            try:
                rec['ret'] = getattr(self.srv, name)(*args)
            except BaseException as e:   # noqa
                if self.S.dead:
                    return
                rec['raised'] = type(e).__name__
            rec['done'] = True
            self.trace.append(('api', aid))
        self.S.spawn(run, name='api%d' % aid)
        if settle:
            self.S.settle()
        return aid

    def settle(self):
        self.S.settle()

    def advance(self, dt):
        self.S.advance(dt)

    def blocked(self):
        return [(t.name, t.waiting_on) for t in self.S.tasks if t.state == 'blocked']

    def close(self):
        self.S.kill_all()


# ==========================================================================================================
class VSel(selectors.BaseSelector):
    def __init__(self, ref):
        self.ref = ref
        self._m = {}

    def register(self, fileobj, events, data=None):
        k = selectors.SelectorKey(fileobj, fileobj if isinstance(fileobj, int) else fileobj.fileno(), events, data)
        self._m[fileobj] = k
        return k

    def unregister(self, fileobj):
        return self._m.pop(fileobj)

    def select(self, timeout=None):
        lp = self.ref[0]
        if timeout == 0:
            return []
        nxt = lp._scheduled[0]._when if lp._scheduled else None
        if nxt is not None and nxt <= lp.limit:
            lp.vnow = max(lp.vnow, nxt)
        else:
            lp.vnow = lp.limit
            lp.stop()
        return []

    def get_map(self):
        return self._m


class OrderedTimer(asyncio.TimerHandle):
    """timers due at the same instant fire in the order in which they were created (the heap order of equal TimerHandles is
    otherwise an accident of the heap's shape)"""
    __slots__ = ['_seq']

    def __lt__(self, other):
        if isinstance(other, OrderedTimer):
            return (self._when, self._seq) < (other._when, other._seq)
        return self._when < other._when


class VLoop(asyncio.SelectorEventLoop):
    def __init__(self):
        ref = [None]
        self.vnow = T0
        self.limit = T0
        self._tseq = itertools.count()
        super().__init__(VSel(ref))
        ref[0] = self

    def call_at(self, when, callback, *args, context=None):
        self._check_closed()
        timer = OrderedTimer(when, callback, args, self, context)
        timer._seq = next(self._tseq)
        heapq.heappush(self._scheduled, timer)
        timer._scheduled = True
        return timer

    def time(self):
        return self.vnow

    def settle(self):
        self.limit = self.vnow
        self.run_forever()

    def advance(self, dt):
        self.limit = self.vnow + dt
        self.run_forever()


class AsyncDriver(DriverBase):
    kind = 'asyncio'

    def __init__(self, handlers=('connect', 'message', 'disconnect'), static_files=None, other_asgi_app=None, engineio_path='engine.io',
                 coroutine_handlers=False, on_startup=None, on_shutdown=None, **cfg):
        import engineio, engineio.async_socket
        self._init_common()
        self.lp = VLoop()
        self._keep = []
        asyncio.set_event_loop(self.lp)
        cfg.setdefault('async_mode', 'asgi')
        self.srv = engineio.AsyncServer(**cfg)
        self.srv.logger.setLevel(100)
        lp = self.lp
        engineio.async_socket.time = types.SimpleNamespace(time=lambda: lp.vnow)
        drv = self
        if coroutine_handlers:
            async def on_connect(sid, environ):
                self.events.append((sid, 'connect', None))
                self.trace.append(('ev', sid, 'connect', None))
                o = _outcome_of(environ)
                if o == 'raise':
                    raise RuntimeError('connect handler raises')
                if o == 'typeerror':
                    raise TypeError('connect handler raises TypeError')
                if o.startswith('send'):
                    await self.srv.send(sid, 'from-connect')
                    return None
                return HANDLER_OUTCOMES.get(o)

            async def on_message(sid, data):
                act = self._on_message_common(sid, data)
                if act and act[0] == 'send':
                    await self.srv.send(sid, act[1])
                elif act and act[0] == 'disc':
                    await self.srv.disconnect(sid)

            async def on_disconnect(sid, reason):
                self._on_disconnect_common(sid, reason)
                if self.suspend_in_disconnect:
                    await asyncio.sleep(self.suspend_in_disconnect)
        else:
            def on_connect(sid, environ):
                return self._on_connect(sid, environ)

            def on_message(sid, data):
                act = self._on_message_common(sid, data)
                if act and act[0] == 'send':
                    lp.create_task(self.srv.send(sid, act[1]))
                elif act and act[0] == 'disc':
                    lp.create_task(self.srv.disconnect(sid))

            def on_disconnect(sid, reason):
                self._on_disconnect_common(sid, reason)
        if 'connect' in handlers:
            self.srv.on('connect', on_connect)
        if 'message' in handlers:
            self.srv.on('message', on_message)
        if 'disconnect' in handlers:
            self.srv.on('disconnect', on_disconnect)
        self.app = engineio.ASGIApp(self.srv, other_asgi_app=other_asgi_app, static_files=static_files, engineio_path=engineio_path,
                                    on_startup=on_startup, on_shutdown=on_shutdown)

    def _handler_send(self, sid, data):
        self._keep.append(self.lp.create_task(self.srv.send(sid, data)))

    @property
    def now(self):
        return self.lp.vnow

    def _scope(self, req, typ):
        body = req.get('body', b'')
        hs = []
        for k, v in (req.get('headers') or {}).items():
            hs.append((k.lower().encode('latin-1'), v.encode('utf-8', 'surrogateescape') if isinstance(v, str) else v))
        cl = req.get('content_length', len(body))
        if cl is not None and typ == 'http':
            hs.append((b'content-length', str(cl).encode()))
        sc = {'type': typ, 'path': req.get('path', '/engine.io/'), 'query_string': req.get('query', '').encode('utf-8', 'surrogateescape'),
              'headers': hs, 'scheme': req.get('scheme', 'http')}
        if typ == 'http':
            sc['method'] = req.get('method', 'GET')
        return sc

    def request(self, req, settle=True):
        rid = next(self._rid)
        rec = self.rec[rid] = dict(rid=rid, req=req, reads=[], sent=[], done=False, t_start=self.lp.vnow)
        ws = bool(req.get('ws'))
        conn = None
        if ws:
            conn = Conn(next(self._cid))
            conn.rid = rid
            conn.q = asyncio.Queue()
            conn.q.put_nowait({'type': 'websocket.connect'})
            self.conns[conn.cid] = conn
            rec['conn'] = conn.cid
        scope = self._scope(req, 'websocket' if ws else 'http')
        body = req.get('body', b'')
        evs = [{'type': 'http.request', 'body': body, 'more_body': False}]

        async def receive():
            if not ws:
                if evs:
                    return evs.pop(0)
                await asyncio.Future()       # client never disconnects by itself
            ev = await conn.q.get()
            return ev

        async def send(ev):
            rec['sent'].append(ev)
            if ws:
                t = ev.get('type')
                if t == 'websocket.accept':
                    if conn.client_closed:
                        raise OSError('client gone')
                    conn.accepted = True
                    conn.events.append('accept')
                    self.trace.append(('ws', conn.cid, 'accept'))
                elif t == 'websocket.send':
                    if conn.client_closed or conn.server_closed:
                        raise OSError('websocket is closed')
                    conn.sent.append(ev.get('bytes') if ev.get('bytes') is not None else ev.get('text'))
                    conn.events.append('send')
                    self.trace.append(('ws', conn.cid, ('send', conn.sent[-1])))
                elif t == 'websocket.close':
                    if conn.server_closed:
                        raise OSError('already closed')
                    conn.server_closed = True
                    conn.events.append('close')
                    if conn.accepted:                 # a close before accept is the ASGI spelling of an HTTP refusal
                        self.trace.append(('ws', conn.cid, 'close'))
                    conn.q.put_nowait({'type': 'websocket.disconnect', 'code': 1000})   # what an ASGI server reports next
                else:
                    conn.events.append('illegal:' + str(t))

        async def run():
            try:
                await self.app(scope, receive, send)
            except asyncio.CancelledError:
                if not rec.get('cancel_requested'):
                    raise
                rec['raised'] = 'CancelledError'         # the harness cancelled this request's task: the exception left the application
            except BaseException as e:   # noqa
                rec['raised'] = type(e).__name__
                rec['raised_msg'] = str(e)[:200]
            rec['done'] = True
            rec['t_done'] = self.lp.vnow
            self._finish(rec, ws)
            self.trace.append(('resp', rid))
        rec['task'] = self.lp.create_task(run())
        self._keep.append(rec['task'])       # the loop holds tasks weakly: a pending one must not be collected
        if settle:
            self.lp.settle()
        return rid

    def _finish(self, rec, ws):
        problems = []
        if rec.get('raised'):
            rec['asgi_problems'] = ['exception escaped: ' + rec['raised']]
            return
        sent = rec['sent']
        types_ = [e.get('type') for e in sent]
        if ws:
            # legal: accept (send)* close?   |  close (rejection before accept)
            if any(not str(t).startswith('websocket.') for t in types_):
                problems.append('non-websocket event on a websocket scope: %s' % types_)
            if types_ and types_[0] == 'websocket.accept':
                rec['status'] = 'ws'
                rest = types_[1:]
                if 'websocket.accept' in rest:
                    problems.append('accepted twice')
                if 'websocket.close' in rest and rest.index('websocket.close') != len(rest) - 1:
                    problems.append('event after websocket.close')
            elif types_ == ['websocket.close']:
                rec['status'] = 'ws-rejected'
                rec['body'] = (sent[0].get('reason') or '').encode('utf-8') if isinstance(sent[0].get('reason'), str) else b''
            elif not types_:
                rec['status'] = 'ws-silent'
                problems.append('websocket scope ended without any event')
            else:
                problems.append('illegal websocket event order %s' % types_)
        else:
            if types_[:1] != ['http.response.start'] or types_.count('http.response.start') != 1:
                problems.append('not exactly one http.response.start first: %s' % types_)
            elif 'http.response.body' not in types_:
                problems.append('no response body event')
            else:
                st = sent[0]
                if not isinstance(st.get('status'), int):
                    problems.append('status is not an int')
                else:
                    rec['status'] = st['status']
                hs = st.get('headers', [])
                if not all(isinstance(h, (tuple, list)) and len(h) == 2 and isinstance(h[0], bytes) and isinstance(h[1], bytes) for h in hs):
                    problems.append('headers are not pairs of bytes')
                    rec['headers'] = []
                else:
                    rec['headers'] = [(h[0].decode('latin-1'), h[1].decode('utf-8', 'replace')) for h in hs]
                bodies = [e.get('body', b'') for e in sent if e.get('type') == 'http.response.body']
                if not all(isinstance(b, bytes) for b in bodies):
                    problems.append('body is not bytes')
                    rec['body'] = b''
                else:
                    rec['body'] = b''.join(bodies)
                if any(t not in ('http.response.start', 'http.response.body') for t in types_):
                    problems.append('foreign event on http scope %s' % types_)
        rec['asgi_problems'] = problems

    def ws_open(self, req, settle=True):
        req = dict(req, ws=True)
        rid = self.request(req, settle=settle)
        return rid, self.rec[rid]['conn']

    def ws_send(self, cid, frame, settle=True):
        c = self.conns[cid]
        ev = {'type': 'websocket.receive'}
        if isinstance(frame, (bytes, bytearray)):
            ev['bytes'] = bytes(frame)
        else:
            ev['text'] = frame
        c.q.put_nowait(ev)
        if settle:
            self.lp.settle()

    def ws_close(self, cid, settle=True):
        c = self.conns[cid]
        c.client_closed = True
        c.q.put_nowait({'type': 'websocket.disconnect', 'code': 1005})
        if settle:
            self.lp.settle()

    def cancel_request(self, rid, settle=True):
        """the web server cancels the task that serves request `rid` (connection lost, worker shutdown)"""
        rec = self.rec.get(rid)
        if rec is None or rec.get('done') or rec['task'].done():
            return False
        rec['cancel_requested'] = True
        rec['task'].cancel()
        if settle:
            self.lp.settle()
        return True

    def cancel_ws(self, cid, settle=True):
        return self.cancel_request(self.conns[cid].rid, settle)

    def api(self, name, *args, settle=True):
        aid = next(self._aid)
        rec = self.calls[aid] = dict(done=False, name=name, args=args)

        async def run():
            try:
                r = getattr(self.srv, name)(*args)
                if asyncio.iscoroutine(r):
                    r = await r
                rec['ret'] = r
            except asyncio.CancelledError:
                raise
            except BaseException as e:   # noqa
                rec['raised'] = type(e).__name__
            rec['done'] = True
            self.trace.append(('api', aid))
        self._keep.append(self.lp.create_task(run()))
        if settle:
            self.lp.settle()
        return aid

    def settle(self):
        self.lp.settle()

    def advance(self, dt):
        self.lp.advance(dt)

    def blocked(self):
        return [(t.get_name(), 'pending') for t in asyncio.all_tasks(self.lp) if not t.done()]

    def close(self):
        try:
            for t in asyncio.all_tasks(self.lp):
                t.cancel()
            self.lp.settle()
        except BaseException:   # noqa
            pass
        try:
            self.lp.close()
        except BaseException:   # noqa
            pass


DRIVERS = {'threaded': ThreadedDriver, 'asyncio': AsyncDriver}


def header(rec, name):
    return [v for k, v in rec.get('headers', []) if k.lower() == name.lower()]
