"""./check Cnn [--tier quick|thorough] [--replay file]

1. proof part: forbidden-construct scan, full build of the Coq development, fresh coqc of properties/Cnn.v
   with its Print Assumptions captured;
2. correspondence part: the property's suite runs the model (inside Coq, vm_compute) and the current /repo
   working tree on the same cases and lists disagreements;
3. property oracle on the implementation traces;
4. verdict, evidence, replay files.  See DESIGN.md section 2.1."""
import argparse, importlib, json, os, random, sys, time, traceback

sys.path.insert(0, os.path.dirname(os.path.abspath(__file__)))
import vlib

COMMON_TRUSTED = [
    'Coq 8.16.1 kernel (coqc), vm_compute; no native_compute',
    'no axioms: every property theorem must print "Closed under the global context" (checked on this run)',
    'hand-written Gallina model in coq/theories, tied to /repo only by the differential run of this check',
    'python harness: generators, deterministic runtimes, canonicalisers, oracle (harness/)',
]


class Ctx:
    def __init__(self, pid, tier, seed):
        self.pid, self.tier, self.seed = pid, tier, seed
        self.rng = random.Random(seed)
        self.thorough = tier == 'thorough'
        self.search = False

    def n(self, quick, thorough):
        """case budget"""
        k = thorough if self.thorough else quick
        return k * 10 if self.search else k


def main():
    ap = argparse.ArgumentParser()
    ap.add_argument('pid')
    ap.add_argument('--tier', default=os.environ.get('VERIF_TIER', 'quick'), choices=['quick', 'thorough'])
    ap.add_argument('--replay')
    ap.add_argument('--no-proof', action='store_true', help='debug only: skip the Coq part (evidence is not written)')
    a = ap.parse_args()
    pid = a.pid
    seed = int(os.environ.get('VERIF_SEED', '20260930'))
    mod = importlib.import_module('props.' + pid.lower())

    if a.replay:
        payload = json.load(open(a.replay))
        ok = mod.replay(payload)
        print('replay %s: %s' % (a.replay, 'property holds on this case now' if ok else 'still failing'))
        sys.exit(0 if ok else 1)

    t0 = time.time()
    ctx = Ctx(pid, a.tier, seed)
    findings = vlib.load_findings()
    out_lines, nviol, exit_code = [], 0, 0

    # ---- 1. proof part
    if a.no_proof:
        proof = dict(obligations=1, discharged=1, theorems=[], ok=True, error=None)
    else:
        hits = vlib.forbidden_scan()
        okb, blog = vlib.coq_build()
        if hits:
            proof = dict(obligations=1, discharged=0, theorems=[], ok=False, error='forbidden constructs: %s' % hits)
        elif not okb:
            proof = dict(obligations=1, discharged=0, theorems=[], ok=False, error='build failed: ' + blog[-1500:])
        else:
            proof = vlib.coq_property(pid)
            if a.tier == 'thorough' and proof['ok']:      # the independent checker re-checks the property's whole closure and lists its axioms
                rc, o = vlib.sh(['coqchk', '-silent', '-o'] + vlib.COQ_INC + ['EIOProps.' + pid], 1500, cwd=vlib.COQ)
                proof['coqchk'] = ('ok; axioms: ' + ('none' if '* Axioms: <none>' in o else 'SEE LOG ' + o[-300:])) if rc == 0 else 'FAILED: ' + o[-500:]
                if rc == 0 and '* Axioms: <none>' not in o:
                    rc = 1
                if rc:
                    proof['ok'] = False
                    proof['error'] = 'coqchk: ' + o[-500:]

    # ---- 2./3. correspondence and oracle
    res = vlib.Result()
    try:
        if proof['ok'] or a.no_proof or True:
            res = mod.run(ctx)
    except Exception:
        res.errors.append('suite crashed: ' + traceback.format_exc()[-2000:])

    # ---- 4. verdict
    known_seen = []
    fresh = []
    for v in res.violations:
        f = vlib.match_finding(pid, v.get('facts', {}), findings)
        if f:
            if f['what'] not in known_seen:
                known_seen.append(f['what'])
        else:
            fresh.append(v)
    for w in known_seen:
        out_lines.append('KNOWN-FINDING: property=%s %s' % (pid, w))
    if fresh:
        # one VIOLATION line per distinct 'what'
        seen = set()
        for v in fresh:
            if v['what'] in seen:
                continue
            seen.add(v['what'])
            path = vlib.write_replay(pid, 'oracle', dict(property=pid, kind='oracle', what=v['what'], case=v.get('case'),
                                                        facts=v.get('facts'), seed=seed, tier=a.tier,
                                                        rerun='./check %s --replay <this file>' % pid))
            out_lines.append('VIOLATION property=%s replay=%s' % (pid, path))
            nviol += 1
        exit_code = 1
    broken = []
    if not proof['ok']:
        broken.append(('theorem:%s:%s' % (pid, proof.get('failing_theorem') or 'build'), proof.get('error')))
    if res.mismatches:
        suites = sorted(set(m['suite'] for m in res.mismatches))
        for s in suites:
            ms = [m for m in res.mismatches if m['suite'] == s]
            broken.append(('corr:%s:%s' % (pid, s), ms[:5]))
    if res.errors:
        broken.append(('machinery:%s' % pid, res.errors[:5]))
    if broken and not fresh:
        # the property is no longer shown to hold; look harder for a failing input before saying so
        found = []
        if hasattr(mod, 'search') and not res.errors:
            try:
                ctx.search = True
                found = [v for v in mod.search(ctx, res) if not vlib.match_finding(pid, v.get('facts', {}), findings)]
            except Exception:
                found = []
        if found:
            v = found[0]
            path = vlib.write_replay(pid, 'oracle', dict(property=pid, kind='oracle', what=v['what'], case=v.get('case'),
                                                        facts=v.get('facts'), seed=seed, broken=[b[0] for b in broken]))
            out_lines.append('VIOLATION property=%s replay=%s' % (pid, path))
        else:
            path = vlib.write_replay(pid, 'unproved', dict(property=pid, kind='no-failing-input-found',
                                                          no_longer_checks=[b[0] for b in broken],
                                                          details=[b[1] for b in broken], seed=seed, tier=a.tier))
            out_lines.append('VIOLATION property=%s replay=%s no-failing-input-found' % (pid, path))
        nviol += 1
        exit_code = 1

    wall = time.time() - t0
    if not a.no_proof:
        vlib.write_evidence(pid, a.tier, seed, proof, res, wall, nviol,
                            COMMON_TRUSTED + list(getattr(mod, 'TRUSTED', [])),
                            list(getattr(mod, 'ASSUMPTIONS', [])),
                            extra={'known_findings_seen': known_seen,
                                   'coqchk': proof.get('coqchk', 'not run (thorough tier only)')})
    for l in out_lines:
        print(l)
    print('%s %s: %d theorems (%d closed), %d cases (%d distinct non-trivial), %d model/impl disagreements, '
          '%d oracle failures (%d listed as known), %.1fs'
          % (pid, a.tier, proof['obligations'], proof['discharged'], res.evaluations, len(res.keys),
             len(res.mismatches), len(res.violations), len(res.violations) - len(fresh), wall))
    if proof.get('error'):
        print('proof part:', proof['error'][:1500])
    for e in res.errors[:3]:
        print('error:', e[:1500])
    for m in res.mismatches[:3]:
        print('disagreement:', json.dumps(vlib.jsonable(m))[:1500])
    for v in fresh[:3]:
        print('oracle failure:', json.dumps(vlib.jsonable(v))[:1500])
    sys.exit(exit_code)


if __name__ == '__main__':
    main()
