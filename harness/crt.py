"""Deterministic runtimes for the *unmodified* clients of /repo (engineio.Client on the greenlet scheduler of rt.py,
engineio.AsyncClient on the virtual-time asyncio loop) talking to an in-memory, scripted network: the test is the server.

Observable trace entries (in order):  ('http', hid, method, kind, packets)   a request leaves the client
                                      ('wsconnect', cid, upgrade)             a WebSocket connection attempt
                                      ('wssend', cid, frame)  ('wsclose', cid) frames / close sent by the client
                                      ('ev', kind, data)                      application events
                                      ('ret', call, result)                   an application call returned / raised
Time unit of the client suites: 1 tick = 1/8 s (all handshake timings are multiples of 125 ms, so float arithmetic is exact)."""
import asyncio, itertools, json, types, urllib.parse
import greenlet
import rt

CTICK = 8.0


def parse_payload(body):
    if body is None:
        return []
    if isinstance(body, bytes):
        body = body.decode('utf-8', 'replace')
    return body.split('\x1e') if body else []


class Pending:
    def __init__(self, hid, method, url, body, owner):
        self.hid, self.method, self.url, self.body, self.owner = hid, method, url, body, owner
        self.reply = None
        self.done = False


class FakeResp:
    def __init__(self, status, content):
        self.status_code = self.status = status
        self.content = content

    def json(self):
        from engineio.json import loads
        return loads(self.content.decode('utf-8'))


class ReqError(Exception):
    pass


class WSTimeout(Exception):
    pass


class WSClosed(Exception):
    pass


class WSError(Exception):
    pass


class NetBase:
    """what both client drivers share: the trace, the pending requests / sockets, handlers"""

    def _init(self):
        self.trace = []
        self.pending = {}          # hid -> Pending
        self.wsconns = {}          # cid -> ws object
        self.pending_ws = {}       # cid -> (owner, info) connection attempts not yet answered
        self._hid = itertools.count()
        self._cid = itertools.count()
        self.msg_action = {}       # payload -> action

    def req_kind(self, method, url):
        q = urllib.parse.parse_qs(urllib.parse.urlparse(url).query)
        return 'open' if 'sid' not in q else ('post' if method == 'POST' else 'poll')

    def install_handlers(self, c, sync_calls):
        drv = self

        def on_connect():
            drv.trace.append(('ev', 'connect', None))
            if drv.connect_action == 'disconnect':
                return sync_calls['disconnect']()
            if drv.connect_action == 'raise':
                raise RuntimeError('connect handler raises')

        def on_message(data):
            drv.trace.append(('ev', 'message', data))
            if isinstance(data, str):
                if data.startswith('!raise'):
                    raise RuntimeError('message handler raises')
                if data.startswith('!send'):
                    return sync_calls['send']('echo:' + data[5:])
                if data.startswith('!disc'):
                    return sync_calls['disconnect']()

        def on_disconnect(reason):
            drv.trace.append(('ev', 'disconnect', reason))
            if getattr(drv, 'disconnect_action', None) == 'disconnect':
                sync_calls['disconnect']()
            if drv.disconnect_raises:
                raise RuntimeError('disconnect handler raises')
        return on_connect, on_message, on_disconnect


# ==========================================================================================================
class ThreadedClientDriver(NetBase):
    kind = 'threaded'

    def __init__(self, request_timeout=40, **kw):
        import engineio, engineio.client as ec
        self._init()
        self.S = rt.Sched(0.0)
        self.connect_action = None
        self.disconnect_raises = False
        S, drv = self.S, self
        tbl = rt.make_async_table(S, None)

        class SimClient(engineio.Client):
            def start_background_task(self, target, *args, **kwargs):
                th = tbl['thread'](target=target, args=args, kwargs=kwargs)
                th.start()
                return th

            def create_queue(self, *a, **k):
                q = tbl['queue']()
                q.Empty = rt.Empty
                return q

            def sleep(self, seconds=0):
                return tbl['sleep'](seconds)

        class Session:
            cookies, auth, cert, proxies, verify = [], None, None, None, True

            def request(self, method, url, headers=None, data=None, timeout=None):
                hid = next(drv._hid)
                p = Pending(hid, method, url, data, S.cur)
                drv.pending[hid] = p
                drv.trace.append(('http', hid, method, drv.req_kind(method, url), parse_payload(data)))
                drv.last_url = url
                me = S.cur
                me.timed_out = False
                tm = S.add_timer(timeout, me) if timeout is not None else None
                while not p.done:
                    if tm is not None and me.timed_out:
                        del drv.pending[hid]
                        raise ReqError('timeout')
                    S.block('http')
                if tm:
                    tm[3] = False
                del drv.pending[hid]
                if p.reply is None:
                    raise ReqError('connection refused')
                return p.reply

        class FakeWS:
            def __init__(self, cid, timeout=None):
                self.cid, self.inbox, self.connected, self.timeout = cid, [], True, timeout      # create_connection(timeout=) is the socket timeout
                self.srv_closed = False
                self.waiter = None

            def settimeout(self, t):
                self.timeout = t

            def send(self, data):
                if not self.connected or self.srv_closed:
                    raise WSClosed()
                drv.trace.append(('wssend', self.cid, data))

            def send_binary(self, data):
                if not self.connected or self.srv_closed:
                    raise WSClosed()
                drv.trace.append(('wssend', self.cid, bytes(data)))

            def recv(self):
                me = S.cur
                me.timed_out = False
                tm = S.add_timer(self.timeout, me) if self.timeout is not None else None
                while not self.inbox:
                    if not self.connected or self.srv_closed:
                        if tm:
                            tm[3] = False
                        raise WSClosed()
                    if tm is not None and me.timed_out:
                        raise WSTimeout()
                    self.waiter = me
                    S.block('ws.recv')
                    self.waiter = None
                if tm:
                    tm[3] = False
                return self.inbox.pop(0)

            def close(self):
                if self.connected:
                    self.connected = False
                    drv.trace.append(('wsclose', self.cid))
                    if self.waiter is not None:
                        S.wake(self.waiter)

        def create_connection(url, **opts):
            cid = next(drv._cid)
            q = urllib.parse.parse_qs(urllib.parse.urlparse(url).query)
            drv.trace.append(('wsconnect', cid, 'sid' in q))
            drv.last_ws_url = url
            me = S.cur
            me.timed_out = False
            tm = S.add_timer(opts.get('timeout'), me) if opts.get('timeout') is not None else None
            slot = dict(owner=me, result=None)
            drv.pending_ws[cid] = slot
            while slot['result'] is None:
                if tm is not None and me.timed_out:
                    del drv.pending_ws[cid]
                    raise WSError('timeout')
                S.block('ws.connect')
            if tm:
                tm[3] = False
            del drv.pending_ws[cid]
            if slot['result'] == 'refuse':
                raise WSError('refused')
            ws = FakeWS(cid, opts.get('timeout'))
            drv.wsconns[cid] = ws
            return ws

        ec.requests = types.SimpleNamespace(exceptions=types.SimpleNamespace(RequestException=ReqError), Session=Session)
        ec.websocket = types.SimpleNamespace(create_connection=create_connection, WebSocketException=WSError, WebSocketTimeoutException=WSTimeout,
                                             WebSocketConnectionClosedException=WSClosed)
        self.c = SimClient(http_session=Session(), request_timeout=request_timeout / CTICK, handle_sigint=False, **kw)
        self.c.logger.setLevel(100)
        h = self.install_handlers(self.c, dict(disconnect=lambda: self.c.disconnect(), send=lambda d: self.c.send(d)))
        self.c.on('connect', h[0])
        self.c.on('message', h[1])
        self.c.on('disconnect', h[2])
        self.calls = []

    @property
    def now(self):
        return self.S.now

    def call(self, name, *args, settle=True, tag=None, **kwargs):
        rec = dict(name=name, done=False, tag=tag)
        self.calls.append(rec)

        def run():
            try:
                getattr(self.c, name)(*args, **kwargs)
                rec['result'] = 'ok'
            except BaseException as e:   # noqa
                if self.S.dead:
                    return
                rec['result'] = type(e).__name__
            rec['done'] = True
            self.trace.append(('ret', name, rec['result'], tag))
        self.S.spawn(run, name='call:' + name)
        if settle:
            self.S.settle()
        return rec

    def reply(self, hid, status=None, body=b''):
        p = self.pending.get(hid)
        if p is None:
            return False
        p.reply = FakeResp(status, body) if status is not None else None
        p.done = True
        self.S.wake(p.owner)
        self.S.settle()
        return True

    def ws_answer(self, cid, accept):
        slot = self.pending_ws.get(cid)
        if slot is None:
            return False
        slot['result'] = 'accept' if accept else 'refuse'
        self.S.wake(slot['owner'])
        self.S.settle()
        return True

    def ws_frame(self, cid, data):
        ws = self.wsconns.get(cid)
        if ws is None:
            return False
        ws.inbox.append(data)
        if ws.waiter is not None:
            self.S.wake(ws.waiter)
        self.S.settle()
        return True

    def ws_srv_close(self, cid):
        ws = self.wsconns.get(cid)
        if ws is None:
            return False
        ws.srv_closed = True
        if ws.waiter is not None:
            self.S.wake(ws.waiter)
        self.S.settle()
        return True

    def ws_frame_close(self, cid, data):
        """the peer sends a frame and closes at once: the frame is still read, whatever the client sends next fails"""
        ws = self.wsconns.get(cid)
        if ws is None:
            return False
        ws.inbox.append(data)
        ws.srv_closed = True
        if ws.waiter is not None:
            self.S.wake(ws.waiter)
        self.S.settle()
        return True

    def advance(self, ticks):
        self.S.advance(ticks / CTICK)

    def view(self):
        c = self.c
        return (c.state, c.sid is not None, c.current_transport if c.state == 'connected' else None)

    def blocked(self):
        return [(t.name, t.waiting_on) for t in self.S.tasks if t.state == 'blocked']

    def close(self):
        self.S.kill_all()


# ==========================================================================================================
class AsyncClientDriver(NetBase):
    kind = 'asyncio'

    def __init__(self, request_timeout=40, own_session=False, **kw):
        import engineio, aiohttp
        self._init()
        self._real_cs = None
        self.lp = rt.VLoop()
        self.lp.set_exception_handler(lambda loop, context: None)     # handlers that raise are part of the histories
        self.lp.vnow = 0.0
        self.lp.limit = 0.0
        self._keep = []
        asyncio.set_event_loop(self.lp)
        self.connect_action = None
        self.disconnect_raises = False
        drv, lp = self, self.lp

        class Resp:
            def __init__(self, status, content):
                self.status, self.content = status, content

            async def read(self):
                return self.content

            async def json(self):
                from engineio.json import loads
                try:
                    return loads(self.content.decode('utf-8'))
                except ValueError:
                    raise aiohttp.ClientError('not json')

        class Msg:
            def __init__(self, data, typ):
                self.data, self.type = data, typ

        class WS:
            def __init__(self, cid):
                self.cid, self.q, self.closed_by_client, self.srv_closed = cid, asyncio.Queue(), False, False

            async def send_str(self, data):
                if self.closed_by_client or self.srv_closed:
                    raise aiohttp.client_exceptions.ServerDisconnectedError()
                drv.trace.append(('wssend', self.cid, data))

            async def send_bytes(self, data):
                if self.closed_by_client or self.srv_closed:
                    raise aiohttp.client_exceptions.ServerDisconnectedError()
                drv.trace.append(('wssend', self.cid, bytes(data)))

            async def receive(self):
                if (self.closed_by_client or self.srv_closed) and self.q.empty():
                    return Msg(None, aiohttp.WSMsgType.CLOSED)
                return await self.q.get()

            async def close(self):
                if not self.closed_by_client:
                    self.closed_by_client = True
                    drv.trace.append(('wsclose', self.cid))
                    self.q.put_nowait(Msg(None, aiohttp.WSMsgType.CLOSED))

        class Jar:
            def update_cookies(self, c):
                pass

        class Session:
            closed = False
            cookie_jar = Jar()

            async def _req(self, method, url, headers=None, data=None, timeout=None, **kw):
                if self.closed:
                    raise RuntimeError('Session is closed')
                hid = next(drv._hid)
                p = Pending(hid, method, url, data, None)
                p.fut = lp.create_future()
                drv.pending[hid] = p
                drv.trace.append(('http', hid, method, drv.req_kind(method, url), parse_payload(data)))
                drv.last_url = url
                try:
                    r = await asyncio.wait_for(p.fut, timeout.total if timeout is not None else None)
                finally:
                    drv.pending.pop(hid, None)
                if r is None:
                    raise aiohttp.ClientError('connection refused')
                return r

            async def get(self, url, **kw):
                return await self._req('GET', url, **kw)

            async def post(self, url, **kw):
                return await self._req('POST', url, **kw)

            async def ws_connect(self, url, **opts):
                if self.closed:
                    raise RuntimeError('Session is closed')
                cid = next(drv._cid)
                q = urllib.parse.parse_qs(urllib.parse.urlparse(url).query)
                drv.trace.append(('wsconnect', cid, 'sid' in q))
                drv.last_ws_url = url
                fut = lp.create_future()
                drv.pending_ws[cid] = dict(fut=fut)
                try:
                    res = await asyncio.wait_for(fut, opts.get('timeout'))
                except asyncio.TimeoutError:
                    raise aiohttp.client_exceptions.ServerConnectionError('timeout')
                finally:
                    drv.pending_ws.pop(cid, None)
                if res == 'refuse':
                    raise aiohttp.client_exceptions.ClientConnectionError('refused')
                ws = WS(cid)
                drv.wsconns[cid] = ws
                return ws

            async def close(self):
                self.closed = True

        self.Resp, self.Msg, self.aiohttp = Resp, Msg, aiohttp
        if own_session:
            # the client makes (and closes, and makes again) its own aiohttp session: the class it instantiates is ours
            import engineio.async_client as _ac
            self._real_cs = _ac.aiohttp.ClientSession
            _ac.aiohttp.ClientSession = Session
            self.c = engineio.AsyncClient(request_timeout=request_timeout / CTICK, handle_sigint=False, **kw)
        else:
            self.c = engineio.AsyncClient(http_session=Session(), request_timeout=request_timeout / CTICK, handle_sigint=False, **kw)
        self.c.logger.setLevel(100)

        async def a_disc():
            await self.c.disconnect()

        async def a_send(d):
            await self.c.send(d)
        drv2 = self

        async def on_connect():
            drv2.trace.append(('ev', 'connect', None))
            if drv2.connect_action == 'disconnect':
                await self.c.disconnect()
            if drv2.connect_action == 'raise':
                raise RuntimeError('connect handler raises')

        async def on_message(data):
            drv2.trace.append(('ev', 'message', data))
            if isinstance(data, str):
                if data.startswith('!raise'):
                    raise RuntimeError('message handler raises')
                if data.startswith('!send'):
                    await self.c.send('echo:' + data[5:])
                if data.startswith('!disc'):
                    await self.c.disconnect()

        async def on_disconnect(reason):
            drv2.trace.append(('ev', 'disconnect', reason))
            if getattr(drv2, 'disconnect_action', None) == 'disconnect':
                await self.c.disconnect()
            if drv2.disconnect_raises:
                raise RuntimeError('disconnect handler raises')
        self.c.on('connect', on_connect)
        self.c.on('message', on_message)
        self.c.on('disconnect', on_disconnect)
        self.calls = []

    @property
    def now(self):
        return self.lp.vnow

    def call(self, name, *args, settle=True, tag=None, **kwargs):
        rec = dict(name=name, done=False, tag=tag)
        self.calls.append(rec)

        async def run():
            try:
                await getattr(self.c, name)(*args, **kwargs)
                rec['result'] = 'ok'
            except asyncio.CancelledError:
                raise
            except BaseException as e:   # noqa
                rec['result'] = type(e).__name__
            rec['done'] = True
            self.trace.append(('ret', name, rec['result'], tag))
        self._keep.append(self.lp.create_task(run()))
        if settle:
            self.lp.settle()
        return rec

    def reply(self, hid, status=None, body=b''):
        p = self.pending.get(hid)
        if p is None or p.fut.done():
            return False
        p.fut.set_result(self.Resp(status, body) if status is not None else None)
        self.lp.settle()
        return True

    def ws_answer(self, cid, accept):
        slot = self.pending_ws.get(cid)
        if slot is None or slot['fut'].done():
            return False
        slot['fut'].set_result('accept' if accept else 'refuse')
        self.lp.settle()
        return True

    def ws_frame(self, cid, data):
        ws = self.wsconns.get(cid)
        if ws is None:
            return False
        ws.q.put_nowait(self.Msg(data, self.aiohttp.WSMsgType.TEXT if isinstance(data, str) else self.aiohttp.WSMsgType.BINARY))
        self.lp.settle()
        return True

    def ws_srv_close(self, cid):
        ws = self.wsconns.get(cid)
        if ws is None:
            return False
        ws.srv_closed = True
        ws.q.put_nowait(self.Msg(None, self.aiohttp.WSMsgType.CLOSED))
        self.lp.settle()
        return True

    def ws_frame_close(self, cid, data):
        ws = self.wsconns.get(cid)
        if ws is None:
            return False
        ws.q.put_nowait(self.Msg(data, self.aiohttp.WSMsgType.TEXT if isinstance(data, str) else self.aiohttp.WSMsgType.BINARY))
        ws.srv_closed = True
        ws.q.put_nowait(self.Msg(None, self.aiohttp.WSMsgType.CLOSED))
        self.lp.settle()
        return True

    def advance(self, ticks):
        self.lp.advance(ticks / CTICK)

    def view(self):
        c = self.c
        return (c.state, c.sid is not None, c.current_transport if c.state == 'connected' else None)

    def blocked(self):
        return [(t.get_name(), 'pending') for t in asyncio.all_tasks(self.lp) if not t.done()]

    def close(self):
        try:
            if self._real_cs is not None:
                import engineio.async_client as _ac
                _ac.aiohttp.ClientSession = self._real_cs
                self._real_cs = None
            if self.c.http is not None:
                self.c.http.closed = True      # keeps AsyncClient.__del__ quiet
        except Exception:
            pass
        try:
            for t in asyncio.all_tasks(self.lp):
                t.cancel()
            self.lp.settle()
        except BaseException:   # noqa
            pass
        try:
            self.lp.close()
        except BaseException:   # noqa
            pass


CDRIVERS = {'threaded': ThreadedClientDriver, 'asyncio': AsyncClientDriver}


def open_body(sid='SID0000000000000000A', upgrades=True, interval=32, timeout=16):
    """a valid OPEN packet; interval / timeout in client ticks (1/8 s)"""
    return '0' + json.dumps({'sid': sid, 'upgrades': ['websocket'] if upgrades else [], 'pingInterval': interval * 125, 'pingTimeout': timeout * 125, 'maxPayload': 1000000})
