"""Histories for the client model (theories/Client.v): application calls and scripted network answers, executed on the
deterministic client drivers of crt.py and translated into Coq terms.  Used by C08, C09 (and C10's client side)."""
import json, re
import crt, vlib
from vlib import qN, qZ, qbool, qlist, qopt, qpair

HEADER = ('From Coq Require Import ZArith NArith List Bool. Import ListNotations.\n'
          'From EIO Require Import Client ClientRun.\nOpen Scope N_scope.\n')
REQ_TIMEOUT = 40
ACT = {'none': ('p', 'HNone'), 'raise': ('!raise', 'HRaise'), 'send': ('!send', 'HSend'), 'disc': ('!disc', 'HDisc')}
REASONS = {'client disconnect': 'RClient', 'server disconnect': 'RServer', 'transport error': 'RTransportError'}
TRS = {'polling': 'TrPolling', 'websocket': 'TrWebsocket'}


def spk_wire(p):
    """server -> client packet as text"""
    if p[0] == 'open':
        _, ok, upg, I, T = p
        if ok:
            return crt.open_body(upgrades=upg, interval=I, timeout=T)
        return '0' + ['"notanobject"', '{"sid":"x"}', '[1,2]', '{"sid":"S","upgrades":[],"pingInterval":"soon","pingTimeout":1}'][(I + T) % 4]
    if p[0] == 'msg':
        return '4' + ACT[p[2]][0] + str(p[1])
    if p[0] == 'ping':
        return '2' + ['', 'probe', 'xyz', '{"a":1}'][p[1] % 4]
    return {'noop': '6', 'close': '1', 'pongprobe': '3probe', 'other': '7x', 'other2': '5', 'other3': '3'}[p[0]]


def spk_term(p):
    if p[0] == 'open':
        return '(KOpen %s %s %s %s)' % (qbool(p[1]), qbool(p[2]), qZ(p[3]), qZ(p[4]))
    if p[0] == 'msg':
        return '(KMsg %s %s)' % (qN(p[1]), ACT[p[2]][1])
    if p[0] == 'ping':
        return '(KPing %s)' % qN(p[1] % 4)
    return {'noop': 'KNoop', 'close': 'KClose', 'pongprobe': 'KPongProbe', 'other': 'KOther', 'other2': 'KOther', 'other3': 'KOther'}[p[0]]


PING_DATA = {'': 0, 'probe': 1, 'xyz': 2, '{"a":1}': 3}


def ck_of_wire(w):
    """client -> server packet (text from a POST body / frame, or bytes frame) -> model vocabulary"""
    if isinstance(w, (bytes, bytearray)):
        m = re.fullmatch(rb'B(\d+)', bytes(w))
        return ('msg', int(m.group(1)), True) if m else ('unknown', repr(w))
    if w.startswith('b'):
        import base64
        try:
            raw = base64.b64decode(w[1:])
        except Exception:
            return ('unknown', w)
        m = re.fullmatch(rb'B(\d+)', raw)
        return ('msg', int(m.group(1)), True) if m else ('unknown', w)
    if w == '1':
        return 'close'
    if w.startswith('3'):
        d = w[1:]
        return ('pong', PING_DATA.get(d, 9))
    m = re.fullmatch(r'4c(\d+)', w)
    if m:
        return ('msg', int(m.group(1)), False)
    m = re.fullmatch(r'4echo:(\d+)', w)
    if m:
        return ('msg', 1000000 + int(m.group(1)), False)
    if w == '2probe':
        return 'probe'
    if w == '5':
        return 'upgrade'
    return ('unknown', w)


def ck_term(c):
    if c == 'close':
        return 'CkClose'
    if c[0] == 'pong':
        return '(CkPong %s)' % qN(c[1])
    if c[0] == 'msg':
        return '(CkMsg %s %s)' % (qN(c[1]), qbool(c[2]))
    return '(CkMsg 77777777 false)'


class CRunner:
    def __init__(self, kind, connect_disconnects=False, disc_raises=False, disconnect_disconnects=False):
        self.kind = kind
        # (the asyncio client makes and closes its own HTTP session, as it does when the application does not supply one)
        self.d = crt.CDRIVERS[kind](request_timeout=REQ_TIMEOUT, **(dict(own_session=True) if kind == 'asyncio' else {}))
        self.d.connect_action = 'disconnect' if connect_disconnects else None
        self.d.disconnect_raises = disc_raises
        self.connect_disconnects = connect_disconnects
        self.disconnect_disconnects = disconnect_disconnects
        self.d.disconnect_action = 'disconnect' if disconnect_disconnects else None
        self.ops, self.outs, self.log, self.views, self.times = [], [], [], [], []
        self.tpos = 0
        self.ncall = 0
        self.urls = []

    def cfg_term(self):
        return '{| cc_request_timeout := %s; cc_connect_handler_disconnects := %s; cc_quirks := {| cq_handshake_recv_timeout := %s |} |}' % (  # both clients since fix D28
            qZ(REQ_TIMEOUT), qbool(self.connect_disconnects), qbool(True))    # a disconnect handler that disconnects changes nothing

    def pending(self, method):
        return sorted(h for h, p in self.d.pending.items() if p.method == method)

    def do(self, op):
        d, k = self.d, op[0]
        if k == 'call' and op[1] in ('connect', 'disconnect') and any(not r['done'] for r in d.calls if r['name'] in ('connect', 'disconnect')):
            return          # the application does not start a second connect()/disconnect() while one is still in progress
        if k == 'call':
            c = self.ncall
            self.ncall += 1
            name = op[1]
            if name == 'connect':
                d.call('connect', op[3] if len(op) > 3 else 'http://host.example:8080/?a=b', transports=list(op[2]), tag=c)
                x = '(AConnect %s)' % qlist([TRS[t] for t in op[2]])
            elif name == 'send':
                m, binary = op[2], op[3]
                d.call('send', ('B%d' % m).encode() if binary else 'c%d' % m, tag=c)
                x = '(ASend %s %s)' % (qN(m), qbool(binary))
            elif name == 'disconnect':
                d.call('disconnect', tag=c)
                x = 'ADisconnect'
            else:
                d.call('wait', tag=c)
                x = 'AWait'
            term = '(OpCall %s %s)' % (qN(c), x)
        elif k == 'reply':
            # answer the oldest pending request of the given method
            hs = self.pending(op[1])
            h = hs[0] if hs else 9999
            r = op[2]
            if r[0] == 'ok':
                d.reply(h, 200, '\x1e'.join(spk_wire(p) for p in r[1]).encode())
                t = '(HOk %s)' % qlist([spk_term(p) for p in r[1]])
            elif r[0] == 'status':
                d.reply(h, r[1], b'{"message":"no"}')
                t = 'HStatus'
            elif r[0] == 'garbage':
                d.reply(h, 200, [b'x\x1e4a', b'bQ', ('4a\x1e' * 17 + '4a').encode(), b'4caf\xe9'][r[1] % 4])       # ... a body that is not UTF-8
                t = 'HGarbage'
            else:
                d.reply(h, None)
                t = 'HFail'
            term = '(OpReply %s %s)' % (qN(h), t)
        elif k == 'wsanswer':
            cs = sorted(d.pending_ws)
            c = cs[0] if cs else 9999
            d.ws_answer(c, op[1])
            term = '(OpWsAnswer %s %s)' % (qN(c), qbool(op[1]))
        elif k == 'wsframe':
            c = max(d.wsconns) if d.wsconns else 9999
            f = op[1]
            if f[0] == 'pk':
                d.ws_frame(c, spk_wire(f[1]))
                t = '(FrPk %s)' % spk_term(f[1])
            else:
                d.ws_frame(c, 'x-garbage')
                t = 'FrGarbage'
            term = '(OpWsFrame %s %s)' % (qN(c), t)
        elif k == 'wsclose':
            c = max(d.wsconns) if d.wsconns else 9999
            d.ws_srv_close(c)
            term = '(OpWsClose %s)' % qN(c)
        elif k == 'wsframeclose':
            c = max(d.wsconns) if d.wsconns else 9999
            f = op[1]
            if f[0] == 'pk':
                d.ws_frame_close(c, spk_wire(f[1]))
                t = '(FrPk %s)' % spk_term(f[1])
            else:
                d.ws_frame_close(c, 'x-garbage')
                t = 'FrGarbage'
            term = '(OpWsFrameClose %s %s)' % (qN(c), t)
        elif k == 'adv':
            d.advance(op[1])
            term = '(OpAdvance %s)' % qZ(op[1])
        else:
            raise ValueError(op)
        self.ops.append(term)
        self.log.append(op)
        self.outs.append(self._collect())
        self.views.append(d.view())
        self.times.append(round(d.now * crt.CTICK))

    def _collect(self):
        new = self.d.trace[self.tpos:]
        self.tpos = len(self.d.trace)
        out = []
        for e in new:
            if e[0] == 'http':
                out.append(('http', e[1], e[3], [ck_of_wire(w) for w in e[4]]))
                self.urls.append(getattr(self.d, 'last_url', None))
            elif e[0] == 'wsconnect':
                out.append(('wsconnect', e[1], e[2]))
            elif e[0] == 'wssend':
                c = ck_of_wire(e[2])
                if isinstance(e[2], str) and e[2].startswith('b'):
                    c = ('unknown', e[2])       # base64 belongs in polling bodies; on WebSocket binary data travels in binary frames
                out.append(('wssend', e[1], c))
            elif e[0] == 'wsclose':
                out.append(('wsclose', e[1]))
            elif e[0] == 'ev':
                if e[1] == 'message':
                    m = re.search(r'(\d+)$', e[2]) if isinstance(e[2], str) else None
                    out.append(('ev', ('message', int(m.group(1)) if m else 88888888)))
                elif e[1] == 'disconnect':
                    out.append(('ev', ('disconnect', e[2])))
                else:
                    out.append(('ev', 'connect'))
            elif e[0] == 'ret':
                out.append(('ret', e[1], e[2], e[3]))
        return out

    def out_term(self, o, callno):
        if o[0] == 'http':
            return '(OHttp %s %s %s)' % (qN(o[1]), {'open': 'KindOpen', 'poll': 'KindPoll', 'post': 'KindPost'}[o[2]], qlist([ck_term(c) for c in o[3]]))
        if o[0] == 'wsconnect':
            return '(OWsConnect %s %s)' % (qN(o[1]), qbool(o[2]))
        if o[0] == 'wssend':
            w = o[2]
            t = 'WProbe' if w == 'probe' else 'WUpgrade' if w == 'upgrade' else '(WPk %s)' % ck_term(w)
            return '(OWsSend %s %s)' % (qN(o[1]), t)
        if o[0] == 'wsclose':
            return '(OWsClose %s)' % qN(o[1])
        if o[0] == 'ev':
            e = o[1]
            t = 'EvConnect' if e == 'connect' else '(EvMessage %s)' % qN(e[1]) if e[0] == 'message' else '(EvDisconnect %s)' % REASONS.get(e[1], 'RClient')
            return '(OEv %s)' % t
        if o[0] == 'ret':
            r = {'ok': 'ROk', 'ConnectionError': 'RConnectionError', 'ValueError': 'RValueError'}.get(o[2], 'ROtherError')
            return '(ORet %s %s)' % (qN(o[3] if o[3] is not None else 9999), r)
        raise ValueError(o)

    def case_term(self):
        # map returns to call numbers: calls of one name return in the order they were made (one outstanding per name in our histories)
        order = {}
        n = 0
        for op in self.log:
            if op[0] == 'call':
                order.setdefault(op[1], []).append(n)
                n += 1
        seen = {}

        def callno(name):
            i = seen.get(name, 0)
            seen[name] = i + 1
            l = order.get(name, [])
            return l[i] if i < len(l) else 9999
        outs = qlist([qlist([self.out_term(o, callno) for o in os]) for os in self.outs])
        views = qlist(['(%s, %s, %s)' % ({'disconnected': 'Disconnected', 'connected': 'Connected', 'disconnecting': 'Disconnecting'}[v[0]], qbool(v[1]),
                                          qopt(TRS.get(v[2]))) for v in self.views])
        return qpair(self.cfg_term(), qlist(self.ops), outs, views)

    def close(self):
        d, self.d = self.d, None       # the runner keeps only what it recorded: thousands of live loops make asyncio.all_tasks() quadratic
        if d is not None:
            d.close()
            if hasattr(d, '_keep'):
                d._keep.clear()


CTYPE = 'ccfg * list op * list (list out) * list (cstate * bool * option tr)'


def check(runners, shard=60):
    terms = [r.case_term() for r in runners]
    return vlib.model_mismatches(HEADER, terms, 'check_chist', shard=shard, ctype=CTYPE)


POLITE = ("From EIO Require Import ClientInv.\nDefinition check_polite (c : %s) : bool := let '(cfg, ops, _, _) := c in polite cfg ops init.\n" % CTYPE)


def impolite(runners, shard=60):
    """indices of histories that do not satisfy the hypothesis of ClientInv.lifecycle_alternates (no connect() while another waits for its handshake)"""
    terms = [r.case_term() for r in runners]
    return vlib.model_mismatches(HEADER + POLITE, terms, 'check_polite', shard=shard, ctype=CTYPE)


def explain(r):
    return vlib.model_show(HEADER, 'diff_chist %s' % r.case_term())


# ----------------------------------------------------------------------------------------------------------
def gen_history(rng, length=20):
    """mostly protocol-following client histories: the generator plays the application and the server"""
    ops = []
    nmsg = [0]
    I, T = rng.choice([(32, 16), (16, 16), (8, 24), (40, 8)])
    trs = rng.choice([['polling'], ['polling'], ['websocket'], ['polling', 'websocket'], ['polling', 'websocket'], ['websocket', 'polling']])
    st = dict(phase='idle', ws=False)

    def mid():
        nmsg[0] += 1
        return nmsg[0]

    def srv_pkts(n=None):
        out = []
        for _ in range(n or rng.choice([1, 1, 2, 3])):
            r = rng.random()
            if r < 0.45:
                out.append(('msg', mid(), rng.choice(['none', 'none', 'none', 'raise', 'send', 'disc'] if rng.random() < 0.3 else ['none', 'none', 'send'])))
            elif r < 0.7:
                out.append(('ping', rng.randrange(4)))
            elif r < 0.8:
                out.append(('noop',))
            elif r < 0.88:
                out.append((rng.choice(['other', 'other2', 'other3']),))
            elif r < 0.94:
                out.append(('close',))
            else:
                out.append(('pongprobe',))
        return out

    ops.append(('call', 'connect', trs))
    for _ in range(length):
        r = rng.random()
        if r < 0.22:
            # answer a GET (open or poll)
            k = rng.random()
            if k < 0.62:
                first = [('open', rng.random() < 0.93, rng.random() < 0.6, I, T)] if rng.random() < 0.5 else []
                ops.append(('reply', 'GET', ('ok', first + srv_pkts(rng.choice([0, 1, 2])) if first else srv_pkts())))
            elif k < 0.72:
                ops.append(('reply', 'GET', ('ok', [])))
            elif k < 0.82:
                ops.append(('reply', 'GET', ('status', rng.choice([400, 401, 404, 500, 301]))))
            elif k < 0.9:
                ops.append(('reply', 'GET', ('garbage', rng.randrange(4))))
            else:
                ops.append(('reply', 'GET', ('fail',)))
        elif r < 0.34:
            k = rng.random()
            ops.append(('reply', 'POST', ('ok', [])) if k < 0.8 else ('reply', 'POST', ('status', 400)) if k < 0.9 else ('reply', 'POST', ('fail',)))
        elif r < 0.42:
            ops.append(('wsanswer', rng.random() < 0.8))
        elif r < 0.62:
            k = rng.random()
            if k < 0.3:
                ops.append((('wsframe' if rng.random() < 0.85 else 'wsframeclose'), ('pk', ('pongprobe',))))
            elif k < 0.4:
                ops.append(('wsframe', ('pk', ('open', rng.random() < 0.9, False, I, T))))
            elif k < 0.93:
                ops.append((('wsframe' if rng.random() < 0.92 else 'wsframeclose'), ('pk', srv_pkts(1)[0])))
            else:
                ops.append(('wsframe', ('garbage',)))
        elif r < 0.66:
            ops.append(('wsclose',))
        elif r < 0.82:
            ops.append(('call', 'send', mid(), rng.random() < 0.25))
        elif r < 0.87:
            ops.append(('call', 'disconnect'))
        elif r < 0.9:
            ops.append(('call', 'connect', rng.choice([['polling'], ['websocket'], ['polling', 'websocket']])))
        elif r < 0.92:
            ops.append(('call', 'wait'))
        else:
            ops.append(('adv', rng.choice([1, 8, I - 1, I, T, I + T - 1, I + T, I + T + 1, max(I, T) + 39, max(I, T) + 40, max(I, T) + 41, REQ_TIMEOUT, REQ_TIMEOUT + 1, 200])))
    return ops


def run_history(kind, ops, **kw):
    r = CRunner(kind, **kw)
    try:
        for op in ops:
            r.do(op)
    finally:
        r.close()
    return r


def gen_adaptive(rng, r, length=30):
    """a history that follows the protocol most of the time: the next stimulus is chosen by looking at what the client is waiting for
    (executed on runner `r` while it is generated; the returned list is replayed on the other client)"""
    I, T = rng.choice([(32, 16), (16, 16), (8, 24), (40, 8)])
    nmsg = [0]

    def mid():
        nmsg[0] += 1
        return nmsg[0]

    def pkts(n):
        out = []
        for _ in range(n):
            x = rng.random()
            if x < 0.55:
                out.append(('msg', mid(), rng.choice(['none', 'none', 'none', 'send', 'raise', 'disc'] if rng.random() < 0.2 else ['none', 'none', 'send'])))
            elif x < 0.8:
                out.append(('ping', rng.randrange(4)))
            elif x < 0.88:
                out.append(('noop',))
            elif x < 0.94:
                out.append((rng.choice(['other', 'other2', 'other3']),))
            elif x < 0.97:
                out.append(('pongprobe',))
            else:
                out.append(('close',))
        return out

    def do(op):
        n = len(r.log)
        r.do(op)
        return len(r.log) > n

    do(('call', 'connect', rng.choice([['polling'], ['websocket'], ['polling', 'websocket'], ['polling', 'websocket'], ['websocket', 'polling']])))
    for _ in range(length):
        d = r.d
        opens = [h for h, p in d.pending.items() if d.req_kind(p.method, p.url) == 'open']
        polls = [h for h, p in d.pending.items() if d.req_kind(p.method, p.url) == 'poll']
        posts = [h for h, p in d.pending.items() if p.method == 'POST']
        state = r.views[-1][0] if r.views else 'disconnected'
        x = rng.random()
        if d.pending_ws and x < 0.7:
            do(('wsanswer', rng.random() < 0.85))
        elif opens and x < 0.75:
            k = rng.random()
            if k < 0.75:
                do(('reply', 'GET', ('ok', [('open', True, rng.random() < 0.6, I, T)] + pkts(rng.choice([0, 0, 1, 3])))))
            elif k < 0.87:
                do(('reply', 'GET', ('ok', [('open', False, False, 16, 16 + rng.randrange(4))] + pkts(rng.choice([0, 1])))))
            else:
                do(('reply', 'GET', rng.choice([('status', 401), ('garbage', rng.randrange(4)), ('fail',), ('ok', [])])))
        elif state == 'disconnected' and not opens and not d.pending_ws:
            if x < 0.6:
                do(('call', 'connect', rng.choice([['polling'], ['websocket'], ['polling', 'websocket']])))
            elif x < 0.75:
                do(('call', 'wait'))
            elif x < 0.85:
                do(('call', 'send', mid(), False))
            elif x < 0.92:
                do(('call', 'disconnect'))
            else:
                do(('adv', rng.choice([1, 8, 41])))
        else:
            # a connection is up (or being upgraded)
            wsup = bool(d.wsconns) and r.views[-1][2] == 'websocket'
            if x < 0.22:
                for _ in range(rng.choice([1, 1, 1, 2, 5, 17, 20, 35])):
                    do(('call', 'send', mid(), rng.random() < 0.25))
            elif x < 0.40 and posts:
                k = rng.random()
                do(('reply', 'POST', ('ok', []) if k < 0.9 else ('status', 400) if k < 0.95 else ('fail',)))
            elif x < 0.62 and (polls or wsup or d.wsconns):
                if wsup or (d.wsconns and rng.random() < 0.6):
                    k = rng.random()
                    if k < 0.25 and not wsup:
                        do((('wsframe' if rng.random() < 0.85 else 'wsframeclose'), ('pk', ('pongprobe',))))
                    elif k < 0.32 and not wsup:
                        do(('wsframe', ('pk', ('open', rng.random() < 0.9, False, I, T))))
                    elif k < 0.95:
                        do((('wsframe' if rng.random() < 0.92 else 'wsframeclose'), ('pk', pkts(1)[0])))
                    elif k < 0.98:
                        do(('wsframe', ('garbage',)))
                    else:
                        do(('wsclose',))
                else:
                    k = rng.random()
                    do(('reply', 'GET', ('ok', pkts(rng.choice([1, 1, 2, 3, 16]))) if k < 0.9 else ('status', 400) if k < 0.94 else ('garbage', rng.randrange(4)) if k < 0.97 else ('fail',)))
            elif x < 0.80:
                do(('adv', rng.choice([1, 1, 4, 8, I - 1, I, T, I + T - 1, I + T, I + T + 1, max(I, T) + 39, max(I, T) + 40, max(I, T) + 41, REQ_TIMEOUT, REQ_TIMEOUT + 1])))
            elif x < 0.86:
                do(('call', 'disconnect'))
            elif x < 0.9:
                do(('call', 'wait'))
            elif x < 0.93:
                do(('call', 'connect', ['polling']))
            elif d.pending_ws:
                do(('wsanswer', rng.random() < 0.5))
            else:
                do(('reply', 'POST' if posts else 'GET', ('ok', [])))
    return list(r.log)
