"""Generic history suite: generate histories, run them on both servers, compare with the Coq model, apply oracles."""
import random
import vlib, hist, oracles

ORACLES = {'c03': oracles.c03, 'c04': oracles.c04, 'c05': oracles.c05, 'c06': oracles.c06, 'c12': oracles.c12, 'c14': oracles.c14, 'c16': oracles.c16}


def overlapping_upgrades():
    """two upgrade attempts for one session that overlap: the second begins while the first is in the middle of its handshake; each ends
    in every way (wrong frame before / after the probe, close, cancel, success) and in both orders; afterwards the session must be usable"""
    out = []
    fails = {'wrong': lambda c: [('frame', c, ('pk', ('msg', 70 + c, 'none')))], 'close': lambda c: [('wsclose', c)], 'cancel': lambda c: [('cancel', c)],
             'ok': lambda c: [('frame', c, ('pk', 'upgrade'))]}
    for a in ('wrong', 'close', 'cancel'):
        for b in ('wrong', 'close', 'cancel', 'ok'):
            for probe_b in (True, False):
                for first in (0, 1):
                    end = fails[a](0) + fails[b](1) if first == 0 else fails[b](1) + fails[a](0)
                    out.append([('open', 'polling', 'accept'), ('poll', 0), ('upgrade', 0), ('frame', 0, ('ping', True)), ('upgrade', 0)] +
                               ([('frame', 1, ('ping', True))] if probe_b else []) + end +
                               [('send', 0, 1), ('poll', 0), ('send', 0, 2), ('poll', 0), ('frame', 1, ('pk', ('msg', 80, 'none'))), ('send', 0, 3), ('poll', 0)])
    return out



def finale(r, want):
    """closing stimuli, chosen from the implementation's own state: let every live polling client read once more, then let time pass"""
    drained = []
    I, T = r.cfg.interval, r.cfg.timeout
    if 'drain' in want:
        fl = r.flags()
        by_history = 'by-history' in want          # whether an upgrade is in progress is taken from the history, not from the server's own mark
        for s, f in fl.items():
            busy = oracles.handshake_in_progress(r, s, len(r.log) - 1) if by_history else f is not None and f[2]
            if f is not None and not f[0] and not busy and not f[3]:
                r.do(('poll', s))
                drained.append(s)
                for _ in range(6):          # a poll returns at most 16 packets: keep reading while something is queued
                    g = r.flags().get(s)
                    if g is None or g[0] or (g[2] and not by_history) or g[3] or not g[4]:
                        break
                    r.do(('poll', s))
    if 'settle' in want:
        r.do(('adv', I + T + 1))
    if 'sweep' in want:
        r.do(('adv', I + 5 * T + 1))
        r.do(('adv', 2 * T + 1))
    return drained


def evaluate(kind, cfg, ops, names, want, seed=0, runner_kw=None):
    rng = random.Random(seed)
    r = hist.Runner(kind, cfg, rng, **(runner_kw if runner_kw is not None else dict(disc_raises=[False, False, 'runtime', 'typeerror'][seed % 4])))
    res = vlib.Result()
    try:
        for op in ops:
            r.do(op)
        drained = finale(r, want)
        v = oracles.View(r)
        for n in names:
            if n in ORACLES:
                ORACLES[n](res, v)
        if 'drain' in want and 'c03' in names:
            oracles.c03_completeness(res, v, drained)
        if 'settle' in want and 'c15' in names:
            oracles.c15(res, v)
        if 'sweep' in want and 'c16' in names:
            oracles.c16_table(res, v)
    finally:
        r.close()
    return r, res.violations


def flush(res, runners):
    """compare what has been run so far with the model and forget it (bounds the memory of the thorough tier)"""
    bad, errs = hist.check_histories(runners)
    res.errors += errs
    for b in bad[:25]:
        r = runners[b]
        if len(res.mismatches) < 25:
            res.mismatches.append(dict(suite='history', case=dict(server=r.kind, cfg=r.cfg.key(), ops=r.log), impl=r.outs,
                                       model=hist.explain(r) if len(res.mismatches) < 2 else '(not shown)'))
    res.traces += len(runners)
    del runners[:]


def shrink(kind, cfg, ops, names, want, clause, budget=60):
    """greedy deletion of stimuli while some violation of the same clause persists"""
    cur = list(ops)
    i = len(cur) - 1
    while i >= 0 and budget > 0:
        cand = cur[:i] + cur[i + 1:]
        budget -= 1
        try:
            _, vs = evaluate(kind, cfg, cand, names, want)
        except Exception:
            vs = []
        if any(x['facts'].get('clause') == clause for x in vs):
            cur = cand
        i -= 1
    _, vs = evaluate(kind, cfg, cur, names, want)
    keep = [x for x in vs if x['facts'].get('clause') == clause]
    return cur, (keep[0] if keep else None)


def gen_cfg(rng, profile):
    c = hist.Cfg(interval=rng.choice(profile.get('intervals', [4096, 2048, 1680, 5000])), timeout=rng.choice(profile.get('timeouts', [1680, 840, 2520])),
                 async_handlers=rng.random() < profile.get('p_async', 0.35), monitor=rng.random() < profile.get('p_monitor', 0.7),
                 allow_upgrades=rng.random() < 0.85,
                 polling=rng.random() < profile.get('p_polling', 0.95), websocket=rng.random() < profile.get('p_websocket', 0.9))
    if not c.polling and not c.websocket:
        c.polling = True
    if profile.get('monitor') is not None:
        c.monitor = profile['monitor']
    return c


def run(ctx, pid, names, profile, rule):
    res = vlib.Result()
    res.rule = rule
    rng = ctx.rng
    n = ctx.n(profile.get('quick', 150), profile.get('thorough', 3000))
    want = profile.get('finale', ['drain', 'settle'])
    runners = []
    reported = set()
    fixed = list(profile.get('fixed', []))
    for h in range(n + len(fixed)):
        if h < len(fixed):
            cfg, ops = fixed[h] if isinstance(fixed[h], tuple) and len(fixed[h]) == 2 and isinstance(fixed[h][0], hist.Cfg) else (hist.Cfg(), fixed[h])
        else:
            cfg = gen_cfg(rng, profile)
            ops = hist.gen_history(rng, cfg, rng.choice(profile.get('lengths', [8, 15, 25])), profile.get('weights'), profile.get('max_sessions', 4))
        for kind in profile.get('kinds', ('threaded', 'asyncio')):
            try:
                r, vs = evaluate(kind, cfg, ops, names, want, seed=h)
            except Exception as e:
                res.errors.append('history crashed the harness on %s: %s %s' % (kind, type(e).__name__, str(e)[:300]))
                continue
            runners.append(r)
            nontrivial = any(op[0] in ('poll', 'post', 'frame', 'send', 'disc') for op in r.log) and len(r.sids) > 0
            res.count((kind, cfg.key(), tuple(map(repr, r.log))), nontrivial, '%s:len%d' % (kind, min(30, 5 * (len(r.log) // 5))))
            for op in r.log:
                res.dist['op:' + op[0]] += 1
            for x in vs:
                key = (x['what'], kind)
                if key in reported:
                    res.violations.append(x)
                    continue
                reported.add(key)
                small, vx = shrink(kind, cfg, ops, names, want, x['facts'].get('clause'))
                res.violations.append(vx or x)
        if len(runners) >= 6000:
            flush(res, runners)
    flush(res, runners)
    return res


def replay_case(c, names, want):
    cfg = hist.Cfg(*c['cfg'])
    ops = [op_from_json(op) for op in c['ops']]
    r, vs = evaluate(c['server'], cfg, ops, names, want)
    for x in vs:
        print(x['what'], x['facts'])
    print('outs:', r.outs)
    return not vs


def tuplify(x):
    return x


def op_from_json(op):
    cp = lambda x: tuple(x) if isinstance(x, list) else x
    if op[0] == 'post':
        b = op[2]
        if b[0] == 'lenzero':
            return ('post', op[1], ('lenzero', [cp(x) for x in b[1]], b[2]))
        return ('post', op[1], ('pk', [cp(x) for x in b[1]]) if b[0] == 'pk' else tuple(b))
    if op[0] == 'frame':
        f = op[2]
        return ('frame', op[1], ('pk', cp(f[1])) if f[0] == 'pk' else tuple(f))
    return tuple(op)
