"""Helpers shared by the request-level suites: session set-up on a driver, snapshots, packet parsing."""
import json
import rt

WS_HDRS = {'Upgrade': 'websocket', 'Connection': 'Upgrade'}


def split_payload(body):
    """polling response body -> list of packet strings"""
    if not body:
        return []
    return body.decode('utf-8', 'replace').split('\x1e')


def open_polling(d, extra='', headers=None):
    """-> (rid, sid or None)"""
    rid = d.request(dict(method='GET', query='EIO=4&transport=polling' + extra, headers=headers or {}))
    rec = d.response(rid)
    if rec is None or rec.get('status') != 200:
        return rid, None
    pk = split_payload(rec['body'])
    if not pk or not pk[0].startswith('0'):
        return rid, None
    return rid, json.loads(pk[0][1:])['sid']


def open_ws(d, extra='', headers=None):
    """open a WebSocket-only session -> (rid, conn id, sid or None)"""
    h = dict(WS_HDRS)
    h.update(headers or {})
    rid, cid = d.ws_open(dict(method='GET', query='EIO=4&transport=websocket' + extra, headers=h))
    c = d.conns[cid]
    sid = None
    if c.sent and isinstance(c.sent[0], str) and c.sent[0].startswith('0'):
        sid = json.loads(c.sent[0][1:])['sid']
    return rid, cid, sid


def upgrade(d, sid, headers=None, complete=True):
    h = dict(WS_HDRS)
    h.update(headers or {})
    rid, cid = d.ws_open(dict(method='GET', query='transport=websocket&sid=' + sid, headers=h))
    if complete and d.conns[cid].accepted:
        d.ws_send(cid, '2probe')
        d.ws_send(cid, '5')
    return rid, cid


def snapshot(d):
    """observable server state: table keys, per-session flags + queue content, event count"""
    out = {}
    for sid, s in d.srv.sockets.items():
        q = s.queue
        items = list(getattr(q, 'items', None) if hasattr(q, 'items') else getattr(q, '_queue', []))
        out[sid] = (s.closed, s.closing, s.connected, s.upgrading, s.upgraded,
                    tuple((p.packet_type, repr(p.data)) if p is not None else None for p in items), repr(s.session))
    return out, len(d.events)


def cors_of(rec):
    return [(k, v) for k, v in rec.get('headers', []) if k.lower().startswith('access-control-')]
