"""throw-away prototype of the deterministic greenlet runtime"""
import greenlet, heapq, itertools
class Empty(Exception): pass
class Sched:
    def __init__(self, t0=1000.0):
        self.now = t0; self.runq = []; self.timers = []; self.seq = itertools.count(); self.main = greenlet.getcurrent(); self.cur = None; self.log = []
    def spawn(self, fn, *a, name='', **kw):
        t = Task(self, fn, a, kw, name); self.runq.append(t); return t
    def block(self):              # called from a task: give control back to scheduler
        t = self.cur
        self.main.switch()
        assert self.cur is t
    def wake(self, t):
        if t.state == 'blocked': t.state = 'runnable'; self.runq.append(t)
    def add_timer(self, dt, t):
        tm = [self.now + dt, next(self.seq), t, True]; heapq.heappush(self.timers, tm); return tm
    def settle(self, choose=lambda n: 0):
        while self.runq:
            t = self.runq.pop(choose(len(self.runq)))
            self.cur = t; t.state = 'running'
            t.g.switch()
            self.cur = None
            if not t.g.dead and t.state == 'running': t.state = 'blocked'
    def advance(self, dt):
        end = self.now + dt
        self.settle()
        while self.timers and self.timers[0][0] <= end:
            tm = heapq.heappop(self.timers)
            if not tm[3]: continue
            self.now = tm[0]; tm[3] = False; tm[2].timed_out = True; self.wake(tm[2]); self.settle()
        self.now = end
class Task:
    def __init__(self, s, fn, a, kw, name):
        self.s = s; self.name = name; self.state = 'runnable'; self.timed_out = False; self.joiners = []; self.result = None; self.exc = None
        def run():
            try: self.result = fn(*a, **kw)
            except BaseException as e: self.exc = e
            self.state = 'done'
            for j in self.joiners: s.wake(j)
        self.g = greenlet.greenlet(run, parent=s.main)
    def join(self):
        if self.state != 'done':
            self.joiners.append(self.s.cur); self.s.block()
def make_driver(S):
    class SimThread:
        def __init__(self, target=None, args=(), kwargs=None): self.t=None; self.a=(target,args,kwargs or {})
        def start(self): self.t = S.spawn(self.a[0], *self.a[1], name='bg:'+getattr(self.a[0],'__name__','?'), **self.a[2])
        def join(self): self.t.join()
    class SimQueue:
        def __init__(self, *a, **k): self.items=[]; self.unfinished=0; self.getters=[]; self.joiners=[]
        def put(self, x):
            self.items.append(x); self.unfinished += 1
            if self.getters: S.wake(self.getters.pop(0))
        def get(self, block=True, timeout=None):
            if not self.items and not block: raise Empty()
            me = S.cur; tm = None
            if not self.items and timeout is not None: tm = S.add_timer(timeout, me); me.timed_out = False
            while not self.items:
                if tm is not None and me.timed_out: raise Empty()
                self.getters.append(me); S.block()
                if me in self.getters: self.getters.remove(me)
            if tm: tm[3] = False
            return self.items.pop(0)
        def task_done(self):
            self.unfinished -= 1
            if self.unfinished == 0:
                for j in self.joiners: S.wake(j)
                self.joiners = []
        def join(self):
            while self.unfinished > 0: self.joiners.append(S.cur); S.block()
    class SimEvent:
        def __init__(self): self.flag=False; self.waiters=[]
        def is_set(self): return self.flag
        def set(self):
            self.flag=True
            for w in self.waiters: S.wake(w)
            self.waiters=[]
        def wait(self, timeout=None):
            if self.flag: return True
            me = S.cur; me.timed_out=False
            tm = S.add_timer(timeout, me) if timeout is not None else None
            self.waiters.append(me); S.block()
            if me in self.waiters: self.waiters.remove(me)
            if tm: tm[3]=False
            return self.flag
    def sleep(dt):
        me = S.cur; S.add_timer(dt, me); S.block()
    return {'thread': SimThread, 'queue': SimQueue, 'queue_empty': Empty, 'event': SimEvent, 'sleep': sleep, 'websocket': None}
