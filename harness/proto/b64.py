import base64, binascii
def model(s):
    # CPython 3.12 a2b_base64 non-strict, as I understand it
    try: bs = s.encode('ascii')
    except UnicodeEncodeError: return 'ERR'
    A = b'ABCDEFGHIJKLMNOPQRSTUVWXYZabcdefghijklmnopqrstuvwxyz0123456789+/'
    quad = 0; left = 0; pads = 0; out = bytearray()
    for c in bs:
        if c == 0x3d:
            if quad >= 2:
                pads += 1
                if quad + pads >= 4: quad = 0; break   # done, rest ignored
            continue
        v = A.find(bytes([c]))
        if v < 0: continue
        pads = 0
        if quad == 0: quad = 1; left = v
        elif quad == 1: quad = 2; out.append((left << 2) | (v >> 4)); left = v & 0xf
        elif quad == 2: quad = 3; out.append((left << 4) | (v >> 2)); left = v & 3
        else: quad = 0; out.append((left << 6) | v); left = 0
    if quad != 0: return 'ERR'
    return bytes(out)
import itertools, random
alpha = 'AQg=+/ !-_\n9'
bad = 0; n = 0
for L in range(0, 6):
    for t in itertools.product(alpha, repeat=L):
        s = ''.join(t); n += 1
        try: r = base64.b64decode(s)
        except Exception: r = 'ERR'
        if r != model(s):
            bad += 1
            if bad < 10: print('MISMATCH', repr(s), r, model(s))
print(n, 'cases', bad, 'mismatches')
for s in ['é', 'QQ==QQ==', 'QQ=Q', 'Q=Q=', 'QQ=', 'Q===', '=QQ==', 'QUJD=', 'QUI=QQ==']:
    try: r = base64.b64decode(s)
    except Exception as e: r = ('ERR', type(e).__name__)
    print(repr(s), r, model(s))
