import asyncio, selectors, json, types, itertools
import engineio, engineio.async_socket
class VSel(selectors.BaseSelector):
    def __init__(self, ref): self.ref = ref; self._m = {}
    def register(self, fileobj, events, data=None):
        k = selectors.SelectorKey(fileobj, fileobj if isinstance(fileobj,int) else fileobj.fileno(), events, data); self._m[fileobj]=k; return k
    def unregister(self, fileobj): return self._m.pop(fileobj)
    def select(self, timeout=None):
        lp = self.ref[0]
        if timeout == 0: return []
        # nothing is ready: quiescent.  jump to the next timer if it is within the limit
        nxt = lp._scheduled[0]._when if lp._scheduled else None
        if nxt is not None and nxt <= lp.limit: lp.vnow = max(lp.vnow, nxt)
        else: lp.vnow = lp.limit; lp.stop()
        return []
    def get_map(self): return self._m
class VLoop(asyncio.SelectorEventLoop):
    def __init__(self):
        ref = [None]; self.vnow = 1000.0; self.limit = None; self.idle = False
        super().__init__(VSel(ref)); ref[0] = self
    def time(self): return self.vnow
    def settle(self):            # run until nothing is ready, without advancing time
        self.limit = self.vnow; self.run_forever()
    def advance(self, dt):
        self.limit = self.vnow + dt; self.run_forever()
lp = VLoop(); asyncio.set_event_loop(lp)
engineio.async_socket.time = types.SimpleNamespace(time=lambda: lp.vnow)
log = []; results = {}
srv = engineio.AsyncServer(async_mode='asgi', ping_interval=4, ping_timeout=2, async_handlers=False)
app = engineio.ASGIApp(srv)
srv.on('connect', lambda sid, env: log.append((lp.vnow, 'connect')))
srv.on('message', lambda sid, d: log.append((lp.vnow, 'message', d)))
srv.on('disconnect', lambda sid, r: log.append((lp.vnow, 'disconnect', r)))
class Conn:
    def __init__(self): self.q = asyncio.Queue(); self.sent = []
def request(rid, method, qs, body=b'', typ='http', headers=(), conn=None):
    sent = []
    scope = {'type': typ, 'method': method, 'path': '/engine.io/', 'query_string': qs.encode(), 'headers': list(headers) + [(b'content-length', str(len(body)).encode())]}
    evs = [{'type':'http.request','body':body,'more_body':False}] if typ == 'http' else None
    async def receive():
        if typ == 'http':
            if evs: return evs.pop(0)
            await asyncio.Future()
        return await conn.q.get()
    async def send(ev): (conn.sent if conn else sent).append(ev); sent is not None and typ=='http' and None
    async def run():
        try: await app(scope, receive, send)
        except Exception as e: results[rid] = (lp.vnow, 'EXC', repr(e)); return
        results[rid] = (lp.vnow, sent if typ == 'http' else 'ws-done')
    lp.create_task(run()); lp.settle()
def api(coro): lp.create_task(coro); lp.settle()
request('open', 'GET', 'EIO=4&transport=polling')
sid = json.loads(results['open'][1][1]['body'][1:])['sid']; print('open ->', results['open'][1][1]['body'])
request('p1', 'GET', 'transport=polling&sid='+sid); print('p1 pending:', 'p1' not in results)
api(srv.send(sid, 'hello')); print('p1 ->', results['p1'][0], results['p1'][1][1]['body'])
request('p2', 'GET', 'transport=polling&sid='+sid)
lp.advance(4); print('after 4s p2 ->', results['p2'][0], results['p2'][1][1]['body'])
request('post', 'POST', 'sid='+sid, b'3'); print('pong ->', results['post'][1][0]['status'])
c = Conn(); c.q.put_nowait({'type':'websocket.connect'})
request('up', 'GET', 'transport=websocket&sid='+sid, typ='websocket', headers=[(b'upgrade', b'websocket'), (b'connection', b'Upgrade')], conn=c)
request('p3', 'GET', 'transport=polling&sid='+sid); print('p3 during upgrade ->', results['p3'][1][1]['body'])
c.q.put_nowait({'type':'websocket.receive','text':'2probe'}); lp.settle()
api(srv.send(sid, 'mid-upgrade'))
c.q.put_nowait({'type':'websocket.receive','text':'5'}); lp.settle(); print('ws sent', [e.get('text', e['type']) for e in c.sent], srv.transport(sid))
lp.advance(4); print('t+4', [e.get('text', e['type']) for e in c.sent])
lp.advance(10); print('after silence', log, 'table', list(srv.sockets), [e.get('text', e['type']) for e in c.sent], results.get('up'))
lp.advance(6); print('table', list(srv.sockets), 'now', lp.vnow)
