"""Executable statements of the client properties (C08, C09) on what the real clients did during a history (chist.CRunner)."""
import collections


def chist_slack():
    import chist
    return chist.REQ_TIMEOUT + 2


def viol(res, r, what, clause, **facts):
    f = dict(clause=clause, client=r.kind)
    f.update(facts)
    res.violations.append(dict(what=what, case=dict(client=r.kind, connect_disconnects=r.connect_disconnects, disconnect_disconnects=getattr(r, 'disconnect_disconnects', False), ops=r.log, detail=facts), facts=f))


def flat(r):
    """[(step, out)]"""
    return [(i, o) for i, os in enumerate(r.outs) for o in os]


def c08(res, r, finished):
    """finished: the suite appended its finale (long silence, wait(), a fresh connect())"""
    ev = [(i, o[1]) for i, o in flat(r) if o[0] == 'ev']
    rets = [(i, o) for i, o in flat(r) if o[0] == 'ret']
    # connect() outcome
    for i, o in rets:
        if o[1] == 'connect':
            if o[2] not in ('ok', 'ConnectionError', 'ValueError'):
                viol(res, r, 'connect() raised %s instead of ConnectionError' % o[2], 'connect-outcome', result=o[2], step=i)
            if o[2] == 'ValueError':
                # only legitimate when the client was not in the disconnected state when connect() was called
                st = call_step(r, o[3])
                before = r.views[st - 1][0] if st > 0 else 'disconnected'
                if before == 'disconnected':
                    viol(res, r, 'connect() refused although the client was disconnected', 'reusable', step=i)
            if o[2] == 'ConnectionError':
                v = r.views[i]
                if not (v[0] == 'disconnected' and not v[1]):
                    viol(res, r, 'a failed connect() did not leave the client disconnected with no session id', 'failed-connect-clean', view=v, step=i)
    # one connect() call establishes at most one session: the connect handler fires at most once per call, exactly once if it returns normally
    for i, o in rets:
        if o[1] == 'connect' and o[2] in ('ok', 'ConnectionError'):
            st = call_step(r, o[3])
            n = sum(1 for j, e in ev if st <= j <= i and e == 'connect')
            if n > 1 or (o[2] == 'ok' and n != 1):
                viol(res, r, 'one connect() call fired the connect handler %d times' % n, 'connect-once-per-call', step=i, result=o[2], n=n)
    # events: connect ... disconnect alternate; exactly one disconnect per established connection
    open_ = False
    for i, e in ev:
        kind = e if isinstance(e, str) else e[0]
        if kind == 'connect':
            if open_:
                viol(res, r, 'a second connect event without a disconnect event in between', 'one-connect', step=i)
            open_ = True
        elif kind == 'disconnect':
            if not open_:
                viol(res, r, 'a disconnect event for a connection that was not established (or a second one)', 'one-disconnect', step=i, reason=e[1])
            open_ = False
            allowed = allowed_reasons(r, i)
            if e[1] not in allowed:
                viol(res, r, 'the disconnect reason does not tell who ended the connection', 'reason', step=i, reason=e[1], allowed=sorted(allowed), op=r.log[i])
        elif kind == 'message':
            if not open_ and not message_in_flight(r, i):
                viol(res, r, 'a message event fired outside an established connection', 'none-after', step=i)
    if finished:
        if open_:
            viol(res, r, 'an established connection never got its disconnect event although the server fell silent', 'ends', last_view=r.views[-1])
        v = r.views[-1]
    # state after a disconnect event, once things have settled (end of history before the finale's reconnect)
    for i, e in ev:
        if not isinstance(e, str) and e[0] == 'disconnect':
            nxt = [j for j, e2 in ev if j > i]
            last = (min(nxt) if nxt else len(r.views)) - 1
    # wait() returned and connect() works again: checked from the finale's own outputs
    if finished:
        tail = [o for os in r.outs[-3:] for o in os]
        if not any(o[0] == 'ret' and o[1] == 'wait' for o in tail):
            viol(res, r, 'wait() did not return after the connection had ended', 'wait-returns', blocked=r.d.blocked()[:4])
        if not any(o[0] in ('http', 'wsconnect') for o in r.outs[-1]) and not any(o[0] == 'ret' and o[1] == 'connect' and o[2] == 'ConnectionError' for o in r.outs[-1]):
            viol(res, r, 'connect() does not work again after the connection ended', 'reusable', last=r.outs[-1], view=r.views[-2])
    # send() / disconnect() on a client that is not connected are harmless no-ops
    for step, op in enumerate(r.log):
        if op[0] == 'call' and op[1] in ('send', 'disconnect'):
            before = r.views[step - 1][0] if step > 0 else 'disconnected'
            if before == 'disconnected':
                extra = [o for o in r.outs[step] if o[0] != 'ret']
                ret = [o for o in r.outs[step] if o[0] == 'ret' and o[1] == op[1]]
                if extra or not ret or ret[0][2] != 'ok':
                    viol(res, r, '%s() on a client that is not connected was not a harmless no-op' % op[1], 'noop-when-disconnected', step=step, outs=r.outs[step][:4])


def call_step(r, tag):
    n = -1
    for i, op in enumerate(r.log):
        if op[0] == 'call':
            n += 1
            if n == tag:
                return i
    return 0


def message_in_flight(r, step):
    # message handlers run in their own task: an event may fire in the step in which the connection ended
    return any(o[0] == 'ev' and not isinstance(o[1], str) and o[1][0] == 'disconnect' for o in r.outs[step])


def failureish(op):
    return (op[0] in ('adv', 'wsclose', 'wsframeclose') or (op[0] == 'reply' and op[2][0] != 'ok') or (op[0] == 'wsframe' and op[1][0] == 'garbage') or
            (op[0] == 'reply' and op[2][0] == 'ok' and any(p[0] == 'open' for p in op[2][1][1:])) or
            (op[0] == 'reply' and op[2][0] == 'ok' and len(op[2][1]) > 16))


def allowed_reasons(r, step):
    op = r.log[step]
    if op[0] == 'call' and op[1] == 'disconnect':
        return {'client disconnect'}
    # the connection this event ends began with the latest connect event
    begun = max([i for i, o in flat(r) if i <= step and o[0] == 'ev' and o[1] == 'connect'] or [0])
    out = set()
    pk = pkts_of(op)
    if any(p[0] == 'close' for p in pk):
        out.add('server disconnect')
    if r.connect_disconnects and any(o[0] == 'ev' and o[1] == 'connect' for o in r.outs[step]):
        out.add('client disconnect')
    # a message handler calling disconnect() runs in its own task and may end the connection in a later step
    if any(p[0] == 'msg' and p[2] == 'disc' for o in r.log[begun:step + 1] for p in pkts_of(o)):
        out.add('client disconnect')
    # something must have gone wrong with the transport of this connection for a transport error
    if any(failureish(o) for o in r.log[begun:step + 1]) or (op[0] == 'call' and op[1] == 'connect'):
        out.add('transport error')
    if op[0] == 'call' and op[1] == 'connect':
        out |= {'client disconnect', 'server disconnect'}
    return out


def pkts_of(op):
    if op[0] == 'reply' and op[2][0] == 'ok':
        return op[2][1]
    if op[0] in ('wsframe', 'wsframeclose') and op[1][0] == 'pk':
        return [op[1][1]]
    return []


def c09(res, r):
    fl = flat(r)
    # --- everything the client transmitted, in order, per connection epoch
    sent_calls = []          # (step, m, binary) made while connected
    for step, op in enumerate(r.log):
        if op[0] == 'call' and op[1] == 'send':
            before = r.views[step - 1][0] if step > 0 else 'disconnected'
            if before == 'connected':
                sent_calls.append((op[2], op[3]))
    wire = []
    pongs = []
    for i, o in fl:
        pk = o[3] if o[0] == 'http' and o[2] == 'post' else [o[2]] if o[0] == 'wssend' else []
        for c in pk:
            if isinstance(c, tuple) and c[0] == 'msg' and c[1] < 1000000:
                wire.append((c[1], c[2]))
            elif isinstance(c, tuple) and c[0] == 'pong':
                pongs.append((i, c[1]))
            elif isinstance(c, tuple) and c[0] == 'unknown':
                viol(res, r, 'the client transmitted something that is not a packet of a send() call, a PONG, a CLOSE or the probe handshake', 'wire-form', step=i, wire=repr(c[1])[:60])
        if o[0] == 'http' and o[2] == 'post' and len(o[3]) > 16:
            viol(res, r, 'a POST body holds more packets than a server accepts', 'batch-limit', step=i, n=len(o[3]))
    # within one connection the queue is FIFO: what has been transmitted is a prefix of what was sent on that connection
    epoch_of_step, e = [], 0
    for os in r.outs:
        e += sum(1 for o in os if o[0] == 'ev' and o[1] == 'connect')
        epoch_of_step.append(e)
    by_epoch = collections.OrderedDict()
    for step, op in enumerate(r.log):
        if op[0] == 'call' and op[1] == 'send' and step > 0 and r.views[step - 1][0] == 'connected':
            by_epoch.setdefault(epoch_of_step[step], []).append((op[2], op[3]))
    wset = set(wire)
    for ep, calls in by_epoch.items():
        sent_flags = [c in wset for c in calls]
        if any(later and not earlier for earlier, later in zip(sent_flags, sent_flags[1:])) or (True in sent_flags and False in sent_flags[:len(sent_flags) - sent_flags[::-1].index(True)]):
            k = sent_flags.index(False)
            viol(res, r, 'a send() call was never transmitted although later ones of the same connection were', 'send-loss', missing=calls[k], position=k, n=len(calls))
            break
    if len(set(wire)) != len(wire):
        viol(res, r, 'a send() call was transmitted more than once', 'send-once', wire=wire[:8])
    pos = {c: k for k, c in enumerate(sent_calls)}
    if any(c not in pos for c in wire):
        viol(res, r, 'the client transmitted a message the application did not send while connected', 'send-origin', wire=wire[:8])
    else:
        ks = [pos[c] for c in wire]
        if ks != sorted(ks):
            viol(res, r, 'send() calls were transmitted out of order', 'send-fifo', wire=wire[:8], calls=sent_calls[:8])
    # --- PONG echo: every PING received while connected is answered once with the same data (unless the connection ended first)
    pings = []
    for step, op in enumerate(r.log):
        for p in pkts_of(op):
            if p[0] == 'ping':
                pings.append((step, p[1] % 4))
    got = collections.Counter(d for _, d in pongs)
    want = collections.Counter(d for _, d in pings)
    for d in got:
        if got[d] > want.get(d, 0):
            viol(res, r, 'the client sent a PONG that answers no PING (or a PONG with other data)', 'pong-echo', data=d, pongs=got[d], pings=want.get(d, 0))
    # --- messages: one event per MESSAGE delivered while connected, in arrival order
    delivered = []
    for step, op in enumerate(r.log):
        for p in pkts_of(op):
            if p[0] == 'msg':
                delivered.append(p[1])
    evs = [o[1][1] for _, o in fl if o[0] == 'ev' and not isinstance(o[1], str) and o[1][0] == 'message']
    if len(set(evs)) != len(evs):
        viol(res, r, 'a MESSAGE from the server fired its event more than once', 'receive-once', events=evs[:8])
    dead = set()             # messages that follow a CLOSE packet in the same payload: the connection has ended when they are reached
    for step, op in enumerate(r.log):
        pk = pkts_of(op)
        if any(p[0] == 'close' for p in pk):
            k = [p[0] for p in pk].index('close')
            dead |= {p[1] for p in pk[k + 1:] if p[0] == 'msg'}
    if any(m in dead for m in evs):
        viol(res, r, 'a MESSAGE that follows a CLOSE packet in the same payload was delivered to the handler (the connection had ended)', 'receive-after-close',
             events=[m for m in evs if m in dead][:8])
    dpos = {m: k for k, m in enumerate(delivered)}
    if any(m not in dpos for m in evs):
        viol(res, r, 'a message event for something the server did not send', 'receive-origin', events=evs[:8])
    elif [dpos[m] for m in evs] != sorted(dpos[m] for m in evs):
        viol(res, r, 'message events fired out of arrival order', 'receive-order', events=evs[:8], delivered=delivered[:8])
    # --- the upgrade: websocket transport only after probe / pong probe / upgrade
    for i, v in enumerate(r.views):
        if v[2] == 'websocket' and v[0] == 'connected':
            ws_open = any(op[0] == 'call' and op[1] == 'connect' and op[2][0] == 'websocket' for op in r.log[:i + 1])
            sends = [o[2] for j, o in fl if j <= i and o[0] == 'wssend']
            if not ws_open and not ('probe' in sends and 'upgrade' in sends and sends.index('probe') < sends.index('upgrade')):
                viol(res, r, 'the client switched to WebSocket without the probe handshake', 'probe-only', step=i, sends=sends[:6])
            break


def c09_silence(res, r, slack=chist_slack()):
    """a client that hears nothing from the server for longer than interval + timeout (+ the fixed 5 s on polling, + one request
    time-out for a request that is in flight) must have declared the connection lost"""
    I = T = None
    last = 0
    for i, op in enumerate(r.log):
        if op[0] in ('reply', 'wsframe', 'wsframeclose', 'wsanswer', 'wsclose') or (op[0] == 'call' and op[1] == 'connect'):
            last = r.times[i]
        if any(o[0] == 'http' and o[2] == 'poll' for o in r.outs[i]):
            # the client has just started a long poll (for instance after an upgrade probe that was not answered within the request
            # time-out): the poll carries its own deadline, the bound runs from here
            last = r.times[i]
        for p in pkts_of(op):
            if p[0] == 'open' and p[1]:
                I, T = p[3], p[4]
        v = r.views[i]
        if v[0] == 'connected' and I is not None:
            bound = I + T + 40 + slack
            if r.times[i] - last > bound:
                viol(res, r, 'the server has been silent for longer than the heartbeat bound and the client still reports connected', 'silence',
                     step=i, silent_for=r.times[i] - last, bound=bound, view=v)
                return
