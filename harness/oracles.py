"""Executable statements of the stateful properties on what the implementation emitted during a history
(hist.Runner).  Written from the property texts, independently of the Coq model: they turn a broken correspondence
into a concrete failing history and catch a change that keeps the code equal to a wrong model."""
import collections


def _sess(x):
    return x[1] if isinstance(x, tuple) else x


class View:
    """per-session digest of a finished Runner"""

    def __init__(self, r):
        self.r = r
        self.n = len(r.sids)
        self.events = collections.defaultdict(list)        # s -> [(step, kind, data)]
        self.delivered = collections.defaultdict(list)     # s -> [(step, mid, channel)]  channel = ('poll', rid) | ('ws', cid)
        self.pkts = collections.defaultdict(list)          # s -> [(step, pkt, channel)] every server->client packet
        self.sent = collections.defaultdict(list)          # s -> [(step, mid)] application send() calls naming s
        self.resp = {}                                     # rid -> (step, resp)
        self.api = {}                                      # aid -> (step, result)
        for step, (op, outs) in enumerate(zip(r.log, r.outs)):
            if op[0] == 'send' and isinstance(op[1], int):
                self.sent[op[1]].append((step, op[2]))
            for o in outs:
                if o[0] == 'ev':
                    e = o[2]
                    self.events[o[1]].append((step, e if isinstance(e, str) else e[0], None if isinstance(e, str) else e[1]))
                elif o[0] == 'resp':
                    self.resp[o[1]] = (step, o[2])
                    info = r.req_info.get(o[1])
                    if info and isinstance(o[2], tuple) and o[2][0] == 'pkts':
                        s = _sess(info[1])
                        if isinstance(s, int):
                            for p in o[2][1]:
                                self.pkts[s].append((step, p, ('poll', o[1])))
                                if isinstance(p, tuple) and p[0] == 'msg':
                                    self.delivered[s].append((step, p[1], ('poll', o[1])))
                elif o[0] == 'wssend':
                    s = _sess(r.conn_sess.get(o[1]))
                    if isinstance(s, int):
                        self.pkts[s].append((step, o[2], ('ws', o[1])))
                        if isinstance(o[2], tuple) and o[2][0] == 'msg':
                            self.delivered[s].append((step, o[2][1], ('ws', o[1])))
                elif o[0] == 'api':
                    self.api[o[1]] = (step, o[2])

    def case(self, extra=None):
        c = dict(server=self.r.kind, cfg=self.r.cfg.key(), ops=self.r.log)
        if extra:
            c.update(extra)
        return c


def viol(res, v, what, clause, **facts):
    f = dict(clause=clause, server=v.r.kind)
    f.update(facts)
    res.violations.append(dict(what=what, case=v.case(dict(detail=facts)), facts=f))


# ------------------------------------------------------------------------------------------------------- C03
def c03(res, v):
    r = v.r
    owner = {}
    for s, l in v.sent.items():
        for _, m in l:
            owner[m] = s
    for s in range(v.n):
        mids = [m for _, m, _ in v.delivered[s]]
        if len(set(mids)) != len(mids):
            dup = [m for m, c in collections.Counter(mids).items() if c > 1][0]
            viol(res, v, 'a message was delivered to its client more than once', 'at-most-once', session=s, mid=dup)
        for m in mids:
            if m in owner and owner[m] != s:
                viol(res, v, 'a message was delivered to a session other than the one it was sent to', 'no-cross-delivery', session=s, mid=m, sent_to=owner[m])
        api_order = [m for _, m in v.sent[s]]
        got = [m for m in mids if m in owner and owner[m] == s]
        pos = {m: i for i, m in enumerate(api_order)}
        if any(pos[a] > pos[b] for a, b in zip(got, got[1:])):
            viol(res, v, 'messages were delivered out of the order in which they were sent', 'in-order', session=s, delivered=got, sent=api_order)
    # a poll that starts while the session is upgrading / upgraded returns only NOOP
    for step, op in enumerate(r.log):
        if op[0] == 'poll' and isinstance(op[1], int) and op[1] < len(r.sids):
            pre = r.pre[step].get(op[1])
            if pre and not pre[0] and (pre[2] or pre[3]):
                rid = [k for k, i in r.req_info.items() if i == ('poll', op[1])]
                for o in r.outs[step]:
                    if o[0] == 'resp' and r.req_info.get(o[1]) == ('poll', op[1]) and isinstance(o[2], tuple) and o[2][0] == 'pkts' and o[2][1] != ['noop']:
                        viol(res, v, 'a poll started during/after the WebSocket upgrade returned packets other than NOOP', 'noop-during-upgrade', session=op[1], got=o[2][1])


def zombies(r):
    """sessions created by a WebSocket open that lacked 'Connection: upgrade' (known finding D17): the handshake packets
    are returned as a malformed response and the session is on no transport at all"""
    out = set()
    for rid, info in r.req_info.items():
        if info[0] == 'open':
            op = op_of_rid(r, rid)
            if op and op[1] == 'websocket' and len(op) > 3 and not op[3] and isinstance(info[1], tuple):
                out.add(info[1][1])
    return out


def c03_completeness(res, v, drained):
    """after the suite's final drain: everything sent while the session was live was delivered, unless it ended"""
    r = v.r
    zs = zombies(r)
    for s in drained:
        if s in zs:
            continue
        post = r.post[-1].get(s)
        if post is None or post[0]:
            continue                       # ended
        want = []
        for step, m in v.sent[s]:
            pre, po = r.pre[step].get(s), r.post[step].get(s)
            if pre and not pre[0] and po and not po[0]:
                want.append(m)
        got = [m for _, m, _ in v.delivered[s] if m in set(want)]
        if got != want:
            viol(res, v, 'a live session whose client kept reading did not receive every message sent to it', 'eventual-delivery', session=s,
                 missing=[m for m in want if m not in got][:5])


# ------------------------------------------------------------------------------------------------------- C04
def _expected_events(pkts, live, sync):
    """message ids that must fire for a packet list processed by a live session; also whether the request is refused"""
    if not live:
        return [], True
    out = []
    closed = False
    for p in pkts:
        if closed or p == 'bad':
            return out, True               # nothing is acted upon once the session has ended; an undefined type is a protocol error
        if p == 'close':
            closed = True
        elif p in ('upgrade', 'pong'):
            pass
        else:
            out.append(p[1])
            if p[2] == 'disc' and sync:
                closed = True
    return out, False


def c04(res, v):
    r = v.r
    for step, op in enumerate(r.log):
        if op[0] == 'post':
            s = op[1]
            pre = r.pre[step].get(s) if isinstance(s, int) else None
            live = bool(pre) and not pre[0] and r.cfg.polling        # the POST names transport=polling
            got = [o[2][1] for o in r.outs[step] if o[0] == 'ev' and o[1] == s and isinstance(o[2], tuple) and o[2][0] == 'message']
            status = [o[2] for o in r.outs[step] if o[0] == 'resp' and r.req_info.get(o[1]) == ('post', s)]
            if op[2][0] == 'pk':
                want, refused = _expected_events(op[2][1], live, not r.cfg.async_handlers)
            else:
                want, refused = [], (op[2][0] == 'toolong' or not live)
            ok = (got == want) if not r.cfg.async_handlers else (sorted(got) == sorted(want))
            timed_out = any(o[0] == 'ev' and o[1] == s and o[2] == ('disconnect', 'ping timeout') for o in r.outs[step])
            if timed_out:
                # a send made while handling the body found the heartbeat deadline passed and ended the session mid-body
                ok = got == want[:len(got)] if not r.cfg.async_handlers else set(got) <= set(want)
                status = []
            if not ok:
                viol(res, v, 'message events of a POST body are not exactly one per MESSAGE packet, in wire order', 'post-dispatch', step=step, got=got, want=want)
            if status and ((status[0] == 400) != refused) and status[0] in (400, 'ok'):
                viol(res, v, 'POST status does not match the fate of its packets', 'post-status', step=step, status=status[0], refused=refused)
            if op[2][0] == 'pk' and live and not refused and 'close' in op[2][1]:
                po = r.post[step].get(s)
                if po is not None and not po[0]:
                    viol(res, v, 'a CLOSE packet did not end the session', 'close-ends', step=step)
            if op[2][0] == 'pk' and live and refused:
                po = r.post[step].get(s)
                if po is not None and not po[0]:
                    viol(res, v, 'a protocol error in a POST body did not end the session', 'protocol-error-ends', step=step)
        elif op[0] == 'frame':
            c, f = op[1], op[2]
            if f == ('emptybin',):
                f = ('pk', ('msg', 0, 'none'))          # a binary MESSAGE with an empty payload
            s = _sess(r.conn_sess.get(c))
            if not isinstance(s, int):
                continue
            pre = r.pre[step].get(s)
            got = [o[2][1] for o in r.outs[step] if o[0] == 'ev' and o[1] == s and isinstance(o[2], tuple) and o[2][0] == 'message']
            established = bool(pre) and not pre[0] and pre[3] and not pre[2]
            if f[0] == 'pk' and isinstance(f[1], tuple) and established and conn_reading(r, c, step):
                if got != [f[1][1]]:
                    viol(res, v, 'a MESSAGE frame on an established WebSocket did not fire exactly one message event', 'ws-dispatch', step=step, got=got)
            elif got and not (f[0] == 'pk' and isinstance(f[1], tuple)):
                viol(res, v, 'a non-MESSAGE frame fired a message event', 'ws-dispatch', step=step, got=got)


def conn_reading(r, c, step):
    """is connection c (by the stimuli so far) the established transport of its session: accepted, handshake done, not closed"""
    st = 0 if _is_upgrade_conn(r, c) else 2
    for op in r.log[:step]:
        if op[0] == 'frame' and op[1] == c:
            f = op[2]
            if st == 0:
                st = 1 if f == ('ping', True) else 9
            elif st == 1:
                st = 2 if f == ('pk', 'upgrade') else 9
            elif st == 2 and (f[0] in ('undec', 'over')):
                st = 9
        elif op[0] == 'wsclose' and op[1] == c:
            st = 9
    if st != 2:
        return False
    acc = any(o[0] == 'wsaccept' and o[1] == c for os in r.outs[:step] for o in os)
    closed = any(o[0] == 'wsclose' and o[1] == c for os in r.outs[:step] for o in os)
    return acc and not closed


def _is_upgrade_conn(r, c):
    return not isinstance(r.conn_sess.get(c), tuple)


# ------------------------------------------------------------------------------------------------------- C05
REASON_BY_OP = {'disc': {'server disconnect'}, 'wsclose': {'transport close'}, 'adv': {'ping timeout', 'transport error', 'transport close'},
                'send': {'ping timeout'}, 'poll': {'ping timeout'}}


def c05(res, v):
    r = v.r
    for s in range(v.n):
        evs = v.events[s]
        kinds = [k for _, k, _ in evs]
        if kinds[:1] != ['connect'] or kinds.count('connect') != 1:
            viol(res, v, 'the connect handler did not run exactly once and first for a session', 'connect-first', session=s, events=kinds[:6])
        nd = kinds.count('disconnect')
        if nd > 1:
            viol(res, v, 'the disconnect handler ran more than once for a session', 'disconnect-once', session=s, reasons=[d for _, k, d in evs if k == 'disconnect'])
        rejected = is_rejected(r, s)
        if rejected and len(evs) > 1:
            viol(res, v, 'an event was delivered for a session whose connect handler rejected it', 'rejected-silent', session=s, events=kinds)
        if nd >= 1:
            dstep = [st for st, k, _ in evs if k == 'disconnect'][0]
            later = [(st, k) for st, k, _ in evs if st > dstep]
            if later:
                viol(res, v, 'an event was delivered for a session after its disconnect event', 'none-after-disconnect', session=s, later=later[:3])
            reason = [d for _, k, d in evs if k == 'disconnect'][0]
            allowed = allowed_reasons(r, dstep, s)
            if allowed is not None and reason == 'transport close' and any(op2[0] == 'wsclose' and _sess(r.conn_sess.get(op2[1])) == s for op2 in r.log[:dstep + 1]):
                # the client closed the session's WebSocket in an earlier step: the server may notice later (when a pending long poll took the
                # end marker meant for the writer, the handler sits in writer.join() until the next packet is queued); the reason still names that cause
                allowed = set(allowed) | {'transport close'}
            if allowed is not None and reason not in allowed:
                viol(res, v, 'the disconnect reason does not name the cause that ended the session', 'reason', session=s, reason=reason, allowed=sorted(allowed), op=r.log[dstep])
        po = r.post[-1].get(s) if r.post else None
        ended = po is None or po[0]
        if ended and not rejected and nd != 1 and 'connect' in kinds:
            viol(res, v, 'a session that was accepted and has ended has no disconnect event', 'disconnect-exactly-once', session=s, events=kinds[-4:])


def is_rejected(r, s):
    k = 0
    for op in r.log:
        if op[0] == 'open':
            pass
    # the s-th session created corresponds to the s-th open op that reached handle_connect: recover from req_info
    for rid, info in r.req_info.items():
        if info[0] == 'open' and info[1] == ('new', s):
            # find the op
            n = -1
            for op in r.log:
                if op[0] in ('open', 'poll', 'post', 'upgrade', 'bad'):
                    n += 1
                    if n == rid:
                        return op[2].startswith('reject') or op[2] == 'raise'
    return False


def allowed_reasons(r, step, s):
    op = r.log[step]
    k = op[0]
    if k in REASON_BY_OP:
        return REASON_BY_OP[k]
    if k == 'post':
        b = op[2]
        if b[0] == 'toolong':
            return {'server disconnect'}
        if b[0] == 'pk':
            out = set()
            for p in b[1]:
                if p == 'close':
                    out.add('client disconnect')
                    break
                if p == 'bad':
                    out.add('server disconnect')
                    break
                if isinstance(p, tuple) and p[2] == 'disc':
                    out.add('server disconnect')
            if any(p == 'upgrade' or (isinstance(p, tuple) and p[2] == 'send') for p in b[1]):
                out |= {'server disconnect', 'ping timeout'}       # a send attempted after the heartbeat deadline detects the dead peer
            return out or None
    if k == 'frame':
        f = op[2]
        if f == ('pk', 'close'):
            return {'client disconnect'}
        if f[0] in ('undec', 'over'):
            return {'transport close'}
        if f[0] == 'pk' and isinstance(f[1], tuple) and f[1][2] == 'disc':
            return {'server disconnect'}
        return {'transport close', 'client disconnect', 'server disconnect', 'ping timeout'}
    return None


# ------------------------------------------------------------------------------------------------------- C06
def c06(res, v):
    r = v.r
    # handshake progress per upgrade connection, from the frames the client sent
    for step in range(len(r.log)):
        post = r.post[step]
        for s, fl in post.items():
            if fl is None or fl[0]:
                continue
            opened_ws = any(isinstance(cs, tuple) and cs[1] == s for cs in r.conn_sess.values())
            if fl[3] and not opened_ws and not proper_handshake(r, s, step):
                viol(res, v, 'a polling session switched to WebSocket without the PING probe / PONG probe / UPGRADE handshake', 'only-via-probe', session=s, step=step)
            if fl[2] and not handshake_in_progress(r, s, step):
                viol(res, v, 'a failed or abandoned upgrade left the session unable to use polling (still marked as upgrading)', 'failure-harmless', session=s, step=step)
    # a completed upgrade refuses further upgrade attempts without disturbing the established WebSocket
    for step, op in enumerate(r.log):
        if op[0] == 'upgrade' and isinstance(op[1], int) and op[1] < len(r.sids):
            pre, po = r.pre[step].get(op[1]), r.post[step].get(op[1])
            if pre and not pre[0] and pre[3]:
                evs = [o for o in r.outs[step] if o[0] == 'ev' and o[1] == op[1]]
                if po != pre or evs:
                    viol(res, v, 'an upgrade attempt on an already upgraded session disturbed the established WebSocket session', 'no-second-upgrade', session=op[1], step=step)
    if not r.cfg.websocket:
        for os in r.outs:
            for o in os:
                if o[0] == 'wsaccept':
                    viol(res, v, 'a WebSocket was accepted although the websocket transport is not allowed', 'transport-config', conn=o[1])
    if not r.cfg.polling:
        for rid, (step, x) in v.resp.items():
            if r.req_info.get(rid, ('',))[0] == 'open' and isinstance(x, tuple) and x[0] == 'pkts':
                viol(res, v, 'a polling session was opened although the polling transport is not allowed', 'transport-config', rid=rid)


def conn_frames(r, c, upto):
    return [op[2] for op in r.log[:upto + 1] if op[0] == 'frame' and op[1] == c]


def proper_handshake(r, s, step):
    for c, cs in r.conn_sess.items():
        if cs == s:
            fr = conn_frames(r, c, step)
            if fr[:2] == [('ping', True), ('pk', 'upgrade')]:
                sent_pong = any(o[0] == 'wssend' and o[1] == c and o[2] == 'pongprobe' for os in r.outs[:step + 1] for o in os)
                if sent_pong:
                    return True
    return False


def handshake_in_progress(r, s, step):
    for c, cs in r.conn_sess.items():
        if cs != s:
            continue
        acc = any(o[0] == 'wsaccept' and o[1] == c for os in r.outs[:step + 1] for o in os)
        if not acc:
            continue
        closed = any(op[0] in ('wsclose', 'cancel') and op[1] == c for op in r.log[:step + 1])      # closed by the client, or its task cancelled
        fr = conn_frames(r, c, step)
        if closed:
            continue
        if fr == [] or fr == [('ping', True)]:
            return True
    return False


# ------------------------------------------------------------------------------------------------------- C12 / C14 / C15 / C16
def c12(res, v):
    r = v.r
    for step, op in enumerate(r.log):
        refused_kind = None
        if op[0] == 'bad' and op[1] in ('bad_transport', 'no_eio', 'bad_jsonp', 'wrong_transport', 'ws_no_upgrade_hdr', 'post_nosid'):
            refused_kind, want = op[1], 400
            if op[1] == 'wrong_transport':
                s = op[2] if len(op) > 2 else None
                pre = r.pre[step].get(s) if isinstance(s, int) else None
                if pre and not pre[0] and pre[3]:
                    continue            # the session really is on websocket: the request names its transport
        elif op[0] == 'bad' and op[1] == 'method':
            refused_kind, want = 'method', (405 if r.cfg.polling else 400)     # the transport named by the request is checked before the method
        elif op[0] in ('poll', 'post') and not addressable(r, step, op[1]):
            refused_kind, want = 'dead-sid', 400
        elif op[0] == 'upgrade' and not r.cfg.websocket:
            # a WebSocket upgrade (whatever transport value the request names, however its header values are spelled) when the server
            # does not allow the websocket transport
            refused_kind, want = 'upgrade-not-allowed', 400
        if refused_kind is None:
            continue
        st = [o[2] for o in r.outs[step] if o[0] == 'resp']
        evs = [o for o in r.outs[step] if o[0] == 'ev']
        if st != [want]:
            viol(res, v, 'a request that must be refused was not answered %d' % want, 'refusal-status', step=step, kind=refused_kind, got=st)
        if evs:
            viol(res, v, 'a refused request fired an event', 'refused-no-effect', step=step, kind=refused_kind)
        if not same_live_state(r.pre[step], r.post[step]):
            viol(res, v, 'a refused request changed a session (queue, transport, liveness or user data)', 'refused-no-effect', step=step, kind=refused_kind)


def addressable(r, step, s):
    if not isinstance(s, int) or s >= len(r.sids):
        return False
    pre = r.pre[step].get(s)
    return bool(pre) and not pre[0]


def same_live_state(a, b):
    """equal up to the lazy removal of entries that were already closed"""
    for s in set(a) | set(b):
        x, y = a.get(s), b.get(s)
        if x == y:
            continue
        if x is not None and x[0] and y is None:
            continue
        if s not in a and (y is None):
            continue
        return False
    return True


def c14(res, v):
    r = v.r
    for step, op in enumerate(r.log):
        if op[0] == 'post' and op[2][0] == 'lenzero' and addressable(r, step, op[1]):
            evs = [o for o in r.outs[step] if o[0] == 'ev' and isinstance(o[2], tuple) and o[2][0] == 'message']
            if evs:
                viol(res, v, 'data beyond the declared Content-Length (0 or absent) was read and reached the message handler', 'declared-length', step=step)
        # (a POST is admitted only if polling is allowed and the session is not on WebSocket: otherwise it is refused for that, its body unseen)
        if op[0] == 'post' and op[2][0] == 'toolong' and addressable(r, step, op[1]) and r.cfg.polling and not r.pre[step][op[1]][3]:
            evs = [o for o in r.outs[step] if o[0] == 'ev' and isinstance(o[2], tuple) and o[2][0] == 'message']
            if evs:
                viol(res, v, 'data from an oversize POST body reached the message handler', 'oversize-no-data', step=step)
            st = [o[2] for o in r.outs[step] if o[0] == 'resp' and r.req_info.get(o[1], ('',))[0] == 'post']
            if st != [400]:
                viol(res, v, 'an oversize POST was not answered 400', 'oversize-400', step=step, got=st)
            po = r.post[step].get(op[1])
            if po is not None and not po[0]:
                viol(res, v, 'an oversize POST did not end the session', 'oversize-ends', step=step)
            rid = [o[1] for o in r.outs[step] if o[0] == 'resp' and r.req_info.get(o[1], ('',))[0] == 'post']
            if rid:
                rec = r.d.rec[r.impl_rid[rid[0]]]
                if rec['reads']:
                    viol(res, v, 'the server read the body of a POST declared larger than the limit', 'read-bound', step=step, reads=rec['reads'])
        if op[0] == 'post' and op[2][0] == 'pk':
            for o in r.outs[step]:
                if o[0] == 'resp' and o[1] in r.impl_rid:
                    rec = r.d.rec[r.impl_rid[o[1]]]
                    decl = len(rec['req'].get('body', b''))
                    if any(n > decl or n < 0 for n, _ in rec['reads']):
                        viol(res, v, 'the server asked for more body bytes than declared', 'read-bound', step=step, reads=rec['reads'])
        if op[0] == 'frame' and op[2][0] == 'over':
            s = _sess(r.conn_sess.get(op[1]))
            evs = [o for o in r.outs[step] if o[0] == 'ev' and isinstance(o[2], tuple) and o[2][0] == 'message']
            if evs:
                viol(res, v, 'data from an oversize WebSocket frame reached the message handler', 'oversize-no-data', step=step)
            if isinstance(s, int) and conn_reading(r, op[1], step):
                po = r.post[step].get(s)
                if po is not None and not po[0]:
                    viol(res, v, 'an oversize frame on an established WebSocket did not end the session', 'oversize-ends', step=step)


def c15(res, v):
    """to be called after the suite has advanced time by more than ping_interval + ping_timeout at the end"""
    r = v.r
    for rid, info in r.req_info.items():
        is_ws = (info[0] == 'upgrade') or (info[0] == 'open' and any(isinstance(cs, tuple) and cs == info[1] for cs in r.conn_sess.values()))
        if is_ws and not (info[0] == 'open' and isinstance(info[1], tuple) and info[1][1] in zombies(r)):
            continue
        if rid not in v.resp:
            viol(res, v, 'a non-upgrade request never completed (worker still blocked)', 'completes', rid=rid, kind=info[0], op=op_of_rid(r, rid))
            continue
        x = v.resp[rid][1]
        if x == 'malformed' and info[0] == 'open' and info[1][1] in zombies(r):
            viol(res, v, 'a WebSocket open without "Connection: upgrade" returns its packet list without a gateway response', 'well-formed',
                 kind='open', transport='websocket', connection_upgrade=False)
            continue
        if x == 'raised' or x == 'malformed' or not (x in ('ok', 400, 405) or (isinstance(x, tuple) and x[0] in ('pkts', 401))):
            viol(res, v, 'a request was not answered with a well-formed 200/400/401/405 response', 'well-formed', rid=rid, got=repr(x)[:60], op=op_of_rid(r, rid))
    for (rid, pr, req) in r.problems:
        if not req.get('ws'):
            viol(res, v, 'gateway protocol violation: ' + '; '.join(pr)[:120], 'well-formed', rid=rid)
    na = 0
    for op in r.log:
        if op[0] in ('send', 'disc', 'transport', 'getsess', 'savesess'):
            if na not in v.api:
                viol(res, v, 'an application call never returned', 'api-returns', call=op[0], arg=repr(op[1]), transport=session_transport(r, op[1]))
            na += 1


def session_transport(r, s):
    if not isinstance(s, int):
        return 'all' if s is None else 'unknown'
    return 'websocket' if any(_sess(cs) == s for cs in r.conn_sess.values()) else 'polling'


def op_of_rid(r, rid):
    n = -1
    for op in r.log:
        if op[0] in ('open', 'poll', 'post', 'upgrade', 'bad'):
            n += 1
            if n == rid:
                return op
    return None


def c16(res, v):
    r = v.r
    # dead ids are inert; KeyError; isolation of user data
    saved = {}
    na = 0
    for step, op in enumerate(r.log):
        if op[0] in ('send', 'disc', 'transport', 'getsess', 'savesess'):
            a = na
            na += 1
            ret = v.api.get(a)
            s = op[1]
            live = addressable(r, step, s) if op[0] != 'disc' or s is not None else True
            if ret is None:
                continue
            x = ret[1]
            if op[0] in ('transport', 'getsess', 'savesess'):
                if not live and x != 'keyerror':
                    viol(res, v, 'a session call on a dead or unknown id did not raise KeyError', 'dead-keyerror', call=op[0], step=step, got=repr(x))
                if live and x == 'keyerror':
                    viol(res, v, 'a session call on a live id raised KeyError', 'live-ok', call=op[0], step=step)
                if live and op[0] == 'savesess' and x == 'ret':
                    saved[s] = op[2]
                if live and op[0] == 'getsess' and isinstance(x, tuple) and x[1] != saved.get(s, 0):
                    viol(res, v, 'user data of one session is visible through / changed by another', 'isolation', session=s, got=x[1], want=saved.get(s, 0))
            if op[0] == 'send' and not live:
                if x != 'ret' or r.outs[step] != [('api', a, 'ret')] or not same_live_state(r.pre[step], r.post[step]):
                    viol(res, v, 'send() to a dead or unknown id was not a silent no-op', 'dead-send-noop', step=step, outs=r.outs[step][:3])
        for s, fl in (r.post[step] or {}).items():
            if fl is None:
                saved.pop(s, None)


def c16_table(res, v):
    """after the suite's final long advance with monitoring on: the table holds exactly the live sessions"""
    r = v.r
    if not r.cfg.monitor:
        return
    for s, fl in r.post[-1].items():
        if fl is not None and fl[0]:
            viol(res, v, 'a closed session is still in the server table after the monitor had time to sweep', 'reaped', session=s)
        elif fl is not None:
            # no client answered a PING during the closing advance of ping_interval + 7 x ping_timeout: nobody is alive
            viol(res, v, 'a session whose client went away is still in the server table after the heartbeat bound', 'vanished-reaped', session=s,
                 flags=dict(closing=fl[1], upgrading=fl[2], upgraded=fl[3]))
