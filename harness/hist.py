"""Histories for the server model (theories/Server.v): abstract stimuli, their execution on a deterministic driver
(rt.py) and their translation into Coq terms; translation of what the implementation emitted into the model's
output vocabulary.  Used by the stateful property suites (C03-C07, C11, C12, C14-C16, C18)."""
import json, re, urllib.parse
import rt, hx, vlib
from vlib import qN, qZ, qbool, qlist, qopt, qpair, qnat

TICK = 1024.0
MAXBUF = 1000
HEADER = ('From Coq Require Import ZArith NArith List Bool. Import ListNotations.\n'
          'From EIO Require Import Server ServerRun.\nOpen Scope N_scope.\n')

QUIRKS = {'threaded': dict(sentinel=True, read_timeout=False, concurrent_disc=False, batch=False, twins=False),
          'asyncio': dict(sentinel=False, read_timeout=True, concurrent_disc=True, batch=True, twins=True)}


class Cfg:
    def __init__(self, interval=4096, timeout=1680, async_handlers=False, monitor=True, allow_upgrades=True, polling=True, websocket=True, grace=0):
        self.interval, self.timeout, self.grace = interval, timeout, grace
        self.async_handlers, self.monitor, self.allow_upgrades = async_handlers, monitor, allow_upgrades
        self.polling, self.websocket = polling, websocket

    def kwargs(self):
        tr = [t for t, on in (('polling', self.polling), ('websocket', self.websocket)) if on]
        return dict(ping_interval=(self.interval / TICK, self.grace / TICK) if self.grace else self.interval / TICK, ping_timeout=self.timeout / TICK, async_handlers=self.async_handlers,
                    monitor_clients=self.monitor, allow_upgrades=self.allow_upgrades, transports=tr, max_http_buffer_size=MAXBUF)

    def term(self, kind):
        q = QUIRKS[kind]
        return ('{| c_interval := %s; c_timeout := %s; c_async_handlers := %s; c_monitor := %s; c_allow_upgrades := %s; c_polling := %s; '
                'c_websocket := %s; c_quirks := {| q_sentinel := %s; q_read_timeout := %s; q_concurrent_disc := %s; q_batch_timers := %s; q_timeout_wins := %s |} |}'
                % (qZ(self.interval), qZ(self.timeout), qbool(self.async_handlers), qbool(self.monitor), qbool(self.allow_upgrades),
                   qbool(self.polling), qbool(self.websocket), qbool(q['sentinel']), qbool(q['read_timeout']), qbool(q['concurrent_disc']), qbool(q['batch']), qbool(q['twins'])))

    def key(self):
        return (self.interval, self.timeout, self.async_handlers, self.monitor, self.allow_upgrades, self.polling, self.websocket, self.grace)


# ---- client packets -----------------------------------------------------------------------------------
ACT_PREFIX = {'none': 'p', 'raise': '!raise', 'send': '!send:', 'disc': '!disc'}
ACT_TERM = {'none': 'HNone', 'raise': 'HRaise', 'send': 'HSend', 'disc': 'HDisc'}
BAD_WIRES = ['0', '2x', '6', '7x', '9', '8{"a":1}']


def cpkt_wire(p, rng=None):
    if p == 'pong':
        return '3'
    if p == 'close':
        return '1'
    if p == 'upgrade':
        return '5'
    if p == 'bad':
        return BAD_WIRES[(rng.randrange(len(BAD_WIRES)) if rng else 3)]
    _, k, act = p
    return '4' + ACT_PREFIX[act] + str(k)


def cpkt_term(p):
    if p == 'pong':
        return 'CPong'
    if p == 'close':
        return 'CClose'
    if p == 'upgrade':
        return 'CUpgrade'
    if p == 'bad':
        return 'CBad'
    _, k, act = p
    return '(CMsg %s %s)' % (qN(k), ACT_TERM[act])


def body_wire(b, rng=None):
    """-> (bytes, declared content length or None for the actual length)"""
    if b[0] == 'pk':
        wire = '\x1e'.join(cpkt_wire(p, rng) for p in b[1])
        if rng and rng.random() < 0.15 and '\\' not in wire:
            # the form-encoded JSONP body of a polling client: d=<percent-encoded payload> (the separator travels as %1E); same packets
            return ('d=' + urllib.parse.quote(wire)).encode(), None
        return wire.encode(), None
    if b[0] == 'lenzero':
        # a body is sent but the declared length is 0 (or there is no Content-Length at all): nothing may be read, nothing is acted upon
        return '\x1e'.join(cpkt_wire(p, rng) for p in b[1]).encode(), (0 if b[2] == 0 else 'absent')
    if b[0] == 'undec':
        v = b[1] if len(b) > 1 else 0
        return [b'x\x1e4a', '\x1e'.join(['4a'] * 17).encode(), b'4a\x1e\x1e4b', b'bQ', b'\x1e',
                ('d=' + urllib.parse.quote('\x1e'.join(['4a'] * 17))).encode()][v % 6], None     # 17 packets, plain and form-encoded: one more than a body may carry
    if len(b) > 1 and b[1] == 1:
        # too long in bytes although not in characters: two-byte characters, limit + 3 bytes, about half as many characters
        return ('4' + '\u00e9' * (MAXBUF // 2 + 1)).encode('utf-8'), None
    return b'4' + b'z' * MAXBUF, None          # too long: declared = actual = limit + 1


def body_term(b):
    if b[0] == 'lenzero':
        return '(BPackets [])'
    if b[0] == 'pk':
        return '(BPackets %s)' % qlist([cpkt_term(p) for p in b[1]])
    return 'BUndecodable' if b[0] == 'undec' else 'BTooLong'


def frame_wire(f, rng=None):
    if f[0] == 'ping':
        return '2probe' if f[1] else '2nope'
    if f[0] == 'pk':
        return cpkt_wire(f[1], rng)
    if f[0] == 'undec':
        return 'x-bad'
    if f[0] == 'emptybin':
        return b''
    return '4' + 'y' * MAXBUF


def frame_term(f):
    if f[0] == 'ping':
        return '(FPing %s)' % qbool(f[1])
    if f[0] == 'pk':
        return '(FPk %s)' % cpkt_term(f[1])
    if f[0] == 'emptybin':
        return '(FPk (CMsg 0 HNone))'          # a binary MESSAGE with an empty payload
    return 'FUndec' if f[0] == 'undec' else 'FOver'


REASONS = {'server disconnect': 'RServer', 'client disconnect': 'RClient', 'ping timeout': 'RPingTimeout', 'transport close': 'RTransportClose',
           'transport error': 'RTransportError'}
COUTS = {'accept': ('none', 'CoAccept'), 'accept_send': ('send', '(CoAcceptSend 999999)'), 'reject_t': ('text', '(CoReject true)'),
         'reject_dict': ('dict', '(CoReject true)'), 'reject_f': ('false', '(CoReject false)'), 'reject_zero': ('zero', '(CoReject false)'),
         'reject_empty': ('empty', '(CoReject false)'), 'raise': ('raise', 'CoRaise'), 'accept_true': ('true', 'CoAccept')}


def spkt_of_wire(w):
    if isinstance(w, (bytes, bytearray)):
        return ('other', repr(w))
    if w.startswith('0{'):
        return 'open'
    if w == '1':
        return 'close'
    if w == '2':
        return 'ping'
    if w == '6':
        return 'noop'
    m = re.fullmatch(r'4m(\d+)', w)
    if m:
        return ('msg', int(m.group(1)))
    m = re.fullmatch(r'4echo:(\d+)', w)
    if m:
        return ('msg', 1000000 + int(m.group(1)))
    if w == '4from-connect':
        return ('msg', 999999)
    return ('other', w)


def spkt_term(p):
    if p == 'open':
        return 'SOpen'
    if p == 'close':
        return 'SClose'
    if p == 'ping':
        return 'SPing'
    if p == 'noop':
        return 'SNoop'
    if p[0] == 'msg':
        return '(SMsg %s)' % qN(p[1])
    return '(SMsg 77777777)'          # something the model never produces: shows up as a disagreement


def payload_id(data):
    if isinstance(data, (bytes, bytearray)) and len(data) == 0:
        return 0
    m = re.search(r'(\d+)$', data) if isinstance(data, str) else None
    return int(m.group(1)) if m else 88888888


class Runner:
    """executes abstract stimuli on one driver and records model terms + observed outputs"""

    def __init__(self, kind, cfg, rng=None, **extra):
        self.kind, self.cfg, self.rng = kind, cfg, rng
        kw = cfg.kwargs()
        kw.update(extra)
        if kind == 'asyncio':
            kw['coroutine_handlers'] = True
        disc_raises = kw.pop('disc_raises', False)
        disc_suspends = kw.pop('disc_suspends', 0)
        self.d = rt.DRIVERS[kind](**kw)
        self.d.raise_in_disconnect = disc_raises
        self.d.suspend_in_disconnect = disc_suspends / TICK     # such runs are judged by the oracles only: the model's handlers do not suspend
        self.sids = []            # model index -> real sid (or None while unknown)
        self.sid_ix = {}
        self.rids, self.cids, self.aids = {}, {}, {}
        self.nr = self.nc = self.na = 0
        self.ops, self.outs, self.log = [], [], []
        self.conn_of = {}         # model cid -> impl cid
        self.tpos = 0
        self.problems = []        # gateway well-formedness problems seen (C15)
        self.req_info = {}        # model rid -> (op kind, session ref or None)
        self.conn_sess = {}       # model cid -> session index
        self.conn_frames, self.conn_accepted, self.conn_closed, self.conn_ponged, self.upgrade_conns = {}, set(), set(), set(), set()
        self.pre, self.post = [], []     # flag snapshots around every stimulus
        self.times = []                  # virtual time (ticks since start) after every stimulus
        self.impl_rid = {}        # model rid -> driver rid

    # --- bookkeeping
    def _sid_index(self, sid):
        if sid not in self.sid_ix:
            self.sid_ix[sid] = len(self.sids)
            self.sids.append(sid)
        return self.sid_ix[sid]

    def real_sid(self, ref):
        if ref == 'unknown' or ref is None:
            return 'nosuchsid0000000000A'
        return self.sids[ref] if ref < len(self.sids) and self.sids[ref] else 'nosuchsid0000000000B'

    def sref_term(self, ref):
        return 'SUnknown' if ref == 'unknown' or ref is None or ref >= len(self.sids) else '(SKnown %s)' % qN(ref)

    def _collect(self):
        new = self.d.trace[self.tpos:]
        self.tpos = len(self.d.trace)
        # assign session indices in creation order first
        for e in new:
            if e[0] == 'ev' and e[2] == 'connect':
                self._sid_index(e[1])
        out = []
        for e in new:
            if e[0] == 'resp':
                rec = self.d.rec[e[1]]
                out.append(('resp', self.rids.get(e[1], 9999), self._resp(rec)))
                pr = rec.get('wsgi_problems') or rec.get('asgi_problems') or []
                if pr:
                    self.problems.append((self.rids.get(e[1]), pr, rec['req']))
            elif e[0] == 'ws':
                c = self.cids.get(e[1], 9999)
                if e[2] == 'accept':
                    out.append(('wsaccept', c))
                elif e[2] == 'close':
                    out.append(('wsclose', c))
                else:
                    w = e[2][1]
                    out.append(('wssend', c, 'pongprobe' if w == '3probe' else spkt_of_wire(w)))
            elif e[0] == 'ev':
                i = self._sid_index(e[1])
                if e[2] == 'connect':
                    out.append(('ev', i, 'connect'))
                elif e[2] == 'message':
                    out.append(('ev', i, ('message', payload_id(e[3]))))
                else:
                    out.append(('ev', i, ('disconnect', e[3])))
            elif e[0] == 'api':
                rec = self.d.calls[e[1]]
                a = self.aids.get(e[1], 9999)
                if rec.get('raised'):
                    out.append(('api', a, 'keyerror' if rec['raised'] == 'KeyError' else ('raised', rec['raised'])))
                elif rec['name'] == 'transport':
                    out.append(('api', a, ('transport', rec['ret'] == 'websocket')))
                elif rec['name'] == 'get_session':
                    out.append(('api', a, ('session', rec['ret'].get('u', 0) if isinstance(rec['ret'], dict) else 0)))
                else:
                    out.append(('api', a, 'ret'))
        return out

    def _resp(self, rec):
        if rec.get('raised'):
            return 'raised'
        st = rec.get('status')
        if st == 'ws':
            return 'wsdone'
        if st == 'ws-rejected':
            return 400
        if ((rec.get('wsgi_problems') or rec.get('asgi_problems')) and st is None) or st == 'ws-silent':
            return 'malformed'
        if st == 200:
            body = rec.get('body', b'')
            if body == b'OK':
                return 'ok'
            return ('pkts', [spkt_of_wire(w) for w in hx.split_payload(body)])
        if st == 401:
            return (401, rec.get('body') != b'"Unauthorized"')
        return st

    # --- stimuli
    def flags(self):
        """{session index: (in table, closed, closing, upgrading, upgraded, queue length)} as the implementation has it now"""
        out = {}
        for i, sid in enumerate(self.sids):
            s = self.d.srv.sockets.get(sid)
            if s is None:
                out[i] = None
            else:
                q = s.queue
                n = len(q.items) if hasattr(q, 'items') else q.qsize()
                out[i] = (s.closed, s.closing, s.upgrading, s.upgraded, n, repr(s.session))
        return out

    def do(self, op):
        d, k = self.d, op[0]
        term = None
        self.pre.append(self.flags())
        nsess_before = len(self.sids)
        if k in ('open', 'poll', 'post', 'upgrade', 'bad'):
            r = self.nr
            self.nr += 1
            q = dict(method='MGet', transport='TrPolling', sid='None', eio4='true', jsonp='JAbsent', upg='false', cup='false', origin='false', conn='None',
                     body='(BPackets [])', connect='CoAccept')
            if k == 'open':
                tr, outcome = op[1], op[2]
                cup = op[3] if len(op) > 3 else True
                ho, cterm = COUTS[outcome]
                q['connect'] = cterm
                if tr == 'polling':
                    rid = d.request(dict(method='GET', query='EIO=4&transport=polling&ho=' + ho))
                else:
                    c = self.nc
                    self.nc += 1
                    hdrs = {'Upgrade': 'websocket'}
                    if cup:
                        hdrs['Connection'] = 'keep-alive, Upgrade'
                    rid, cid = d.ws_open(dict(method='GET', query='EIO=4&transport=websocket&ho=' + ho, headers=hdrs))
                    self.cids[cid] = c
                    self.conn_of[c] = cid
                    q.update(transport='TrWebsocket', upg='true', cup=qbool(cup), conn='(Some %s)' % qN(c))
            elif k == 'poll':
                rid = d.request(dict(method='GET', query='transport=polling&sid=' + self.real_sid(op[1])))
                q['sid'] = '(Some %s)' % self.sref_term(op[1])
            elif k == 'post':
                wire, decl = body_wire(op[2], self.rng)
                rq = dict(method='POST', query='transport=polling&sid=' + self.real_sid(op[1]), body=wire)
                if decl is not None:
                    rq['content_length'] = None if decl == 'absent' else decl
                rid = d.request(rq)
                q.update(method='MPost', sid='(Some %s)' % self.sref_term(op[1]), body=body_term(op[2]))
            elif k == 'upgrade':
                c = self.nc
                self.nc += 1
                tr = op[2] if len(op) > 2 else 'websocket'
                # header values are case-insensitive: every spelling is the same stimulus
                hdrs = {'Upgrade': self.rng.choice(['websocket', 'websocket', 'WebSocket', 'WEBSOCKET']) if self.rng else 'websocket',
                        'Connection': self.rng.choice(['Upgrade', 'upgrade', 'keep-alive, Upgrade']) if self.rng else 'Upgrade'}
                if len(op) > 3:                           # a fixed history names the spelling
                    hdrs = {'Upgrade': op[3][0], 'Connection': op[3][1]}
                rid, cid = d.ws_open(dict(method='GET', query='transport=%s&sid=%s' % (tr, self.real_sid(op[1])), headers=hdrs))
                self.cids[cid] = c
                self.conn_of[c] = cid
                q.update(transport='TrWebsocket' if tr == 'websocket' else 'TrPolling', sid='(Some %s)' % self.sref_term(op[1]), upg='true', cup='true',
                         conn='(Some %s)' % qN(c))
            else:
                kind = op[1]
                sref = op[2] if len(op) > 2 else None
                sidq = '&sid=' + self.real_sid(sref) if sref is not None else ''
                sidt = '(Some %s)' % self.sref_term(sref) if sref is not None else 'None'
                if kind == 'bad_transport':
                    rid = d.request(dict(method='GET', query='EIO=4&transport=carrier-pigeon' + sidq))
                    q.update(transport='TrOther', sid=sidt)
                elif kind == 'no_eio':
                    rid = d.request(dict(method='GET', query='EIO=3&transport=polling'))
                    q.update(eio4='false')
                elif kind == 'bad_jsonp':
                    meth = op[3] if len(op) > 3 else 'GET'
                    rid = d.request(dict(method=meth, query='EIO=4&transport=polling&j=abc' + sidq, body=b'4p1\x1e1' if meth == 'POST' else b''))
                    q.update(jsonp='JBad', sid=sidt, method='MPost' if meth == 'POST' else 'MGet')
                    if meth == 'POST':
                        q.update(body='(BPackets [CMsg 1 HNone; CClose])')
                elif kind == 'method':
                    rid = d.request(dict(method='DELETE', query='EIO=4&transport=polling' + sidq))
                    q.update(method='MOther', sid=sidt)
                elif kind == 'options':
                    rid = d.request(dict(method='OPTIONS', query='EIO=4&transport=polling' + sidq))
                    q.update(method='MOptions', sid=sidt)
                elif kind == 'origin':
                    rid = d.request(dict(method=op[3] if len(op) > 3 else 'GET', query='EIO=4&transport=polling' + sidq, headers={'Origin': 'http://evil.example', 'Host': 'svc.example'},
                                         body=b'4p1' if len(op) > 3 and op[3] == 'POST' else b''))
                    q.update(origin='true', sid=sidt, method='MPost' if len(op) > 3 and op[3] == 'POST' else 'MGet')
                elif kind == 'wrong_transport':          # read naming the transport the session is not using, no upgrade headers
                    rid = d.request(dict(method='GET', query='transport=websocket' + sidq))
                    q.update(transport='TrWebsocket', sid=sidt)
                elif kind == 'ws_no_upgrade_hdr':        # websocket transport for a new session without Upgrade header
                    rid = d.request(dict(method='GET', query='EIO=4&transport=websocket'))
                    q.update(transport='TrWebsocket')
                elif kind == 'post_nosid':
                    rid = d.request(dict(method='POST', query='EIO=4&transport=polling', body=b'4p1'))
                    q.update(method='MPost', body='(BPackets [CMsg 1 HNone])')
                else:
                    raise ValueError(kind)
            self.rids[rid] = r
            self.impl_rid[r] = rid
            sref = op[1] if k in ('poll', 'post', 'upgrade') else (op[2] if k == 'bad' and len(op) > 2 else None)
            self.req_info[r] = (k, sref if k != 'open' else ('new', nsess_before))
            if k == 'upgrade':
                self.upgrade_conns.add(self.nc - 1)
            if k == 'upgrade' or (k == 'open' and op[1] == 'websocket'):
                self.conn_sess[self.nc - 1] = sref if k == 'upgrade' else ('new', nsess_before)
            term = ('(OpReq %s {| r_method := %s; r_transport := %s; r_sid := %s; r_eio4 := %s; r_jsonp := %s; r_upgrade_ws := %s; r_conn_upgrade := %s; '
                    'r_origin_refused := %s; r_conn := %s; r_body := %s; r_connect := %s |})'
                    % (qN(r), q['method'], q['transport'], q['sid'], q['eio4'], q['jsonp'], q['upg'], q['cup'], q['origin'], q['conn'], q['body'], q['connect']))
        elif k == 'frame':
            c = op[1]
            self.conn_frames.setdefault(c, []).append(tuple(op[2]) if isinstance(op[2], (list, tuple)) else op[2])
            d.ws_send(self.conn_of[c], frame_wire(op[2], self.rng))
            term = '(OpWsFrame %s %s)' % (qN(c), frame_term(op[2]))
        elif k == 'wsclose':
            c = op[1]
            d.ws_close(self.conn_of[c])
            self.conn_closed.add(c)
            term = '(OpWsClose %s)' % qN(c)
        elif k == 'cancel':
            # the task serving WebSocket c is cancelled; a stimulus of the model only while that task waits for a handshake frame
            c = op[1]
            fr = self.conn_frames.get(c, [])
            in_handshake = (c in self.upgrade_conns and c in self.conn_accepted and c not in self.conn_closed and
                            (fr == [] or (fr == [('ping', True)] and c in self.conn_ponged)))
            sk = d.sock(self.real_sid(self.conn_sess[c])) if in_handshake and isinstance(self.conn_sess.get(c), int) else None
            if not in_handshake or sk is None or not sk.connected or sk.upgraded:   # (an 'upgrade' of a session that was opened without 'Connection: upgrade' - finding D17 - is served as a new WebSocket session)
                self.pre.pop()
                return
            d.cancel_ws(self.conn_of[c])
            self.conn_closed.add(c)
            term = '(OpCancel %s)' % qN(c)
        elif k == 'cancelpoll':
            # the task of the oldest pending long poll of a session is cancelled (asyncio; threads cannot be cancelled)
            pend = [r for r in sorted(self.req_info) if self.req_info[r] == ('poll', op[1]) and not d.rec[self.impl_rid[r]].get('done')]
            if not pend:
                self.pre.pop()
                return
            if self.kind == 'asyncio':
                d.cancel_request(self.impl_rid[pend[0]])
            term = '(OpCancelPoll %s)' % qN(pend[0])
        elif k == 'cancelreq':
            # the web server cancels the task of a POST that is still running (its handler is suspended).  Used by the oracle-only suite with
            # suspending handlers: never compared with the model, whose handlers do not suspend (the term is a placeholder)
            pend = [r for r in sorted(self.req_info) if self.req_info[r][0] == 'post' and not d.rec[self.impl_rid[r]].get('done')]
            if not pend or self.kind != 'asyncio':
                self.pre.pop()
                return
            d.cancel_request(self.impl_rid[pend[-1]])
            term = '(OpCancelPoll 0)'
        elif k in ('send', 'disc', 'transport', 'getsess', 'savesess'):
            a = self.na
            self.na += 1
            if k == 'send':
                aid = d.api('send', self.real_sid(op[1]), 'm%d' % op[2])
                x = '(ApiSend %s %s)' % (self.sref_term(op[1]), qN(op[2]))
            elif k == 'disc':
                if op[1] is None:
                    aid = d.api('disconnect')
                    x = '(ApiDisconnect None)'
                else:
                    aid = d.api('disconnect', self.real_sid(op[1]))
                    x = '(ApiDisconnect (Some %s))' % self.sref_term(op[1])
            elif k == 'transport':
                aid = d.api('transport', self.real_sid(op[1]))
                x = '(ApiTransport %s)' % self.sref_term(op[1])
            elif k == 'getsess':
                aid = d.api('get_session', self.real_sid(op[1]))
                x = '(ApiGetSession %s)' % self.sref_term(op[1])
            else:
                aid = d.api('save_session', self.real_sid(op[1]), {'u': op[2]})
                x = '(ApiSaveSession %s %s)' % (self.sref_term(op[1]), qN(op[2]))
            self.aids[aid] = a
            term = '(OpApi %s %s)' % (qN(a), x)
        elif k == 'adv':
            d.advance(op[1] / TICK)
            term = '(OpAdvance %s)' % qZ(op[1])
        else:
            raise ValueError(op)
        self.ops.append(term)
        self.log.append(op)
        self.outs.append(self._collect())
        for o in self.outs[-1]:
            if o[0] == 'wsaccept':
                self.conn_accepted.add(o[1])
            elif o[0] == 'wssend' and o[2] == 'pongprobe':
                self.conn_ponged.add(o[1])
            elif o[0] == 'wsclose':
                self.conn_closed.add(o[1])
            elif o[0] == 'resp' and o[1] in self.req_info and self.req_info[o[1]][0] == 'upgrade':
                # the request of an upgrade WebSocket ended: its task is gone
                for c, cid in self.conn_of.items():
                    if self.d.conns[cid].rid == self.impl_rid.get(o[1]):
                        self.conn_closed.add(c)
        self.post.append(self.flags())
        self.times.append(round((self.d.now - rt.T0) * TICK))

    def close(self):
        # keep only what was recorded: thousands of live event loops make asyncio.all_tasks() quadratic
        d, self.d = self.d, None
        if d is not None:
            d.close()
            if hasattr(d, '_keep'):
                d._keep.clear()
            for rec in getattr(d, 'rec', {}).values():
                rec.pop('task', None)

    # --- terms
    def out_term(self, o):
        if o[0] == 'resp':
            x = o[2]
            if x == 'raised':
                t = 'RRaised'
            elif x == 'wsdone':
                t = 'RWsDone'
            elif x == 'malformed':
                t = 'RMalformed'
            elif x == 'ok':
                t = 'R200ok'
            elif isinstance(x, tuple) and x[0] == 'pkts':
                t = '(R200 %s)' % qlist([spkt_term(p) for p in x[1]])
            elif isinstance(x, tuple) and x[0] == 401:
                t = '(R401 %s)' % qbool(x[1])
            elif x == 400:
                t = 'R400'
            elif x == 405:
                t = 'R405'
            else:
                t = 'RMalformed'
            return '(OResp %s %s)' % (qN(o[1]), t)
        if o[0] == 'wsaccept':
            return '(OWsAccept %s)' % qN(o[1])
        if o[0] == 'wsclose':
            return '(OWsClose %s)' % qN(o[1])
        if o[0] == 'wssend':
            return '(OWsSend %s %s)' % (qN(o[1]), 'WPongProbe' if o[2] == 'pongprobe' else '(WPk %s)' % spkt_term(o[2]))
        if o[0] == 'ev':
            e = o[2]
            if e == 'connect':
                t = 'EConnect'
            elif e[0] == 'message':
                t = '(EMessage %s)' % qN(e[1])
            else:
                t = '(EDisconnect %s)' % REASONS.get(e[1], 'RServer')
            return '(OEvent %s %s)' % (qN(o[1]), t)
        if o[0] == 'api':
            x = o[2]
            t = 'ARet' if x == 'ret' else 'AKeyError' if x == 'keyerror' else '(ATransport %s)' % qbool(x[1]) if x[0] == 'transport' else \
                '(ASession %s)' % qN(x[1]) if x[0] == 'session' else 'AKeyError'
            return '(OApi %s %s)' % (qN(o[1]), t)
        raise ValueError(o)

    def case_term(self):
        return qpair(self.cfg.term(self.kind), qlist(self.ops), qlist([qlist([self.out_term(o) for o in os]) for os in self.outs]))


CTYPE = 'config * list op * list (list out)'


def check_histories(runners, shard=40):
    """-> indices of runners whose history the model does not reproduce, errors"""
    bad, errs = [], []
    for kind, fn in (('threaded', 'check_hist'), ('asyncio', 'check_hist_asgi')):
        ix = [i for i, r in enumerate(runners) if r.kind == kind]
        if ix:
            b, e = vlib.model_mismatches(HEADER, [runners[i].case_term() for i in ix], fn, shard=shard, ctype=CTYPE)
            bad += [ix[j] for j in b]
            errs += e
    return sorted(bad), errs


def explain(runner):
    """the model's own outputs and the first differing step, as raw Coq output (for replay files)"""
    return vlib.model_show(HEADER, 'diff_hist %s' % runner.case_term())


# ----------------------------------------------------------------------------------------------------------
# random, mostly protocol-following histories
DEFAULT_WEIGHTS = dict(open=6, open_ws=3, open_rej=2, poll=14, post=12, upgrade=4, frame=14, wsclose=3, cancel=2, send=14, disc=3, disc_all=1, api=4, adv=10, bad=5)


def gen_history(rng, cfg, length=25, weights=None, max_sessions=4, allow_disc_handler=None):
    """a list of abstract stimuli; a small shadow state keeps most of them meaningful"""
    w = dict(DEFAULT_WEIGHTS)
    w.update(weights or {})
    if not cfg.websocket:
        w['open_ws'] = 0
    if not cfg.polling:
        w['open'] = w['open_rej'] = w['poll'] = w['post'] = w['upgrade'] = 0
        w['open_ws'] = max(w['open_ws'], 6)
    kinds = [k for k, v in w.items() for _ in range(v)]
    sessions, conns, ops = [], [], []          # sessions: dict(tr=..., conn=idx or None, hs=handshake stage); conns: dict(s=session, open=bool)
    nmsg = [0]
    disc_ok = cfg.async_handlers if allow_disc_handler is None else allow_disc_handler

    def new_mid():
        nmsg[0] += 1
        return nmsg[0]

    def cpkt():
        r = rng.random()
        if r < 0.5:
            acts = ['none', 'none', 'none', 'raise', 'send'] + (['disc'] if disc_ok else [])
            return ('msg', new_mid(), rng.choice(acts))
        return rng.choice(['pong', 'pong', 'close', 'upgrade', 'bad'])

    def pick_session():
        if not sessions or rng.random() < 0.04:
            return 'unknown' if rng.random() < 0.5 or not sessions else rng.randrange(len(sessions))
        return rng.randrange(len(sessions))

    for _ in range(length):
        k = rng.choice(kinds)
        if k in ('open', 'open_ws', 'open_rej') and len(sessions) >= max_sessions:
            k = rng.choice(['poll', 'post', 'send', 'adv', 'frame'])
        if k == 'open':
            ops.append(('open', 'polling', rng.choice(['accept', 'accept', 'accept', 'accept_send', 'accept_true'])))
            sessions.append(dict(tr='polling', conn=None))
        elif k == 'open_ws':
            cup = rng.random() > 0.08
            ops.append(('open', 'websocket', rng.choice(['accept', 'accept', 'accept_send']), cup))
            conns.append(dict(s=len(sessions), open=True, hs=2))
            sessions.append(dict(tr='ws', conn=len(conns) - 1))
        elif k == 'open_rej':
            tr = 'polling' if cfg.polling and (not cfg.websocket or rng.random() < 0.7) else 'websocket'
            ops.append(('open', tr, rng.choice(['reject_t', 'reject_f', 'reject_dict', 'reject_zero', 'reject_empty', 'raise'])))
            if tr == 'websocket':
                conns.append(dict(s=len(sessions), open=False, hs=9))
            sessions.append(dict(tr='dead', conn=None))
        elif k == 'poll':
            ops.append(('poll', pick_session()))
        elif k == 'post':
            r = rng.random()
            if r < 0.8:
                body = ('pk', [cpkt() for _ in range(rng.choice([1, 1, 1, 1, 2, 2, 3, 3, 15, 16]))])      # 16 = the largest body a server accepts
            elif r < 0.92:
                body = ('undec', rng.randrange(6))
            else:
                body = ('toolong', rng.randrange(2)) if rng.random() < 0.6 else ('lenzero', [cpkt() for _ in range(rng.choice([1, 2, 3]))], rng.randrange(2))
            ops.append(('post', pick_session(), body))
        elif k == 'upgrade':
            s = pick_session()
            ops.append(('upgrade', s) if rng.random() > 0.1 else ('upgrade', s, 'polling'))
            conns.append(dict(s=s, open=True, hs=0))
        elif k == 'frame':
            live = [i for i, c in enumerate(conns) if c['open']]
            if not live:
                ops.append(('adv', rng.choice([100, 840])))
                continue
            c = rng.choice(live)
            hs = conns[c]['hs']
            r = rng.random()
            if hs == 0:
                f = ('ping', True) if r < 0.75 else rng.choice([('ping', False), ('pk', 'upgrade'), ('pk', ('msg', new_mid(), 'none')), ('undec',), ('over',), ('pk', 'bad')])
                conns[c]['hs'] = 1 if f == ('ping', True) else 9
            elif hs == 1:
                f = ('pk', 'upgrade') if r < 0.75 else rng.choice([('ping', True), ('pk', 'pong'), ('pk', ('msg', new_mid(), 'none')), ('undec',), ('over',), ('pk', 'close')])
                conns[c]['hs'] = 2 if f == ('pk', 'upgrade') else 9
            else:
                f = ('pk', cpkt()) if r < 0.8 else rng.choice([('ping', True), ('ping', False), ('undec',), ('over',), ('emptybin',)])
            if conns[c]['hs'] == 9:
                conns[c]['open'] = rng.random() < 0.3
            ops.append(('frame', c, f))
        elif k == 'cancel':
            hs = [i for i, c in enumerate(conns) if c['open'] and c['hs'] in (0, 1)]
            if hs and rng.random() < 0.6:
                c = rng.choice(hs)
                conns[c]['open'] = False
                ops.append(('cancel', c))
            else:
                ops.append(('cancelpoll', pick_session()))
        elif k == 'wsclose':
            live = [i for i, c in enumerate(conns) if c['open']]
            if live:
                c = rng.choice(live)
                conns[c]['open'] = False
                ops.append(('wsclose', c))
            else:
                ops.append(('adv', 500))
        elif k == 'send':
            ops.append(('send', pick_session(), new_mid()))
        elif k == 'disc':
            ops.append(('disc', pick_session()))
        elif k == 'disc_all':
            ops.append(('disc', None))
        elif k == 'api':
            s = pick_session()
            ops.append(rng.choice([('transport', s), ('getsess', s), ('savesess', s, rng.randrange(1, 50))]))
        elif k == 'adv':
            I, T = cfg.interval, cfg.timeout
            ops.append(('adv', rng.choice([1, 100, I // 2, I - 1, I, I + 1, T - 1, T, T + 1, I + T - 1, I + T, I + T + 1, I + 2 * T, 2 * I, T // 2, 3 * T])))
        else:
            s = pick_session()
            kind = rng.choice(['bad_transport', 'no_eio', 'bad_jsonp', 'method', 'options', 'origin', 'wrong_transport', 'ws_no_upgrade_hdr', 'post_nosid', 'origin'])
            if kind in ('no_eio', 'ws_no_upgrade_hdr', 'post_nosid'):
                ops.append(('bad', kind))
            elif kind == 'origin':
                ops.append(('bad', kind, s if rng.random() < 0.7 else None, rng.choice(['GET', 'POST'])))
            elif kind == 'bad_jsonp':
                ops.append(('bad', kind, s if rng.random() < 0.8 else None, rng.choice(['GET', 'POST'])))
            else:
                ops.append(('bad', kind, s if rng.random() < 0.8 else None))
    return ops


def run_history(kind, cfg, ops, rng=None, **extra):
    r = Runner(kind, cfg, rng, **extra)
    try:
        for op in ops:
            r.do(op)
    finally:
        r.close()
    return r
