"""C10: a client of this package talking to a server of this package.  The two existing deterministic drivers (rt.py for the
servers, crt.py for the clients) are wired back to back: whatever leaves the client (requests, WebSocket connection attempts,
frames, closes) is handed to the server driver as-is, and whatever the server answers is handed back.  Each side keeps its own
virtual clock; both are advanced in lock step by quanta of 1/8 s, the order inside a quantum being a schedule choice."""
import urllib.parse
import rt, crt

Q = 0.125


class Pair:
    def __init__(self, ckind, skind, I=1.0, T=1.0, server_kw=None, request_timeout=40):
        kw = dict(ping_interval=I, ping_timeout=T)
        kw.update(server_kw or {})
        self.ckind, self.skind = ckind, skind
        self.s = rt.DRIVERS[skind](**kw)
        self.c = crt.CDRIVERS[ckind](request_timeout=request_timeout)
        self.cpos = self.spos = 0
        self.r2h, self.rws = {}, {}        # server request id -> client request id / client socket id
        self.c2s, self.s2c = {}, {}        # socket ids client <-> server
        self.wire = []                     # everything that crossed, for explanations
        self.t = 0.0

    # ---- the wire
    def pump(self, budget=None):
        """hand over what is waiting on the wire; with a budget only that many items (the rest stays in flight)"""
        progress = True
        rounds = 0
        self._left = budget
        while progress:
            progress = False
            rounds += 1
            if rounds > 10000:
                raise RuntimeError('the two sides never become quiet')
            while self.cpos < len(self.c.trace):
                if self._spent():
                    return False
                e = self.c.trace[self.cpos]
                self.cpos += 1
                k = e[0]
                if k == 'http':
                    p = self.c.pending.get(e[1])
                    if p is None:
                        continue
                    u = urllib.parse.urlparse(p.url)
                    body = p.body if p.body is not None else b''
                    if isinstance(body, str):
                        body = body.encode('utf-8')
                    self.wire.append(('c>s', p.method, u.query, body[:80]))
                    rid = self.s.request(dict(method=p.method, path=u.path, query=u.query, body=body, headers={'Content-Type': 'text/plain'}))
                    self.r2h[rid] = e[1]
                    progress = True
                    self._use()
                elif k == 'wsconnect':
                    url = self.c.last_ws_url
                    u = urllib.parse.urlparse(url)
                    self.wire.append(('c>s', 'WS', u.query))
                    rid, scid = self.s.ws_open(dict(path=u.path, query=u.query, headers={'Upgrade': 'websocket', 'Connection': 'Upgrade'}))
                    self.rws[rid] = e[1]
                    self.c2s[e[1]] = scid
                    self.s2c[scid] = e[1]
                    progress = True
                    self._use()
                elif k == 'wssend':
                    self.wire.append(('c>s', 'frame', e[2] if isinstance(e[2], str) else bytes(e[2])))
                    if e[1] in self.c2s:
                        self.s.ws_send(self.c2s[e[1]], e[2])
                    progress = True
                    self._use()
                elif k == 'wsclose':
                    self.wire.append(('c>s', 'wsclose'))
                    if e[1] in self.c2s:
                        self.s.ws_close(self.c2s[e[1]])
                    progress = True
                    self._use()
            while self.spos < len(self.s.trace):
                if self._spent():
                    return False
                e = self.s.trace[self.spos]
                self.spos += 1
                k = e[0]
                if k == 'resp':
                    rid = e[1]
                    rec = self.s.rec[rid]
                    if rid in self.r2h:
                        st = rec.get('status')
                        self.wire.append(('s>c', st, (rec.get('body') or b'')[:80]))
                        if rec.get('raised') or not isinstance(st, int):
                            self.c.reply(self.r2h[rid], 500, b'')
                        else:
                            self.c.reply(self.r2h[rid], st, rec.get('body') or b'')
                        progress = True
                        self._use()
                    elif rid in self.rws:
                        ccid = self.rws[rid]
                        conn = self.s.conns[rec['conn']]
                        if not conn.accepted:
                            self.wire.append(('s>c', 'ws-refused'))
                            self.c.ws_answer(ccid, False)
                        else:
                            self.wire.append(('s>c', 'ws-ended'))
                            self.c.ws_srv_close(ccid)       # the handler returned: the gateway closes the connection
                        progress = True
                        self._use()
                elif k == 'ws':
                    ccid = self.s2c.get(e[1])
                    if ccid is None:
                        continue
                    if e[2] == 'accept':
                        self.wire.append(('s>c', 'ws-accept'))
                        self.c.ws_answer(ccid, True)
                    elif e[2] == 'close':
                        self.wire.append(('s>c', 'ws-close'))
                        self.c.ws_srv_close(ccid)
                    else:
                        self.wire.append(('s>c', 'frame', e[2][1]))
                        self.c.ws_frame(ccid, e[2][1])
                    progress = True
                    self._use()

    def _spent(self):
        return self._left is not None and self._left <= 0

    def _use(self):
        if self._left is not None:
            self._left -= 1

    def advance(self, seconds, order=None):
        """order: function() -> bool (client first?) per quantum"""
        n = int(round(seconds / Q))
        for _ in range(n):
            first = order() if order else True
            for side in ((0, 1) if first else (1, 0)):
                if side == 0:
                    self.c.advance(Q * crt.CTICK)
                else:
                    self.s.advance(Q)
                self.pump()
            self.t += Q

    # ---- the two applications
    def client_call(self, name, *args, budget=None, **kw):
        rec = self.c.call(name, *args, **kw)
        self.pump(budget)
        return rec

    def server_api(self, name, *args, budget=None):
        aid = self.s.api(name, *args)
        self.pump(budget)
        return self.s.calls[aid]

    def client_events(self):
        return [e for e in self.c.trace if e[0] == 'ev']

    def server_events(self):
        return [e for e in self.s.trace if e[0] == 'ev']

    def close(self):
        for d in (self.c, self.s):
            try:
                d.close()
            except BaseException:   # noqa
                pass
        if hasattr(self.c, '_keep'):
            self.c._keep.clear()
        if hasattr(self.s, '_keep'):
            self.s._keep.clear()
