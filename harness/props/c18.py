"""C18 — threaded and asyncio servers are observationally equivalent: the same histories on both, three-way with the model."""
import hsuite, hist, oracles, vlib
from props.c03 import TRUSTED, ASSUMPTIONS
COQCHK = False
PROFILE = dict(quick=450, thorough=30000, lengths=[10, 18, 28], finale=['drain', 'settle', 'sweep'],
               weights=dict(send=14, poll=14, post=14, frame=16, upgrade=6, open_ws=4, disc=4, disc_all=1, adv=12, bad=6, api=3, wsclose=4, open_rej=3), p_async=0.3, monitor=True)
RULE = ('seeded histories over the union of the stimuli used for C03-C07 and C12, each replayed step by step against the threaded server, the asyncio server and the model under '
        'deterministic scheduling and one virtual clock; the two implementations are compared on: events per session (kind, payload, order; the disconnect reason unless the end was '
        'caused by silence), application messages per session in order with their transport, refusal of requests, and liveness + transport of every session after each non-clock step '
        'and at the end. distinct = distinct (configuration, stimuli)')
SILENCE = {'ping timeout', 'transport close', 'transport error'}


def FIXED():
    """upgrade attempts that fail at each point (alone and overlapping) followed by traffic on polling; connect handlers that send"""
    out = [h for h in hsuite.overlapping_upgrades()[::2] if not any(o[0] == 'cancel' for o in h)]
    for bad in ([('frame', 0, ('pk', ('msg', 70, 'none')))], [('frame', 0, ('ping', True)), ('frame', 0, ('pk', ('msg', 71, 'none')))],
                [('frame', 0, ('ping', False))], [('wsclose', 0)], [('frame', 0, ('ping', True)), ('wsclose', 0)]):
        out.append([('open', 'polling', 'accept'), ('poll', 0), ('upgrade', 0)] + bad + [('send', 0, 1), ('poll', 0), ('send', 0, 2), ('poll', 0), ('post', 0, ('pk', [('msg', 3, 'none')]))])
    for opener in (('open', 'polling', 'accept_send'), ('open', 'websocket', 'accept_send', True)):
        out.append([opener, ('send', 0, 1)] + ([('poll', 0)] if opener[1] == 'polling' else []) + [('send', 0, 2)])
    return out


def first_silence(r):
    """first step in which a session is ended by silence (a timeout found while the clock advances)"""
    v = oracles.View(r)
    steps = [step for s in range(v.n) for step, k, d in v.events[s] if k == 'disconnect' and r.log[step][0] == 'adv' and d in SILENCE]
    return min(steps) if steps else len(r.log)


def obs(r, upto):
    """observables of the steps before `upto`.  Both servers detect silence within the heartbeat bound but not at the same
    instant (the asyncio WebSocket read times out by itself), so from the first end caused by silence on either side the two
    runs are no longer expected to coincide"""
    v = oracles.View(r)
    out = {}
    for s in range(v.n):
        evs = [(k, d) for step, k, d in v.events[s] if step < upto]
        # what the client of the session is handed, in order: the OPEN packet and the application messages, with their transport
        msgs = [(p if p == 'open' else p[1], ch[0]) for step, p, ch in v.pkts[s] if step < upto and (p == 'open' or (isinstance(p, tuple) and p[0] == 'msg'))]
        out[s] = (evs, msgs)
    refused = {}
    for rid in r.req_info:
        st = req_step(r, rid)
        if st < upto:
            step, x = v.resp.get(rid, (None, None))
            refused[rid] = step == st and (x in (400, 405) or (isinstance(x, tuple) and x[0] == 401))
    live = []
    for step, op in enumerate(r.log):
        if step < upto and op[0] != 'adv':
            live.append((step, {s: (f is not None and not f[0], bool(f and not f[0] and f[3])) for s, f in r.post[step].items()}))
    return out, refused, live


def req_step(r, rid):
    n = -1
    for step, op in enumerate(r.log):
        if op[0] in ('open', 'poll', 'post', 'upgrade', 'bad'):
            n += 1
            if n == rid:
                return step
    return -1


def compare(cfg, ops):
    """run one history on both servers; -> (runners, violation or None)"""
    pair = {}
    for kind in ('threaded', 'asyncio'):
        r, _ = hsuite.evaluate(kind, cfg, ops, [], ['drain', 'by-history'], seed=0)      # every live polling client reads until its queue is empty: *when* a message
        # is delivered depends on the order of simultaneous timers (not compared), *that* it is delivered does not
        pair[kind] = r
    upto = min(first_silence(pair['threaded']), first_silence(pair['asyncio']))
    # a stimulus whose precondition holds on one server only (a cancellation of a handshake task that one of them has already ended) is
    # executed by one runner only: from there on the two did not receive the same stimuli and their step numbers no longer correspond
    la, lb = pair['threaded'].log, pair['asyncio'].log
    common = next((i for i, (x, y) in enumerate(zip(la, lb)) if x != y), min(len(la), len(lb)))
    upto = min(upto, common)
    a, b = obs(pair['threaded'], upto), obs(pair['asyncio'], upto)
    case = dict(cfg=cfg.key(), ops=ops)
    disc_all = any(op == ('disc', None) for r in pair.values() for op in r.log[:upto])      # (the runners' logs: a stimulus whose precondition does not hold is not executed)
    v = None
    def d17(s):
        # the session was opened by a WebSocket request without 'Connection: upgrade' (finding D17: it is left on no transport)
        r0 = pair['threaded']
        for rid, info in r0.req_info.items():
            if info[0] == 'open' and info[1] == ('new', s):
                op = r0.log[req_step(r0, rid)]
                return op[1] == 'websocket' and len(op) > 3 and op[3] is False
        return False

    def same_session(s):
        x, y = a[0].get(s, ([], [])), b[0].get(s, ([], []))
        if x[0] != y[0]:
            return False
        if x[1] == y[1]:
            return True
        # one server may be ahead in *delivering* (simultaneous timers are served in a different order): what the other has not
        # delivered yet must still be in its queue, and what both delivered must agree, transport included
        short, long_, lag = (x[1], y[1], 'threaded') if len(x[1]) < len(y[1]) else (y[1], x[1], 'asyncio')
        rl = pair[lag]
        post = rl.post[:upto]                             # the comparison stops at `upto`: what matters is the queue at that point,
        alive = [p.get(s) for p in post if p.get(s) is not None and not p.get(s)[0]]      # or when the session was last alive
        queued = alive[-1][4] if alive else 0
        ended = not post or post[-1].get(s) is None or post[-1].get(s)[0]
        # ... and the lagging server must have had no occasion to deliver it: the comparison was cut before the end of the run, the
        # session has ended meanwhile (nothing can be read from it any more), or (by the history, not by the server's own mark) an
        # upgrade of the session is still in progress so that it cannot be read
        cut = upto < min(len(x.log) for x in pair.values())          # (the logs differ in length by the final reads alone)
        excused = cut or ended or oracles.handshake_in_progress(rl, s, len(rl.log) - 1)
        if ended:
            # what a session still held when it ended is not read any more on either server: only what was delivered must agree
            return long_[:len(short)] == short
        return excused and long_[:len(short)] == short and len(long_) - len(short) <= queued

    if any(not same_session(s) for s in set(a[0]) | set(b[0])):
        s = sorted(k for k in set(a[0]) | set(b[0]) if not same_session(k))[0]
        ea, eb = a[0].get(s, ([], []))[0], b[0].get(s, ([], []))[0]
        what = 'events' if ea != eb else 'messages'
        only_missing_server_disc = (eb == ea + [('disconnect', 'server disconnect')])
        v = dict(what='the two servers differ in the %s of a session' % what, case=dict(case, session=s, threaded=a[0].get(s), asyncio=b[0].get(s)),
                 facts=dict(clause='obs-' + what, disconnect_all=disc_all, threaded_lacks_server_disconnect=only_missing_server_disc, opened_without_connection_upgrade=d17(s)))
    elif a[1] != b[1]:
        rid = sorted(k for k in set(a[1]) | set(b[1]) if a[1].get(k) != b[1].get(k))[0]
        v = dict(what='the two servers differ in admitting a request', case=dict(case, rid=rid, threaded=a[1].get(rid), asyncio=b[1].get(rid)), facts=dict(clause='obs-admission', disconnect_all=disc_all))
    elif a[2] != b[2]:
        st = [x[0] for x, y in zip(a[2], b[2]) if x != y][0]
        v = dict(what='the two servers disagree on which sessions are alive / on their transport at a quiescent point',
                 case=dict(case, step=st, threaded=dict(a[2]).get(st), asyncio=dict(b[2]).get(st)), facts=dict(clause='obs-liveness', disconnect_all=disc_all))
    return pair, v, upto


def shrink(cfg, ops, clause, budget=50):
    cur = list(ops)
    i = len(cur) - 1
    best = None
    while i >= 0 and budget > 0:
        cand = cur[:i] + cur[i + 1:]
        budget -= 1
        try:
            _, v, _ = compare(cfg, cand)
        except Exception:
            v = None
        if v and v['facts']['clause'] == clause:
            cur, best = cand, v
        i -= 1
    return best


def run(ctx):
    res = vlib.Result()
    res.rule = RULE
    rng = ctx.rng
    runners = []
    shrunk = set()
    fixed = [(hist.Cfg(), ops) for ops in FIXED()]
    for h in range(len(fixed) + ctx.n(PROFILE['quick'], PROFILE['thorough'])):
        if h < len(fixed):
            cfg, ops = fixed[h]
        else:
            cfg = hsuite.gen_cfg(rng, PROFILE)
            ops = [o for o in hist.gen_history(rng, cfg, rng.choice(PROFILE['lengths']), PROFILE['weights']) if o[0] != 'cancelpoll']     # cancelling a long poll is a stimulus of the asyncio server only (threads cannot be cancelled): not part of the equivalence
        try:
            pair, v, upto = compare(cfg, ops)
        except Exception as e:
            res.errors.append('history crashed the harness: %s %s' % (type(e).__name__, str(e)[:200]))
            continue
        runners += list(pair.values())
        res.count((cfg.key(), tuple(map(repr, ops))), len(ops) > 3, 'len%d' % (5 * (len(ops) // 5)))
        res.dist['compared_steps'] += upto
        if v:
            key = (v['facts']['clause'], v['facts'].get('disconnect_all'))
            if key not in shrunk:
                shrunk.add(key)
                v = shrink(cfg, ops, v['facts']['clause']) or v
            res.violations.append(v)
    bad, errs = hist.check_histories(runners)
    res.errors += errs
    for b in bad[:20]:
        r = runners[b]
        res.mismatches.append(dict(suite='history', case=dict(server=r.kind, cfg=r.cfg.key(), ops=r.log), impl=r.outs, model=hist.explain(r) if len(res.mismatches) < 2 else '(not shown)'))
    res.traces = len(runners)
    return res


def search(ctx, res):
    return run(ctx).violations


def replay(payload):
    c = payload['case']
    cfg = hist.Cfg(*c['cfg'])
    ops = [hsuite.op_from_json(o) for o in c['ops']]
    pair, v, upto = compare(cfg, ops)
    print(v)
    return v is None
