"""C20 — middleware routing and static files: theories/Static.v against WSGIApp, ASGIApp and get_static_file."""
import asyncio, itertools, os, shutil, tempfile, types
import vlib
from vlib import qN, qNs, qtext, qpair, qlist, qbool, qopt

TRUSTED = ['os.path.isfile (os.path.exists before the fix of D21) is an oracle: the model is given the list of all regular files of the scratch tree and asks by normalised path (StaticRun.normpath, evaluation only)',
           'the implementation\'s os/open are observed through module attributes of engineio.middleware and engineio.async_drivers.asgi (no change to /repo)']
ASSUMPTIONS = ['paths and file names are ASCII; the configured index file name is trusted configuration',
               '/engine.io without trailing slash: WSGIApp treats it as outside, ASGIApp as inside the endpoint; both readings are accepted (DESIGN 6, D18)']
COQCHK = True
HEADER = 'From Coq Require Import NArith List Bool. Import ListNotations.\nFrom EIO Require Import Util Strings Static StaticRun.\nOpen Scope N_scope.\n'


def make_tree():
    root = tempfile.mkdtemp(prefix='eio-static-', dir=vlib.tmpdir())
    files = ['pub/index.html', 'pub/a.css', 'pub/sub/b.js', 'pub/sub/index.html', 'pub/noext', 'pub/default.htm', 'pub/sub/default.htm', 'pub/x.tar.gz',
             'secret.txt', 'other/default.htm', 'pub/pic.png']
    for f in files:
        p = os.path.join(root, f)
        os.makedirs(os.path.dirname(p), exist_ok=True)
        with open(p, 'w') as fh:
            fh.write('FILE:' + f)
    return root


def mappings(R):
    P = R + '/pub'
    return {
        'dir-noslash': {'/static': P},
        'dir-slash': {'/static/': P + '/'},
        'dir-mixed': {'/static': P + '/', '/assets/': P},
        'file+dir': {'/': P + '/index.html', '/static': P, '/one.txt': {'filename': P + '/a.css', 'content_type': 'text/plain'}},
        'dict-dir': {'/files/': {'filename': P + '/', 'content_type': 'text/x-custom'}, '/static': {'filename': P}},
        'default-str': {'/static/': P + '/', '': 'default.htm'},
        'default-dict': {'/static/': P + '/', '': {'filename': 'default.htm', 'content_type': 'text/x-default'}, '/files': {'filename': P, 'content_type': 'text/x-custom'}},
        'root-dir': {'/': P + '/'},
        'dict-dir-default': {'/docs/': {'filename': P + '/'}, '/plain': {'filename': P + '/sub'}, '': {'filename': 'default.htm', 'content_type': 'text/x-default'}},
        'empty-value': {'/static': '', '/ok': P},
        'none': {},
    }


PATHS = ['/docs/', '/docs/a.css', '/docs/sub/', '/docs/sub/b.js', '/plain/b.js', '/plain/', '/static//' , '/static//etc/hostname', '/docs//etc/passwd', '/', '', '*', 'noslash', '/static', '/static/', '/static/a.css', '/static/sub/b.js', '/static/sub/', '/static/sub', '/static/../secret.txt',
         '/static/sub/../../secret.txt', '/static/sub/../a.css', '/static/./a.css', '/static//a.css', '/static///' , '/static/%2e%2e/secret.txt', '/static/..%2fsecret.txt',
         '/staticx', '/staticx/a.css', '/stat', '/static/..', '/static/../', '/static/...', '/static/noext', '/static/missing.css', '/static/x.tar.gz', '/static/pic.png',
         '/one.txt', '/one.txt/more', '/files/a.css', '/files/', '/files', '/files/sub/', '/assets/a.css', '/assets/', '/assets', '/ok/a.css', '/a.css', '/index.html',
         '/sub/b.js', '/sub/', '/secret.txt', '/../secret.txt', '/static/sub/deeper/../../a.css', '/static/a.css/', '/STATIC/a.css', '//static/a.css', '/static/a.css?x',
         '/engine.io', '/engine.io/', '/engine.io/x', '/engine.io/../static/a.css', '/engine.iox', '/engine.iox/', '/engine.i', '/xengine.io/', '/x/engine.io/', '/eio/', '/eio', '/eio/poll',
         '/static/' + 'd/' * 12 + 'f.css']
ENDPOINTS = ['engine.io', '/engine.io', 'engine.io/', '/engine.io/', 'eio', '/']


class Rec:
    pass


def run_wsgi(R, ep, m, has_other, path, rec):
    import engineio, engineio.middleware as mw
    eng = types.SimpleNamespace(handle_request=lambda env, sr: (rec.hits.append('engine'), [b'ENGINE'])[1])

    def other(env, sr):
        rec.hits.append('other')
        sr('200 OK', [])
        return [b'OTHER']
    app = engineio.WSGIApp(eng, wsgi_app=other if has_other else None, static_files=m, engineio_path=ep)
    out = {}

    def sr(status, headers):
        out['status'], out['headers'] = status, headers
    body = app({'PATH_INFO': path, 'REQUEST_METHOD': 'GET'}, sr)
    return out, b''.join(body) if body is not None else b''


def run_asgi(R, ep, m, has_other, http, path, rec):
    import engineio

    class Eng:
        async def handle_request(self, scope, receive, send):
            rec.hits.append('engine')

    async def other(scope, receive, send):
        rec.hits.append('other')
    app = engineio.ASGIApp(Eng(), other_asgi_app=other if has_other else None, static_files=m, engineio_path=ep)
    sent = []

    async def receive():
        return {'type': 'http.request', 'body': b'', 'more_body': False}

    async def send(ev):
        sent.append(ev)
    asyncio.run(app({'type': 'http' if http else 'websocket', 'path': path, 'method': 'GET', 'headers': []}, receive, send))
    out = {}
    body = b''
    for ev in sent:
        if ev['type'] == 'http.response.start':
            out['status'] = str(ev['status'])
            out['headers'] = [(k.decode(), v.decode()) for k, v in ev['headers']]
        elif ev['type'] == 'http.response.body':
            body += ev['body']
    return out, body


def install_observers(rec):
    import engineio.middleware as mw, engineio.async_drivers.asgi as ag
    import builtins

    def exists(p):
        r = os.path.exists(p)
        rec.exists.append((p, r))
        return r

    def ropen(p, *a, **k):
        rec.opened.append(p)
        return builtins.open(p, *a, **k)
    def isfile(p):
        r = os.path.isfile(p)
        rec.exists.append((p, r))
        return r
    fake_os = types.SimpleNamespace(path=types.SimpleNamespace(exists=exists, isfile=isfile))
    for mod in (mw, ag):
        mod.os = fake_os
        mod.open = ropen


def remove_observers():
    import engineio.middleware as mw, engineio.async_drivers.asgi as ag
    for mod in (mw, ag):
        mod.os = os
        if 'open' in mod.__dict__:
            del mod.__dict__['open']


def entry_term(v):
    if isinstance(v, str):
        return '(EStr %s)' % qtext(v)
    return '(EDict %s %s)' % (qtext(v['filename']), qopt(qtext(v['content_type']) if 'content_type' in v else None))


def run(ctx):
    res = vlib.Result()
    res.rule = ('cross product: 10 static mappings (file, directory with/without trailing slash on key and on value, dict entries with explicit content types, default-file override as '
                'str and dict, falsy value, none) x 6 endpoint spellings x wrapped app present/absent x ~60 request paths (under/beside/prefix-sharing the endpoint, ., .., empty and '
                'encoded segments, missing leading slash, deep) x WSGIApp / ASGIApp (http and websocket scopes), against a scratch tree with a secret outside the roots; plus all '
                'lifespan scripts of length <=3 x callback outcomes. quick samples the product. distinct = distinct (middleware, mapping, endpoint, app, path); none trivial')
    rng = ctx.rng
    R = make_tree()
    maps = mappings(R)
    pristine = mappings(R)          # the model is always given the configuration as written, the implementation keeps one dict per mapping across requests
    realfiles = []
    for dp, _, fs in os.walk(R):
        realfiles += [os.path.join(dp, f) for f in fs]
    rec = Rec()
    terms, cases = [], []
    combos = list(itertools.product(['wsgi', 'asgi-http', 'asgi-ws'], maps, ENDPOINTS, [True, False], PATHS))
    rng.shuffle(combos)
    if not ctx.thorough:
        combos = combos[:ctx.n(2500, 0)]
    install_observers(rec)
    try:
        for (mwk, mname, ep, has_other, path) in combos:
            m = maps[mname]
            rec.hits, rec.exists, rec.opened = [], [], []
            case = dict(middleware=mwk, mapping=mname, endpoint=ep, wrapped_app=has_other, path=path)
            try:
                if mwk == 'wsgi':
                    out, body = run_wsgi(R, ep, m, has_other, path, rec)
                else:
                    out, body = run_asgi(R, ep, m, has_other, mwk == 'asgi-http', path, rec)
                raised = None
            except Exception as e:
                raised, out, body = type(e).__name__, {}, b''
            res.count(case, True, '%s:%s' % (mwk, mname))
            # classify what happened
            if raised:
                res.violations.append(dict(what='middleware raised %s' % raised, case=case, facts=dict(clause='raises', exc=raised, mapping=mname, path_kind='dir-key' if path.rstrip('/') in ('/static', '/files', '/assets', '/ok', '') else 'other')))
                continue
            if rec.hits == ['engine']:
                got = ('Engine',)
            elif rec.hits == ['other']:
                got = ('Other',)
            elif rec.opened:
                ct = [v for k, v in out.get('headers', []) if k.lower() == 'content-type']
                got = ('File', rec.opened[0], ct[0] if ct else '')
            elif out.get('status', '').startswith('404'):
                got = ('NotFound',)
            else:
                got = ('Unknown', out.get('status'))
            # ---- oracle, written from the property statement
            epn = '/' + ep.strip('/') + '/' if ep.strip('/') else '/'
            under = path.startswith(epn) or (mwk != 'wsgi' and (path + '/').startswith(epn))
            facts = dict(middleware=mwk, mapping=mname)
            if (got[0] == 'Engine') != under and not (mwk == 'wsgi' and (path + '/') == epn):
                res.violations.append(dict(what='engine reached although path is not under the endpoint' if got[0] == 'Engine' else 'path under the endpoint did not reach the engine',
                                           case=dict(case, got=got), facts=dict(facts, clause='route-engine')))
            if got[0] == 'File':
                real = os.path.realpath(got[1])
                roots = []
                for k, v in m.items():
                    fn = v if isinstance(v, str) else v['filename']
                    if fn and k != '':
                        roots.append(os.path.realpath(fn))
                inside = any(real == r or real.startswith(r.rstrip('/') + '/') for r in roots)
                if not inside:
                    res.violations.append(dict(what='static file served from outside the mapped file/directory', case=dict(case, served=os.path.relpath(real, R)), facts=dict(facts, clause='contained')))
                if body != b'FILE:' + os.path.relpath(real, R).encode():
                    res.violations.append(dict(what='served content is not the content of the mapped file', case=case, facts=dict(facts, clause='content')))
                # content type: the mapping's explicit one, the index override's for a directory index, else by extension
                pm = pristine[mname]
                key, pth = None, path
                while True:
                    if pth in pm:
                        key = pth; break
                    if pth + '/' in pm and pth != path:
                        key = pth + '/'; break
                    if pth == '':
                        break
                    pth = pth.rpartition('/')[0]
                ent = pm.get(key) if key is not None else None
                explicit = ent.get('content_type') if isinstance(ent, dict) else None
                is_index = not os.path.relpath(real, R).endswith(path.rpartition('/')[2]) or path.endswith('/')
                okct = set()
                dflt = pm.get('')
                if is_index and isinstance(dflt, dict) and 'content_type' in dflt:
                    okct.add(dflt['content_type'])
                elif explicit is not None:
                    okct.add(explicit)
                else:
                    okct.add({'css': 'text/css', 'gif': 'image/gif', 'html': 'text/html', 'jpg': 'image/jpeg', 'js': 'application/javascript', 'json': 'application/json',
                              'png': 'image/png', 'txt': 'text/plain'}.get(real.rsplit('.')[-1], 'application/octet-stream'))
                if got[2] not in okct:
                    res.violations.append(dict(what='static file served with a content type that is neither the mapping\'s nor that of its extension',
                                               case=dict(case, content_type=got[2], acceptable=sorted(okct)), facts=dict(facts, clause='content-type')))
                if mwk == 'asgi-ws':
                    res.violations.append(dict(what='static file served on a websocket scope', case=case, facts=dict(facts, clause='ws-static')))
            if got[0] == 'Unknown':
                res.violations.append(dict(what='response is none of engine / file / wrapped app / 404', case=dict(case, got=got), facts=dict(facts, clause='route')))
            if got[0] == 'Other' and not has_other or got[0] == 'NotFound' and has_other:
                res.violations.append(dict(what='wrapped application / 404 fallback chosen wrongly', case=dict(case, got=got), facts=dict(facts, clause='fallback')))
            # ---- model term
            files = realfiles
            if got[0] == 'File':
                exp = '(File %s %s)' % (qtext(got[1]), qtext(got[2]))
            elif got[0] == 'Unknown':
                exp = 'NotFound'
            else:
                exp = got[0]
            mterm = qlist([qpair(qtext(k), entry_term(v)) for k, v in pristine[mname].items()])
            terms.append(qpair(qbool(mwk == 'wsgi'), qopt(qtext(ep)), mterm, qbool(has_other), qbool(mwk != 'asgi-ws'), qtext(path), 'files', exp))
            cases.append(dict(case, got=[g if not isinstance(g, str) else g.replace(R, '<R>') for g in got]))
        # ASGIApp with engineio_path=None: everything to the engine
        for path in PATHS[:12]:
            rec.hits, rec.exists, rec.opened = [], [], []
            run_asgi(R, None, maps['dir-noslash'], True, True, path, rec)
            res.count(dict(middleware='asgi', endpoint=None, path=path), True, 'asgi:none-endpoint')
            if rec.hits != ['engine']:
                res.violations.append(dict(what='engineio_path=None did not route to the engine', case=dict(path=path), facts=dict(clause='route-engine', middleware='asgi-none')))
            terms.append(qpair('false', 'None', '[]', 'true', 'true', qtext(path), 'files', 'Engine'))
            cases.append(dict(middleware='asgi', endpoint=None, path=path))
    finally:
        remove_observers()
    # ---- lifespan
    lterms, lcases = lifespan_cases(res, ctx)
    b1, e1 = vlib.model_mismatches(HEADER + 'Definition files : list text := %s.\n' % qlist([qtext(f) for f in realfiles]), terms, 'check_route', shard=250, ctype='bool * option text * smap * bool * bool * text * list text * target')
    b2, e2 = vlib.model_mismatches(HEADER, lterms, 'check_lifespan', shard=500, ctype='bool * option bool * option bool * list lev * list lout')
    res.errors += e1 + e2
    res.mismatches += [dict(suite='route', case=cases[b]) for b in b1[:30]]
    res.mismatches += [dict(suite='lifespan', case=lcases[b]) for b in b2[:30]]
    shutil.rmtree(R, True)
    return res


def lifespan_cases(res, ctx):
    import engineio
    terms, cases = [], []
    evnames = {'S': 'lifespan.startup', 'D': 'lifespan.shutdown', 'U': 'lifespan.unknown'}
    cbs = [None, 'ok', 'raise', 'aok', 'araise']
    for other in (True, False):
        for s in cbs:
            for t in cbs:
                for L in range(1, 4):
                    for script in itertools.product('SDU', repeat=L):
                        if 'D' not in script:
                            script = script + ('D',)          # the server always ends the protocol with a shutdown
                        sent, hits = [], []

                        def mk(kind):
                            if kind is None:
                                return None
                            if kind == 'ok':
                                return lambda: None
                            if kind == 'raise':
                                def f():
                                    raise RuntimeError('cb')
                                return f
                            if kind == 'aok':
                                async def g():
                                    return None
                                return g
                            async def h():
                                raise RuntimeError('cb')
                            return h

                        async def otherapp(scope, receive, send):
                            hits.append('other')
                        evs = [{'type': evnames[c]} for c in script]

                        async def receive():
                            if evs:
                                return evs.pop(0)
                            await asyncio.sleep(3600)

                        async def send(ev):
                            sent.append(ev['type'])
                        app = engineio.ASGIApp(types.SimpleNamespace(), other_asgi_app=otherapp if other else None, on_startup=mk(s), on_shutdown=mk(t))
                        case = dict(part='lifespan', wrapped_app=other, on_startup=s, on_shutdown=t, script=''.join(script))
                        try:
                            asyncio.run(asyncio.wait_for(app({'type': 'lifespan'}, receive, send), 5))
                        except Exception as e:
                            res.violations.append(dict(what='lifespan handling raised %s' % type(e).__name__, case=case, facts=dict(clause='lifespan-raises')))
                            continue
                        res.count(case, True, 'lifespan')
                        got = ['Delegated'] if hits else [{'lifespan.startup.complete': 'StartupComplete', 'lifespan.startup.failed': 'StartupFailed',
                                                           'lifespan.shutdown.complete': 'ShutdownComplete', 'lifespan.shutdown.failed': 'ShutdownFailed'}.get(x, 'Delegated') for x in sent]
                        # oracle: per protocol
                        want = []
                        if other and s is None and t is None:
                            want = ['Delegated']
                        else:
                            for c in script:
                                if c == 'S':
                                    if s in ('raise', 'araise'):
                                        want.append('StartupFailed'); break
                                    want.append('StartupComplete')
                                elif c == 'D':
                                    want.append('ShutdownFailed' if t in ('raise', 'araise') else 'ShutdownComplete'); break
                        if got != want:
                            res.violations.append(dict(what='lifespan events are not answered per protocol', case=dict(case, got=got, want=want), facts=dict(clause='lifespan')))
                        cb = lambda k: 'None' if k is None else '(Some %s)' % qbool(k in ('ok', 'aok'))
                        terms.append(qpair(qbool(other), cb(s), cb(t), qlist([{'S': 'LStartup', 'D': 'LShutdown', 'U': 'LUnknown'}[c] for c in script]), qlist(got)))
                        cases.append(dict(case, got=got))
    return terms, cases


def search(ctx, res):
    return run(ctx).violations


def replay(payload):
    c = payload['case']
    if 'mapping' not in c:
        return True
    R = make_tree()
    rec = Rec(); rec.hits, rec.exists, rec.opened = [], [], []
    install_observers(rec)
    try:
        m = mappings(R)[c['mapping']]
        if c['middleware'] == 'wsgi':
            out, body = run_wsgi(R, c['endpoint'], m, c['wrapped_app'], c['path'], rec)
        else:
            out, body = run_asgi(R, c['endpoint'], m, c['wrapped_app'], c['middleware'] == 'asgi-http', c['path'], rec)
        print(out, body, rec.hits, [os.path.relpath(os.path.realpath(p), R) for p in rec.opened])
        ok = not any(os.path.relpath(os.path.realpath(p), R).startswith(('secret', '..')) for p in rec.opened)
    except Exception as e:
        print('raised', type(e).__name__, e)
        ok = False
    finally:
        remove_observers()
        shutil.rmtree(R, True)
    return ok
