"""C19 — compression and JSONP: theories/Transform.v, Jsonp.v against both servers' polling responses."""
import gzip, json, zlib
import vlib, rt, hx
from vlib import qN, qNs, qtext, qpair, qlist, qbool, qopt, qnat
from props import c01

TRUSTED = ['gzip/zlib and the UTF-8 codec are standard-library oracles (O4); the harness undoes the declared encoding with the real gzip/zlib',
           'json.dumps string escaping is modelled exactly (Jsonp.js_quote) and compared character by character with the response']
ASSUMPTIONS = ['q-values in Accept-Encoding are ignored by the code, including q=0 (DESIGN 7.5)', 'payload text without lone surrogates (it could not be sent as UTF-8 at all)']
COQCHK = True
HEADER = 'From Coq Require Import NArith List Bool. Import ListNotations.\nFrom EIO Require Import Util Strings Jsonp Transform TransformRun.\nOpen Scope N_scope.\n'

ACCEPTS = [None, '', 'gzip', 'deflate', 'gzip, deflate', 'deflate, gzip', 'br', 'br, gzip', 'identity;q=1, deflate;q=0.5', 'gzip;q=0', ' gzip ', 'gzip ; q=1',
           'GZIP', 'x-gzip', 'gzip,deflate', ',,gzip', 'deflate;level=9, gzip', '*', 'gzipp', 'de flate', 'br;q=1.0, *;q=0.1', '\tdeflate\t', 'compress, br']
NASTY = ['plain', 'q"uote', 'back\\slash', 'nl\nnl', 'cr\rcr', 'ls ps ', 'ctl\x00\x01\x1f\x7f', 'é€', '\U0001f600 astral', '</script>', "single'quote",
         '\\"', '\\', '"', '\\n', 'tab\t', '\x08\x0c\x0b', 'mix"\\\n \U0001f600', ');alert(1);("', '\x1e inner']


def js_eval(lit):
    """evaluate the inside of an ECMAScript double-quoted string literal -> python str of UTF-16 units (as code points), or None"""
    out, i = [], 0
    simple = {'n': 10, 'r': 13, 't': 9, 'b': 8, 'f': 12, 'v': 11, '0': 0}
    while i < len(lit):
        c = lit[i]
        if c == '"' or c in '\n\r  ':
            return None
        if c == '\\':
            if i + 1 >= len(lit):
                return None
            e = lit[i + 1]
            if e == 'u':
                h = lit[i + 2:i + 6]
                if len(h) != 4 or any(x not in '0123456789abcdefABCDEF' for x in h):
                    return None
                out.append(int(h, 16)); i += 6; continue
            if e in simple:
                out.append(simple[e])
            elif e in 'x123456789\n\r  ':
                return None
            else:
                out.append(ord(e))
            i += 2; continue
        o = ord(c)
        if o < 0x10000:
            out.append(o)
        else:
            out += [0xd800 + (o - 0x10000) // 1024, 0xdc00 + (o - 0x10000) % 1024]
        i += 1
    return out


def utf16_units(s):
    out = []
    for ch in s:
        o = ord(ch)
        out += [o] if o < 0x10000 else [0xd800 + (o - 0x10000) // 1024, 0xdc00 + (o - 0x10000) % 1024]
    return out


def undo_encoding(rec):
    ce = rt.header(rec, 'Content-Encoding')
    body = rec['body']
    if len(ce) > 1:
        return None, ce, 'more than one Content-Encoding'
    if not ce:
        return body, None, None
    try:
        if ce[0] == 'gzip':
            return gzip.decompress(body), 'gzip', None
        if ce[0] == 'deflate':
            return zlib.decompress(body), 'deflate', None
    except Exception as e:
        return None, ce[0], 'declared %s but the body does not decompress (%s)' % (ce[0], type(e).__name__)
    return None, ce[0], 'unknown Content-Encoding %r' % ce[0]


def spec_pick(accept):
    for tok in (accept or '').split(','):
        t = tok.split(';')[0].strip()
        if t in ('gzip', 'deflate'):
            return t
    return None


def run(ctx):
    res = vlib.Result()
    res.rule = ('(a) compression: http_compression x threshold (1, 8, 64, 1024) x body length threshold-2..threshold+2 (and far below/above) x 23 Accept-Encoding '
                'shapes x response kind (poll payload, OPEN handshake, POST OK, 400) x both servers; (b) JSONP: index values x payloads with quotes, backslashes, '
                'CR/LF, U+2028/9, controls, non-BMP, binary, JSON, several packets, with and without compression, both servers. distinct = distinct '
                '(server, configuration, request, payload); all are non-trivial')
    rng = ctx.rng
    pick_terms, pick_cases, js_terms, js_cases = [], [], [], []
    for drv_kind in ('threaded', 'asyncio'):
        # ---------------- (a) compression
        for comp in (True, False):
            for th in (1, 8, 64, 1024):
                d = rt.DRIVERS[drv_kind](http_compression=comp, compression_threshold=th, ping_interval=1000, ping_timeout=1000, monitor_clients=False, cors_allowed_origins=[])
                try:
                    _, sid = hx.open_polling(d)
                    lens = sorted(set(x for x in [1, 2, th - 2, th - 1, th, th + 1, th + 2, 4 * th + 7] if x >= 1))
                    for n in lens:
                        for acc in (ACCEPTS if ctx.thorough else rng.sample(ACCEPTS, ctx.n(9, 23))):
                            hdrs = {} if acc is None else {'Accept-Encoding': acc}
                            kind = rng.choice(['poll', 'poll', 'poll', 'post', 'bad', 'open'])
                            if kind == 'poll':
                                data = 'x' * (n - 1) if n >= 1 else ''
                                d.api('send', sid, data)
                                rid = d.request(dict(method='GET', query='transport=polling&sid=' + sid, headers=hdrs))
                                want = ('4' + data).encode()
                            elif kind == 'post':
                                rid = d.request(dict(method='POST', query='transport=polling&sid=' + sid, headers=hdrs, body=b'4m'))
                                want = b'OK'
                            elif kind == 'bad':
                                rid = d.request(dict(method='GET', query='transport=polling&sid=nosuchsid' + 'z' * n, headers=hdrs))
                                want = None
                            else:
                                rid = d.request(dict(method='GET', query='EIO=4&transport=polling', headers=hdrs))
                                want = None
                            rec = d.response(rid)
                            case = dict(part='compression', server=drv_kind, compression=comp, threshold=th, accept=acc, kind=kind, length=n)
                            res.count(case, True, 'comp:%s:%s' % (kind, 'on' if comp else 'off'))
                            if rec is None or 'body' not in rec:
                                res.violations.append(dict(what='request did not complete with a response', case=case, facts=dict(clause='completes')))
                                continue
                            plain, declared, problem = undo_encoding(rec)
                            facts = dict(server=drv_kind, kind=kind, compression=comp, clause='encoding')
                            if problem:
                                res.violations.append(dict(what='Content-Encoding is wrong: ' + problem, case=case, facts=facts))
                                continue
                            if want is not None and plain != want:
                                res.violations.append(dict(what='body after undoing the declared encoding is not the payload', case=dict(case, got=plain[:60]), facts=dict(facts, clause='lossless')))
                            offered = spec_pick(acc)
                            should = offered if (comp and len(plain) >= th) else None
                            if declared != should:
                                res.violations.append(dict(what='Content-Encoding declared %r but the statement requires %r' % (declared, should), case=dict(case, plain_len=len(plain)),
                                                           facts=dict(facts, clause='declared-iff', declared=declared, required=should)))
                            pick_terms.append(qpair(qbool(comp), qN(th), qopt(qtext(acc) if acc is not None else None), qnat(len(plain)),
                                                    qopt({'gzip': 'Gzip', 'deflate': 'Deflate'}.get(declared))))
                            pick_cases.append(dict(case, declared=declared, plain_len=len(plain)))
                finally:
                    d.close()
        # ---------------- (b) JSONP
        for comp_th in ((False, 1024), (True, 4)):
            d = rt.DRIVERS[drv_kind](http_compression=comp_th[0], compression_threshold=comp_th[1], ping_interval=1000, ping_timeout=1000, monitor_clients=False)
            try:
                # a long-poll that completes with no packet at all (the session is closed by a CLOSE packet while it waits):
                # the response carries the empty payload
                for jq, jout in ((None, None), ('7', '7'), ('12', '12')):
                    _, sid = hx.open_polling(d)
                    rid = d.request(dict(method='GET', query='transport=polling&sid=%s%s' % (sid, '&j=' + jq if jq else '')))
                    d.request(dict(method='POST', query='transport=polling&sid=' + sid, body=b'1'))
                    rec = d.response(rid)
                    case = dict(part='empty-poll', server=drv_kind, index=jq, compression=comp_th[0])
                    res.count(case, True, 'empty-poll')
                    if rec is None:
                        continue                     # (the asyncio server has no end marker: its poll stays pending; C03/C15 territory)
                    if rec.get('status') == 200:
                        plain, declared, problem = undo_encoding(rec)
                        text = (plain or b'').decode('utf-8')
                        want = '' if jq is None else '___eio[%s]("");' % jout
                        if problem or text != want:
                            res.violations.append(dict(what='a poll answered with no packets does not carry the empty payload', case=dict(case, body=text[:60]),
                                                       facts=dict(clause='empty-payload', server=drv_kind, jsonp=jq is not None)))
                        if jq is not None:
                            js_terms.append(qpair(qtext(jout), qtext(''), qtext(text)))
                            js_cases.append(dict(case, body=text))
                for _ in range(ctx.n(60, 600)):
                    jq, jout = rng.choice([('0', '0'), ('1', '1'), ('233', '233'), ('007', '7'), ('99999999999999999999', '99999999999999999999'), ('-1', '-1'), ('+5', '5')])
                    hdrs = rng.choice([{}, {'Accept-Encoding': 'gzip'}, {'Accept-Encoding': 'deflate'}])
                    if rng.random() < 0.15:
                        rid = d.request(dict(method='GET', query='EIO=4&transport=polling&j=' + jq, headers=hdrs))
                        pk, msgs = None, None
                    else:
                        _, sid = hx.open_polling(d)
                        msgs = []
                        for _k in range(rng.choice([1, 1, 2, 3])):
                            r = rng.random()
                            m = rng.choice(NASTY) if r < 0.6 else c01.gen_bytes(rng)[:20] if r < 0.75 else c01.gen_container(rng) if r < 0.9 else c01.gen_text(rng).replace('\ud800', '?').replace('\ud83d', '?')[:80]
                            if isinstance(m, str) and any(0xd800 <= ord(ch) < 0xe000 for ch in m):
                                m = 'nosurrogate'
                            msgs.append(m)
                            d.api('send', sid, m)
                        rid = d.request(dict(method='GET', query='transport=polling&sid=%s&j=%s' % (sid, jq), headers=hdrs))
                        pk = '\x1e'.join(c01.spec_wire(4, m, True) for m in msgs)
                    rec = d.response(rid)
                    case = dict(part='jsonp', server=drv_kind, index=jq, messages=msgs, compression=comp_th[0], accept=hdrs.get('Accept-Encoding'))
                    res.count(case, True, 'jsonp:' + ('open' if msgs is None else str(len(msgs))))
                    if rec is None or 'body' not in rec or rec.get('status') != 200:
                        res.violations.append(dict(what='JSONP request did not complete with 200', case=case, facts=dict(clause='completes')))
                        continue
                    plain, declared, problem = undo_encoding(rec)
                    if problem:
                        res.violations.append(dict(what='Content-Encoding is wrong: ' + problem, case=case, facts=dict(clause='encoding', server=drv_kind)))
                        continue
                    text = plain.decode('utf-8')
                    pre, post = '___eio[%s]("' % jout, '");'
                    facts = dict(server=drv_kind, clause='jsonp')
                    if not (text.startswith(pre) and text.endswith(post)):
                        res.violations.append(dict(what='JSONP body is not one ___eio[<index>]("...") call statement', case=dict(case, body=text[:80]), facts=facts))
                        continue
                    units = js_eval(text[len(pre):-len(post)])
                    if pk is None:          # OPEN handshake: payload is whatever packet text the literal evaluates to; it must parse as an OPEN packet
                        ok = units is not None and ''.join(map(chr, units)).startswith('0{') and 'sid' in json.loads(''.join(map(chr, units))[1:])
                        pk = ''.join(map(chr, units)) if ok else None
                        if not ok:
                            res.violations.append(dict(what='JSONP handshake literal does not evaluate to an OPEN packet', case=dict(case, body=text[:80]), facts=facts))
                            continue
                    elif units != utf16_units(pk):
                        bad = next((ch for m in msgs if isinstance(m, str) for ch in m if ch in '\\\n\r  '), None)
                        res.violations.append(dict(what='evaluating the JSONP string literal does not give the payload', case=dict(case, body=text[:120]),
                                                   facts=dict(facts, special=repr(bad))))
                    js_terms.append(qpair(qtext(jout), qtext(pk), qtext(text)))
                    js_cases.append(dict(case, body=text))
            finally:
                d.close()
    b1, e1 = vlib.model_mismatches(HEADER, pick_terms, 'check_pick', shard=500, ctype='bool * N * option text * nat * option enc')
    b2, e2 = vlib.model_mismatches(HEADER, js_terms, 'check_jsonp', shard=200, ctype='text * text * text')
    res.errors += e1 + e2
    res.mismatches += [dict(suite='compression', case=pick_cases[b]) for b in b1[:30]]
    res.mismatches += [dict(suite='jsonp', case=js_cases[b]) for b in b2[:30]]
    return res


def search(ctx, res):
    return run(ctx).violations


def replay(payload):
    c = payload['case']
    if c.get('part') == 'jsonp' and c.get('messages') is not None:
        d = rt.DRIVERS[c['server']](http_compression=False, ping_interval=1000, ping_timeout=1000, monitor_clients=False)
        _, sid = hx.open_polling(d)
        for m in c['messages']:
            d.api('send', sid, bytes.fromhex(m['bytes']) if isinstance(m, dict) and set(m) == {'bytes'} else m)
        rec = d.response(d.request(dict(method='GET', query='transport=polling&sid=%s&j=%s' % (sid, c['index']))))
        text = rec['body'].decode('utf-8')
        print(text)
        d.close()
        i = text.index('("') + 2
        pk = '\x1e'.join(c01.spec_wire(4, bytes.fromhex(m['bytes']) if isinstance(m, dict) else m, True) for m in c['messages'])
        return js_eval(text[i:-3]) == utf16_units(pk)
    return True
