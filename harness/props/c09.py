"""C09 — client protocol conduct: theories/Client.v and theories/Url.v against engineio.Client / engineio.AsyncClient."""
import urllib.parse
import vlib
from vlib import qtext, qbool, qpair
import props.c08 as c08
TRUSTED = c08.TRUSTED + ['urllib.parse.urlparse is an oracle of the URL model: the model takes the (scheme, netloc, query) it returns']
ASSUMPTIONS = c08.ASSUMPTIONS + ['the silence bound allows one request time-out (40 ticks) on top of interval + timeout + 5 s for a request that is in flight when the silence starts']
COQCHK = False
RULE = c08.RULE + ('; plus a grid of URLs (scheme x host/port/userinfo x path x query x engineio_path x transport) for _get_engineio_url against Url.engineio_url')
HEADER = ('From Coq Require Import NArith List Bool. Import ListNotations.\nFrom EIO Require Import Util Strings Url.\nOpen Scope N_scope.\n'
          'Definition check_url (c : text * text * text * text * bool * text) : bool :=\n'
          "  let '(sch, net, q, path, w, want) := c in eqbl (engineio_url sch net q path w) want.\n")


def url_cases(ctx):
    rng = ctx.rng
    schemes = ['http', 'https', 'ws', 'wss', 'HTTP', 'Https', 'WSS', 'ftp', '']
    hosts = ['host', 'host.example:8080', 'user:pw@h:1', '[::1]:5000', '127.0.0.1', 'xn--bcher-kva.example', 'hé.example']
    paths = ['', '/', '/app', '/a/b/', '//x']
    queries = ['', 'a=b', 'a=b&c=d', 'x=%20y&z', 'transport=foo', 'EIO=3&t=1', 'q=é']
    epaths = ['engine.io', '/engine.io/', 'socket.io', '//a/b//', '', '/', 'a b', '/x/../y']
    out = []
    for s in schemes:
        for h in hosts:
            for _ in range(ctx.n(6, 60)):
                url = (s + '://' if s else '//') + h + rng.choice(paths)
                q = rng.choice(queries)
                if q:
                    url += '?' + q
                if rng.random() < 0.2:
                    url += '#frag'
                out.append((url, rng.choice(epaths), rng.choice(['polling', 'websocket'])))
    return out


def url_suite(ctx, res):
    from engineio import base_client
    c = base_client.BaseClient()
    cases, terms = [], []
    for url, ep, tr in url_cases(ctx):
        got = c._get_engineio_url(url, ep, tr)
        pu = urllib.parse.urlparse(url)
        cases.append((url, ep, tr, got))
        terms.append('(%s, %s, %s, %s, %s, %s)' % (qtext(pu.scheme), qtext(pu.netloc), qtext(pu.query), qtext(ep), qbool(tr == 'websocket'), qtext(got)))
        res.count((url, ep, tr), True, 'url:%s' % (pu.scheme.lower() or 'none'))
        # the property, stated on the result alone
        g = urllib.parse.urlsplit(got)
        want_scheme = ('ws' if tr == 'websocket' else 'http') + ('s' if pu.scheme in ('https', 'wss') else '')
        want_q = (pu.query + '&' if pu.query else '') + 'transport=%s&EIO=4' % tr
        ok = (got.startswith(want_scheme + '://' + pu.netloc + '/') and got.endswith('/?' + want_q) and
              got[len(want_scheme + '://' + pu.netloc + '/'):-len('/?' + want_q)] == ep.strip('/'))
        if not ok:
            res.violations.append(dict(what='the connection URL does not keep the endpoint and query of the caller, map the scheme or request EIO=4',
                                       case=dict(url=url, engineio_path=ep, transport=tr, got=got), facts=dict(clause='url', transport=tr, scheme=pu.scheme)))
    bad, errs = vlib.model_mismatches(HEADER, terms, 'check_url', shard=400)
    res.errors += errs
    for b in bad[:10]:
        res.mismatches.append(dict(suite='url', case=dict(url=cases[b][0], engineio_path=cases[b][1], transport=cases[b][2]), impl=cases[b][3]))
    res.traces += len(cases)


def run(ctx):
    res = c08.run_suite(ctx, 'C09', ('c09',), 350, 40000)
    url_suite(ctx, res)
    return res


def search(ctx, res):
    return run(ctx).violations


replay = c08.replay
