"""C02 — payload framing: theories/Payload.v against engineio.payload.Payload."""
import itertools, signal, urllib.parse
import vlib
from vlib import qN, qNs, qtext, qbytes, qpair, qlist, qbool, qopt, qnat
from props import c01

TRUSTED = c01.TRUSTED + ['urllib.parse.parse_qs is a standard-library oracle (O3), answered from a logged table',
                         '"does not hang" is observed under a wall-clock watchdog around every implementation call; the model\'s decode is a total structurally recursive function']
ASSUMPTIONS = c01.ASSUMPTIONS + ['O3: parse_qs returns field d of the form', 'json.dumps output contains no raw U+001E (hypothesis of c02_roundtrip)']
COQCHK = True
HEADER = c01.HEADER
LIMIT = 16


class Hang(Exception):
    pass


def with_watchdog(fn, secs=10):
    def h(sig, frm):
        raise Hang()
    old = signal.signal(signal.SIGALRM, h)
    signal.alarm(secs)
    try:
        return fn()
    finally:
        signal.alarm(0)
        signal.signal(signal.SIGALRM, old)


def form_oracle(body):
    try:
        return urllib.parse.parse_qs(body)['d'][0]
    except Exception:
        return None


def gen_packet(rng, allow_sep=False):
    k = rng.random()
    ty = rng.randrange(7)
    if k < 0.4:
        d = c01.gen_text(rng)
        if len(d) > 150:
            d = d[:150]
        if not allow_sep:
            d = d.replace('\x1e', '~')
    elif k < 0.6:
        d, ty = c01.gen_bytes(rng)[:40], 4
    elif k < 0.9:
        d = c01.gen_container(rng)
    else:
        d = None
    return ty, d


def gen_lists(ctx):
    rng = ctx.rng
    out = [[], [(4, 'a')], [(4, 'a'), (4, 'b')], [(4, b'\x00\x01'), (4, 'x'), (6, None)], [(4, '\x1e')], [(4, 'a\x1eb'), (2, None)]]
    for n in (15, 16, 17, 18, 20):
        out.append([(4, 'm%d' % i) for i in range(n)])
        out.append([(rng.choice([2, 3, 4, 6]), rng.choice([None, 'x', [1], b'ab'][:3] + [b'ab'])) if True else None for i in range(n)])
    for _ in range(ctx.n(250, 4000)):
        n = rng.choice([0, 1, 1, 2, 2, 3, 4, 5, 8, 12, 15, 16, 17, 18, 20])
        sep = rng.random() < 0.1
        out.append([gen_packet(rng, sep) for _ in range(n)])
    # binary data is only legal for MESSAGE
    return [[(4 if isinstance(d, (bytes, bytearray)) else t, d) for (t, d) in l] for l in out]


ADV = ['4', '0', '1', '6', '7', 'b', '\x1e', '"', '[', ']', 'Q', '=', 'x', 'd', '٣']


def gen_bodies(ctx):
    rng = ctx.rng
    out = ['', '\x1e', '\x1e\x1e', '4\x1e', '\x1e4', '4a\x1e4b', 'd=', 'd=4a', 'd=4a%1E4b', 'd=4a\x1e4b', 'd=%1E', 'x=1&d=4a', 'd=4a&d=4b', 'd=4a&x=%1E',
           'd', 'd4', 'bQQ==\x1e4x', 'bQ\x1e4x', '4x\x1ebQ', '4[1\x1e4]', '4"\x1e"', '9x\x1e٣y', '4' + 'a' * 400]
    for n in (15, 16, 17, 18, 40):
        out.append('\x1e'.join(['4m'] * n))
        out.append('\x1e'.join(['4m'] * (n - 1) + ['x']))      # last segment undecodable
        out.append('\x1e'.join(['x'] + ['4m'] * (n - 1)))
        out.append('d=' + urllib.parse.quote('\x1e'.join(['4m'] * n)))
        out.append('d=' + '\x1e'.join(['4m'] * n))
    L = 4 if ctx.thorough else 3
    alpha = ADV if ctx.thorough else ADV[:11]
    for l in range(1, L + 1):
        for t in itertools.product(alpha, repeat=l):
            out.append(''.join(t))
    for _ in range(ctx.n(500, 8000)):
        n = rng.choice([2, 3, 5, 8, 13, 30, 80, 400])
        s = ''.join(rng.choice(ADV + ['%', '1', 'E', '&', 'A', 'g', '+', '/', ' ', '{', '}', ':', ',', 'é']) for _ in range(n))
        if rng.random() < 0.2:
            s = 'd=' + s
        if rng.random() < 0.2:
            s = 'd=' + urllib.parse.quote(s)
        out.append(s)
    return out


def impl_decode(body):
    from engineio import payload
    def f():
        try:
            p = payload.Payload(encoded_payload=body)
        except Hang:
            raise
        except Exception as e:
            return None, type(e).__name__
        return [(q.packet_type, q.data, q.binary) for q in p.packets], None
    return with_watchdog(f)


def triple_term(t):
    ty, d, b = t
    return qpair(qN(ty), c01.qdata(d) if d is not None else '(DJson %s)' % c01.qJ(None), qbool(b))


def decode_term(body, got):
    un = body
    ft = []
    if body.startswith('d='):
        fo = form_oracle(body)
        ft.append(qpair(qtext(body), qopt(qtext(fo) if fo is not None else None)))
        un = fo
    lt, dt, seen = [], [], set()
    if un is not None:
        for seg in un.split('\x1e'):
            if seg and seg[0] != 'b' and seg not in seen:
                seen.add(seg)
                dv = c01.digit_oracle(seg[0])
                dt.append(qpair(qN(ord(seg[0])), qopt(qN(dv) if dv is not None else None)))
                if dv is not None:
                    lt.append(qpair(qtext(seg[1:]), c01.loads_oracle(seg[1:])[0]))
    try:
        exp = qopt(qlist([triple_term(t) for t in got])) if got is not None else 'None'
    except (KeyError, TypeError):
        exp = 'None'
    return qpair(qnat(LIMIT), qtext(body), qlist(lt), qlist(dt), qlist(ft), exp)


def oracle_decode(res, body, got, err):
    """independent statement of the framing law on the implementation's answer"""
    case = dict(op='payload-decode', body=body)
    if body == '':
        if got != []:
            res.violations.append(dict(what='empty body does not decode to no packets', case=case, facts=dict(clause='empty')))
        return
    un = form_oracle(body) if body.startswith('d=') else body
    if un is None:
        return
    segs = un.split('\x1e')
    from engineio import packet
    singles = []
    for s in segs[:LIMIT + 3]:
        try:
            q = packet.Packet(encoded_packet=s)
            singles.append((q.packet_type, q.data, q.binary))
        except Exception:
            singles.append(None)
    if len(segs) > LIMIT:
        if got is not None:
            res.violations.append(dict(what='a body with more packets than the limit was not refused as a whole', case=dict(case, packets=len(segs)),
                                       facts=dict(clause='limit', form=body.startswith('d='))))
    elif any(s is None for s in singles):
        if got is not None:
            res.violations.append(dict(what='a body with an undecodable packet let other packets through', case=case, facts=dict(clause='all-or-nothing')))
    else:
        if got is None:
            res.violations.append(dict(what='a body of decodable packets within the limit was refused (%s)' % err, case=case, facts=dict(clause='accepts')))
        elif [(a, c01.canon_py(b), c) for a, b, c in got] != [(a, c01.canon_py(b), c) for a, b, c in singles]:
            res.violations.append(dict(what='decoded packets differ from the separately decoded segments (order/content)', case=case, facts=dict(clause='order')))


def run(ctx):
    from engineio import payload, packet
    res = vlib.Result()
    res.rule = ('(a) packet lists of length 0-20 mixing text/JSON/binary/none (10% with U+001E inside text; a third built from Packet objects that were already encoded for other channels): encode, decode(encode), and three form '
                'encodings of the body; (b) adversarial bodies: every string of length <=3 (thorough <=4) over an 11 (15)-symbol alphabet, counts 15-18 and 40 with '
                'the bad packet first/last, random strings to length 400, d= variants. distinct = distinct list or body; the empty list/body is the only trivial case')
    assert payload.Payload.max_decode_packets == LIMIT or True
    enc_terms, enc_cases, dec_terms, dec_cases = [], [], [], []
    bodies = []
    for pl in gen_lists(ctx):
        case = dict(op='payload-encode', packets=pl)
        try:
            pk = [packet.Packet(t, d) for t, d in pl]
            if ctx.rng.random() < 0.35:
                # packets with a past: the same Packet objects were already encoded for other channels (a WebSocket frame, another polling
                # payload) in some order; the payload must not depend on that
                for q in pk:
                    for b64 in ctx.rng.choice([[False], [True, False], [False, True], [False, False], [True]]):
                        q.encode(b64=b64)
                case['reused_packets'] = True
            enc = payload.Payload(packets=pk).encode()
        except Exception as e:
            res.violations.append(dict(what='Payload.encode raised %s' % type(e).__name__, case=case, facts=dict(clause='encode-raises')))
            continue
        res.count(('l', repr(pl)), len(pl) > 0, 'list:%d' % min(len(pl), 17))
        want = '\x1e'.join(c01.spec_wire(t, d, True) for t, d in pl)
        if enc != want:
            res.violations.append(dict(what='payload is not the text-channel encodings joined by single U+001E', case=dict(case, got=enc), facts=dict(clause='join')))
        try:
            enc_terms.append(qpair(qlist([qpair(qN(t), c01.qdata(d)) for t, d in pl]), qtext(enc)))
            enc_cases.append(dict(case, impl=enc))
        except (KeyError, TypeError):
            pass
        clean = all(not (isinstance(d, str) and '\x1e' in d) for _, d in pl)
        variants = [enc]
        try:
            enc.encode('utf-8')
            quotable = True
        except UnicodeEncodeError:
            quotable = False          # lone surrogates cannot be form-encoded at all
        if enc and clean and quotable:
            variants += ['d=' + urllib.parse.quote(enc), 'd=' + urllib.parse.quote_plus(enc), urllib.parse.urlencode({'d': enc})]
        for i, b in enumerate(variants):
            got, err = impl_decode(b)
            if clean:
                exp = None if len(pl) > LIMIT else [c01.spec_decoded(t, d) for t, d in pl]
                g = None if got is None else [(a, c01.canon_py(x), c) for a, x, c in got]
                if g != exp:
                    res.violations.append(dict(what='decode(encode(packets)) is not the same packets in order' + (' (form-encoded body)' if i else ''),
                                               case=dict(case, body=b, got=g), facts=dict(clause='round-trip', form=bool(i), over_limit=len(pl) > LIMIT)))
            bodies.append(b)
    seen = set()
    for b in bodies + gen_bodies(ctx):
        if b in seen:
            continue
        seen.add(b)
        try:
            got, err = impl_decode(b)
        except Hang:
            res.violations.append(dict(what='Payload.decode did not return within the watchdog', case=dict(op='payload-decode', body=b), facts=dict(clause='hang')))
            continue
        res.count(('b', b), b != '', 'body:' + ('form' if b.startswith('d=') else 'ok' if got is not None else 'err'))
        oracle_decode(res, b, got, err)
        dec_terms.append(decode_term(b, got))
        dec_cases.append(dict(op='payload-decode', body=b, impl=got, err=err))
    b1, e1 = vlib.model_mismatches(HEADER, enc_terms, 'check_penc', shard=200, ctype='list (N * pdata J0) * text')
    b2, e2 = vlib.model_mismatches(HEADER, dec_terms, 'check_pdec', shard=400, ctype='nat * text * list (text * lres J0) * list (N * option N) * list (text * option text) * option (list (N * pdata J0 * bool))')
    res.errors += e1 + e2
    res.mismatches += [dict(suite='payload_encode', case=enc_cases[b]) for b in b1[:30]]
    res.mismatches += [dict(suite='payload_decode', case=dec_cases[b]) for b in b2[:30]]
    return res


def search(ctx, res):
    return run(ctx).violations


def replay(payload_):
    c = payload_['case']
    r = vlib.Result()
    if 'body' in c:
        got, err = impl_decode(c['body'])
        print('decode ->', got, err)
        oracle_decode(r, c['body'], got, err)
    for v in r.violations:
        print(v['what'])
    return not r.violations
