"""C15 — requests and API calls complete: theories/Server.v against both servers on generated histories."""
import hsuite
from props.c03 import TRUSTED, ASSUMPTIONS
COQCHK = False
NAMES = ['c15', 'c12']
PROFILE = {'quick': 500, 'thorough': 3000, 'lengths': [10, 18, 26], 'finale': ['settle'], 'weights': {'bad': 14, 'post': 16, 'poll': 14, 'disc': 8, 'disc_all': 2, 'send': 8, 'api': 6, 'adv': 8, 'frame': 8, 'upgrade': 4, 'open_ws': 4, 'open_rej': 3}, 'p_async': 0.35}
RULE = ('seeded histories (opens with every connect outcome, polls, posts, upgrade handshakes, WebSocket frames and closes, application calls, refused requests, clock advances) over up to 4 sessions, each run on the threaded and the asyncio server and through the model; '
        'with malformed bodies, refused requests, API calls in every state incl. no sessions and vanished clients; finished by an advance past ping_interval+ping_timeout, after which every non-upgrade request and API call must have completed with a well-formed gateway response (validators in harness/rt.py). distinct = distinct (server, configuration, stimuli)')


def run(ctx):
    return hsuite.run(ctx, 'C15', NAMES, PROFILE, RULE)


def search(ctx, res):
    return hsuite.run(ctx, 'C15', NAMES, PROFILE, RULE).violations


def replay(payload):
    return hsuite.replay_case(payload['case'], NAMES, PROFILE['finale'])
