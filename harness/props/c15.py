"""C15 — requests and API calls complete: theories/Server.v against both servers on generated histories."""
import hsuite
from props.c03 import TRUSTED, ASSUMPTIONS
COQCHK = False
NAMES = ['c15', 'c12']
def _many_sends():
    # a client that does not read: every application call must still return
    sends = [('send', 0, i + 1) for i in range(70)]
    return [[('open', 'polling', 'accept'), ('poll', 0)] + sends + [('post', 0, ('pk', ['upgrade'])), ('getsess', 0)],
            [('open', 'polling', 'accept')] + sends + [('transport', 0), ('poll', 0), ('poll', 0)]]


PROFILE = {'fixed': _many_sends(), 'quick': 500, 'thorough': 25000, 'lengths': [10, 18, 26], 'finale': ['settle'], 'weights': {'bad': 14, 'post': 16, 'poll': 14, 'disc': 8, 'disc_all': 2, 'send': 8, 'api': 6, 'adv': 8, 'frame': 8, 'upgrade': 4, 'open_ws': 4, 'open_rej': 3}, 'p_async': 0.35}
RULE = ('seeded histories (opens with every connect outcome, polls, posts, upgrade handshakes, WebSocket frames and closes, application calls, refused requests, clock advances) over up to 4 sessions, each run on the threaded and the asyncio server and through the model; '
        'with malformed bodies, refused requests, API calls in every state incl. no sessions and vanished clients; finished by an advance past ping_interval+ping_timeout, after which every non-upgrade request and API call must have completed with a well-formed gateway response (validators in harness/rt.py). distinct = distinct (server, configuration, stimuli)')


def encodings(res):
    """gateway well-formedness of large responses under every spelling of Accept-Encoding (oracle on the implementation only)"""
    import rt
    for kind in ('threaded', 'asyncio'):
        for threshold in (1024, 0):
            d = rt.DRIVERS[kind](compression_threshold=threshold)
            try:
                for enc in ('gzip', 'GZIP', 'Gzip, deflate', 'Deflate', 'br, Deflate;q=0.5', 'deflate', 'identity', '*', '', 'gzip;q=0'):
                    for method, body in (('GET', b''), ('POST', b'4hello')):
                        rid = d.request(dict(method=method, query='transport=polling&sid=' + 'x' * 1100, body=body, headers={'Accept-Encoding': enc}))
                        rec = d.response(rid)
                        case = dict(server=kind, accept_encoding=enc, method=method, threshold=threshold)
                        res.count(('enc', kind, enc, method, threshold), True, 'encoding-grid')
                        pr = (rec or {}).get('wsgi_problems') or (rec or {}).get('asgi_problems') or []
                        if rec is None or pr or not isinstance(rec.get('status'), int):
                            res.violations.append(dict(what='a request was not answered with exactly one well-formed response', case=dict(case, problems=pr, status=rec and rec.get('status')),
                                                       facts=dict(clause='well-formed', kind='encoding', server=kind, accept_encoding=enc)))
            finally:
                d.close()


def run(ctx):
    res = hsuite.run(ctx, 'C15', NAMES, PROFILE, RULE)
    encodings(res)
    return res


def search(ctx, res):
    return hsuite.run(ctx, 'C15', NAMES, PROFILE, RULE).violations


def replay(payload):
    return hsuite.replay_case(payload['case'], NAMES, PROFILE['finale'])
