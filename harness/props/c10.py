"""C10 — clients and servers of this package interoperate.  harness/interop.py wires the real client drivers to the real server
drivers; this suite generates conversations and states the property on the two applications' logs."""
import json
import vlib, interop, hsuite
import props.c08 as c08, props.c03 as c03
TRUSTED = ['the deterministic drivers of harness/rt.py and harness/crt.py wired back to back by harness/interop.py (an in-memory network that never loses or reorders '
           'what one side handed to it, delivers with no delay in virtual time but in arbitrary interleaving with the applications\' calls)',
           'the composition itself is observed on the implementations, not proved: the theorems are about the two codecs and the two batching rules that have to agree']
ASSUMPTIONS = ['text payloads do not contain U+001E and do not look like JSON documents (C01/C02 state what happens otherwise)',
               'heartbeat settings are multiples of 1/8 s']
COQCHK = False
RULE = ('seeded conversations over all 2x2 client/server pairs x transports [polling], [websocket], [polling, websocket] x heartbeat settings: bursts of 1..40 sends in either direction '
        '(text, JSON, binary), sends from the server\'s connect handler during the handshake/upgrade, idle periods of many heartbeat cycles, partial delivery of what is on the wire between '
        'application calls (interleavings), disconnect by either side at any point or none; distinct = distinct (pair, transports, timing, conversation)')
PAIRS = [(c, s) for c in ('threaded', 'asyncio') for s in ('threaded', 'asyncio')]
TRS = [['polling'], ['websocket'], ['polling', 'websocket']]
TIMINGS = [(1.0, 1.0), (0.5, 1.0), (2.0, 0.5), (1.0, 2.0), (0.25, 0.25)]


def payload(n, kind):
    if kind == 'text':
        return 't%d %s' % (n, ['', 'é', '  "q"', 'x' * 200][n % 4])
    if kind == 'json':
        return {'n': n, 's': ['a', 'é☃', '"\\'][n % 3], 'l': [n, None, True, 1.5]}
    if n % 6 == 0:
        return bytes([n % 256])[:n % 12 // 6]            # an empty / one-byte binary payload
    return bytes([n % 256, 0, 255, 30]) + str(n).encode()


def gen(rng, quick=True):
    ops = []
    n = rng.choice([3, 6, 10, 16])
    for _ in range(n):
        x = rng.random()
        if x < 0.3:
            ops.append(('csend', rng.choice([1, 1, 2, 5, 17, 33, 40]), rng.choice(['text', 'json', 'bin', 'mix'])))
        elif x < 0.6:
            ops.append(('ssend', rng.choice([1, 1, 2, 5, 17, 33, 40]), rng.choice(['text', 'json', 'bin', 'mix'])))
        elif x < 0.8:
            ops.append(('idle', rng.choice([0.125, 0.5, 1, 3, 10, 40])))
        else:
            ops.append(('deliver', rng.randint(1, 6)))
    end = rng.choice(['none', 'none', 'client', 'server'])
    if end != 'none':
        ops.insert(rng.randint(0, len(ops)), ('disc', end))
    return ops


def run_case(case, res=None):
    ck, sk, trs, (I, T), hs, ops, seed = case['client'], case['server'], case['transports'], case['timing'], case['handler_sends'], case['ops'], case['seed']
    import random
    rng = random.Random(seed)
    p = interop.Pair(ck, sk, I=I, T=T, server_kw=dict(transports=case.get('server_transports')) if case.get('server_transports') else None)
    out = dict(viol=[])

    def bad(what, clause, **kw):
        out['viol'].append(dict(what=what, clause=clause, detail=kw))
    try:
        n = [0]
        csent, ssent = [], []                   # what has to arrive
        url = 'http://host.example:8080/' + ('?ho=send' if hs else '')
        rec = p.client_call('connect', url, transports=list(trs), budget=rng.randint(1, 8))
        sends_during = 0
        guard = 0
        while not rec['done'] and guard < 200:
            guard += 1
            live = p.s.live()
            if live and rng.random() < 0.4 and sends_during < 5 and any(e[2] == 'connect' for e in p.server_events()):
                n[0] += 1
                m = payload(n[0], rng.choice(['text', 'json', 'bin']))
                p.server_api('send', live[0], m, budget=rng.randint(0, 3))
                ssent.append(m)
                sends_during += 1
            else:
                p.pump(rng.randint(1, 4))
        p.pump()
        if rec.get('result') != 'ok':
            bad('connect() failed against a server of this package', 'connect', result=rec.get('result'), wire=[repr(w)[:120] for w in p.wire[-6:]])
            return out
        if hs:
            ssent.insert(0, 'from-connect')
        sid = (p.s.live() or [None])[0]
        ended = None
        order = lambda: rng.random() < 0.5
        for op in ops:
            if op[0] in ('csend', 'ssend'):
                mode = rng.choice([0, 0, 1, None, 'mixed'])      # how much of the wire is handed over after each call of the burst
                for _ in range(op[1]):
                    bud = mode if mode != 'mixed' else rng.choice([0, 0, 1, 2, None])
                    n[0] += 1
                    kind = op[2] if op[2] != 'mix' else rng.choice(['text', 'json', 'bin'])
                    m = payload(n[0], kind)
                    if op[0] == 'csend':
                        st = p.c.view()[0]
                        p.client_call('send', m, budget=bud)
                        if st == 'connected' and ended is None:
                            csent.append(m)
                    else:
                        live = sid in p.s.live()
                        p.server_api('send', sid, m, budget=bud)
                        if live and ended is None:
                            ssent.append(m)
            elif op[0] == 'idle':
                p.pump()
                p.advance(op[1], order)
            elif op[0] == 'deliver':
                p.pump(op[1])
            elif op[0] == 'disc' and ended is None:
                ended = op[1]
                out['transport_at_end'] = p.c.view()[2]
                if op[1] == 'client':
                    p.client_call('disconnect', budget=rng.choice([0, 2, None]))
                else:
                    p.server_api('disconnect', sid, budget=rng.choice([0, 2, None]))
        p.pump()
        if ended is None:
            # still idle for many heartbeat cycles: nobody may give up
            p.advance(20 * (I + T), order)
        else:
            p.advance(2 * (I + T) + 12, order)
        p.pump()
        cev = [e for e in p.client_events()]
        sev = [e for e in p.server_events() if e[1] == sid]
        crecv = [e[2] for e in cev if e[1] == 'message']
        srecv = [e[3] for e in sev if e[2] == 'message']
        cdisc = [e[2] for e in cev if e[1] == 'disconnect']
        sdisc = [e[3] for e in sev if e[2] == 'disconnect']
        out.update(csent=len(csent), ssent=len(ssent), crecv=len(crecv), srecv=len(srecv), cdisc=cdisc, sdisc=sdisc, transport=p.c.view()[2], ended=ended)

        def seq(name, sent, recv, must_arrive):
            k = len(recv)
            if recv != sent[:k]:
                i = next((j for j in range(min(k, len(sent))) if recv[j] != sent[j]), min(k, len(sent)))
                bad('%s: what arrived is not what was sent, once each and in order' % name, 'exactly-once-in-order', direction=name, at=i,
                    sent=[repr(x)[:40] for x in sent[max(0, i - 1):i + 3]], got=[repr(x)[:40] for x in recv[max(0, i - 1):i + 3]], n_sent=len(sent), n_got=k)
            elif k < len(sent) and must_arrive:
                bad('%s: %d of %d messages sent while connected never arrived' % (name, len(sent) - k, len(sent)), 'loss', direction=name,
                    first_missing=repr(sent[k])[:40], n_sent=len(sent), n_got=k)
        # what was still on its way when the receiving side itself left cannot arrive; a sender that disconnects must have flushed
        seq('client to server', csent, srecv, ended != 'server')
        seq('server to client', ssent, crecv, ended != 'client')
        if ended is None:
            if cdisc or sdisc:
                bad('an idle connection was dropped although both sides kept answering heartbeats', 'keepalive', client=cdisc, server=sdisc)
            if p.c.view()[0] != 'connected' or sid not in p.s.live():
                bad('an idle connection did not stay alive', 'keepalive', view=p.c.view(), live=p.s.live())
        else:
            if len(cdisc) != 1 or len(sdisc) != 1:
                bad('after a disconnect by the %s both sides must observe exactly one disconnect' % ended, 'one-disconnect', client=cdisc, server=sdisc)
        return out
    finally:
        out['wire_tail'] = [repr(w)[:100] for w in p.wire[-8:]]
        p.close()


def run(ctx):
    res = vlib.Result()
    res.rule = RULE
    rng = ctx.rng
    N = ctx.n(10, 500)
    FIXED = [[('csend', 40, 'mix'), ('idle', 1), ('ssend', 40, 'mix'), ('idle', 3)],
             [('ssend', 17, 'text'), ('csend', 17, 'bin'), ('deliver', 2), ('csend', 33, 'json'), ('idle', 3)]]
    for (ck, sk) in PAIRS:
        for trs in TRS:
            for i in range(N + len(FIXED)):
                case = dict(client=ck, server=sk, transports=trs, timing=rng.choice(TIMINGS), handler_sends=rng.random() < 0.3,
                            ops=gen(rng) if i >= len(FIXED) else FIXED[i], seed=rng.randrange(1 << 30) if i >= len(FIXED) else 5)
                try:
                    out = run_case(case)
                except Exception as e:
                    res.errors.append('conversation crashed the harness: %s %s %s' % (type(e).__name__, str(e)[:200], json.dumps(case)[:300]))
                    continue
                res.count(json.dumps(case, sort_keys=True), True, '%s-%s:%s' % (ck, sk, '+'.join(trs)))
                res.dist['end:' + str(out.get('ended'))] += 1
                res.dist['final-transport:' + str(out.get('transport'))] += 1
                for v in out['viol']:
                    res.violations.append(dict(what=v['what'], case=case, facts=dict(clause=v['clause'], client=ck, server=sk, transports='+'.join(trs), ended=out.get('ended'), direction=v['detail'].get('direction'),
                                                          transport_at_end=out.get('transport_at_end')),
                                               detail=v['detail'], wire_tail=out.get('wire_tail')))
    res.traces = res.evaluations
    if not getattr(ctx, 'search', False):
        ties(ctx, res)
    return res


def ties(ctx, res):
    """the theorems of C10 are about Client.v, Server.v (drain) and the decode limit: re-run what ties those to the code"""
    from engineio import payload, packet
    # the limit both decoders use, and its boundary on the real codec
    lim = payload.Payload.max_decode_packets
    if lim != 16:
        res.mismatches.append(dict(suite='decode-limit', case=dict(max_decode_packets=lim), impl=lim, model=16))
    for n in (15, 16, 17):
        ps = [packet.Packet(packet.MESSAGE, data='m%d' % i) for i in range(n)]
        body = payload.Payload(packets=ps).encode()
        try:
            got = [p.data for p in payload.Payload(encoded_payload=body).packets]
        except ValueError:
            got = 'refused'
        want = ['m%d' % i for i in range(n)] if n <= 16 else 'refused'
        if got != want:
            res.mismatches.append(dict(suite='decode-limit', case=dict(packets=n), impl=repr(got)[:80], model=repr(want)[:80]))
        res.count(('limit', n), True, 'tie:decode-limit')
    # the client model (take_batch) against both clients
    r2 = c08.run_suite(ctx, 'C10', (), 40, 1500)
    res.merge(r2)
    # the server model (drain) against both servers, with the bursts of 15..40 sends first
    prof = dict(c03.PROFILE, quick=30, thorough=400)
    r3 = hsuite.run(ctx, 'C10', [], prof, RULE)
    res.merge(r3)
    res.rule = RULE + '; plus the client-history and server-history correspondences (bursts of 15..40 sends) that tie Client.v / Server.v to the code, and the decode-limit boundary'


def search(ctx, res):
    return run(ctx).violations


def replay(payload):
    out = run_case(payload['case'])
    for v in out['viol']:
        print(v['what'], v['detail'])
    return not out['viol']
