"""C08 — client connection lifecycle: theories/Client.v against engineio.Client and engineio.AsyncClient."""
import vlib, chist, coracles
TRUSTED = ['deterministic client runtimes of harness/crt.py (greenlet scheduler for Client via overridden start_background_task/create_queue/sleep, virtual-time asyncio loop for AsyncClient) and an in-memory scripted network (fake requests session / websocket module / aiohttp-like session): the test plays the server',
           'code between two blocking points is atomic in the model']
ASSUMPTIONS = ['the application does not start a second connect()/disconnect() while one is in progress', 'time in ticks of 1/8 s; handshake timings are multiples of 125 ms']
COQCHK = False
RULE = ('seeded client histories: connect() with each transport list, then a server played by the generator at every step (valid OPEN, empty / garbage / non-OPEN / malformed-OPEN replies, error status, '
        'connection failures, WebSocket accept / refuse / frames / garbage / close, CLOSE and PING and MESSAGE packets incl. handlers that raise, send or disconnect), application send / disconnect / wait / '
        'reconnect calls, clock advances around every timeout; one history in twelve has a connect handler that calls disconnect(); finished by a long silence, wait() and a fresh connect(). '
        'half of the histories are generated adaptively (the next stimulus follows what the client is waiting for: valid handshakes, long conversations, bursts of up to 35 sends), preceded by fixed histories (backlogs of 15..40 sends, every malformed OPEN, reconnect while the previous POST is outstanding); one in twelve has a disconnect handler that calls disconnect(). Run on Client and AsyncClient and through the model. distinct = distinct (client, stimuli)')
NAMES = ('c08',)


def finale(r):
    r.do(('adv', 400))
    r.do(('call', 'wait'))
    r.do(('adv', 1))
    r.do(('call', 'connect', ['polling']))


OPEN = ('open', True, False, 16, 16)
OPENU = ('open', True, True, 16, 16)


def fixed_histories():
    out = []
    sends = lambda a, n: [('call', 'send', a + i, i % 5 == 4) for i in range(n)]
    # a backlog of 15..40 sends behind an outstanding POST
    for n in (15, 16, 17, 20, 33, 40):
        out.append([('call', 'connect', ['polling']), ('reply', 'GET', ('ok', [OPEN])), ('call', 'send', 1, False)] + sends(2, n) +
                   [('reply', 'POST', ('ok', []))] * 4 + [('adv', 1)])
        # ... and queued while the upgrade is still being attempted (the write loop has not started)
        out.append([('call', 'connect', ['polling', 'websocket']), ('reply', 'GET', ('ok', [OPENU]))] + sends(1, n) +
                   [('wsanswer', False)] + [('reply', 'POST', ('ok', []))] * 4)
        out.append([('call', 'connect', ['polling', 'websocket']), ('reply', 'GET', ('ok', [OPENU]))] + sends(1, n) +
                   [('wsanswer', True), ('wsframe', ('pk', ('pongprobe',))), ('adv', 1)])
    # the upgrade: the peer answers the probe and drops the connection in the same instant (the UPGRADE packet cannot be sent), at every stage;
    # then the client must be on polling, really: it still polls, posts, answers PINGs, disconnects and reconnects
    for stage in ([('wsanswer', True), ('wsframeclose', ('pk', ('pongprobe',)))],
                  [('wsanswer', True), ('wsframeclose', ('pk', ('noop',)))],
                  [('wsanswer', True), ('wsframe', ('pk', ('pongprobe',))), ('wsframeclose', ('pk', ('msg', 900, 'none')))]):
        out.append([('call', 'connect', ['polling', 'websocket']), ('reply', 'GET', ('ok', [OPENU]))] + stage +
                   [('call', 'send', 1, False), ('reply', 'POST', ('ok', [])), ('reply', 'GET', ('ok', [('ping', 1)])), ('reply', 'POST', ('ok', [])),
                    ('call', 'send', 2, True), ('reply', 'POST', ('ok', [])), ('call', 'disconnect'), ('reply', 'POST', ('ok', [])), ('adv', 1),
                    ('call', 'connect', ['polling']), ('reply', 'GET', ('ok', [OPEN])), ('call', 'send', 3, False), ('reply', 'POST', ('ok', []))])
    # every malformed OPEN, then a WebSocket connection on the same object
    for k in range(4):
        out.append([('call', 'connect', ['polling']), ('reply', 'GET', ('ok', [('open', False, False, 16, 16 + k)])),
                    ('call', 'connect', ['websocket']), ('wsanswer', True), ('wsframe', ('pk', OPEN)), ('call', 'send', 1, False), ('adv', 1)])
        out.append([('call', 'connect', ['websocket']), ('wsanswer', True), ('wsframe', ('pk', ('open', False, False, 16, 16 + k))),
                    ('call', 'connect', ['polling']), ('reply', 'GET', ('ok', [OPEN])), ('call', 'send', 1, False), ('reply', 'POST', ('ok', []))])
    # the server closes while a POST is outstanding, the application reconnects, then the old POST ends (ok / fails / times out)
    for tail in ([('reply', 'POST', ('ok', []))], [('reply', 'POST', ('fail',))], [('adv', 41)]):
        out.append([('call', 'connect', ['polling']), ('reply', 'GET', ('ok', [OPEN])), ('call', 'send', 1, False), ('reply', 'GET', ('ok', [('close',)])),
                    ('call', 'connect', ['polling']), ('reply', 'GET', ('ok', [OPEN]))] + tail + [('adv', 1), ('call', 'send', 2, False), ('call', 'wait')])
    return out


def run_suite(ctx, pid, which, n_quick, n_thorough):
    res = vlib.Result()
    res.rule = RULE
    rng = ctx.rng
    runners = []
    fixed = fixed_histories()
    n = ctx.n(n_quick, n_thorough)

    def judge(r, kind, cd, dd, tag):
        try:
            finale(r)
            if 'c08' in which:
                coracles.c08(res, r, True)
            if 'c09' in which:
                coracles.c09(res, r)
                coracles.c09_silence(res, r)
        except Exception as e:
            res.errors.append('history crashed the harness on %s: %s %s' % (kind, type(e).__name__, str(e)[:300]))
        finally:
            r.close()
        runners.append(r)
        res.count((kind, cd, dd, tuple(map(repr, r.log))), len(r.log) > 4, '%s:%s:len%d' % (kind, tag, 10 * (len(r.log) // 10)))
        for op in r.log:
            res.dist['op:' + (op[0] if op[0] != 'call' else 'call-' + op[1])] += 1

    for h in range(n + len(fixed)):
        if len(runners) >= 8000:
            flush(res, runners, which)
        cd = h >= len(fixed) and rng.random() < 0.08
        dd = h >= len(fixed) and rng.random() < 0.08
        kw = dict(connect_disconnects=cd, disc_raises=(h % 5 == 0), disconnect_disconnects=dd)
        if h < len(fixed):
            ops, tag = fixed[h], 'fixed'
        elif h % 2:
            ops, tag = chist.gen_history(rng, rng.choice([6, 12, 20, 30])), 'random'
        else:
            # generated while it runs on the threaded client, replayed on the other one
            r = chist.CRunner('threaded', **kw)
            tag = 'adaptive'
            try:
                ops = chist.gen_adaptive(rng, r, rng.choice([10, 20, 35]))
            except Exception as e:
                res.errors.append('history crashed the harness on threaded: %s %s' % (type(e).__name__, str(e)[:300]))
                r.close()
                continue
            judge(r, 'threaded', cd, dd, tag)
            r = chist.CRunner('asyncio', **kw)
            try:
                for op in ops:
                    r.do(op)
            except Exception as e:
                res.errors.append('history crashed the harness on asyncio: %s %s' % (type(e).__name__, str(e)[:300]))
            judge(r, 'asyncio', cd, dd, tag)
            continue
        for kind in ('threaded', 'asyncio'):
            r = chist.CRunner(kind, **kw)
            try:
                for op in ops:
                    r.do(op)
            except Exception as e:
                res.errors.append('history crashed the harness on %s: %s %s' % (kind, type(e).__name__, str(e)[:300]))
            judge(r, kind, cd, dd, tag)
    flush(res, runners, which)
    return res


def flush(res, runners, which):
    """compare what has been run so far with the model and forget it (bounds the memory of the thorough tier)"""
    if not runners:
        return
    bad, errs = chist.check(runners)
    res.errors += errs
    for b in bad[:20]:
        r = runners[b]
        if len(res.mismatches) < 20:
            res.mismatches.append(dict(suite='client-history', case=dict(client=r.kind, connect_disconnects=r.connect_disconnects, disconnect_disconnects=r.disconnect_disconnects, ops=r.log), impl=r.outs,
                                       model=chist.explain(r) if len(res.mismatches) < 2 else '(not shown)'))
    res.traces += len(runners)
    if 'c08' in which:
        imp, errs2 = chist.impolite(runners)
        res.errors += errs2
        res.dist['hypothesis-of-the-theorem:holds'] += len(runners) - len(imp)
        res.dist['hypothesis-of-the-theorem:fails'] += len(imp)
    del runners[:]


def run(ctx):
    return run_suite(ctx, 'C08', ('c08',), 350, 40000)


def search(ctx, res):
    return run(ctx).violations


def replay(payload):
    c = payload['case']
    r = chist.CRunner(c['client'], connect_disconnects=c.get('connect_disconnects', False), disconnect_disconnects=c.get('disconnect_disconnects', False))
    res = vlib.Result()
    for op in c['ops']:
        r.do(fix(op))
    coracles.c08(res, r, False)
    coracles.c09(res, r)
    coracles.c09_silence(res, r)
    r.close()
    for v in res.violations:
        print(v['what'], v['facts'])
    return not res.violations


def fix(op):
    def t(x):
        return tuple(t(y) for y in x) if isinstance(x, list) else x
    op = list(op)
    if op[0] == 'call' and op[1] == 'connect':
        return ('call', 'connect', list(op[2]))
    if op[0] == 'reply' and op[2][0] == 'ok':
        return ('reply', op[1], ('ok', [t(p) for p in op[2][1]]))
    return t(op)
