"""C07 — heartbeat timing: theories/Server.v (+ Heartbeat lemmas) against both servers on timed scenarios."""
import hsuite, hist, oracles, vlib
from props.c03 import TRUSTED, ASSUMPTIONS
COQCHK = False
RULE = ('timed scenarios on a grid of (ping_interval, ping_timeout, grace) incl. interval = timeout, interval < timeout and fractional values, 1-4 sessions, polling and WebSocket, monitor on/off: '
        'PONG arriving at deadline-1 tick / at the deadline / +1 tick, application sends and monitor sweeps at each of those instants, silence until the detection bound, polls left without '
        'any packet for interval+timeout; plus seeded timed histories. The clock advances in steps chosen so that every deadline is hit exactly, one tick early and one tick late. '
        'distinct = distinct (server, configuration, stimuli)')
GRID = [(4096, 1680, 0), (1680, 1680, 0), (840, 2520, 0), (2560, 840, 1024), (1536, 1680, 512), (3360, 840, 0)]


def scenarios(rng, I, T):
    """each scenario is a list of stimuli; times are relative"""
    out = []
    for tr in ('polling', 'websocket'):
        opener = ('open', tr, 'accept') if tr == 'polling' else ('open', 'websocket', 'accept', True)
        pong = (lambda: ('post', 0, ('pk', ['pong']))) if tr == 'polling' else (lambda: ('frame', 0, ('pk', 'pong')))
        rd = [('poll', 0)] if tr == 'polling' else []
        # ping schedule: nothing before I, PING at I
        out.append([opener] + rd + [('adv', I - 1), ('adv', 1), ('adv', 1)] + rd)
        for d in (0, 1, T - 1, T, T + 1):
            # PONG d after the PING; a send and a look at the session just after
            out.append([opener] + rd + [('adv', I), ('adv', d), pong(), ('send', 0, 1)] + rd + [('adv', I - 1), ('adv', 1)] + rd + [('adv', 1), ('send', 0, 2)] + rd)
        for k in (T - 1, T, T + 1, T + 2):
            # no PONG: a send k after the PING
            out.append([opener] + rd + [('adv', I), ('adv', k), ('send', 0, 1)] + rd + [('adv', 1), ('send', 0, 2)] + rd)
        # live peer for several cycles with traffic at awkward instants
        cyc = [opener] + rd
        for c in range(4):
            d = rng.choice([0, 1, T // 2, T - 1, T])
            cyc += [('adv', I), ('adv', d), ('send', 0, 10 + c), pong()] + rd + [('send', 0, 20 + c)] + rd
        out.append(cyc + [('adv', I - 1)])
        # silence until the detection bound
        out.append([opener] + rd + [('adv', I)] + rd + [('adv', T), ('adv', 1), ('adv', T), ('adv', T), ('adv', T), ('adv', 1)])
        out.append([opener] + rd + [('adv', I), pong(), ('adv', I)] + rd + [('adv', 3 * T - 1), ('adv', 1), ('adv', 1)])
    # a poll that is offered nothing for I + T (the PING has been taken, no PONG is sent)
    out.append([('open', 'polling', 'accept'), ('poll', 0), ('adv', I), ('poll', 0), ('adv', I + T - 1), ('adv', 1), ('adv', 1), ('poll', 0)])
    # several sessions: the sweep divides the timeout among them
    for n in (2, 3, 4):
        multi = [('open', 'polling', 'accept') for _ in range(n)] + [('poll', i) for i in range(n)]
        multi += [('adv', I)] + [('post', 0, ('pk', ['pong']))] + [('adv', T)] + [('adv', 1)] + [('adv', T // n)] * (2 * n) + [('adv', T)]
        out.append(multi)
    # upgrade in the middle of a heartbeat cycle
    out.append([('open', 'polling', 'accept'), ('adv', I - 2), ('upgrade', 0), ('frame', 0, ('ping', True)), ('adv', 2), ('adv', 1), ('frame', 0, ('pk', 'upgrade')), ('adv', 1),
                ('frame', 0, ('pk', 'pong')), ('adv', I - 1), ('adv', 1), ('adv', T + 1), ('send', 0, 1)])
    return out


def c07_oracle(res, v):
    r = v.r
    I, T = r.cfg.interval, r.cfg.timeout
    t_before = [0] + r.times[:-1]
    for s in range(v.n):
        if oracles.is_rejected(r, s) or s in oracles.zombies(r):
            continue
        evs = v.events[s]
        if not evs:
            continue
        t_open = r.times[evs[0][0]]
        disc = [(st, d) for st, k, d in evs if k == 'disconnect']
        t_end = r.times[disc[0][0]] if disc else None            # end of the step in which the session ended
        t_end_lo = t_before[disc[0][0]] if disc else None        # ... which began here: the end happened in (t_end_lo, t_end]
        ws_born = any(isinstance(cs, tuple) and cs[1] == s for cs in r.conn_sess.values())
        # instants at which a PONG was processed for this session (it was live before and the request was accepted)
        pongs = []
        for step, op in enumerate(r.log):
            pre = r.pre[step].get(s)
            live = bool(pre) and not pre[0]
            if not live:
                continue
            if op[0] == 'post' and op[1] == s and op[2][0] == 'pk' and r.cfg.polling:
                pk = op[2][1]
                cut = len(pk)
                for i, p in enumerate(pk):
                    if p in ('close', 'bad'):
                        cut = i
                        break
                pongs += [r.times[step]] * sum(1 for p in pk[:cut] if p == 'pong')
            if op[0] == 'frame' and oracles._sess(r.conn_sess.get(op[1])) == s and op[2] == ('pk', 'pong') and oracles.conn_reading(r, op[1], step):
                pongs.append(r.times[step])
        due = sorted([t_open + I] + [q + I for q in pongs])
        due = [d for d in due if t_end is None or d <= t_end]
        # every PING the client saw falls due inside the step in which it was produced or earlier, one due time per PING
        seen = [(st, ch) for st, p, ch in v.pkts[s] if p == 'ping']
        if len(seen) > len([d for d in due if d <= r.times[-1]]):
            oracles.viol(res, v, 'more PING packets than heartbeat periods', 'ping-schedule', session=s, seen=len(seen), due=due[:6])
        for (st, ch), d in zip(seen, due):
            if r.times[st] < d:
                oracles.viol(res, v, 'a PING was emitted before ping_interval had elapsed since the OPEN / the last PONG', 'ping-schedule', session=s, at=r.times[st], due=d)
            if ch[0] == 'ws' and ws_born and not (t_before[st] < d <= r.times[st]):
                oracles.viol(res, v, 'a PING on a WebSocket was not emitted exactly ping_interval after the OPEN / the last PONG', 'ping-schedule', session=s, step=st, due=d, window=(t_before[st], r.times[st]))
        # accuracy: if every due PING was answered within T, the peer is never dropped for timeout
        answered = all(any(d <= q <= d + T for q in pongs) for d in due if d + T < (t_end if t_end is not None else r.times[-1]))
        if disc and disc[0][1] == 'ping timeout' and answered and all(any(d <= q <= d + T for q in pongs) for d in due if d <= r.times[disc[0][0]] - 0):
            oracles.viol(res, v, 'a peer that answered every PING within ping_timeout was disconnected for timeout', 'accuracy', session=s, due=due[:6], pongs=pongs[:6], at=t_end)
        # detection at the first send after the deadline
        for step, op in enumerate(r.log):
            if op[0] == 'send' and op[1] == s:
                pre, po = r.pre[step].get(s), r.post[step].get(s)
                if not (pre and not pre[0]):
                    continue
                now = r.times[step]
                last_due = [d for d in due if d <= now]
                if not last_due:
                    continue
                p = last_due[-1]
                unanswered = not any(q >= p for q in pongs if q <= now)
                if unanswered and now - p > T and po and not po[0]:
                    oracles.viol(res, v, 'a send attempted after the heartbeat deadline did not end the session', 'send-detects', session=s, ping_at=p, now=now)
                if not (unanswered and now - p > T) and (po is None or po[0]) and not any(o[0] == 'ev' and o[1] == s for o in r.outs[step]) is False:
                    pass
        # detection bound with monitoring
        if r.cfg.monitor and pongs is not None:
            q0 = max(pongs) if pongs else t_open
            if r.times[-1] > q0 + I + 3 * T and (t_end is None or t_end_lo >= q0 + I + 3 * T):
                if not any(q > q0 for q in pongs):
                    oracles.viol(res, v, 'a peer that stopped answering was not disconnected within ping_interval + 3 x ping_timeout of its last PONG', 'detection', session=s, last_pong=q0, ended=t_end, now=r.times[-1])
    # a poll offered no packet for I + T is answered with an error
    for rid, info in r.req_info.items():
        if info[0] == 'poll' and isinstance(info[1], int):
            st = [i for i, op in enumerate(r.log) if op[0] in ('open', 'poll', 'post', 'upgrade', 'bad')][rid]
            a = r.times[st]
            got = v.resp.get(rid)
            if got is None and r.times[-1] >= a + I + T and r.kind == 'threaded':
                oracles.viol(res, v, 'a poll held longer than ping_interval + ping_timeout was not answered', 'poll-timeout', rid=rid, since=a, now=r.times[-1])


hsuite.ORACLES['c07'] = c07_oracle
NAMES = ['c07', 'c05']


def run(ctx):
    res = vlib.Result()
    res.rule = RULE
    rng = ctx.rng
    runners = []
    grid = GRID if ctx.thorough else GRID[:4]
    for (I, T, g) in grid:
        for mon in (True, False):
            cfg = hist.Cfg(interval=I, timeout=T, monitor=mon, grace=g)
            for ops in scenarios(rng, I, T):
                for kind in ('threaded', 'asyncio'):
                    try:
                        r, vs = hsuite.evaluate(kind, cfg, ops, NAMES, [], seed=0)
                    except Exception as e:
                        res.errors.append('scenario crashed the harness on %s: %s %s' % (kind, type(e).__name__, str(e)[:200]))
                        continue
                    runners.append(r)
                    res.count((kind, cfg.key(), tuple(map(repr, ops))), True, 'scenario:' + kind)
                    res.violations += vs
    # seeded timed histories
    prof = dict(weights=dict(adv=30, post=14, frame=10, send=12, poll=12, open=6, open_ws=4, upgrade=3, disc=1, bad=1, api=1, wsclose=2), p_async=0.1)
    for h in range(ctx.n(200, 16000)):
        I, T, g = rng.choice(GRID)
        cfg = hist.Cfg(interval=I, timeout=T, monitor=rng.random() < 0.75, grace=g)
        ops = hist.gen_history(rng, cfg, rng.choice([12, 20, 30]), prof['weights'], 3)
        for kind in ('threaded', 'asyncio'):
            try:
                r, vs = hsuite.evaluate(kind, cfg, ops, NAMES, ['settle'], seed=0)
            except Exception as e:
                res.errors.append('history crashed the harness on %s: %s %s' % (kind, type(e).__name__, str(e)[:200]))
                continue
            runners.append(r)
            res.count((kind, cfg.key(), tuple(map(repr, r.log))), True, 'history:' + kind)
            res.violations += vs
        if len(runners) >= 4000:
            flush(res, runners)
    flush(res, runners)
    return res


def flush(res, runners):
    """compare what has been run so far with the model and forget it (bounds the memory of the thorough tier)"""
    bad, errs = hist.check_histories(runners)
    res.errors += errs
    for b in bad[:20]:
        r = runners[b]
        if len(res.mismatches) < 20:
            res.mismatches.append(dict(suite='history', case=dict(server=r.kind, cfg=r.cfg.key(), ops=r.log), impl=r.outs, model=hist.explain(r) if len(res.mismatches) < 2 else '(not shown)'))
    res.traces += len(runners)
    del runners[:]


def search(ctx, res):
    return run(ctx).violations


def replay(payload):
    return hsuite.replay_case(payload['case'], NAMES, [])
