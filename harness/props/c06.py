"""C06 — upgrade handshake: theories/Server.v against both servers on generated histories."""
import hsuite
from props.c03 import TRUSTED, ASSUMPTIONS
COQCHK = False
NAMES = ['c06', 'c03']
def _cancelled():
    out = []
    for tail in ([], [('frame', 0, ('ping', True))]):
        # the handshake is cancelled before the probe / between the probe and UPGRADE: the session must be back on polling
        out.append([('open', 'polling', 'accept'), ('poll', 0), ('upgrade', 0)] + tail + [('cancel', 0), ('send', 0, 1), ('poll', 0), ('send', 0, 2), ('poll', 0),
                    ('upgrade', 0), ('frame', 1, ('ping', True)), ('frame', 1, ('pk', 'upgrade')), ('send', 0, 3)])
    return out


PROFILE = {'fixed': _cancelled() + hsuite.overlapping_upgrades(), 'quick': 500, 'thorough': 25000, 'lengths': [8, 14, 22], 'finale': ['drain', 'settle'], 'weights': {'upgrade': 16, 'frame': 26, 'wsclose': 8, 'poll': 12, 'send': 12, 'open': 8, 'open_ws': 3, 'post': 3, 'adv': 4, 'bad': 1, 'api': 2, 'disc': 1, 'cancel': 6}, 'p_async': 0.2, 'p_websocket': 0.85, 'p_polling': 0.9}
RULE = ('seeded histories (opens with every connect outcome, polls, posts, upgrade handshakes, WebSocket frames and closes, application calls, refused requests, clock advances) over up to 4 sessions, each run on the threaded and the asyncio server and through the model; '
        'weighted towards upgrade sockets and every frame a client can send on them (right, wrong type, wrong payload, oversize, undecodable), closes at each handshake point, concurrent polls and sends, allow_upgrades/transports settings. distinct = distinct (server, configuration, stimuli)')


def run(ctx):
    return hsuite.run(ctx, 'C06', NAMES, PROFILE, RULE)


def search(ctx, res):
    return hsuite.run(ctx, 'C06', NAMES, PROFILE, RULE).violations


def replay(payload):
    return hsuite.replay_case(payload['case'], NAMES, PROFILE['finale'])
