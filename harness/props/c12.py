"""C12 — request admission: theories/Server.v against both servers on generated histories."""
import hsuite
from props.c03 import TRUSTED, ASSUMPTIONS
COQCHK = False
NAMES = ['c12']
PROFILE = {'quick': 500, 'thorough': 25000, 'lengths': [10, 18], 'finale': ['settle'], 'weights': {'bad': 30, 'poll': 10, 'post': 10, 'open': 6, 'open_ws': 3, 'open_rej': 3, 'upgrade': 5, 'frame': 6, 'disc': 4, 'send': 4, 'adv': 6, 'api': 2}, 'p_websocket': 0.8, 'p_polling': 0.9}
import hist


def _gate_histories():
    """the transport gate against every spelling of the upgrade headers: header values are case-insensitive, the `transport` query
    value is not; with and without the websocket transport, for an upgrade that names transport=websocket and for a poll that
    carries upgrade headers (transport=polling)"""
    out = []
    for ws_allowed in (True, False):
        for tr in ('websocket', 'polling'):
            for spelling in (('websocket', 'Upgrade'), ('WebSocket', 'upgrade'), ('WEBSOCKET', 'keep-alive, Upgrade'), ('Websocket', 'UPGRADE')):
                cfg = hist.Cfg(websocket=ws_allowed)
                out.append((cfg, [('open', 'polling', 'accept'), ('poll', 0), ('upgrade', 0, tr, spelling), ('frame', 0, ('ping', True)), ('frame', 0, ('pk', 'upgrade')),
                                  ('send', 0, 1), ('poll', 0), ('frame', 0, ('pk', ('msg', 2, 'none'))), ('post', 0, ('pk', [('msg', 3, 'none')])), ('transport', 0)]))
    return out


PROFILE['fixed'] = _gate_histories()
RULE = ('the transport gate on a grid (websocket allowed or not) x (upgrade naming transport=websocket / a poll carrying upgrade headers) x (4 spellings of the Upgrade and Connection header values); '
        'seeded histories (opens with every connect outcome, polls, posts, upgrade handshakes, WebSocket frames and closes, application calls, refused requests, clock advances) over up to 4 sessions, each run on the threaded and the asyncio server and through the model; '
        'weighted towards refused requests (method, EIO version, transport value, unknown / closed-not-reaped / rejected / wrong-transport session ids, JSONP index, missing upgrade header, disallowed origin) issued at every point of session lives, with before/after state snapshots. distinct = distinct (server, configuration, stimuli)')


def run(ctx):
    return hsuite.run(ctx, 'C12', NAMES, PROFILE, RULE)


def search(ctx, res):
    return hsuite.run(ctx, 'C12', NAMES, PROFILE, RULE).violations


def replay(payload):
    return hsuite.replay_case(payload['case'], NAMES, PROFILE['finale'])
