"""C13 — origin policy: theories/Cors.v against both servers' handle_request."""
import itertools
import vlib, rt, hx
from vlib import qN, qNs, qtext, qpair, qlist, qbool, qopt

TRUSTED = ['header values are latin-1/ASCII (str.strip/lower are modelled for code points < 256)',
           'the asyncio gateway derives wsgi.url_scheme from X-Forwarded-Proto (translate_request); the harness applies the same rule when building the model environment']
ASSUMPTIONS = ['an empty Origin header value counts as "without Origin" (DESIGN 7.4)', 'a callable policy is represented by the set of origins it accepts']
COQCHK = True
HEADER = ('From Coq Require Import NArith List Bool. Import ListNotations.\nFrom EIO Require Import Util Strings Cors CorsRun.\nOpen Scope N_scope.\n')

ALLOWED_STR = 'http://allowed.example'
ALLOWED_LIST = ['http://a.example', 'https://b.example:8443']
PRED_SET = ['http://ok.example', 'http://also-ok.example']
CFGS = {
    'default': (None, 'CDefault'),
    'star': ('*', 'CStar'),
    'str': (ALLOWED_STR, '(CStr %s)' % qtext(ALLOWED_STR)),
    'list': (ALLOWED_LIST, '(CList %s)' % qlist([qtext(x) for x in ALLOWED_LIST])),
    'pred': ((lambda o: o in PRED_SET), '(CPred %s)' % qlist([qtext(x) for x in PRED_SET])),
    'empty': ([], '(CList [])'),
}
HOSTS = ['svc.example', 'svc.example:8080', None]
XF = [(None, None), ('https', None), (None, 'proxy.example'), ('https, http', 'edge.example, inner.example'), (' https ', ' spaced.example '), ('', '')]
KINDS = ['open', 'options', 'poll', 'post', 'upgrade', 'delete']


def origins_for(host, scheme, xp, xh):
    own = '%s://%s' % (scheme, host) if host else 'http://nohost'
    fw = '%s://%s' % ((xp or scheme).split(',')[0].strip(), (xh or host or '').split(',')[0].strip())
    base = [None, '', own, fw, ALLOWED_STR, ALLOWED_LIST[0], ALLOWED_LIST[1], PRED_SET[0], 'http://evil.example', 'null']
    near = []
    for a in (own, ALLOWED_STR, ALLOWED_LIST[1], PRED_SET[1]):
        near += [a[:-1], a + 'x', a + '/', a.upper(), a.replace('http', 'https', 1) if a.startswith('http:') else a.replace('https', 'http', 1),
                 a + ':80', ' ' + a, a + ' ', a.replace('://', '://www.'), a[4:], a.split('://')[1]]
    return base, near


def model_env(kind_drv, host, scheme, xp, xh, origin, method, acrh):
    if kind_drv == 'asyncio':
        scheme = xp if xp is not None else 'http'      # translate_request: wsgi.url_scheme = X-Forwarded-Proto or 'http'
    o = lambda x: qopt(qtext(x) if x is not None else None)
    return ('{| e_scheme := %s; e_host := %s; e_xproto := %s; e_xhost := %s; e_origin := %s; e_options := %s; e_acrh := %s |}'
            % (qtext(scheme), o(host), o(xp), o(xh), o(origin), qbool(method == 'OPTIONS'), o(acrh)))


def hdr_term(k, v):
    k = k.lower()
    if k == 'access-control-allow-origin':
        return '(ACAO %s)' % qtext(v)
    if k == 'access-control-allow-methods':
        return 'ACAM'
    if k == 'access-control-allow-headers':
        return '(ACAH %s)' % qtext(v)
    if k == 'access-control-allow-credentials':
        return 'ACAC'
    return '(ACAH %s)' % qtext('??' + k)


def run_case(d, state, kind, hdrs):
    """issue one request of the given kind with the given headers; returns (rec, refused?, ws?)"""
    if kind in ('poll', 'post', 'upgrade'):
        # a live session prepared without Origin; for poll something is queued so the read returns at once
        _, sid = hx.open_polling(d)
        if kind == 'poll':
            d.api('send', sid, 'queued')
    before = hx.snapshot(d)
    if kind == 'open':
        rid = d.request(dict(method='GET', query='EIO=4&transport=polling', headers=hdrs))
    elif kind == 'options':
        rid = d.request(dict(method='OPTIONS', query='EIO=4&transport=polling', headers=hdrs))
    elif kind == 'delete':
        rid = d.request(dict(method='DELETE', query='EIO=4&transport=polling', headers=hdrs))
    elif kind == 'poll':
        rid = d.request(dict(method='GET', query='transport=polling&sid=' + sid, headers=hdrs))
    elif kind == 'post':
        rid = d.request(dict(method='POST', query='transport=polling&sid=' + sid, headers=hdrs, body=b'4hi'))
    else:
        rid, cid = d.ws_open(dict(method='GET', query='transport=websocket&sid=' + sid, headers=dict(hx.WS_HDRS, **hdrs)))
    after = hx.snapshot(d)
    rec = d.response(rid)
    if rec is None and kind == 'upgrade' and d.conns[cid].accepted:
        rec = dict(status='ws', headers=[])          # the WebSocket session is running: the request was let in
        d.ws_close(cid)
    return rec, before, after


def run(ctx):
    res = vlib.Result()
    res.rule = ('cross product: 6 cors_allowed_origins forms x credentials x Host (plain, with port, absent) x X-Forwarded-Proto/Host shapes x Origin '
                '(absent, empty, own, forwarded, configured, foreign, and prefix/suffix/case/port/space/subdomain near-misses of allowed ones) x request kind '
                '(open, OPTIONS, poll, POST, WebSocket upgrade, DELETE) x both servers; quick samples the product, thorough enumerates more of it. '
                'distinct = distinct (server, config, credentials, environment, kind); a case without Origin header is counted trivial')
    rng = ctx.rng
    terms, cases = [], []
    budget = ctx.n(2400, 20000)
    for drv_kind in ('threaded', 'asyncio'):
        for cname, (cfgval, cterm) in CFGS.items():
            for cred in (True, False):
                d = rt.DRIVERS[drv_kind](cors_allowed_origins=cfgval, cors_credentials=cred, ping_interval=1000, ping_timeout=1000, monitor_clients=False)
                try:
                    combos = []
                    for host, (xp, xh) in itertools.product(HOSTS, XF):
                        scheme = rng.choice(['http', 'https']) if drv_kind == 'threaded' else 'http'
                        base, near = origins_for(host, scheme, xp, xh)
                        for o in base + rng.sample(near, 6 if not ctx.thorough else len(near)):
                            combos.append((host, scheme, xp, xh, o))
                    rng.shuffle(combos)
                    per = max(8, budget // (2 * len(CFGS) * 2))
                    for (host, scheme, xp, xh, o) in combos[:per]:
                        kind = rng.choice(KINDS)
                        acrh = rng.choice([None, None, 'X-Custom, Content-Type'])
                        hdrs = {}
                        if host is not None:
                            hdrs['Host'] = host
                        if xp is not None:
                            hdrs['X-Forwarded-Proto'] = xp
                        if xh is not None:
                            hdrs['X-Forwarded-Host'] = xh
                        if o is not None:
                            hdrs['Origin'] = o
                        if acrh:
                            hdrs['Access-Control-Request-Headers'] = acrh
                        case = dict(server=drv_kind, cfg=cname, credentials=cred, host=host, scheme=scheme, xproto=xp, xhost=xh, origin=o, kind=kind, acrh=acrh)
                        if drv_kind == 'threaded':
                            # WSGI: scheme is part of the environ
                            d_req_scheme = scheme
                        rec, before, after = run_case_scheme(d, kind, hdrs, scheme)
                        method = {'options': 'OPTIONS', 'post': 'POST', 'delete': 'DELETE'}.get(kind, 'GET')
                        res.count(case, o is not None, '%s:%s:%s' % (cname, kind, 'origin' if o else 'none'))
                        if rec is None:
                            res.violations.append(dict(what='request did not complete', case=case, facts=dict(clause='completes', kind=kind)))
                            continue
                        st = rec.get('status')
                        refused = st == 400 or st == 'ws-rejected'
                        if kind == 'delete':
                            refused = st == 400          # otherwise 405
                        cors = hx.cors_of(rec)
                        # ---- oracle (statement level)
                        allowed = spec_allowed(cname, host, scheme if drv_kind == 'threaded' else (xp if xp is not None else 'http'), xp, xh, o)
                        checking = cname != 'empty'
                        should_refuse = checking and bool(o) and not allowed
                        facts = dict(server=drv_kind, cfg=cname, kind=kind, origin_class='none' if not o else 'allowed' if allowed else 'not-allowed')
                        if should_refuse and not refused:
                            res.violations.append(dict(what='request with a disallowed Origin was not answered 400', case=dict(case, status=st), facts=dict(facts, clause='gate')))
                        if should_refuse and before != after:
                            res.violations.append(dict(what='refused-origin request changed server state or fired an event', case=case, facts=dict(facts, clause='gate-effect')))
                        if not should_refuse and refused:
                            res.violations.append(dict(what='request without Origin / with an allowed Origin was refused', case=dict(case, status=st), facts=dict(facts, clause='unaffected')))
                        for k, v in cors:
                            if k.lower() == 'access-control-allow-origin' and not (checking and o is not None and v == o and (allowed or o == '' and cname == 'star')):
                                res.violations.append(dict(what='Access-Control-Allow-Origin over-grants', case=dict(case, header=v), facts=dict(facts, clause='acao')))
                            if k.lower() == 'access-control-allow-credentials' and not (cred and checking):
                                res.violations.append(dict(what='Allow-Credentials emitted although disabled', case=case, facts=dict(facts, clause='credentials')))
                        if not checking and cors:
                            res.violations.append(dict(what='CORS header emitted with an empty allow-list', case=dict(case, headers=cors), facts=dict(facts, clause='disabled')))
                        # ---- model term: (cfg, cred, env, refused, headers to compare or None)
                        hs = None
                        if st in (200, 400, 401, 405) and not (refused and should_refuse and drv_kind == 'threaded'):
                            hs = qlist([hdr_term(k, v) for k, v in cors])
                        if refused and not should_refuse:
                            hs = None
                        terms.append(qpair(cterm, qbool(cred), model_env(drv_kind, host, scheme, xp, xh, o, method, acrh), qbool(refused), qopt(hs)))
                        cases.append(dict(case, status=st, cors=cors))
                finally:
                    d.close()
    bad, errs = vlib.model_mismatches(HEADER, terms, 'check_cors', shard=400, ctype='cors_cfg * bool * env * bool * option (list hdr)')
    res.errors += errs
    res.mismatches += [dict(suite='cors', case=cases[b]) for b in bad[:40]]
    return res


def run_case_scheme(d, kind, hdrs, scheme):
    # identical to run_case but passes the url scheme to the WSGI gateway
    orig = d.request
    def req(r, settle=True):
        r = dict(r); r['scheme'] = scheme
        return orig(r, settle=settle)
    d.request = req
    try:
        return run_case(d, None, kind, hdrs)
    finally:
        d.request = orig


def spec_allowed(cname, host, scheme, xp, xh, o):
    """the policy as the property states it, written independently of the model"""
    if o is None:
        return False
    if cname == 'star':
        return True
    if cname == 'str':
        return o == ALLOWED_STR
    if cname == 'list':
        return o in ALLOWED_LIST
    if cname == 'pred':
        return o in PRED_SET
    if cname == 'empty':
        return False
    ok = []
    if host is not None:
        ok.append('%s://%s' % (scheme, host))
        if xp is not None or xh is not None:
            ok.append('%s://%s' % ((xp if xp is not None else scheme).split(',')[0].strip(), (xh if xh is not None else host).split(',')[0].strip()))
    return o in ok


def search(ctx, res):
    return run(ctx).violations


def replay(payload):
    c = payload['case']
    cfgval = CFGS[c['cfg']][0]
    d = rt.DRIVERS[c['server']](cors_allowed_origins=cfgval, cors_credentials=c['credentials'], ping_interval=1000, ping_timeout=1000, monitor_clients=False)
    hdrs = {}
    for k, h in (('host', 'Host'), ('xproto', 'X-Forwarded-Proto'), ('xhost', 'X-Forwarded-Host'), ('origin', 'Origin'), ('acrh', 'Access-Control-Request-Headers')):
        if c.get(k) is not None:
            hdrs[h] = c[k]
    rec, before, after = run_case_scheme(d, c['kind'], hdrs, c.get('scheme', 'http'))
    print('status', rec and rec.get('status'), 'cors', rec and hx.cors_of(rec), 'state changed', before != after)
    allowed = spec_allowed(c['cfg'], c.get('host'), c.get('scheme', 'http') if c['server'] == 'threaded' else (c.get('xproto') if c.get('xproto') is not None else 'http'), c.get('xproto'), c.get('xhost'), c.get('origin'))
    should_refuse = c['cfg'] != 'empty' and bool(c.get('origin')) and not allowed
    refused = rec and rec.get('status') in (400, 'ws-rejected')
    d.close()
    return bool(should_refuse) == bool(refused) and not (should_refuse and before != after)
