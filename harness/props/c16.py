"""C16 — session table hygiene: theories/Server.v against both servers on generated histories."""
import hsuite
from props.c03 import TRUSTED, ASSUMPTIONS
COQCHK = False
NAMES = ['c16', 'c05']
PROFILE = {'quick': 400, 'thorough': 5000, 'lengths': [14, 24, 40], 'finale': ['settle', 'sweep'], 'max_sessions': 8, 'weights': {'api': 22, 'send': 14, 'open': 10, 'open_rej': 6, 'open_ws': 5, 'disc': 8, 'post': 10, 'frame': 8, 'wsclose': 5, 'adv': 14, 'poll': 8, 'upgrade': 4, 'bad': 3}, 'monitor': True}
RULE = ('plus an oracle-only suite with suspending disconnect handlers and cancelled requests (ended sessions leave the table); seeded histories (opens with every connect outcome, polls, posts, upgrade handshakes, WebSocket frames and closes, application calls, refused requests, clock advances) over up to 4 sessions, each run on the threaded and the asyncio server and through the model; '
        'long runs with up to 8 sessions, clients vanishing at every point, API calls with live / dead / unknown ids, monitoring on; finished by an advance of ping_interval + 7 x ping_timeout after which the table must hold exactly the live sessions. distinct = distinct (server, configuration, stimuli)')


def run(ctx):
    res = hsuite.run(ctx, 'C16', NAMES, PROFILE, RULE)
    # judged by the oracle alone (the model's handlers do not suspend): histories with a disconnect handler that waits in virtual time, requests
    # cancelled while it waits - a session that has had its disconnect event must leave the table once the monitor has swept
    from props import c05
    c05.run_suspended(ctx, res, only={'ended-session-reaped'}, n_quick=80, n_thorough=2500)
    return res


def search(ctx, res):
    return run(ctx).violations


def replay(payload):
    if payload['case'].get('suspend_ticks'):
        from props import c05
        return c05.replay(payload)
    return hsuite.replay_case(payload['case'], NAMES, PROFILE['finale'])
