"""C01 — packet codec: theories/Packet.v + Base64.v against engineio.packet.Packet."""
import base64, itertools, json
import vlib
from vlib import qN, qNs, qtext, qbytes, qpair, qlist, qbool, qopt

TRUSTED = ['json.dumps / json.loads / int() are standard-library oracles: the model queries them through tables of the real answers logged per case',
           'base64 is modelled completely (Base64.v) and proved; CPython base64 is the reference for the property oracle']
ASSUMPTIONS = ['O1: json round trip on arrays/objects (hypothesis loads_dumps of c01_decode_encode)', 'O2: int() of an ASCII digit',
               'json.loads does not raise a non-ValueError on the payload text (hypothesis of c01_decode_encode; RecursionError on >~5000 nesting levels is handled since the fix of D20)']
COQCHK = True
HEADER = 'From Coq Require Import NArith List Bool. Import ListNotations.\nFrom EIO Require Import Util Packet PacketRun.\nOpen Scope N_scope.\n'

KINDS = {type(None): 'KNull', bool: 'KBool', int: 'KInt', float: 'KFloat', str: 'KStr', list: 'KArr', dict: 'KObj'}


def safe_int(s):
    if len(s) > 100:
        raise ValueError('Integer is too large')
    return int(s)


def jdump(v):
    return json.dumps(v, separators=(',', ':'))


def qJ(v):
    """python JSON value -> J0 literal (kind, compact dump)"""
    if isinstance(v, str):
        return '(KStr, %s)' % qtext(v)            # strings carry their content (what the application sees)
    return '(%s, %s)' % (KINDS[type(v)], qtext(jdump(v)))


def loads_oracle(s):
    """the standard library's answer to the model's query loads(s), as an lres J0 literal"""
    try:
        v = json.loads(s, parse_int=safe_int)
    except (ValueError, RecursionError):          # "not JSON": both are kept as text by Packet.decode
        return 'LValueError', ('ValueError',)
    except Exception:
        return 'LOther', ('Other',)
    if type(v) not in KINDS:
        return 'LOther', ('Other',)
    return '(LVal %s)' % qJ(v), ('Val', v)


def digit_oracle(c):
    try:
        return int(c)
    except ValueError:
        return None


def qdata(d):
    if d is None:
        return 'DNone'
    if isinstance(d, str):
        return '(DText %s)' % qtext(d)
    if isinstance(d, (bytes, bytearray)):
        return '(DBin %s)' % qbytes(bytes(d))
    return '(DJson %s)' % qJ(d)


def qwire(w):
    if isinstance(w, str):
        return '(WText %s)' % qtext(w)
    return '(WBin %s)' % qbytes(bytes(w))


# ----------------------------------------------------------------------------------------------------------
# generators
LOOKALIKES = ['', 'true', 'false', 'null', 'NaN', 'Infinity', '-Infinity', '1.5', '1e5', '-0', '0', '12', ' 12 ', '12\n', '\t7', '-7',
              '007', '1.0', '"x"', '"a\\u001eb"', '[]', '{}', '[1,2]', '{"a":1}', '{"a":[1,{"b":null}]}', '[1', '{"a"}', '"', '[[]]',
              'b', 'bQUJD', 'b====', '4', '4abc', '\x1e', 'a\x1eb', '\x00', '\x7f', ' ', ' ', 'é', '\U0001f600', '\ud800',
              '1' * 100, '1' * 101, '9' * 120, '[' + '1' * 101 + ']', '[' + '1' * 100 + ']', '1e400', '-1e400', '[1e400]',
              '0x10', '1_000', '+1', '.5', '5.', '١٢', '１２', ' null ', 'nul', 'True', 'None', '["a",{"b":"\\u00e9"}]', '[' * 300 + ']' * 300]
DEEP = ['[' * 6000, '{"a":' * 3000]


def gen_text(rng):
    r = rng.random()
    if r < 0.35:
        return rng.choice(LOOKALIKES)
    if r < 0.5:
        return ''.join(rng.choice('0123456789') for _ in range(rng.choice([1, 2, 3, 17, 99, 100, 101, 102, 120])))
    if r < 0.6:
        return 'b' + ''.join(rng.choice('ABCDabcd0189+/=') for _ in range(rng.randrange(0, 9)))
    if r < 0.75:
        return jdump(gen_json(rng, 3)) + rng.choice(['', ' ', 'x', ',', ']'])
    n = rng.choice([1, 2, 3, 5, 8, 20, 60])
    alpha = ['\x00', '\x01', '\x1e', '\x1f', ' ', '"', '\\', '[', ']', '{', '}', ':', ',', 'a', 'b', 'Z', '0', '9', '-', '.', 'e',
             '\n', '\r', '\x7f', '\x80', 'é', 'ß', ' ', ' ', '�', '\U0001f600', '\U0010ffff', '\ud83d']
    return ''.join(rng.choice(alpha) for _ in range(n))


def gen_bytes(rng):
    r = rng.random()
    if r < 0.1:
        return b''
    if r < 0.15:
        return bytes(range(256))
    if r < 0.3:
        return rng.choice([b'\xfb\xff\xfe', b'\xff', b'\xff\xff', b'\x00', b'\x00\x00\x00', b'>>>', b'???', b'\xfb\xef\xbe'])
    return rng.randbytes(rng.choice([1, 2, 3, 4, 5, 6, 7, 16, 31, 32, 33, 57, 100]))


def gen_json(rng, depth):
    r = rng.random()
    if depth <= 0 or r < 0.3:
        return rng.choice([None, True, False, 0, -1, 7, 2 ** 63, -2 ** 64, 10 ** 99, 10 ** 100 - 1, 1.5, -0.0, 1e300, 1e-7, 0.1, '', 'x', 'a"b\\c',
                           '\x1e', ' ', 'é', '\U0001f600', 'null', '12'])
    if r < 0.65:
        return [gen_json(rng, depth - 1) for _ in range(rng.randrange(0, 4))]
    return {rng.choice(['a', 'b', '', 'k"', 'é', '1', 'sid', '\x1e']): gen_json(rng, depth - 1) for _ in range(rng.randrange(0, 4))}


def gen_container(rng):
    v = gen_json(rng, rng.choice([1, 2, 3, 6]))
    if not isinstance(v, (list, dict)):
        v = rng.choice([[v], {'k': v}])
    return v


def gen_encode_cases(ctx):
    rng = ctx.rng
    out = []
    # every type x every payload kind once, deterministically
    for ty in range(7):
        for d in [None, '', 'hello', '12', 'true', '{"a":1}', 'b', b'', b'\x00\x01', bytearray(b'ab'), [1, 'a'], {'a': [1.5, None]}]:
            for flags in ([False], [True], [False, True], [True, False], [True, False, True, False]):
                out.append((ty, d, list(flags)))
    for d in DEEP:
        out.append((4, d, [True]))
    for _ in range(ctx.n(1500, 30000)):
        ty = rng.randrange(7)
        k = rng.random()
        if k < 0.4:
            d = gen_text(rng)
        elif k < 0.65:
            d = gen_bytes(rng); ty = 4 if rng.random() < 0.85 else ty
            if rng.random() < 0.2:
                d = bytearray(d)
        elif k < 0.95:
            d = gen_container(rng)
        else:
            d = None
        flags = [rng.random() < 0.5 for _ in range(rng.choice([1, 1, 2, 2, 3, 4, 6]))]
        out.append((ty, d, flags))
    return out


MAL_ALPHA = list('0146b"[]{}\\=+/ AQZgz-_') + ['\x1e', '٣', '３', 'é']


def gen_decode_cases(ctx):
    rng = ctx.rng
    out = ['', 'b', 'b=', 'bQ', 'bQQ', 'bQQ=', 'bQQ==', 'bQUI=', 'bQUJD', 'bQUJD=', 'bQQ==QQ==', 'b\xe9', 'bQ=Q=', 'b =Q Q = =', 'b-_-_',
           '4', '4x', '7', '9hello', 'x', '٣abc', '３', '²', '4[', '4' + '[' * 6000, '2' + '{"a":' * 3000, '4"a"', '4null', '4true', '4 1', '41e5', '4' + '9' * 101,
           b'', b'\x00', b'4abc', bytearray(b'xyz'), bytearray(b'')]
    for _ in range(ctx.n(1200, 20000)):
        r = rng.random()
        if r < 0.1:
            out.append(rng.randbytes(rng.randrange(0, 12)) if rng.random() < 0.7 else bytearray(rng.randbytes(rng.randrange(0, 6))))
        elif r < 0.45:
            out.append('b' + ''.join(rng.choice('AQgz019+/=-_ \n!é') for _ in range(rng.randrange(0, 12))))
        elif r < 0.6:
            out.append(rng.choice('0123456789٣３') + gen_text(rng))
        else:
            out.append(''.join(rng.choice(MAL_ALPHA) for _ in range(rng.randrange(1, 10))))
    if ctx.thorough:
        for L in range(1, 4):
            for t in itertools.product(MAL_ALPHA, repeat=L):
                out.append(''.join(t))
        b64a = 'AQg=+/ !-_\n9'
        for L in range(0, 5):
            for t in itertools.product(b64a, repeat=L):
                out.append('b' + ''.join(t))
    return out


# ----------------------------------------------------------------------------------------------------------
# implementation runs + property oracle (independent statement of the law in Python)
def canon_py(data):
    """decoded payload -> comparable form"""
    if isinstance(data, (bytes, bytearray)):
        return ('bin', bytes(data))
    if isinstance(data, str):
        return ('text', data)
    return ('json', type(data).__name__, jdump(data))


def spec_wire(ty, d, b64):
    if isinstance(d, (bytes, bytearray)):
        return 'b' + base64.b64encode(bytes(d)).decode('ascii') if b64 else bytes(d)
    if d is None:
        return str(ty)
    if isinstance(d, str):
        return str(ty) + d
    return str(ty) + jdump(d)


def spec_decoded(ty, d):
    if isinstance(d, (bytes, bytearray)):
        return 4, ('bin', bytes(d)), True
    if d is None:
        return ty, ('text', ''), False
    if isinstance(d, str):
        try:
            v = json.loads(d, parse_int=safe_int)
            if isinstance(v, int):
                raise ValueError
            return ty, canon_py(v), False
        except (ValueError, RecursionError):
            return ty, ('text', d), False
    return ty, canon_py(d), False


def run_encode(res, cases):
    from engineio import packet
    terms, kept = [], []
    for (ty, d, flags) in cases:
        case = dict(op='encode', type=ty, data=d, flags=flags)
        isbin = isinstance(d, (bytes, bytearray))
        try:
            p = packet.Packet(ty, d)
            outs = [p.encode(b64=f) for f in flags]
        except ValueError:
            p, outs = None, None
        except Exception as e:
            res.violations.append(dict(what='constructor/encode raised %s' % type(e).__name__, case=case, facts=dict(clause='encode-raises')))
            continue
        res.count((ty, repr(d), tuple(flags)), True, ('bin' if isbin else type(d).__name__) + ':' + str(len(flags)))
        # -- oracle
        if isbin and ty != 4:
            if p is not None:
                res.violations.append(dict(what='binary payload accepted for a non-MESSAGE packet', case=case, facts=dict(clause='binary-only-message')))
        elif p is None:
            res.violations.append(dict(what='constructor refused an acceptable payload', case=case, facts=dict(clause='ctor')))
        else:
            for i, (f, w) in enumerate(zip(flags, outs)):
                sw = spec_wire(ty, d, f)
                if (bytes(w) != sw or isinstance(sw, str)) if isinstance(w, (bytes, bytearray)) else w != sw:
                    first_bad = all(outs[j] == spec_wire(ty, d, flags[j]) for j in range(i))
                    res.violations.append(dict(what='an encode call does not return the wire form of the channel asked for', case=case,
                                               facts=dict(clause='wire-form', binary=isbin, call_index=i, earlier_calls_ok=first_bad,
                                                          mixed_channels=len(set(flags[:i + 1])) > 1)))
                    break
            else:
                for f, w in zip(flags, outs):
                    try:
                        q = packet.Packet(encoded_packet=w)
                        got = (q.packet_type, canon_py(q.data), q.binary)
                    except Exception as e:
                        got = ('raised', type(e).__name__)
                    if got != spec_decoded(ty, d):
                        res.violations.append(dict(what='decode(encode(p)) is not (type, canonical payload)', case=dict(case, got=got, want=spec_decoded(ty, d)),
                                                   facts=dict(clause='round-trip', got=repr(got[:2])[:40], kind=type(d).__name__)))
                        break
        # -- model term
        try:
            term = qpair(qN(ty), qdata(d), qlist([qbool(f) for f in flags]), qopt(qlist([qwire(w) for w in outs]) if outs is not None else None))
        except (KeyError, TypeError):
            continue
        terms.append(term); kept.append(case | dict(impl=outs))
    return terms, kept


def run_decode(res, cases):
    from engineio import packet
    terms, kept = [], []
    for w in cases:
        case = dict(op='decode', wire=w)
        try:
            q = packet.Packet(encoded_packet=w)
            got = (q.packet_type, q.data, q.binary)
        except Exception as e:
            got = None
            if not isinstance(e, (ValueError, IndexError, RecursionError)):
                res.notes.append('decode raised %s on %r' % (type(e).__name__, w if len(w) < 40 else w[:40]))
        trivial = isinstance(w, str) and len(w) == 0
        res.count(('d', repr(w)), not trivial, 'decode:' + ('bytes' if not isinstance(w, str) else 'b64' if w[:1] == 'b' else 'text'))
        # oracle: never a binary packet of another type; binary flag consistent
        if got is not None:
            if got[2] and (got[0] != 4 or not isinstance(got[1], (bytes, bytearray))):
                res.violations.append(dict(what='decode reports a binary packet that is not a MESSAGE with bytes', case=dict(case, got=got), facts=dict(clause='binary-only-message')))
            if isinstance(got[1], (bytes, bytearray)) and not got[2]:
                res.violations.append(dict(what='decode returns bytes without the binary flag', case=dict(case, got=got), facts=dict(clause='binary-flag')))
            if isinstance(got[1], bool) or (isinstance(got[1], int)):
                res.violations.append(dict(what='decode returns an integer payload (must stay text)', case=dict(case, got=got), facts=dict(clause='int-stays-text')))
        # model term with the oracle tables for exactly the queries the model makes
        lt, dt = [], []
        if isinstance(w, str) and w and w[0] != 'b':
            dv = digit_oracle(w[0])
            dt.append(qpair(qN(ord(w[0])), qopt(qN(dv) if dv is not None else None)))
            if dv is not None:
                lt.append(qpair(qtext(w[1:]), loads_oracle(w[1:])[0]))
        if got is None:
            exp = 'DErr'
        else:
            try:
                exp = '(DOk %s %s %s)' % (qN(got[0]), qdata(got[1]) if got[1] is not None else '(DJson %s)' % qJ(None), qbool(got[2]))
            except (KeyError, TypeError):
                exp = 'DErr'
        terms.append(qpair(qwire(w), qlist(lt), qlist(dt), exp))
        kept.append(case | dict(impl=got))
    return terms, kept


def run(ctx):
    res = vlib.Result()
    res.rule = ('encode: (type 0-6, payload, sequence of 1-6 channel flags) from a fixed grid plus seeded generation (Unicode text with controls / U+001E / '
                'JSON look-alikes / digit strings to 120 digits / leading b; bytes incl. empty and all 256 values; nested JSON); decode: malformed stream '
                '(b64 alphabet and junk, non-ASCII digits, bytes, bytearray; thorough adds all strings of length <=3 over a 24-symbol alphabet and all b64 '
                'strings of length <=4 over 12 symbols). distinct = distinct (type, payload, flags) or wire string; the empty wire string is the only trivial case')
    enc = gen_encode_cases(ctx)
    dec = gen_decode_cases(ctx)
    t1, k1 = run_encode(res, enc)
    t2, k2 = run_decode(res, dec)
    b1, e1 = vlib.model_mismatches(HEADER, t1, 'check_enc', shard=300, ctype='N * pdata J0 * list bool * option (list wire)')
    b2, e2 = vlib.model_mismatches(HEADER, t2, 'check_dec', shard=500, ctype='wire * list (text * lres J0) * list (N * option N) * dres J0')
    res.errors += e1 + e2
    for b in b1[:50]:
        res.mismatches.append(dict(suite='encode_seq', case=k1[b]))
    for b in b2[:50]:
        res.mismatches.append(dict(suite='decode', case=k2[b]))
    res.exhaustive = False
    return res


def search(ctx, res):
    return run(ctx).violations


def replay(payload):
    c = payload['case']
    r = vlib.Result()
    def unj(x):
        if isinstance(x, dict) and set(x) == {'bytes'}:
            return bytes.fromhex(x['bytes'])
        return x
    if c.get('op') == 'encode':
        run_encode(r, [(c['type'], unj(c['data']), c['flags'])])
    else:
        run_decode(r, [unj(c['wire'])])
    for v in r.violations:
        print(v['what'], v['case'])
    return not r.violations
