"""C04 — client-to-server dispatch: theories/Server.v against both servers on generated histories."""
import hsuite
from props.c03 import TRUSTED, ASSUMPTIONS
COQCHK = False
NAMES = ['c04', 'c05']
PROFILE = {'quick': 500, 'thorough': 25000, 'lengths': [8, 14, 22], 'finale': ['settle'], 'weights': {'post': 26, 'frame': 22, 'upgrade': 6, 'open_ws': 5, 'poll': 6, 'send': 4, 'adv': 4, 'bad': 2, 'api': 1}, 'p_async': 0.45}
RULE = ('seeded histories (opens with every connect outcome, polls, posts, upgrade handshakes, WebSocket frames and closes, application calls, refused requests, clock advances) over up to 4 sessions, each run on the threaded and the asyncio server and through the model; '
        'weighted towards POST bodies and frames built from every packet kind incl. undefined types, CLOSE/invalid packets at every position, undecodable and oversize bodies; both handler dispatch modes. distinct = distinct (server, configuration, stimuli)')


def run(ctx):
    return hsuite.run(ctx, 'C04', NAMES, PROFILE, RULE)


def search(ctx, res):
    return hsuite.run(ctx, 'C04', NAMES, PROFILE, RULE).violations


def replay(payload):
    return hsuite.replay_case(payload['case'], NAMES, PROFILE['finale'])
