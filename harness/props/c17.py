"""C17 — session ids: model theories/Sid.v against BaseServer.generate_id of both servers."""
import base64, types
import vlib
from vlib import qN, qNs, qtext, qpair

TRUSTED = ['secrets.token_bytes is replaced by a recording stub; that the real one is the OS CSPRNG is Python\'s documentation, not a theorem']
ASSUMPTIONS = ['the clause "taken from the OS cryptographic source" is established by instrumentation of the one call site '
               '(exactly one token_bytes(12) per issue, nothing else consulted), not by proof']
COQCHK = True
HEADER = 'From Coq Require Import NArith List Bool. Import ListNotations.\nFrom EIO Require Import Util Sid.\n'
CHECK = "fun c : list N * N * list N * N => let '(r, n, i, n') := c in eqbl (generate_id r n) i && N.eqb (next_seq n) n'"
ALPHA = set('ABCDEFGHIJKLMNOPQRSTUVWXYZabcdefghijklmnopqrstuvwxyz0123456789_-')


class Stub:
    def __init__(self, feed):
        self.feed, self.calls = feed, []

    def token_bytes(self, n=None):
        self.calls.append(n)
        return self.feed()

    # the other generators of `secrets`, defined on top of token_bytes exactly as the standard library does
    def token_hex(self, n=None):
        return self.token_bytes(n).hex()

    def token_urlsafe(self, n=None):
        return base64.urlsafe_b64encode(self.token_bytes(n)).rstrip(b'=').decode('ascii')

    def __getattr__(self, name):          # anything else of `secrets` being used is recorded as a foreign call
        def f(*a, **k):
            self.calls.append(name)
            raise AssertionError('unexpected secrets.%s' % name)
        return f


def servers():
    import engineio
    return [('Server', engineio.Server(async_mode='threading')), ('AsyncServer', engineio.AsyncServer(async_mode='asgi'))]


def issue(srv, start, feeds):
    """Issue len(feeds) ids from counter `start`; returns [(rnd, n, id, n_after, calls)]"""
    import engineio.base_server as bs
    out = []
    srv.sequence_number = start
    for r in feeds:
        stub = Stub(lambda r=r: r)
        old = bs.secrets
        bs.secrets = stub
        try:
            n = srv.sequence_number
            try:
                i = srv.generate_id()
            except Exception as e:
                i = 'raised ' + type(e).__name__
        finally:
            bs.secrets = old
        out.append((r, n, i, srv.sequence_number, stub.calls))
    return out


def nested_issue(srv, start, rnd):
    """-> (inner id, outer id, counter afterwards): the inner issue runs from inside the outer one's call of the random source"""
    import engineio.base_server as bs
    srv.sequence_number = start
    inner = []

    class Re(Stub):
        def token_bytes(self, n=None):
            if not inner:
                inner.append(None)
                inner[0] = srv.generate_id()
            return Stub.token_bytes(self, n)
    old = bs.secrets
    bs.secrets = Re(lambda: rnd)
    try:
        outer = srv.generate_id()
    except Exception as e:
        outer = 'raised ' + type(e).__name__
    finally:
        bs.secrets = old
    return inner[0], outer, srv.sequence_number


def gen_windows(ctx):
    rng = ctx.rng
    starts = [0, 1, 255, 256, 65535, 65536, 0xffffff - 3, 0xffffff - 1, 0xffffff] + [2 ** k - 1 for k in range(1, 25)]
    starts += [rng.randrange(1 << 24) for _ in range(ctx.n(30, 300))]
    for s in starts:
        k = rng.choice([3, 5, 8, 12])
        mode = rng.choice(['const0', 'constff', 'repeat', 'random', 'random'])
        if mode == 'const0':
            feeds = [bytes(12)] * k
        elif mode == 'constff':
            feeds = [b'\xff' * 12] * k
        elif mode == 'repeat':
            a, b = rng.randbytes(12), rng.randbytes(12)
            feeds = [a if i % 2 else b for i in range(k)]
        else:
            feeds = [rng.randbytes(12) for _ in range(k)]
        yield s, feeds, mode


def oracle(res, name, s, recs, mode):
    ids = [r[2] for r in recs]
    for (rnd, n, i, n2, calls) in recs:
        case = dict(server=name, counter=n, rnd=rnd.hex(), id=i)
        if calls != [12]:
            res.violations.append(dict(what='random source not consulted exactly once for 12 bytes', case=case, facts=dict(clause='csprng', calls=repr(calls))))
        if not (isinstance(i, str) and len(i) == 20 and set(i) <= ALPHA):
            res.violations.append(dict(what='id is not 20 characters over [A-Za-z0-9_-]', case=case, facts=dict(clause='format')))
            continue
        raw = base64.urlsafe_b64decode(i)
        if raw[:12] != rnd:
            res.violations.append(dict(what='id does not embed the 96 random bits', case=case, facts=dict(clause='embeds')))
        if n2 != (n + 1) % (1 << 24):
            res.violations.append(dict(what='counter does not step by one modulo 2^24', case=case, facts=dict(clause='counter')))
    if len(set(ids)) != len(ids):
        res.violations.append(dict(what='two ids within a window of consecutive issues are equal', case=dict(server=name, start=s, mode=mode, ids=ids), facts=dict(clause='unique')))


def run(ctx):
    res = vlib.Result()
    res.rule = ('windows of 3-12 consecutive issues from boundary / 2^k-1 / random start counters (incl. the 2^24 wrap) with constant, '
                'alternating and random 12-byte outputs of the stubbed random source, on Server and AsyncServer; a case is one issued id; '
                'distinct = distinct (server, counter, random bytes); all are non-trivial')
    terms, cases = [], []
    for name, srv in servers():
        # stride test: same random output, counters 2^k apart must still give different ids
        for k in range(24):
            c0 = ctx.rng.randrange(1 << 24)
            rnd = ctx.rng.randbytes(12)
            a = issue(srv, c0, [rnd])[0]
            b = issue(srv, (c0 + (1 << k)) % (1 << 24), [rnd])[0]
            res.count(dict(server=name, stride=k, c0=c0, rnd=rnd.hex()), True, 'stride')
            if a[2] == b[2]:
                res.violations.append(dict(what='two ids within a window of consecutive issues are equal',
                                           case=dict(server=name, start=c0, other=b[1], rnd=rnd.hex(), ids=[a[2], b[2]]), facts=dict(clause='unique')))
        # an issue that begins while another one is consulting the random source (the one point inside generate_id at which a second
        # connection can interleave): the two are consecutive issues and must differ, and the counter must have advanced by two
        for _ in range(12):
            c0 = ctx.rng.choice([0, 1, (1 << 24) - 2, (1 << 24) - 1, ctx.rng.randrange(1 << 24)])
            rnd = ctx.rng.randbytes(12)
            a, b, after = nested_issue(srv, c0, rnd)
            res.count(dict(server=name, nested=c0, rnd=rnd.hex()), True, 'nested')
            if a == b or after != (c0 + 2) % (1 << 24):
                res.violations.append(dict(what='two ids within a window of consecutive issues are equal (the second issue began while the first was reading the random source)',
                                           case=dict(server=name, start=c0, rnd=rnd.hex(), ids=[a, b], counter_after=after, nested=True), facts=dict(clause='unique', nested=True)))
        for s, feeds, mode in gen_windows(ctx):
            recs = issue(srv, s, feeds)
            oracle(res, name, s, recs, mode)
            for (rnd, n, i, n2, calls) in recs:
                case = dict(server=name, counter=n, rnd=rnd.hex(), id=i, next=n2)
                res.count(case, True, mode)
                cases.append(case)
                idt = qtext(i) if isinstance(i, str) else qNs([])
                terms.append(qpair(qNs(list(rnd)), qN(n), idt, qN(n2 if isinstance(n2, int) and n2 >= 0 else 0)))
    bad, errs = vlib.model_mismatches(HEADER, terms, CHECK)
    res.errors += errs
    for k, b in enumerate(bad):
        c = cases[b]
        res.mismatches.append(dict(suite='generate_id', case=c,
                                   model=vlib.model_show(HEADER, 'generate_id %s %s' % (qNs(list(bytes.fromhex(c['rnd']))), qN(c['counter']))) if k < 2 else '(not shown)',
                                   impl=c['id']))
    return res


def search(ctx, res):
    return run(ctx).violations


def replay(payload):
    c = payload['case']
    import engineio
    srv = engineio.Server(async_mode='threading') if c.get('server') == 'Server' else engineio.AsyncServer(async_mode='asgi')
    r = vlib.Result()
    if 'counter' in c:
        recs = issue(srv, c['counter'], [bytes.fromhex(c['rnd'])])
        oracle(r, c['server'], c['counter'], recs, 'replay')
    else:
        recs = issue(srv, c['start'], [bytes(12)] * len(c['ids']))
        oracle(r, c['server'], c['start'], recs, 'replay')
    print(recs)
    return not r.violations
