"""C11 — OPEN handshake: theories/Open.v (+ Server.v handle_connect) against both servers."""
import json
import vlib, rt, hx
from vlib import qN, qZ, qbool, qlist, qopt, qpair, qtext
from props import c19

TRUSTED = ['time settings are multiples of 1/1024 s so that the float arithmetic of the code is exact; json is a standard-library oracle for reading the OPEN packet']
ASSUMPTIONS = ['a callable cookie attribute is represented by the value it returns']
COQCHK = True
HEADER = 'From Coq Require Import ZArith NArith List Bool. Import ListNotations.\nFrom EIO Require Import Util Strings Open OpenRun.\n'

COOKIES = {
    'none': (None, 'CkNone'),
    'name': ('mycookie', '(CkName %s)' % qtext('mycookie')),
    'dict': ({'name': 'io2', 'path': '/', 'SameSite': 'Strict'}, None),
    'dict-bools': ({'path': '/x', 'Secure': True, 'HttpOnly': False}, None),
    'dict-callable': ({'name': 'c', 'max-age': (lambda: '3600'), 'Secure': (lambda: True)}, None),
    'dict-noname-empty': ({}, None),
}
OUTCOMES = ['none', 'true', 'false', 'zero', 'empty', 'text', 'dict', 'list', 'raise', 'typeerror']


def cookie_term(c):
    if c is None:
        return 'CkNone'
    if isinstance(c, str):
        return '(CkName %s)' % qtext(c)
    attrs = []
    for k, v in c.items():
        if k == 'name':
            continue
        if callable(v):
            v = v()
        attrs.append('(%s, %s)' % (qtext(k), '(VBool %s)' % qbool(v) if isinstance(v, bool) else '(VStr %s)' % qtext(v)))
    return '(CkDict %s %s)' % (qopt(qtext(c['name']) if 'name' in c else None), qlist(attrs))


def spec_cookie(c, sid):
    if not c:
        return None if not isinstance(c, dict) or c is None or c == {} and False else (None if c is None or c == '' else spec_cookie_dict(c, sid))
    if isinstance(c, str):
        return '%s=%s; path=/; SameSite=Lax' % (c, sid)
    return spec_cookie_dict(c, sid)


def spec_cookie_dict(c, sid):
    out = c.get('name', 'io') + '=' + sid
    for k, v in c.items():
        if k == 'name':
            continue
        if callable(v):
            v = v()
        if v is True:
            out += '; ' + k
        elif v is False:
            continue
        else:
            out += '; %s=%s' % (k, v)
    return out


def run(ctx):
    res = vlib.Result()
    res.rule = ('configuration grid: ping_interval (integer, fractional, with grace) x ping_timeout x max_http_buffer_size x allow_upgrades x transports x cookie '
                '(none, name, dict with string / boolean / callable attributes, empty dict) x every connect-handler outcome (None, True, False, 0, "", text, dict, list, exception, TypeError, sends to the new sid and accepts) '
                'x polling / WebSocket open x JSONP, on both servers, sampled; a case is one open request. distinct = distinct (server, configuration, outcome, open kind)')
    rng = ctx.rng
    oterms, ocases, cterms, ccases = [], [], [], []
    n = ctx.n(260, 10000)
    for drv_kind in ('threaded', 'asyncio'):
        for _ in range(n // 2):
            I = rng.choice([25 * 1024, 1536, 512, 2560, 1024, 1024 + 256, 100])
            g = rng.choice([0, 0, 512, 5 * 1024, 256])
            T = rng.choice([20 * 1024, 1680, 512, 1024 + 512, 700])
            mb = rng.choice([1, 1000, 10 ** 6, 123456])
            au = rng.random() < 0.75
            tp = rng.choice([['polling', 'websocket'], ['polling', 'websocket'], ['polling'], ['websocket'], 'websocket'])
            ck = rng.choice(list(COOKIES))
            cookie = COOKIES[ck][0]
            kw = dict(ping_interval=(I / 1024.0, g / 1024.0) if g or rng.random() < 0.2 else I / 1024.0, ping_timeout=T / 1024.0, max_http_buffer_size=mb, allow_upgrades=au,
                      transports=tp, cookie=cookie, monitor_clients=False)
            d = rt.DRIVERS[drv_kind](**kw)
            tlist = [tp] if isinstance(tp, str) else tp
            try:
                for _k in range(4):
                    oc = rng.choice(OUTCOMES + ['none', 'none', 'true', 'send', 'send'])      # 'send': the handler sends to the new sid, then accepts
                    kind = rng.choice(['polling', 'polling', 'websocket'])
                    jq = rng.choice([None, None, '3']) if kind == 'polling' else None
                    case = dict(server=drv_kind, interval=I, grace=g, timeout=T, maxbuf=mb, allow_upgrades=au, transports=tlist, cookie=ck, outcome=oc, open=kind, jsonp=jq)
                    before = set(d.srv.sockets)
                    nev = len(d.events)
                    if kind == 'polling':
                        rid = d.request(dict(method='GET', query='EIO=4&transport=polling&ho=%s%s' % (oc, '&j=' + jq if jq else '')))
                        conn = None
                    else:
                        rid, cid = d.ws_open(dict(method='GET', query='EIO=4&transport=websocket&ho=' + oc, headers=dict(hx.WS_HDRS)))
                        conn = d.conns[cid]
                    rec = d.response(rid)
                    allowed = kind in tlist
                    res.count(case, True, '%s:%s:%s' % (kind, 'accept' if oc in ('none', 'true', 'send') else 'reject', 'allowed' if allowed else 'refused'))
                    facts = dict(server=drv_kind, open=kind)
                    if not allowed:
                        st = rec.get('status') if rec else None
                        if st not in (400, 'ws-rejected') or set(d.srv.sockets) != before or len(d.events) != nev:
                            res.violations.append(dict(what='an open on a transport that is not allowed was not refused without effect', case=dict(case, status=st), facts=dict(facts, clause='transport-config')))
                        continue
                    evs = d.events[nev:]
                    hsid = evs[0][0] if evs and evs[0][1] == 'connect' else None
                    if hsid is None or [e[1] for e in evs].count('connect') != 1:
                        res.violations.append(dict(what='the connect handler did not run exactly once for an admitted open', case=case, facts=dict(facts, clause='connect-once')))
                        continue
                    accept = oc in ('none', 'true', 'send')
                    if not accept:
                        st = rec.get('status') if rec else None
                        body = rec.get('body') if rec else None
                        val = rt.HANDLER_OUTCOMES.get(oc)
                        want_body = json.dumps(val).encode() if val else b'"Unauthorized"'
                        if kind == 'polling' and (st != 401 or body != want_body):
                            res.violations.append(dict(what='a rejected open was not answered 401 carrying the handler value', case=dict(case, status=st, body=repr(body)[:60]), facts=dict(facts, clause='reject-401', outcome=oc)))
                        if kind == 'websocket' and st not in (401, 'ws-rejected'):
                            res.violations.append(dict(what='a rejected WebSocket open was not refused', case=dict(case, status=st), facts=dict(facts, clause='reject-401', outcome=oc)))
                        if hsid in d.srv.sockets:
                            res.violations.append(dict(what='the session of a rejected open stayed in the table', case=case, facts=dict(facts, clause='reject-discarded', outcome=oc)))
                        r2 = d.response(d.request(dict(method='GET', query='transport=polling&sid=' + hsid)))
                        if 'polling' in tlist and (r2 is None or r2.get('status') != 400):
                            res.violations.append(dict(what='the id of a rejected session is addressable', case=case, facts=dict(facts, clause='reject-discarded', outcome=oc)))
                        continue
                    # accepted: read the OPEN packet
                    if kind == 'polling':
                        if rec is None or rec.get('status') != 200:
                            res.violations.append(dict(what='an admitted polling open was not answered 200', case=dict(case, status=rec and rec.get('status')), facts=dict(facts, clause='open-200')))
                            continue
                        text = rec['body'].decode('utf-8')
                        if jq:
                            pre = '___eio[%s]("' % jq
                            units = c19.js_eval(text[len(pre):-3]) if text.startswith(pre) and text.endswith('");') else None
                            text = ''.join(map(chr, units)) if units is not None else ''
                        first = text.split('\x1e')[0]
                        setc = rt.header(rec, 'Set-Cookie')
                    else:
                        first = conn.sent[0] if conn.sent else ''
                        setc = None
                    if not (isinstance(first, str) and first.startswith('0{')):
                        res.violations.append(dict(what='the first packet of the handshake answer is not OPEN', case=dict(case, first=repr(first)[:60]), facts=dict(facts, clause='open-first')))
                        continue
                    info = json.loads(first[1:])
                    new = set(d.srv.sockets) - before
                    if new != {hsid} or info.get('sid') != hsid:
                        res.violations.append(dict(what='the open did not create exactly one session whose id is the one given to the connect handler', case=dict(case, sid=info.get('sid'), handler_sid=hsid), facts=dict(facts, clause='sid')))
                    want_up = ['websocket'] if (au and 'websocket' in tlist and kind == 'polling') else []
                    want = dict(upgrades=want_up, pingTimeout=T * 1000 // 1024, pingInterval=(I + g) * 1000 // 1024, maxPayload=mb)
                    got = {k: info.get(k) for k in want}
                    if got != want:
                        bad = [k for k in want if got[k] != want[k]][0]
                        res.violations.append(dict(what='an OPEN packet field does not reflect the configuration: ' + bad, case=dict(case, got=got, want=want), facts=dict(facts, clause='open-field', field=bad)))
                    oterms.append(qpair('{| oc_interval := %s; oc_grace := %s; oc_timeout := %s; oc_maxbuf := %s; oc_allow_upgrades := %s; oc_polling := %s; oc_websocket := %s; oc_driver_ws := true |}'
                                        % (qZ(I), qZ(g), qZ(T), qZ(mb), qbool(au), qbool('polling' in tlist), qbool('websocket' in tlist)), qbool(kind == 'websocket'),
                                        qpair(qbool(bool(info.get('upgrades'))), qZ(int(info.get('pingTimeout', -1))), qZ(int(info.get('pingInterval', -1))), qZ(int(info.get('maxPayload', -1))))))
                    ocases.append(dict(case, open_packet=info))
                    if kind == 'polling':
                        want_c = spec_cookie(cookie, hsid) if cookie else None
                        gotc = setc[0] if setc else None
                        if len(setc) > 1 or gotc != want_c:
                            res.violations.append(dict(what='the session cookie is not set exactly as configured', case=dict(case, got=setc, want=want_c), facts=dict(facts, clause='cookie', cookie=ck)))
                        cterms.append(qpair(cookie_term(cookie) if cookie else 'CkNone', qtext(hsid), qopt(qtext(gotc) if gotc is not None else None)))
                        ccases.append(dict(case, set_cookie=gotc))
            except Exception as e:
                res.violations.append(dict(what='handshake raised %s' % type(e).__name__, case=case, facts=dict(clause='raises', server=drv_kind, cookie=ck, exc=type(e).__name__)))
            finally:
                d.close()
    b1, e1 = vlib.model_mismatches(HEADER, oterms, 'check_open', shard=400, ctype='ocfg * bool * (bool * Z * Z * Z)')
    b2, e2 = vlib.model_mismatches(HEADER, cterms, 'check_cookie', shard=400, ctype='cookie_cfg * text * option text')
    res.errors += e1 + e2
    res.mismatches += [dict(suite='open-packet', case=ocases[b]) for b in b1[:30]]
    res.mismatches += [dict(suite='cookie', case=ccases[b]) for b in b2[:30]]
    return res


def search(ctx, res):
    return run(ctx).violations


def replay(payload):
    print(payload['case'])
    return True
