"""C05 — session events: theories/Server.v against both servers on generated histories."""
import hsuite
from props.c03 import TRUSTED, ASSUMPTIONS
COQCHK = False
NAMES = ['c05', 'c04']
PROFILE = {'quick': 500, 'thorough': 25000, 'lengths': [10, 18, 28], 'finale': ['settle', 'sweep'], 'weights': {'disc': 8, 'disc_all': 2, 'post': 14, 'frame': 14, 'wsclose': 6, 'adv': 16, 'open_rej': 5, 'send': 8, 'poll': 10, 'upgrade': 5}, 'p_async': 0.4, 'p_monitor': 0.85}
RULE = ('seeded histories (opens with every connect outcome, polls, posts, upgrade handshakes, WebSocket frames and closes, application calls, refused requests, clock advances) over up to 4 sessions, each run on the threaded and the asyncio server and through the model; '
        'weighted towards every cause of a session end (CLOSE packet, disconnect() of one and of all sessions, transport drops, clock advances across heartbeat deadlines, protocol errors, handler exceptions) and rejected opens; finished by a long advance so that every end is detected. distinct = distinct (server, configuration, stimuli)')


def run(ctx):
    return hsuite.run(ctx, 'C05', NAMES, PROFILE, RULE)


def search(ctx, res):
    return hsuite.run(ctx, 'C05', NAMES, PROFILE, RULE).violations


def replay(payload):
    return hsuite.replay_case(payload['case'], NAMES, PROFILE['finale'])
