"""C05 — session events: theories/Server.v against both servers on generated histories."""
import hsuite
from props.c03 import TRUSTED, ASSUMPTIONS
COQCHK = False
NAMES = ['c05', 'c04']
PROFILE = {'quick': 500, 'thorough': 25000, 'lengths': [10, 18, 28], 'finale': ['settle', 'sweep'], 'weights': {'disc': 8, 'disc_all': 2, 'post': 14, 'frame': 14, 'wsclose': 6, 'adv': 16, 'open_rej': 5, 'send': 8, 'poll': 10, 'upgrade': 5}, 'p_async': 0.4, 'p_monitor': 0.85}
RULE = ('seeded histories (opens with every connect outcome, polls, posts, upgrade handshakes, WebSocket frames and closes, application calls, refused requests, clock advances) over up to 4 sessions, each run on the threaded and the asyncio server and through the model; '
        'weighted towards every cause of a session end (CLOSE packet, disconnect() of one and of all sessions, transport drops, clock advances across heartbeat deadlines, protocol errors, handler exceptions) and rejected opens; finished by a long advance so that every end is detected. distinct = distinct (server, configuration, stimuli)')


import hist
# the clauses of the C05 oracle that do not presuppose that a handler runs to completion at once
SUSPEND_CLAUSES = {'connect-first', 'disconnect-once', 'rejected-silent', 'none-after-disconnect', 'disconnect-exactly-once', 'ended-session-reaped'}
RULE += ('. Plus, judged by the oracle alone (the model\'s handlers do not suspend): the same kind of histories with a disconnect handler that waits 1, 64 or 700 ticks of '
         'virtual time before it returns (a coroutine that awaits / a handler that blocks cooperatively), so that further end causes, requests and frames arrive while it is '
         'suspended: connect first and once, at most one disconnect, exactly one once ended, nothing for a rejected id, no event after the disconnect event')


def suspended(cfg, ops, kind, seed, ticks):
    r, vs = hsuite.evaluate(kind, cfg, ops, ['c05'], PROFILE['finale'], seed=seed, runner_kw=dict(disc_suspends=ticks))
    vs = [x for x in vs if x['facts'].get('clause') in SUSPEND_CLAUSES]
    if cfg.monitor and r.post:
        # ... and once it has had its disconnect event a session leaves the server's table (the finale lets the monitor sweep)
        import oracles
        v = oracles.View(r)
        for s_ in range(v.n):
            if any(k == 'disconnect' for _, k, _ in v.events[s_]) and r.post[-1].get(s_) is not None:
                vs.append(dict(what='a session that has had its disconnect event is still in the server\'s table after the monitor has swept',
                               case=v.case(dict(detail=dict(session=s_))), facts=dict(clause='ended-session-reaped', server=kind, session=s_)))
    for x in vs:
        x['facts']['suspending_handler'] = ticks
        x['case']['suspend_ticks'] = ticks
    return r, vs


def fixed_suspended():
    """two end causes while the handler of the first is suspended; traffic in that window"""
    out = []
    for opener in (('open', 'polling', 'accept'), ('open', 'websocket', 'accept', True)):
        ws = opener[1] == 'websocket'
        msg = (lambda k: ('frame', 0, ('pk', ('msg', k, 'none')))) if ws else (lambda k: ('post', 0, ('pk', [('msg', k, 'none')])))
        close = ('frame', 0, ('pk', 'close')) if ws else ('post', 0, ('pk', ['close']))
        for first in (close, ('disc', 0), ('disc', None)):
            for second in (close, ('disc', 0), ('disc', None), ('wsclose', 0) if ws else ('poll', 0), msg(7)):
                out.append([opener, msg(1), first, second, msg(2), ('adv', 1000), second, msg(3)])
    # the request that ended the session is cancelled by the web server while the disconnect handler is still suspended
    for tail in ([], [('adv', 1)], [('post', 0, ('pk', [('msg', 5, 'none')]))]):
        out.append([('open', 'polling', 'accept'), ('post', 0, ('pk', [('msg', 1, 'none')])), ('post', 0, ('pk', ['close'])), ('cancelreq',)] + tail + [('adv', 1000)])
        out.append([('open', 'polling', 'accept'), ('open', 'polling', 'accept'), ('post', 1, ('pk', [('msg', 1, 'none'), 'bad'])), ('cancelreq',)] + tail + [('adv', 1000)])
    return out


def run_suspended(ctx, res, only=None, n_quick=150, n_thorough=6000):
    rng = ctx.rng
    reported = set()
    hs = [(hist.Cfg(), ops) for ops in fixed_suspended()]
    for h in range(ctx.n(n_quick, n_thorough)):
        cfg = hsuite.gen_cfg(rng, PROFILE)
        ops = hist.gen_history(rng, cfg, rng.choice([8, 14]), PROFILE['weights'])
        if rng.random() < 0.3:
            # ... with the requests that carry an end cause cancelled while they are still being served
            ops = [y for o in ops for y in ([o, ('cancelreq',)] if o[0] == 'post' and rng.random() < 0.5 else [o])]
        hs.append((cfg, ops))
    for h, (cfg, ops) in enumerate(hs):
        ticks = [1, 64, 700][h % 3]
        for kind in ('threaded', 'asyncio'):
            try:
                r, vs = suspended(cfg, ops, kind, h, ticks)
            except Exception as e:
                res.errors.append('history with a suspending handler crashed the harness on %s: %s %s' % (kind, type(e).__name__, str(e)[:300]))
                continue
            res.count((kind, 'suspending', ticks, cfg.key(), tuple(map(repr, r.log))), True, 'suspending:' + kind)
            for x in vs:
                if only is not None and x['facts'].get('clause') not in only:
                    continue
                key = (x['what'], kind)
                if key not in reported or len(res.violations) < 40:
                    res.violations.append(x)
                reported.add(key)


def run(ctx):
    res = hsuite.run(ctx, 'C05', NAMES, PROFILE, RULE)
    run_suspended(ctx, res)
    return res


def search(ctx, res):
    return run(ctx).violations


def replay(payload):
    c = payload['case']
    if c.get('suspend_ticks'):
        r, vs = suspended(hist.Cfg(*c['cfg']), [hsuite.op_from_json(op) for op in c['ops']], c['server'], 0, c['suspend_ticks'])
        for x in vs:
            print(x['what'], x['facts'])
        print('outs:', r.outs)
        return not vs
    return hsuite.replay_case(c, NAMES, PROFILE['finale'])
