"""C14 — size and volume limits: theories/Server.v against both servers on generated histories."""
import hsuite
from props.c03 import TRUSTED, ASSUMPTIONS
COQCHK = False
NAMES = ['c14', 'c04']
PROFILE = {'quick': 400, 'thorough': 25000, 'lengths': [8, 14], 'finale': ['settle'], 'weights': {'post': 30, 'frame': 24, 'upgrade': 8, 'open_ws': 5, 'poll': 4, 'send': 2, 'adv': 3, 'bad': 1}, 'p_async': 0.3}
RULE = ('seeded histories (opens with every connect outcome, polls, posts, upgrade handshakes, WebSocket frames and closes, application calls, refused requests, clock advances) over up to 4 sessions, each run on the threaded and the asyncio server and through the model; '
        'weighted towards oversize and undecodable POST bodies and frames on polling, WebSocket and mid-upgrade sessions; body reads are recorded by an instrumented wsgi.input. distinct = distinct (server, configuration, stimuli)')


def run(ctx):
    return hsuite.run(ctx, 'C14', NAMES, PROFILE, RULE)


def search(ctx, res):
    return hsuite.run(ctx, 'C14', NAMES, PROFILE, RULE).violations


def replay(payload):
    return hsuite.replay_case(payload['case'], NAMES, PROFILE['finale'])
