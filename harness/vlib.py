"""Shared machinery of the /verif checks: Coq build + property-file check, in-Coq evaluation of the
model on generated cases, literal printers, evidence / replay / known-findings handling.

Everything here runs offline.  Scratch files go to a mkdtemp directory outside /repo and /verif that is
removed at exit."""
import atexit, collections, fcntl, hashlib, json, os, re, shutil, subprocess, sys, tempfile, time
from concurrent.futures import ThreadPoolExecutor

VERIF = os.path.dirname(os.path.dirname(os.path.abspath(__file__)))
COQ = os.path.join(VERIF, 'coq')
REPO = os.environ.get('VERIF_REPO', '/repo')
NCPU = min(16, os.cpu_count() or 4)

_tmp = None


def tmpdir():
    global _tmp
    if _tmp is None:
        _tmp = tempfile.mkdtemp(prefix='eioverif-')
        atexit.register(shutil.rmtree, _tmp, True)
    return _tmp


def sh(cmd, timeout, cwd=None, env=None):
    """Run a command under a wall-clock limit; returns (rc, combined output).  rc 124 = timed out."""
    try:
        p = subprocess.run(cmd, cwd=cwd, env=env, stdout=subprocess.PIPE, stderr=subprocess.STDOUT,
                           timeout=timeout, text=True, errors='replace')
        return p.returncode, p.stdout
    except subprocess.TimeoutExpired as e:
        out = e.stdout or ''
        if isinstance(out, bytes):
            out = out.decode('utf-8', 'replace')
        return 124, out + '\n[timeout after %ss]' % timeout


# ----------------------------------------------------------------------------------------------------------
# Coq side

FORBIDDEN = re.compile(r'\b(Admitted|admit|Axiom|Axioms|Parameter|Parameters|Conjecture|Conjectures|'
                       r'Admit\s+Obligations|bypass_check|Unset\s+Guard\s+Checking|Unset\s+Positivity\s+Checking|'
                       r'Unset\s+Universe\s+Checking|type-in-type|impredicative-set|native_compute)\b')
AXIOM_WHITELIST = set()          # no axiom is accepted at the moment: every property theorem must be closed


def strip_comments(src):
    out, depth, i = [], 0, 0
    while i < len(src):
        if src.startswith('(*', i):
            depth += 1; i += 2
        elif src.startswith('*)', i) and depth:
            depth -= 1; i += 2
        else:
            if not depth:
                out.append(src[i])
            i += 1
    return ''.join(out)


def forbidden_scan():
    """Admitted / Axiom / Parameter / checks switched off anywhere in the development (comments ignored)."""
    hits = []
    for root, _, files in os.walk(COQ):
        for f in files:
            if f.endswith('.v') or f == '_CoqProject':
                p = os.path.join(root, f)
                txt = strip_comments(open(p).read())
                for m in FORBIDDEN.finditer(txt):
                    hits.append('%s: %s' % (os.path.relpath(p, VERIF), m.group(0)))
    return hits


def coq_build():
    """Full .vo build of the whole development (incremental), serialised across concurrent checks."""
    lock = open(os.path.join(VERIF, '.lock'), 'w')
    fcntl.flock(lock, fcntl.LOCK_EX)
    try:
        mk = os.path.join(COQ, 'Makefile')
        cp = os.path.join(COQ, '_CoqProject')
        if not os.path.exists(mk) or os.path.getmtime(mk) < os.path.getmtime(cp):
            rc, out = sh(['coq_makefile', '-f', '_CoqProject', '-o', 'Makefile'], 120, cwd=COQ)
            if rc:
                return False, out
        rc, out = sh(['make', '-j%d' % NCPU], 1500, cwd=COQ)
        return rc == 0, out
    finally:
        fcntl.flock(lock, fcntl.LOCK_UN)
        lock.close()


COQ_INC = ['-R', os.path.join(COQ, 'theories'), 'EIO', '-R', os.path.join(COQ, 'properties'), 'EIOProps']


def coq_property(pid):
    """Re-check properties/<pid>.v afresh, capture this run's Print Assumptions output.
    Returns dict(obligations, discharged, theorems=[(name, assumptions)], ok, error)."""
    src_path = os.path.join(COQ, 'properties', pid + '.v')
    src = open(src_path).read()
    code = strip_comments(src)
    thms = re.findall(r'^\s*(?:Theorem|Corollary)\s+([A-Za-z0-9_\']+)', code, re.M)
    printed = re.findall(r'^\s*Print\s+Assumptions\s+([A-Za-z0-9_\']+)\s*\.', code, re.M)
    res = dict(obligations=len(thms), discharged=0, theorems=[], ok=False, error=None, file=os.path.relpath(src_path, VERIF))
    missing = [t for t in thms if t not in printed]
    if missing or not thms:
        res['error'] = 'theorems without Print Assumptions: %s' % missing
        return res
    d = tmpdir()
    cp = os.path.join(d, pid + '.v')
    shutil.copy(src_path, cp)
    rc, out = sh(['coqc'] + COQ_INC + [cp], 900, cwd=d)
    if rc:
        m = re.search(r'line (\d+), characters', out)
        bad = None
        if m:
            ln = int(m.group(1))
            for mm in re.finditer(r'^\s*(?:Theorem|Corollary|Example|Lemma)\s+([A-Za-z0-9_\']+)', src, re.M):
                if src.count('\n', 0, mm.start()) + 1 <= ln:
                    bad = mm.group(1)
        res['error'] = 'coqc failed%s: %s' % (' in ' + bad if bad else '', out[-600:])
        res['failing_theorem'] = bad
        return res
    # split the output into one block per Print Assumptions, in order
    blocks = re.split(r'(?m)^(?=Closed under the global context|Axioms:)', out)
    blocks = [b.strip() for b in blocks if b.strip().startswith(('Closed under', 'Axioms:'))]
    if len(blocks) != len(printed):
        res['error'] = 'could not match Print Assumptions output (%d blocks for %d commands)' % (len(blocks), len(printed))
        return res
    okc = 0
    for name, b in zip(printed, blocks):
        if b.startswith('Closed under'):
            ax = []
        else:
            ax = re.findall(r'^([A-Za-z0-9_\.\']+)\s*:', b[len('Axioms:'):], re.M)
        res['theorems'].append((name, ax))
        if name in thms and all(a in AXIOM_WHITELIST for a in ax):
            okc += 1
    res['discharged'] = okc
    res['ok'] = okc == len(thms)
    if not res['ok']:
        res['error'] = 'theorems with unaccepted assumptions: %s' % [(n, a) for n, a in res['theorems'] if a]
    return res


def coq_eval(text, name='cases', timeout=600):
    """Compile one generated .v file against the built model; returns (rc, stdout)."""
    d = tempfile.mkdtemp(prefix='ev-', dir=tmpdir())
    p = os.path.join(d, name + '.v')
    open(p, 'w').write(text)
    rc, out = sh(['coqc'] + COQ_INC + [p], timeout, cwd=d)
    shutil.rmtree(d, True)
    return rc, out


def coq_eval_many(texts, timeout=600):
    with ThreadPoolExecutor(NCPU) as ex:
        return list(ex.map(lambda t: coq_eval(t, timeout=timeout), texts))


def parse_nlist(out):
    """Parse the ' = [1; 2] : list N' answer of an Eval; returns list of ints or None."""
    m = re.search(r'=\s*(\[[^\]]*\]|nil)\s*:\s*list', out, re.S)
    if not m:
        return None
    body = m.group(1)
    if body == 'nil':
        return []
    return [int(x) for x in re.findall(r'\d+', body.replace('%N', '').replace('%nat', '').replace('%Z', ''))]


def model_mismatches(header, case_terms, check_fn, shard=400, timeout=600, ctype=None):
    """Evaluate `check_fn : case -> bool` (true = model agrees with the recorded implementation result) on
    every case term inside Coq (vm_compute), sharded; returns (sorted indices of disagreeing cases, errors)."""
    texts, offs = [], []
    off = 0
    while off < len(case_terms):
        # shard by count and by literal size: coqc parses about 30 KB of list literals per second
        end, size = off, 0
        while end < len(case_terms) and end - off < shard and (size < 120000 or end == off):
            size += len(case_terms[end]); end += 1
        chunk = case_terms[off:end]
        body = ';\n  '.join(chunk)
        texts.append(header + '\nDefinition cases %s:= [\n  %s\n].\n' % (': list (%s) ' % ctype if ctype else '', body) +
                     'Fixpoint bad_ix {A} (f : A -> bool) (i : N) (l : list A) : list N :=\n'
                     '  match l with [] => [] | x :: r => if f x then bad_ix f (N.succ i) r else i :: bad_ix f (N.succ i) r end.\n'
                     'Eval vm_compute in (bad_ix (%s) 0%%N cases).\n' % check_fn)
        offs.append(off)
        off = end
    bad, errs = [], []
    for (rc, out), off in zip(coq_eval_many(texts, timeout), offs):
        ix = parse_nlist(out) if rc == 0 else None
        if ix is None:
            errs.append('coqc rc=%s: %s' % (rc, out[-800:]))
        else:
            bad += [off + i for i in ix]
    return sorted(bad), errs


def model_show(header, expr, timeout=300):
    """Raw text of `Eval vm_compute in expr` — used to put the model's own answer in a replay file."""
    rc, out = coq_eval(header + '\nEval vm_compute in (%s).\n' % expr, timeout=timeout)
    return out.strip()[-4000:]


# literal printers ---------------------------------------------------------------------------------------
def qN(n):
    assert n >= 0
    return '%d%%N' % n


def qZ(n):
    return '(%d)%%Z' % n


def qnat(n):
    assert 0 <= n < 5000
    return '%d%%nat' % n


def qbool(b):
    return 'true' if b else 'false'


def qlist(items):
    return '[' + '; '.join(items) + ']' if items else '[]'


def qNs(ns):
    return '(' + qlist(['%d' % n for n in ns]) + '%N : list N)' if ns else '([] : list N)'


def qtext(s):
    """Python str -> list of code points."""
    return qNs([ord(c) for c in s])


def qbytes(b):
    return qNs(list(b))


def qopt(x):
    return 'None' if x is None else '(Some %s)' % x


def qpair(*xs):
    return '(' + ', '.join(xs) + ')'


# ----------------------------------------------------------------------------------------------------------
# results, evidence, findings

class Result:
    """What one correspondence/oracle suite produced."""

    def __init__(self):
        self.evaluations = 0
        self.keys = set()            # hashes of distinct non-trivial cases
        self.samples = []
        self.dist = collections.Counter()
        self.mismatches = []         # model != implementation: dict(suite, case, model, impl)
        self.violations = []         # oracle failures on the implementation: dict(what, case, facts)
        self.errors = []             # machinery errors (fail closed)
        self.rule = ''
        self.traces = 0
        self.exhaustive = False
        self.notes = []

    def count(self, case, nontrivial=True, kind=None):
        self.evaluations += 1
        if nontrivial:
            self.keys.add(hashlib.sha1(repr(case).encode('utf-8', 'surrogatepass')).digest()[:10])
        if kind:
            self.dist[kind] += 1
        if len(self.samples) < 6 and nontrivial and (self.evaluations % 97 == 1 or len(self.samples) < 2):
            self.samples.append(jsonable(case))

    def merge(self, other):
        self.evaluations += other.evaluations
        self.keys |= other.keys
        self.samples = (self.samples + other.samples)[:8]
        self.dist.update(other.dist)
        self.mismatches += other.mismatches
        self.violations += other.violations
        self.errors += other.errors
        self.traces += other.traces
        self.notes += other.notes


def jsonable(x):
    if isinstance(x, (bytes, bytearray)):
        return {'bytes': bytes(x).hex()}
    if isinstance(x, dict):
        return {str(k): jsonable(v) for k, v in x.items()}
    if isinstance(x, (list, tuple)):
        return [jsonable(v) for v in x]
    if isinstance(x, (str, int, bool)) or x is None:
        if isinstance(x, str):
            return x.encode('utf-8', 'backslashreplace').decode('utf-8')
        return x
    if isinstance(x, float):
        return repr(x)
    return repr(x)


def load_findings():
    p = os.path.join(VERIF, 'known_findings.json')
    if not os.path.exists(p):
        return []
    return json.load(open(p))


def match_finding(pid, facts, findings):
    """A listed finding (status 'known') whose signature is contained in the facts of the minimised case."""
    for f in findings:
        if f.get('property') == pid and f.get('status') == 'known':
            sig = f.get('signature', {})
            if sig and all(facts.get(k) == v for k, v in sig.items()):
                return f
    return None


def write_replay(pid, kind, payload):
    os.makedirs(os.path.join(VERIF, 'replays'), exist_ok=True)
    blob = json.dumps(jsonable(payload), sort_keys=True, indent=1)
    h = hashlib.sha1(blob.encode()).hexdigest()[:10]
    path = os.path.join(VERIF, 'replays', '%s-%s-%s.json' % (pid, kind, h))
    open(path, 'w').write(blob)
    return path


def write_evidence(pid, tier, seed, proof, res, wall, nviol, trusted, assumptions, extra=None):
    cov = {
        'obligations': proof['obligations'],
        'discharged': proof['discharged'],
        'checker_cmd': 'make -C coq (coq_makefile, full .vo build) ; coqc -R coq/theories EIO -R coq/properties EIOProps coq/properties/%s.v (Print Assumptions captured by this run)' % pid,
        'trusted_base': trusted,
        'theorems': [{'name': n, 'assumptions': a or 'Closed under the global context'} for n, a in proof['theorems']],
        'evaluations': res.evaluations,
        'distinct_nontrivial': len(res.keys),
        'rule': res.rule,
        'samples': res.samples or ['(none)'],
        'traces_validated_against_impl': res.traces or res.evaluations,
        'distribution': dict(res.dist),
        'model_impl_disagreements': len(res.mismatches),
        'exhaustive': bool(res.exhaustive),
        'notes': res.notes,
    }
    if proof.get('error'):
        cov['proof_error'] = proof['error']
    if extra:
        cov.update(extra)
    ev = {'property_id': pid, 'tier': tier, 'seed': seed, 'level': 'proof', 'coverage': cov,
          'assumptions': assumptions, 'wall_s': round(wall, 2), 'violations': nviol}
    os.makedirs(os.path.join(VERIF, 'evidence'), exist_ok=True)
    with open(os.path.join(VERIF, 'evidence', pid + '.json'), 'w') as f:
        json.dump(ev, f, indent=1, sort_keys=True)
        f.write('\n')
