#!/usr/bin/env python3
"""Print the prompt given to a mutation sub-agent for one property (only the property text + its scratch worktree)."""
import json, sys
pid = sys.argv[1]
p = next(json.loads(l) for l in open('/verif/properties.jsonl') if json.loads(l)['id'] == pid)
wt = '/tmp/wt/%s' % pid
print(f"""You are helping test a verification effort by seeding realistic bugs. You work ONLY inside the scratch git worktree {wt}
(a checkout of the python-engineio library, source under {wt}/src/engineio, tests under {wt}/tests) and the output directory {wt}-out.
Do not read or touch /repo or /verif or any other directory under /tmp/wt.

Here is a semantic property of python-engineio that is supposed to hold:

TITLE: {p['title']}
STATEMENT: {p['statement']}
QUANTIFIED OVER: {p['quantifier']['text']}

Your task: produce TWO different, independent changes (mutations) to the library source (under {wt}/src/engineio only, never the tests) that each
BREAK this property, while the library still imports and the existing test-suite still passes exactly as before. Each should look like a
plausible regression a maintainer could introduce (a refactor gone slightly wrong, an off-by-one, a dropped guard, a reordered statement, a wrong
constant, two cooperating sites that each look fine alone) and should need something SPECIFIC to manifest — a particular input, a multi-step
sequence of operations, a particular interleaving or fault at a particular point — not something ordinary use would expose at once. Prefer
different mechanisms/code sites for the two changes.

How to run things (the python venv has the library installed in editable mode pointing elsewhere, so ALWAYS set PYTHONPATH):
  cd {wt} && PYTHONPATH={wt}/src /venv/bin/python your_script.py
  existing test-suite gate (must print 'missing 0'):   python3 /tmp/wt/baseline.py {wt}
Any script that drives a server/client can block forever: ALWAYS wrap runs in `timeout 60`.
There is no network. Do not install anything.

For each change k in (1, 2) write into {wt}-out/ :
  patch{{k}}.diff   — `git -C {wt} diff` of that change alone (relative to the pristine HEAD; applies with `git apply` in a clean checkout)
  demo{{k}}.py      — a small self-contained program that exits 0 on the pristine code and exits non-zero (with a message saying what went wrong)
                     when patch{{k}} is applied. It must use the library's public behaviour (the property is behavioural), run with
                     PYTHONPATH=<checkout>/src /venv/bin/python demo{{k}}.py from any cwd, finish within 30 seconds, and take the source location from
                     PYTHONPATH only (no hard-coded {wt} paths).
  meta{{k}}.json    — {{"property": "{pid}", "summary": "...what the change does...", "needs": "...what specific input/sequence/interleaving is needed to manifest..."}}
Verify yourself, for each change: (a) with the patch applied `python3 /tmp/wt/baseline.py {wt}` prints 'missing 0'; (b) demo fails with the patch and
passes without it. Leave the worktree clean (git -C {wt} checkout -- .) when you finish. Reply with a short summary of the two changes.""")
