#!/usr/bin/env python3
"""seedtest.py intake <Cnn>        copy /tmp/wt/Cnn-out/{patch,demo,meta}{1,2} to /verif/seeded/Cnn-{1,2}/
   seedtest.py run <seed-id> [check ids...]   apply the seeded change to /repo, confirm (tests pass, demo fails), run the checks, undo.
Never leaves /repo modified."""
import json, os, shutil, subprocess, sys
V = os.environ.get('VERIF_DIR', '/verif')
REPO = os.environ.get('VERIF_REPO', '/repo')      # a scratch clone of /repo can be used so that seeds are run while other checks read /repo
def sh(cmd, **kw):
    return subprocess.run(cmd, shell=True, stdout=subprocess.PIPE, stderr=subprocess.STDOUT, text=True, **kw)
def intake(pid):
    for k in (1, 2):
        src = '/tmp/wt/%s-out' % pid
        if not os.path.exists('%s/patch%d.diff' % (src, k)): continue
        d = '%s/seeded/%s-%d' % (V, pid, k); os.makedirs(d, exist_ok=True)
        shutil.copy('%s/patch%d.diff' % (src, k), d + '/patch.diff'); shutil.copy('%s/demo%d.py' % (src, k), d + '/demo.py')
        m = json.load(open('%s/meta%d.json' % (src, k))); m['origin'] = 'sub-agent given only the property text and a scratch worktree'
        json.dump(m, open(d + '/meta.json', 'w'), indent=1)
        print('intake', d)
def run(sid, checks):
    d = '%s/seeded/%s' % (V, sid)
    meta = json.load(open(d + '/meta.json'))
    assert sh('git -C %s status --porcelain' % REPO).stdout.strip() == '', REPO + ' not clean'
    r = sh('git -C %s apply %s/patch.diff' % (REPO, d))
    out = {'applies': r.returncode == 0, 'apply_msg': r.stdout[-300:]}
    env = 'env VERIF_REPO=%s PYTHONPATH=%s/src:%s/harness PYTHONHASHSEED=0 PYTHONDONTWRITEBYTECODE=1' % (REPO, REPO, V)
    try:
        if out['applies']:
            b = sh('python3 %s/tools/baseline.py %s' % (V, REPO)); out['tests_pass'] = 'missing 0' in b.stdout
            dm = sh('timeout 120 env PYTHONPATH=%s/src /venv/bin/python %s/demo.py' % (REPO, d), cwd='/'); out['demo_fails_with_change'] = dm.returncode != 0
            out['demo_msg'] = dm.stdout[-300:]
            out['checks'] = {}
            for c in checks or [meta['property']]:
                cr = sh('timeout 3000 %s /venv/bin/python -u %s/harness/check.py %s --tier quick' % (env, V, c), cwd=V)
                out['checks'][c] = {'exit': cr.returncode, 'lines': [l[:300] for l in cr.stdout.splitlines() if l.startswith(('VIOLATION', 'KNOWN', c))][:6]}
    finally:
        sh('git -C %s reset -q --hard HEAD && git -C %s clean -fdq src' % (REPO, REPO))
    if out['applies']:
        dm = sh('timeout 120 env PYTHONPATH=%s/src /venv/bin/python %s/demo.py' % (REPO, d), cwd='/'); out['demo_passes_without'] = dm.returncode == 0
    meta['verified'] = out
    json.dump(meta, open(d + '/meta.json', 'w'), indent=1)
    print(json.dumps(out, indent=1))
if sys.argv[1] == 'intake': intake(sys.argv[2])
else: run(sys.argv[2], sys.argv[3:])
