#!/usr/bin/env python3
"""hdbg.py <server> '<cfg list json>' '<ops json>' : run one history, print implementation vs model outputs per step"""
import sys, json, time, re
sys.path.insert(0, '/verif/harness')
import hist, hsuite, vlib
kind = sys.argv[1]; cfg = hist.Cfg(*json.loads(sys.argv[2])); ops = [hsuite.op_from_json(o) for o in json.loads(sys.argv[3])]
r = hist.run_history(kind, cfg, ops)
t = time.time()
out = vlib.model_show(hist.HEADER, 'let c := %s in snd (run_ops (fst (fst c)) (snd (fst c)) (init (fst (fst c))))' % r.case_term())
print('model eval %.1fs' % (time.time() - t))
body = out[out.index('['):]
# split top-level list
depth = 0; cur = ''; items = []
for ch in body[1:]:
    if ch == '[': depth += 1
    if ch == ']': depth -= 1
    if depth < 0: break
    if ch == ';' and depth == 0:
        items.append(cur.strip()); cur = ''
    else: cur += ch
items.append(cur.strip())
for i, (op, o) in enumerate(zip(r.log, r.outs)):
    print(i, op); print('    impl :', o); print('    model:', re.sub(r'\s+', ' ', items[i]) if i < len(items) else '?')
bad, errs = hist.check_histories([r]); print('mismatch' if bad else 'agree', errs)
