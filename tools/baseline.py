#!/usr/bin/env python3
"""Run /repo's pinned test-suite (guard off) and check every test of BASELINE.stable_pass passes."""
import json, subprocess, sys, tempfile, os, xml.etree.ElementTree as ET
repo = sys.argv[1] if len(sys.argv) > 1 else '/repo'
base = json.load(open('/root/.vp/BASELINE.json'))
with tempfile.TemporaryDirectory() as d:
    x = os.path.join(d, 'j.xml')
    env = dict(os.environ); env.pop('ENGINEIO_VERIF', None)
    env['PYTHONPATH'] = os.path.join(repo, 'src')      # the package is installed in editable mode from /repo/src: make sure the tree under test is the one imported
    subprocess.run(['/venv/bin/python', '-m', 'pytest', '-ra', '-q', '-p', 'no:cacheprovider', '--timeout=900',
                    '--continue-on-collection-errors', '--junitxml=' + x], cwd=repo, env=env,
                   stdout=subprocess.DEVNULL, stderr=subprocess.DEVNULL)
    ok = set()
    for tc in ET.parse(x).getroot().iter('testcase'):
        if not any(c.tag in ('failure', 'error', 'skipped') for c in tc):
            ok.add(tc.get('classname') + '::' + tc.get('name'))
missing = [t for t in base['stable_pass'] if t not in ok]
print('stable_pass', len(base['stable_pass']), 'passing now', len(ok), 'missing', len(missing))
for m in missing[:20]: print('  MISSING', m)
sys.exit(1 if missing else 0)
