import sys, random, time
sys.path.insert(0,'/verif/harness')
import hist, vlib
seed = int(sys.argv[1]) if len(sys.argv) > 1 else 1
n = int(sys.argv[2]) if len(sys.argv) > 2 else 60
rng = random.Random(seed)
t=time.time()
for kind in ('threaded','asyncio'):
    rs=[]
    for i in range(n):
        cfg = hist.Cfg(async_handlers=rng.random()<0.4, monitor=rng.random()<0.7)
        ops = hist.gen_history(rng, cfg, rng.choice([8,15,25]))
        try:
            rs.append(hist.run_history(kind, cfg, ops, rng))
        except Exception as e:
            print('RUN ERROR', kind, type(e).__name__, e, ops); raise
    bad, errs = hist.check_histories(rs)
    print(kind, 'histories', len(rs), 'bad', len(bad), errs[:1], 'time', round(time.time()-t,1))
    for b in bad[:2]:
        print(' history', rs[b].log); print(' impl outs', rs[b].outs); print(hist.explain(rs[b])[:2500])
