#!/usr/bin/env python3
"""Regenerate MANIFEST.json from the table below (kept as code so that the manifest is always schema-valid)."""
import json, os
here = os.path.dirname(os.path.dirname(os.path.abspath(__file__)))
ALL = ['C%02d' % i for i in range(1, 21)]
CLAIMED = {
 'C20': dict(
   text='Theorems over the Gallina model of get_static_file and of both middlewares (engine reached iff the path lies under the normalised endpoint; otherwise a file exactly when the static mapping matches and the file exists, else wrapped app, else 404; the file served is a configured file or the configured directory name followed by a remainder of the request path with no .. segment, plus the index file; content type from the mapping or its extension; ASGI lifespan protocol) for all paths and mappings, no axioms; compared with WSGIApp/ASGIApp against a scratch tree holding a secret outside the roots on every run.',
   note='Trusted: Coq kernel; hand-written model Static.v and its differential run; os.path.isfile is an oracle (a lexical normalisation of absolute paths stands in for the file system when the model is evaluated); ASCII paths; the /engine.io-without-slash difference between WSGIApp and ASGIApp is modelled, not judged.',
   technique='Coq proof (induction over the prefix-stripping loop, case analysis) + model/implementation correspondence by vm_compute',
   ref='5 C20'),
 'C19': dict(
   text='Theorems over the Gallina models of the response tail (Content-Encoding declared iff compression on, body >= threshold and offered, choosing the first offered gzip/deflate token; body = compressed original exactly when declared; undoing the declared encoding and UTF-8 returns the payload) and of the JSONP form: for every payload text and index the body parses, under a transcription of the ECMAScript string-literal grammar, as exactly one ___eio[i]("lit"); statement whose literal evaluates to the payload in UTF-16 - proved for all inputs with json.dumps string escaping modelled exactly, no axioms; compared with both servers on every run.',
   note='Trusted: Coq kernel; hand-written models Transform.v/Jsonp.v and their differential run; gzip/zlib/UTF-8 are oracles (hypotheses of c19_lossless), undone with the real libraries in the harness; q-values are ignored as the code does.',
   technique='Coq proof (induction over the payload, hex/UTF-16 arithmetic by lia, finite sweeps) + model/implementation correspondence by vm_compute',
   ref='5 C19'),
 'C13': dict(
   text='Theorems over the Gallina model of the origin policy (the gate is the first step of request handling: a refused origin returns the refusal with the server state untouched whatever the rest of handling is; exactly when it refuses; the allowed set of each configuration form incl. the forwarded-header rule; Access-Control-Allow-Origin only for the request\'s own allowed Origin and at most once; Allow-Credentials iff enabled; empty allow-list = no check and no CORS header) for all inputs, no axioms; model compared with both servers on the configuration x environment x request-kind product on every run, with before/after state snapshots.',
   note='Trusted: Coq kernel; hand-written model Cors.v and its differential run through the real WSGIApp/ASGIApp; header values restricted to latin-1; callable policies represented by their accepted set; empty Origin read as absent.',
   technique='Coq proof (case analysis on configuration forms) + model/implementation correspondence by vm_compute',
   ref='5 C13'),
 'C02': dict(
   text='Theorems over the Gallina model of Payload (payload = text-channel encodings joined by single U+001E; decode(encode ps) = the same packets in order when no text contains the separator and the count is within the limit; the form-encoded variant decodes like the payload it carries; more segments than the limit is refused before any packet is decoded; a successful decode decoded every segment and one failing segment fails the body) for all inputs, no axioms; model compared with engineio.payload.Payload on generated lists, exhaustive short adversarial strings and random long ones on every run.',
   note='Trusted: Coq kernel; hand-written model Payload.v on Packet.v and its differential run; json, int() and urllib.parse.parse_qs are standard-library oracles. Absence of hangs in the implementation is observed under a watchdog (testing); the model function is total by construction.',
   technique='Coq proof (structural induction over segment lists) + model/implementation correspondence by vm_compute with logged stdlib oracles',
   ref='5 C02'),
 'C01': dict(
   text='Theorems over the Gallina model of Packet (wire form for every type and payload kind, decode(encode p) = (type, canonical payload) for both channel kinds with the JSON look-alike rule as a function, standard base64 round trip proved outright against a transcription of CPython a2b_base64, binary-only-MESSAGE on both sides, every sequence of encode calls returns the representation of the channel asked for) for all inputs, no axioms; model compared with engineio.packet.Packet on generated and malformed inputs on every run.',
   note='Trusted: Coq kernel; hand-written model Packet.v/Base64.v and its differential run; json.dumps/json.loads/int() are standard-library oracles (hypotheses O1, O2 of the theorems, answered from logged tables when the model is run).',
   technique='Coq proof (induction, lia, finite sweeps) + model/implementation correspondence by vm_compute with logged stdlib oracles',
   ref='5 C01'),
 'C17': dict(
   text='Theorems over the Gallina model of generate_id (format, injectivity = all 96 random bits and the counter are recoverable, uniqueness in every 2^24 window for arbitrary random outputs, counter step) proved for all inputs with no axioms; the model is compared with BaseServer.generate_id of both servers on every run.',
   note='Trusted: Coq kernel; the hand-written model Sid.v and its differential run against /repo (counter windows incl. wrap, stubbed secrets.token_bytes). The CSPRNG-source clause rests on instrumentation of the call site, not on proof.',
   technique='Coq proof (lia + finite vm_compute sweeps lifted by forallb_forall) + model/implementation correspondence by vm_compute',
   ref='5 C17, Appendix E'),
}
FIXES = ['d92cdd4 fix: do not reuse the cached encoding of a binary packet across channel kinds', 'bfaf151 fix: keep deeply nested bracket text as text instead of raising RecursionError',
         '49abbb1 fix: escape the JSONP payload as a JavaScript string literal',
         'e5ede54 fix: static file lookup for a request path without any slash', '335e1b2 fix: do not serve static files from outside the mapped directory',
         '506079c fix: a static mapping that resolves to a directory is not a servable file']
PENDING_REASON = 'model and theorems for this property are not built yet in this revision of /verif (work in progress, see DESIGN.md section 9); not a statement that the technique cannot apply'
m = {
 'version': 1,
 'setup_cmd': 'cd /verif/coq && coq_makefile -f _CoqProject -o Makefile && timeout 1500 make -j16',
 'hooks': {'guard': 'ENGINEIO_VERIF', 'enable': 'no hook is needed: the checks import /repo/src unmodified and inject deterministic drivers from outside; the guard name is reserved and unused',
           'baseline_off_cmd': 'cd /repo && /venv/bin/python -m pytest -ra -q -p no:cacheprovider --timeout=900 --continue-on-collection-errors',
           'source_commits': FIXES, 'add_only': True},
 'engines': [{'name': 'coq-model', 'path': 'coq/', 'serves_properties': sorted(CLAIMED), 'kind_free_text': 'Gallina model + theorems, Coq 8.16.1'},
             {'name': 'correspondence', 'path': 'harness/', 'serves_properties': sorted(CLAIMED), 'kind_free_text': 'differential run model (vm_compute) vs /repo working tree + property oracle'}],
 'checks': [], 'not_applicable': [],
 'notes': 'See DESIGN.md. known_findings.json lists recorded findings and fixed defects.',
}
for pid in ALL:
    if pid in CLAIMED:
        c = CLAIMED[pid]
        m['checks'].append({
          'property_id': pid, 'quick_cmd': './check %s --tier quick' % pid, 'thorough_cmd': './check %s --tier thorough' % pid,
          'evidence_file': 'evidence/%s.json' % pid, 'replay_cmd_template': './check %s --replay {path}' % pid, 'engine': 'coq-model',
          'level_claimed': {'category': 'proof', 'text': c['text'], 'design_ref': c['ref']},
          'level_note': c['note'], 'technique': c['technique']})
    else:
        m['not_applicable'].append({'property_id': pid, 'reason': PENDING_REASON})
json.dump(m, open(os.path.join(here, 'MANIFEST.json'), 'w'), indent=1)
print('claimed', sorted(CLAIMED))
