(* Executable instance of the codec model used by the correspondence check: JSON values are (kind, compact dump)
   (for strings: (KStr, content)),
   `loads` and `digit` are finite tables of the real library's answers logged by the harness for this case. *)
From Coq Require Import NArith List Bool.
Import ListNotations.
From EIO Require Import Util Sid Base64 Packet.
Open Scope N_scope.

Definition J0 := (kind * text)%type.
Definition kind_eqb (a b : kind) : bool :=
  match a, b with
  | KNull, KNull | KBool, KBool | KInt, KInt | KFloat, KFloat | KStr, KStr | KArr, KArr | KObj, KObj => true
  | _, _ => false
  end.
Definition j_eqb (a b : J0) := kind_eqb (fst a) (fst b) && eqbl (snd a) (snd b).
Definition jkind0 (v : J0) := fst v.
Definition dumps0 (v : J0) := snd v.

Fixpoint lookup {B} (k : text) (tbl : list (text * B)) : option B :=
  match tbl with [] => None | (k', v) :: r => if eqbl k k' then Some v else lookup k r end.
Definition loads0 (tbl : list (text * lres J0)) (s : text) : lres J0 :=
  match lookup s tbl with Some r => r | None => LOther end.
Fixpoint digit0 (tbl : list (N * option N)) (c : N) : option N :=
  match tbl with [] => None | (k, v) :: r => if c =? k then v else digit0 r c end.

Definition wire_eqb (a b : wire) : bool :=
  match a, b with WText x, WText y => eqbl x y | WBin x, WBin y => eqbl x y | _, _ => false end.
Definition pdata_eqb (a b : pdata J0) : bool :=
  match a, b with
  | DNone, DNone => true | DText x, DText y => eqbl x y | DBin x, DBin y => eqbl x y | DJson x, DJson y => j_eqb x y
  | _, _ => false
  end.
(* a decoded JSON string is handed to the application as a str, like text: same observable *)
Definition view (d : pdata J0) : pdata J0 := match d with DJson (KStr, s) => DText s | d => d end.
Definition dres_eqb (a b : dres J0) : bool :=
  match a, b with
  | DOk t d f, DOk t' d' f' => (t =? t') && pdata_eqb (view d) (view d') && Bool.eqb f f'
  | DErr, DErr => true | _, _ => false
  end.

(* one encode case: constructor arguments, the flags of the successive encode() calls, and what the
   implementation did (None = constructor raised) *)
Definition check_enc (c : N * pdata J0 * list bool * option (list wire)) : bool :=
  let '(ty, d, flags, expect) := c in
  match mk_packet ty d, expect with
  | None, None => true
  | Some p, Some ws => eqb_list wire_eqb (encode_seq J0 dumps0 {| o_pkt := p; o_cache := None |} flags) ws
  | _, _ => false
  end.

Definition check_dec (c : wire * list (text * lres J0) * list (N * option N) * dres J0) : bool :=
  let '(w, lt, dt, expect) := c in dres_eqb (decode J0 jkind0 (loads0 lt) (digit0 dt) w) expect.

(* ---- payload cases (payload.py) ---- *)
From EIO Require Import Payload.
Definition form0 (tbl : list (text * option text)) (s : text) : option text :=
  match lookup s tbl with Some r => r | None => None end.
Definition triple_eqb (a b : N * pdata J0 * bool) : bool :=
  let '(t, d, f) := a in let '(t', d', f') := b in (t =? t') && pdata_eqb (view d) (view d') && Bool.eqb f f'.
(* decode: limit, body, oracle tables, what the implementation returned (None = it raised) *)
Definition check_pdec (c : nat * text * list (text * lres J0) * list (N * option N) * list (text * option text)
                           * option (list (N * pdata J0 * bool))) : bool :=
  let '(limit, body, lt, dt, ft, expect) := c in
  match payload_decode J0 jkind0 (loads0 lt) (digit0 dt) (form0 ft) limit body, expect with
  | POk l, Some l' => eqb_list triple_eqb l l'
  | PErr _, None => true
  | _, _ => false
  end.
(* encode: packets as constructor arguments, implementation's payload text *)
Fixpoint mk_all (l : list (N * pdata J0)) : option (list (pkt J0)) :=
  match l with
  | [] => Some []
  | (t, d) :: r => match mk_packet t d, mk_all r with Some p, Some ps => Some (p :: ps) | _, _ => None end
  end.
Definition check_penc (c : list (N * pdata J0) * text) : bool :=
  let '(l, expect) := c in
  match mk_all l with Some ps => eqbl (payload_encode J0 dumps0 ps) expect | None => false end.
