From Coq Require Import NArith List Bool.
Import ListNotations.
From EIO Require Import Util Strings Cors.
Open Scope N_scope.

Lemma gate_first {S R} c e (refusal : R) (rest : S -> S * R) st :
  gate_refuses c e = true -> with_gate c e refusal rest st = (st, refusal).
Proof. intros H. unfold with_gate. rewrite H. reflexivity. Qed.

Lemma gate_refuses_iff c e :
  gate_refuses c e = true <->
  disabled c = false /\ exists x o, e_origin e = Some (x :: o) /\ origin_allowed c e (x :: o) = false.
Proof.
  unfold gate_refuses. destruct (disabled c).
  - split; [discriminate | intros [H _]; discriminate].
  - destruct (e_origin e) as [[|x o]|].
    + split; [discriminate | intros (_ & ? & ? & H & _); discriminate].
    + rewrite negb_true_iff. split.
      * intros H. split; [reflexivity|]. exists x, o. auto.
      * intros (_ & x' & o' & E & H). injection E as <- <-. exact H.
    + split; [discriminate | intros (_ & ? & ? & H & _); discriminate].
Qed.

Lemma no_origin_unaffected {S R} c e (refusal : R) (rest : S -> S * R) st :
  e_origin e = None \/ e_origin e = Some [] -> with_gate c e refusal rest st = rest st.
Proof.
  intros H. unfold with_gate, gate_refuses. destruct (disabled c); [reflexivity|].
  destruct H as [-> | ->]; reflexivity.
Qed.

Lemma default_allowed e o : origin_allowed CDefault e o = true <-> In o (default_origins e).
Proof. unfold origin_allowed. cbn. apply mem_In. Qed.

Lemma default_origins_spec e :
  default_origins e =
    match e_host e with
    | None => []
    | Some h => (e_scheme e ++ sep3 ++ h) ::
       (if match e_xproto e, e_xhost e with None, None => false | _, _ => true end
        then [first_stripped (match e_xproto e with Some p => p | None => e_scheme e end) ++ sep3 ++
              first_stripped (match e_xhost e with Some x => x | None => h end)]
        else [])
    end.
Proof. unfold default_origins. destruct (e_host e); [|reflexivity]. destruct (e_xproto e), (e_xhost e); reflexivity. Qed.

Lemma star_allows e o : origin_allowed CStar e o = true.
Proof. reflexivity. Qed.
Lemma str_allows s e o : origin_allowed (CStr s) e o = true <-> o = s.
Proof. unfold origin_allowed. cbn. rewrite orb_false_r. apply eqbl_eq. Qed.
Lemma list_allows l e o : origin_allowed (CList l) e o = true <-> In o l.
Proof. unfold origin_allowed. cbn. apply mem_In. Qed.
Lemma pred_allows acc e o : e_origin e = Some o -> (origin_allowed (CPred acc) e o = true <-> In o acc).
Proof.
  intros E. unfold origin_allowed. cbn. rewrite E. destruct (mem o acc) eqn:M.
  - cbn. rewrite (proj2 (eqbl_eq o o) eq_refl). cbn. split; [intros _; apply mem_In; exact M | reflexivity].
  - cbn. split; [discriminate|]. intros I. apply mem_In in I. congruence.
Qed.

Lemma acao_sound c cred e v : In (ACAO v) (cors_headers c cred e) ->
  e_origin e = Some v /\ origin_allowed c e v = true /\ disabled c = false.
Proof.
  unfold cors_headers. destruct (disabled c); [contradiction|]. intros H.
  repeat (apply in_app_or in H; destruct H as [H|H]).
  - destruct (e_origin e) as [o|]; [|contradiction]. destruct (origin_allowed c e o) eqn:A; [|contradiction].
    destruct H as [H|[]]. injection H as <-. auto.
  - destruct (e_options e); [destruct H as [H|[]]; discriminate | contradiction].
  - destruct (e_acrh e); [destruct H as [H|[]]; discriminate | contradiction].
  - destruct cred; [destruct H as [H|[]]; discriminate | contradiction].
Qed.

Lemma acao_unique c cred e : (length (filter (fun h => match h with ACAO _ => true | _ => false end) (cors_headers c cred e)) <= 1)%nat.
Proof.
  unfold cors_headers. destruct (disabled c); [cbn; auto|].
  rewrite !filter_app.
  destruct (e_origin e) as [o|]; [destruct (origin_allowed c e o)|]; destruct (e_options e), (e_acrh e), cred; cbn; auto.
Qed.

Lemma credentials_iff c cred e : In ACAC (cors_headers c cred e) <-> cred = true /\ disabled c = false.
Proof.
  unfold cors_headers. destruct (disabled c); [split; [contradiction | intros [_ H]; discriminate]|].
  split.
  - intros H. repeat (apply in_app_or in H; destruct H as [H|H]).
    + destruct (e_origin e) as [o|]; [destruct (origin_allowed c e o)|]; try contradiction. destruct H as [H|[]]; discriminate.
    + destruct (e_options e); [destruct H as [H|[]]; discriminate | contradiction].
    + destruct (e_acrh e); [destruct H as [H|[]]; discriminate | contradiction].
    + destruct cred; [auto | contradiction].
  - intros [-> _]. repeat (apply in_or_app; right). left. reflexivity.
Qed.

Lemma disabled_nothing {S R} c cred e (refusal : R) (rest : S -> S * R) st : disabled c = true ->
  with_gate c e refusal rest st = rest st /\ cors_headers c cred e = [].
Proof. intros D. unfold with_gate, gate_refuses, cors_headers. rewrite D. auto. Qed.

Example gate_nonvacuous :
  let e := {| e_scheme := [104]; e_host := Some [120]; e_xproto := None; e_xhost := None; e_origin := Some [101]; e_options := false; e_acrh := None |} in
  gate_refuses CDefault e = true /\ gate_refuses (CList []) e = false /\ gate_refuses CStar e = false.
Proof. vm_compute. auto. Qed.
