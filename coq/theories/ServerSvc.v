(* C07, the monitor: for every history and every schedule, when client monitoring is configured the service task that sweeps the
   sessions for heartbeat time-outs is either still to be started (no session has ever connected), about to run for the first
   time, or waiting for its next visit - it never goes away. *)
From Coq Require Import ZArith NArith List Bool Lia.
Import ListNotations.
From EIO Require Import Server ServerInv ServerUpg ServerHb.
Open Scope N_scope.

(* what a step leaves alone: membership in the run queue (tasks are only ever appended) and the `service task pending` flag *)
Record qsnap := { qr : tid -> bool; qs : bool }.
Record FQ (K : qsnap) (s : st) : Prop := {
  fq_rq : forall t, qr K t = true -> nmem t (runq s) = true;
  fq_svc : svc_pending s = qs K }.
Definition htQ {A} (me : tid) (K : qsnap) (m : M A) (Q : A -> Prop) : Prop :=
  forall s, FQ K s -> FQ K (stof (m s)) /\ Q (valof (m s)).

Lemma htQ_bind {A B} me K (m : M A) (f : A -> M B) Q R : htQ me K m Q -> (forall a, Q a -> htQ me K (f a) R) -> htQ me K (bind m f) R.
Proof.
  intros Hm Hf s F. destruct (Hm s F) as [F1 Q1]. unfold bind, stof, valof in *. destruct (m s) as [[a s1] o1]. cbn [fst snd] in *.
  destruct (Hf a Q1 s1 F1) as [F2 R2]. unfold stof, valof in *. destruct (f a s1) as [[b s2] o2]. cbn [fst snd] in *. auto.
Qed.
Lemma htQ_weaken {A} me K (m : M A) (Q R : A -> Prop) : htQ me K m Q -> (forall a, Q a -> R a) -> htQ me K m R.
Proof. intros H I s F. destruct (H s F). auto. Qed.
Lemma htQ_ret {A} me K (a : A) (Q : A -> Prop) : Q a -> htQ me K (ret a) Q.
Proof. intros H s F. cbn. auto. Qed.
Lemma htQ_same {A} me K (m : M A) : (forall s, runq (stof (m s)) = runq s /\ svc_pending (stof (m s)) = svc_pending s) -> htQ me K m TT.
Proof. intros H s [F1 F2]. destruct (H s) as (E1 & E2). split; [|exact I]. split; [rewrite E1; exact F1 | rewrite E2; exact F2]. Qed.
Lemma htQ_getst me K : htQ me K getst TT.  Proof. apply htQ_same. intros s. cbn. auto. Qed.
Lemma htQ_emit me K o : htQ me K (emit o) TT.  Proof. apply htQ_same. intros s. cbn. auto. Qed.
Lemma htQ_gsess me K i : htQ me K (gsess i) TT.  Proof. apply htQ_same. intros s. cbn. auto. Qed.
Lemma htQ_psess me K i x : htQ me K (psess i x) TT.
Proof. apply htQ_same. intros s. unfold psess, modst, stof. cbn. destruct (alookup i (store s)); auto. Qed.
Lemma htQ_upd me K i f : htQ me K (upd i f) TT.
Proof. unfold upd. eapply htQ_bind; [apply htQ_gsess|]. intros ss _. apply htQ_psess. Qed.
Lemma nmem_app_l t a b : nmem t a = true -> nmem t (a ++ b) = true.
Proof. intros H. rewrite nmem_app, H. reflexivity. Qed.
Lemma htQ_wake me K t : htQ me K (wake t) TT.
Proof.
  intros s [F1 F2]. split; [|exact I]. unfold wake, modst, stof. cbn [fst snd].
  destruct (alookup t (tasks s)); [destruct (nmem t (runq s))|]; split; auto. intros u X. cbn. apply nmem_app_l, F1, X.
Qed.
Lemma htQ_wake_all me K l : htQ me K (wake_all l) TT.
Proof. induction l as [|t r IH]; cbn [wake_all]; [apply htQ_ret; exact I|]. eapply htQ_bind; [apply htQ_wake | intros ? _; exact IH]. Qed.
Lemma htQ_new_timer me K dt : htQ me K (new_timer dt) TT.  Proof. apply htQ_same. intros s. cbn. auto. Qed.
Lemma htQ_alive me K t : htQ me K (alive t) TT.  Proof. apply htQ_same. intros s. cbn. auto. Qed.
Lemma htQ_has_sess me K i : htQ me K (has_sess i) TT.  Proof. apply htQ_same. intros s. cbn. auto. Qed.
Lemma htQ_gconn me K c : htQ me K (gconn c) TT.  Proof. apply htQ_same. intros s. cbn. auto. Qed.
Lemma htQ_pconn me K c x : htQ me K (pconn c x) TT.  Proof. apply htQ_same. intros s. cbn. auto. Qed.
Lemma htQ_in_table me K i : htQ me K (in_table i) TT.  Proof. apply htQ_same. intros s. cbn. auto. Qed.
Lemma htQ_del_table me K i : htQ me K (del_table i) TT.  Proof. apply htQ_same. intros s. cbn. auto. Qed.
Lemma htQ_del_tables me K l : htQ me K (del_tables l) TT.
Proof. induction l as [|i r IH]; cbn [del_tables]; [apply htQ_ret; exact I|]. eapply htQ_bind; [apply htQ_del_table | intros ? _; exact IH]. Qed.
Lemma htQ_modst_same me K f : (forall s, runq (f s) = runq s /\ svc_pending (f s) = svc_pending s) -> htQ me K (modst f) TT.
Proof. intros H. apply htQ_same. intros s. cbn. apply H. Qed.
Lemma htQ_block me K t k : htQ me K (block t k) TT.  Proof. apply htQ_same. intros s. cbn. auto. Qed.
Lemma htQ_finish me K t : htQ me K (finish t) TT.
Proof. unfold finish. eapply htQ_bind; [apply htQ_getst|]. intros s0 _. eapply htQ_bind with (Q := TT); [apply htQ_modst_same; intros s; cbn; auto | intros ? _; apply htQ_wake_all]. Qed.
Lemma htQ_spawn me K k : htQ me K (spawn k) TT.
Proof. intros s [F1 F2]. split; [|exact I]. unfold spawn, stof. cbn. split; auto. intros u X. cbn. apply nmem_app_l, F1, X. Qed.

Create HintDb fq discriminated.
#[export] Hint Resolve htQ_getst htQ_emit htQ_wake htQ_wake_all htQ_new_timer htQ_alive htQ_has_sess htQ_gconn htQ_pconn htQ_in_table
  htQ_del_table htQ_del_tables htQ_block htQ_finish htQ_spawn htQ_gsess htQ_psess htQ_upd : fq.
Ltac fq_step :=
  match goal with
  | |- htQ _ _ (ret _) _ => apply htQ_ret; exact I
  | |- htQ _ _ (bind _ _) _ => eapply htQ_bind with (Q := TT); [|intros ? _]
  | |- htQ _ _ (modst _) _ => apply htQ_modst_same; intros ?; cbn; auto
  | |- htQ _ _ (if ?b then _ else _) _ => destruct b
  | |- htQ _ _ (match ?x with _ => _ end) _ => destruct x
  | _ => solve [eauto with fq]
  end.
Ltac fq_go := repeat fq_step.

Lemma fq_q_put me K i x : htQ me K (q_put i x) TT.  Proof. unfold q_put. fq_go. Qed.
Lemma fq_q_task_done me K i : htQ me K (q_task_done i) TT.  Proof. unfold q_task_done. fq_go. Qed.
#[export] Hint Resolve fq_q_put fq_q_task_done : fq.
Lemma fq_drain me K fuel : forall i acc, htQ me K (drain fuel i acc) TT.
Proof. induction fuel as [|n IH]; intros i acc; cbn [drain]; fq_go; try apply IH. Qed.
#[export] Hint Resolve fq_drain : fq.

Section WithCfg.
Variable cfg : config.

Lemma fq_close_nowait me K i ab r : htQ me K (close_nowait cfg i ab r) TT.
Proof. unfold close_nowait, begin_close. fq_go. Qed.
Hint Resolve fq_close_nowait : fq.
Lemma fq_sock_send me K i p : htQ me K (sock_send cfg i p) TT.  Proof. unfold sock_send. fq_go. Qed.
Lemma fq_get_socket me K i : htQ me K (get_socket i) TT.  Proof. unfold get_socket. fq_go. Qed.
Hint Resolve fq_sock_send fq_get_socket : fq.
Lemma fq_srv_send me K i m : htQ me K (srv_send cfg i m) TT.  Proof. unfold srv_send. fq_go. Qed.
Lemma fq_close_wait me K i r : htQ me K (close_wait cfg i r) TT.  Proof. unfold close_wait. fq_go. Qed.
Hint Resolve fq_srv_send fq_close_wait : fq.
Lemma fq_run_handler me K bg i payload a : htQ me K (run_handler cfg me bg i payload a) TT.
Proof. unfold run_handler. fq_go. Qed.
Lemma fq_run_handler_fg me K m' i payload a : htQ me K (run_handler cfg m' false i payload a) TT.
Proof. unfold run_handler. fq_go. Qed.
Hint Resolve fq_run_handler fq_run_handler_fg : fq.
Lemma fq_receive me K i p : htQ me K (receive cfg i p) TT.
Proof. unfold receive. fq_go. Qed.
Lemma fq_receive_all me K i l : htQ me K (receive_all cfg i l) TT.
Proof. induction l as [|p r IH]; cbn [receive_all]; fq_go; try apply fq_receive; try exact IH. Qed.
Lemma fq_refuse_and_end me K i : htQ me K (refuse_and_end cfg i) TT.  Proof. unfold refuse_and_end. fq_go. Qed.
Lemma fq_reap_if_closed me K i : htQ me K (reap_if_closed i) TT.  Proof. unfold reap_if_closed. fq_go. Qed.
Hint Resolve fq_receive fq_receive_all fq_refuse_and_end fq_reap_if_closed : fq.

Lemma fq_poll_attempt me K tout i k t : htQ me K (poll_attempt cfg me tout i k t) TT.
Proof.
  unfold poll_attempt.
  change (modst (fun s => set_tasks (aset me {| t_task := TPoll i k t; t_tout := false |} (tasks s)) s)) with (block me (TPoll i k t)).
  eapply htQ_bind; [apply htQ_gsess|]. intros ss Hs.
  destruct (if tout && q_timeout_wins (c_quirks cfg) then [] else s_q ss) as [|x r]; fq_go.
Qed.
Hint Resolve fq_poll_attempt : fq.
Lemma fq_poll_start me K i k : htQ me K (poll_start cfg me i k) TT.  Proof. unfold poll_start. fq_go. Qed.
Hint Resolve fq_poll_start : fq.
Lemma fq_ws_send_all me K c l : htQ me K (ws_send_all c l) TT.
Proof. induction l as [|p r IH]; cbn [ws_send_all]; fq_go; try exact IH. Qed.
Lemma fq_ws_close me K c : htQ me K (ws_close c) TT.  Proof. unfold ws_close. fq_go. Qed.
Hint Resolve fq_ws_send_all fq_ws_close : fq.
Lemma fq_writer_exit me K c : htQ me K (writer_exit me c) TT.  Proof. unfold writer_exit. fq_go. Qed.
Hint Resolve fq_writer_exit : fq.
Lemma fq_writer_loop me K fuel : forall i c rd first, htQ me K (writer_loop cfg fuel me i c rd first) TT.
Proof. induction fuel as [|n IH]; intros i c rd first; destruct first as [| |[|p l]]; cbn [writer_loop]; fq_go; try apply IH. Qed.
Lemma fq_finish_get me K i r p : htQ me K (finish_get cfg me i r p) TT.  Proof. unfold finish_get. fq_go. Qed.
Lemma fq_ping_fire me K i : htQ me K (ping_fire cfg me i) TT.  Proof. unfold ping_fire. fq_go. Qed.
Lemma fq_check_ping_timeout me K i : htQ me K (check_ping_timeout cfg i) TT.  Proof. unfold check_ping_timeout. fq_go. Qed.
Hint Resolve fq_writer_loop fq_finish_get fq_ping_fire fq_check_ping_timeout : fq.
Lemma fq_svc_continue me K fuel : forall rest interval, htQ me K (svc_continue cfg fuel me rest interval) TT.
Proof. induction fuel as [|n IH]; intros rest interval; destruct rest as [|i r]; cbn [svc_continue]; fq_go; try apply IH. Qed.
Lemma fq_ws_take me K c : htQ me K (ws_take c) TT.  Proof. unfold ws_take. fq_go. Qed.
Lemma fq_ws_block me K c k : htQ me K (ws_block me c k) TT.  Proof. unfold ws_block. fq_go. Qed.
Hint Resolve fq_svc_continue fq_ws_take fq_ws_block : fq.
Lemma fq_ws_request_done me K i r x : htQ me K (ws_request_done me i r x) TT.  Proof. unfold ws_request_done. fq_go. Qed.
Hint Resolve fq_ws_request_done : fq.
Lemma fq_ws_epilogue_end me K i r : htQ me K (ws_epilogue_end cfg me i r) TT.  Proof. unfold ws_epilogue_end. fq_go. Qed.
Hint Resolve fq_ws_epilogue_end : fq.
Lemma fq_ws_epilogue me K i r c w fresh : htQ me K (ws_epilogue cfg me i r c w fresh) TT.  Proof. unfold ws_epilogue. fq_go. Qed.
Hint Resolve fq_ws_epilogue : fq.
Lemma fq_ws_read_loop me K fuel : forall i r c w fresh, htQ me K (ws_read_loop cfg fuel me i r c w fresh) TT.
Proof. induction fuel as [|n IH]; intros i r c w fresh; cbn [ws_read_loop]; fq_go; try apply IH. Qed.
Hint Resolve fq_ws_read_loop : fq.
Lemma fq_ws_steady me K i r c fresh : htQ me K (ws_steady cfg me i r c fresh) TT.  Proof. unfold ws_steady. fq_go. Qed.
Lemma fq_upgrade_fail me K i r x : htQ me K (upgrade_fail me i r x) TT.  Proof. unfold upgrade_fail. fq_go. Qed.
Hint Resolve fq_ws_steady fq_upgrade_fail : fq.
Lemma fq_ws_upgr me K i r c : htQ me K (ws_upgr cfg me i r c) TT.  Proof. unfold ws_upgr. fq_go. Qed.
Hint Resolve fq_ws_upgr : fq.
Lemma fq_ws_probe me K i r c : htQ me K (ws_probe cfg me i r c) TT.  Proof. unfold ws_probe. fq_go. Qed.
Hint Resolve fq_ws_probe : fq.
Lemma fq_disc_seq me K fuel : forall a l, htQ me K (disc_seq cfg fuel me a l) TT.
Proof. induction fuel as [|n IH]; intros a l; destruct l as [|i r]; cbn [disc_seq]; fq_go; try apply IH. Qed.
Lemma fq_spawn_closers me K p l : htQ me K (spawn_closers p l) TT.
Proof. induction l as [|i r IH]; cbn [spawn_closers]; fq_go; try exact IH. Qed.
Lemma fq_answer me K r x : htQ me K (answer me r x) TT.  Proof. unfold answer. fq_go. Qed.
Lemma fq_lookup_view me K q : htQ me K (lookup_view cfg q) TT.
Proof. unfold lookup_view. destruct (decide_early cfg q); [apply htQ_ret; exact I|]. destruct (r_sid q) as [[i|]|]; try (apply htQ_ret; exact I). fq_go. Qed.
Hint Resolve fq_disc_seq fq_spawn_closers fq_answer fq_lookup_view : fq.
Lemma fq_run_api me K a x : htQ me K (run_api cfg me a x) TT.
Proof. destruct x as [ref m|[ref|]|ref|ref|ref u]; cbn [run_api]; fq_go. Qed.
Lemma fq_ws_begin me K j r c : htQ me K (ws_begin cfg me j r c) TT.  Proof. unfold ws_begin. fq_go. Qed.
Hint Resolve fq_ws_begin : fq.
Lemma fq_new_session me K : htQ me K new_session TT.  Proof. apply htQ_same. intros s. cbn. auto. Qed.
Lemma fq_hc_rest me K r q i : htQ me K (hc_rest cfg me r q i) TT.  Proof. unfold hc_rest. fq_go. Qed.
Lemma fq_run_task me K e : htQ me K (run_task cfg me e) TT.
Proof.
  unfold run_task.
  destruct (t_task e) as [i [r|c rd] t | i c rd | r i c | r i c | r i c w t fresh | r i c w fresh | i k | i | i t | | t | rest iv t | i payload a | i parent | a pend sids]; fq_go.
Qed.

(* ---- the invariant ---- *)
Definition is_svc (k : task) : bool := match k with TSvcIdle _ | TSvcVisit _ _ _ => true | _ => false end.
Definition wit (s : st) (t : tid) (k : task) : Prop := is_svc k = true \/ (k = TSvcStart /\ nmem t (runq s) = true).
Definition SVat (s : st) : Prop := svc_pending s = true \/ exists t k, entk s t = Some k /\ wit s t k.
Definition Kq (s : st) : qsnap := {| qr := fun t => nmem t (runq s); qs := svc_pending s |}.
Lemma FQ_start s : FQ (Kq s) s.  Proof. split; cbn; auto. Qed.

Lemma step_wit {A} me (m : M A) s U K extra t k :
  FR me U K s -> htF me (U0 s extra) (K0 s) m TT -> (forall K, htQ me K m TT) ->
  t <> me -> entk s t = Some k -> wit s t k -> entk (stof (m s)) t = Some k /\ wit (stof (m s)) t k.
Proof.
  intros F HF HQ N E W. destruct (HF s (FR_resnap me U K s extra F)) as [F' _]. destruct (HQ (Kq s) s (FQ_start s)) as [[Q1 Q2] _].
  split; [apply (fr_tasks _ _ _ _ F' t k N); exact E|]. destruct W as [W|[W1 W2]]; [left; exact W | right; split; [exact W1 | apply Q1; exact W2]].
Qed.
Lemma step_pending {A} me (m : M A) s : (forall K, htQ me K m TT) -> svc_pending s = true -> svc_pending (stof (m s)) = true.
Proof. intros HQ P. destruct (HQ (Kq s) s (FQ_start s)) as [[_ Q2] _]. rewrite Q2. exact P. Qed.
Lemma step_sv {A} me (m : M A) s U K extra :
  FR me U K s -> htF me (U0 s extra) (K0 s) m TT -> (forall K, htQ me K m TT) ->
  (forall k, entk s me = Some k -> ~ wit s me k) -> SVat s -> SVat (stof (m s)).
Proof.
  intros F HF HQ NW [P|(t & k & E & W)]; [left; apply (step_pending me); assumption|].
  right. exists t, k. apply (step_wit me m s U K extra); auto. intros ->. exact (NW k E W).
Qed.

(* the service task never ends: whatever it finds during its visit, it blocks again as a service task *)
Lemma svc_visit_blocks fuel me i r iv s :
  exists k', entk (stof (svc_continue cfg fuel me (i :: r) iv s)) me = Some k' /\ is_svc k' = true.
Proof.
  destruct fuel; cbn [svc_continue]; rewrite stof_bind, stof_bind, stof_bind; unfold block, modst, stof at 1; cbn [fst snd];
    (eexists; split; [unfold entk; cbn; rewrite alookup_aset_same; reflexivity | reflexivity]).
Qed.
Lemma svc_sweep_blocks f me iv s :
  exists k', entk (stof (svc_continue cfg (S f) me [] iv s)) me = Some k' /\ is_svc k' = true.
Proof.
  cbn [svc_continue]. rewrite stof_getst_bind. destruct (table s) as [|x l].
  - rewrite stof_bind. unfold block, modst, stof at 1. cbn [fst snd]. eexists; split; [unfold entk; cbn; rewrite alookup_aset_same; reflexivity | reflexivity].
  - apply svc_visit_blocks.
Qed.
Lemma svc_blocks me rest iv s : exists k', entk (stof (svc_continue cfg 1 me rest iv s)) me = Some k' /\ is_svc k' = true.
Proof. destruct rest; [apply svc_sweep_blocks | apply svc_visit_blocks]. Qed.

Definition svc_kind (k : task) : bool := is_svc k || match k with TSvcStart => true | _ => false end.
Lemma run_svc_task me e s : svc_kind (t_task e) = true -> SVat (stof (run_task cfg me e s)).
Proof.
  intros SK. right. exists me. unfold run_task.
  destruct (t_task e) eqn:TK; try discriminate; destruct (svc_blocks me [] 0 s) as (k' & E' & S'); try (exists k'; split; [exact E' | left; exact S']).
  destruct (svc_blocks me rest interval s) as (k2 & E2 & S2). exists k2; split; [exact E2 | left; exact S2].
Qed.
Lemma run_task_sv me e s : Good s -> alookup me (tasks s) = Some e -> SVat s -> SVat (stof (run_task cfg me e s)).
Proof.
  intros G L SV. pose proof (entk_in s me e L) as E. pose proof (g_fresh _ G me _ E) as LT.
  destruct (svc_kind (t_task e)) eqn:SK; [apply run_svc_task; exact SK|].
  apply (step_sv me _ s _ _ noextra (FR_start me s noextra G LT)); auto.
  - apply fr_run_task.
  - intros K. apply fq_run_task.
  - intros k E' W. assert (X : t_task e = k) by congruence. rewrite X in SK. unfold svc_kind in SK.
    destruct W as [W|[W1 W2]]; [rewrite W in SK | rewrite W1 in SK]; cbn in SK; discriminate.
Qed.

(* ---- composition ---- *)
Lemma nth_remove_keeps k : forall l y r' u, nth_remove k l = Some (y, r') -> u <> y -> nmem u l = true -> nmem u r' = true.
Proof.
  induction k as [|k IH]; intros l y r' u H N M; destruct l as [|x r]; cbn in H; try discriminate.
  - injection H as <- <-. cbn in M. destruct (N.eqb_spec u x); [contradiction | exact M].
  - destruct (nth_remove k r) as [[y' r2]|] eqn:R.
    + injection H as <- <-. cbn in *. destruct (N.eqb u x); [reflexivity|]. cbn in *. eapply IH; eassumption.
    + injection H as <- <-. cbn in M. destruct (N.eqb_spec u x); [contradiction | exact M].
Qed.
Definition GS (s : st) : Prop := Good s /\ SVat s.
Definition pgs {A} (m : M A) : Prop := forall s, GS s -> GS (stof (m s)).
Lemma pgs_bind {A B} (m : M A) (f : A -> M B) : pgs m -> (forall a, pgs (f a)) -> pgs (bind m f).
Proof. intros Hm Hf s G. rewrite stof_bind. apply Hf, Hm, G. Qed.
Lemma pgs_ret {A} (a : A) : pgs (ret a).  Proof. intros s G. exact G. Qed.
Lemma SV_same s s' : SVat s -> svc_pending s' = svc_pending s -> (forall t, entk s' t = entk s t) -> (forall t, nmem t (runq s) = true -> nmem t (runq s') = true) -> SVat s'.
Proof.
  intros [P|(t & k & E & W)] E1 E2 E3; [left; congruence|]. right. exists t, k. split; [rewrite E2; exact E|].
  destruct W as [W|[W1 W2]]; [left; exact W | right; split; [exact W1 | apply E3; exact W2]].
Qed.
Lemma pgs_same {A} (m : M A) : (forall s, store (stof (m s)) = store s /\ table (stof (m s)) = table s /\ ntid (stof (m s)) = ntid s /\ nsid (stof (m s)) = nsid s /\ tasks (stof (m s)) = tasks s /\ runq (stof (m s)) = runq s /\ svc_pending (stof (m s)) = svc_pending s) -> pgs m.
Proof.
  intros H s [G B]. destruct (H s) as (E1 & E2 & E3 & E4 & E5 & E6 & E7).
  assert (EK : forall t, entk (stof (m s)) t = entk s t) by (intros t; unfold entk; rewrite E5; reflexivity).
  split; [eapply Good_same; eassumption | eapply SV_same; [exact B | exact E7 | exact EK | intros t; rewrite E6; auto]].
Qed.
Lemma pgs_getst_dep {B} (f : st -> M B) : (forall s, GS s -> GS (stof (f s s))) -> pgs (bind getst f).
Proof. intros H s G. rewrite stof_getst_bind. apply H, G. Qed.
Lemma pgs_emit o : pgs (emit o).  Proof. apply pgs_same. intros s. cbn. auto 8. Qed.
Lemma pgs_pconn c x : pgs (pconn c x).  Proof. apply pgs_same. intros s. cbn. auto 8. Qed.
Lemma pgs_wake t : pgs (wake t).
Proof.
  intros s [G B]. split; [apply pg_wake; exact G|]. unfold wake, modst, stof. cbn [fst snd].
  destruct (alookup t (tasks s)); [destruct (nmem t (runq s))|]; try exact B.
  eapply SV_same; [exact B | reflexivity | intros; reflexivity | intros u X; cbn; apply nmem_app_l; exact X].
Qed.
Lemma pgs_fire t : pgs (fire t).
Proof.
  unfold fire. apply pgs_bind; [|intros ?; apply pgs_wake]. intros s [G B].
  assert (G1 : Good (stof (modst (fun s0 => match alookup t (tasks s0) with Some e => set_tasks (aset t {| t_task := t_task e; t_tout := true |} (tasks s0)) s0 | None => s0 end) s))).
  { pose proof (pg_fire t s G) as X. unfold fire in X. rewrite stof_bind in X.
    eapply Good_same; [exact X | | | | |]; unfold wake, modst, stof; cbn [fst snd];
      match goal with |- context [alookup t (tasks ?x)] => destruct (alookup t (tasks x)); [destruct (nmem t (runq x))|]; try reflexivity; intros; reflexivity end. }
  split; [exact G1|]. unfold modst, stof. cbn [fst snd]. destruct (alookup t (tasks s)) as [e|] eqn:L; [|exact B].
  eapply SV_same; [exact B | reflexivity | | intros u X; exact X].
  intros u. unfold entk. cbn. destruct (N.eq_dec u t) as [->|N]; [rewrite alookup_aset_same, L; reflexivity | rewrite alookup_aset_other by exact N; reflexivity].
Qed.
Lemma pgs_fire_all l : pgs (fire_all l).
Proof. induction l as [|[t n] r IH]; cbn [fire_all]; [apply pgs_ret | apply pgs_bind; [apply pgs_fire | intros ?; exact IH]]. Qed.

Lemma settle_sv fuel : forall choices, pgs (settle cfg fuel choices).
Proof.
  induction fuel as [|f IH]; intros choices s G; cbn [settle]; rewrite stof_getst_bind.
  - destruct (runq s); [exact G | apply pgs_emit; exact G].
  - destruct (match choices with [] => (O, []) | c :: r => (c, r) end) as [k cs].
    destruct (nth_remove k (runq s)) as [[t rq]|] eqn:NR; [|exact G].
    rewrite stof_bind. destruct G as [G B]. change (stof (modst (set_runq rq) s)) with (set_runq rq s).
    assert (G1 : Good (set_runq rq s)) by (eapply Good_same; [exact G | reflexivity..| intros; reflexivity]).
    destruct (alookup t (tasks s)) as [e|] eqn:L.
    + rewrite stof_bind. apply IH. split; [apply run_task_good; assumption|].
      destruct (svc_kind (t_task e)) eqn:SK; [apply run_svc_task; exact SK|].
      apply run_task_sv; [exact G1 | exact L|]. destruct B as [P|(u & ku & E & W)]; [left; exact P|]. right. exists u, ku. split; [exact E|].
      destruct W as [W|[W1 W2]]; [left; exact W|]. right. split; [exact W1|]. cbn. eapply nth_remove_keeps; [exact NR | | exact W2].
      intros ->. unfold entk in E. rewrite L in E. injection E as E. rewrite E, W1 in SK. discriminate.
    + apply IH. split; [exact G1|]. destruct B as [P|(u & ku & E & W)]; [left; exact P|]. right. exists u, ku. split; [exact E|].
      destruct W as [W|[W1 W2]]; [left; exact W|]. right. split; [exact W1|]. cbn. eapply nth_remove_keeps; [exact NR | | exact W2].
      intros ->. unfold entk in E. rewrite L in E. discriminate.
Qed.

Lemma advance_sv fuel target : pgs (advance cfg fuel target).
Proof.
  induction fuel as [|f IH]; cbn [advance]; [apply pgs_emit|].
  apply pgs_bind; [apply settle_sv|]. intros ?. apply pgs_bind; [apply pgs_same; intros s; cbn; auto 8|]. intros s0.
  destruct (next_timer (tasks s0) None) as [[t tm]|]; [|apply pgs_same; intros s; cbn; auto 8].
  destruct (Z.leb (fst tm) target); [|apply pgs_same; intros s; cbn; auto 8].
  apply pgs_bind; [apply pgs_same; intros s; cbn; auto 8|]. intros ?.
  apply pgs_bind; [|intros ?; exact IH].
  destruct (q_batch_timers (c_quirks cfg)); [|apply pgs_fire].
  apply pgs_bind; [destruct (due_at (fst tm) (tasks s0) []) as [|x [|y l]]; try apply pgs_ret; apply pgs_emit | intros ?; apply pgs_fire_all].
Qed.

(* ---- requests, API calls, cancellations: the running task is not the service task ---- *)
Definition SVo (me : tid) (s : st) : Prop := svc_pending s = true \/ exists t k, t <> me /\ entk s t = Some k /\ wit s t k.
Lemma SVo_SV me s : SVo me s -> SVat s.
Proof. intros [P|(t & k & N & E & W)]; [left; exact P | right; exists t, k; auto]. Qed.
Lemma SVo_step {A} me (m : M A) s U K extra :
  FR me U K s -> htF me (U0 s extra) (K0 s) m TT -> (forall K, htQ me K m TT) -> SVo me s -> SVo me (stof (m s)).
Proof.
  intros F HF HQ [P|(t & k & N & E & W)]; [left; apply (step_pending me); assumption|].
  right. exists t, k. split; [exact N|]. apply (step_wit me m s U K extra); auto.
Qed.
Lemma SVo_add s : Good s -> SVat s -> SVo (ntid s) (add_task s).
Proof.
  intros G [P|(t & k & E & W)]; [left; exact P|]. right. pose proof (g_fresh _ G t k E) as LT. exists t, k. split; [lia|]. split; [|exact W].
  unfold entk, add_task. cbn. rewrite alookup_aset_other by lia. exact E.
Qed.

Hint Resolve fr_close_nowait fr_sock_send fr_get_socket fr_srv_send fr_close_wait fr_receive fr_receive_all fr_refuse_and_end fr_reap_if_closed
  fr_poll_start fr_finish_get fr_answer fr_lookup_view : fr.

Lemma hc_pre_svo me s : me < ntid s -> SVo me s -> SVo me (stof (hc_pre s)).
Proof.
  intros L SV. unfold hc_pre. rewrite stof_getst_bind. destruct (svc_pending s) eqn:P.
  - right. exists (ntid s), TSvcStart. split; [lia|]. rewrite stof_bind, stof_bind. unfold spawn, modst, stof, entk. cbn. rewrite alookup_aset_same.
    split; [reflexivity|]. right. split; [reflexivity|]. change (nmem (ntid s) (runq s ++ [ntid s]) = true). rewrite nmem_app. cbn. rewrite N.eqb_refl. apply orb_true_r.
  - exact SV.
Qed.
Lemma hc_split2 me r q s : stof (handle_connect cfg me r q s) = stof ((i <- new_session ;; hc_rest cfg me r q i) (stof (hc_pre s))).
Proof. rewrite hc_split, stof_bind. reflexivity. Qed.
Lemma connect_svo me r q s U K : FR me U K s -> SVo me s -> SVo me (stof (handle_connect cfg me r q s)).
Proof.
  intros F SV. rewrite hc_split2.
  pose proof (proj1 (fr_hc_pre me U K s F)) as F2. pose proof (hc_pre_svo me s (fr_me _ _ _ _ F) SV) as SV2. set (s2 := stof (hc_pre s)) in *. clearbody s2.
  apply (SVo_step me _ s2 U K noextra F2); [| |exact SV2].
  - eapply htF_bind; [apply fr_new_session|]. intros i Ui. unfold hc_rest. fr_go; try (apply fr_ws_begin; exact Ui).
  - intros K'. eapply htQ_bind with (Q := TT); [apply fq_new_session|]. intros i _. apply fq_hc_rest.
Qed.

Lemma request_svo me r q s U K : FR me U K s -> SVo me s -> SVo me (stof (handle_request cfg me r q s)).
Proof.
  intros F SV. unfold handle_request. rewrite stof_bind.
  pose proof (proj1 (fr_lookup_view cfg me U K q s F)) as F1.
  pose proof (SVo_step me (lookup_view cfg q) s U K noextra F (fr_lookup_view cfg me _ _ q) (fun K' => fq_lookup_view me K' q) SV) as SV1.
  set (s1 := stof (lookup_view cfg q s)) in *. clearbody s1. set (v := valof (lookup_view cfg q s)). clearbody v.
  destruct (decide cfg q v) as [x| | |i|i|i|i].
  - apply (SVo_step me _ s1 U K noextra F1); auto. fr_go. intros K'; fq_go.
  - apply (SVo_step me _ s1 U K noextra F1); auto. fr_go. intros K'; fq_go.
  - apply (connect_svo me r q s1 U K F1 SV1).
  - apply (SVo_step me _ s1 U K (fun j => N.eqb j i) F1); auto.
    + destruct (r_conn q); [apply fr_ws_begin; unfold U0; rewrite N.eqb_refl, orb_true_r; reflexivity | apply htF_emit].
    + intros K'; fq_go.
  - apply (SVo_step me _ s1 U K noextra F1); auto. fr_go. intros K'; fq_go.
  - apply (SVo_step me _ s1 U K noextra F1); auto. fr_go. intros K'; fq_go.
  - apply (SVo_step me _ s1 U K noextra F1); auto. fr_go. intros K'; fq_go.
Qed.

Theorem apply_op_gs o ch : pgs (apply_op cfg o ch).
Proof.
  destruct o as [r q|c f|c|a x|c|r|dt]; cbn [apply_op].
  - apply pgs_bind; [destruct (r_conn q); [apply pgs_pconn | apply pgs_ret]|]. intros _. apply pgs_getst_dep. intros s [G B].
    destruct (Good_add s G) as (G1 & L1 & P1). rewrite stof_bind. change (stof (modst _ s)) with (add_task s). rewrite stof_bind.
    apply settle_sv. split; [apply request_good; assumption|]. apply (SVo_SV (ntid s)).
    apply (request_svo _ r q _ _ _ (FR_start (ntid s) (add_task s) noextra G1 L1)). apply SVo_add; assumption.
  - apply pgs_bind; [apply pgs_same; intros s; cbn; auto 8|]. intros k. apply pgs_bind; [apply pgs_pconn|]. intros _. apply pgs_bind; [destruct (k_waiter k); [apply pgs_wake | apply pgs_ret]|]. intros _. apply settle_sv.
  - apply pgs_bind; [apply pgs_same; intros s; cbn; auto 8|]. intros k. apply pgs_bind; [apply pgs_pconn|]. intros _. apply pgs_bind; [destruct (k_waiter k); [apply pgs_wake | apply pgs_ret]|]. intros _. apply settle_sv.
  - apply pgs_getst_dep. intros s [G B].
    destruct (Good_add s G) as (G1 & L1 & P1). rewrite stof_bind. change (stof (modst _ s)) with (add_task s). rewrite stof_bind.
    apply settle_sv. split; [apply run_api_good; assumption|]. apply (SVo_SV (ntid s)).
    apply (SVo_step _ _ _ _ _ noextra (FR_start (ntid s) (add_task s) noextra G1 L1)); [apply fr_run_api | intros K'; apply fq_run_api | apply SVo_add; assumption].
  - apply pgs_bind; [apply pgs_same; intros s; cbn; auto 8|]. intros k. destruct (k_waiter k) as [w|]; [|apply pgs_ret]. apply pgs_getst_dep. intros s G.
    destruct (alookup w (tasks s)) as [e|] eqn:L; [|exact G].
    assert (E : entk s w = Some (t_task e)) by (apply entk_in; exact L).
    destruct (t_task e) as [i0 [r0|c0 rd0] t0 | i0 c0 rd0 | r0 i0 c0 | r0 i0 c0 | r0 i0 c0 w0 t0 fresh0 | r0 i0 c0 w0 fresh0 | i0 k0 | i0 | i0 t0 | | t0 | rest0 iv0 t0 | i0 payload0 a0 | i0 parent0 | a0 pend0 sids0] eqn:TK; try exact G.
    + rewrite stof_bind. rewrite stof_bind. apply settle_sv.
      set (s1 := stof (pconn c _ s)). assert (G1 : GS s1) by (apply pgs_pconn; exact G). assert (E1 : entk s1 w = Some (TWsProbe r0 i0 c0)) by exact E. clearbody s1. destruct G1 as [G1 B1].
      split; [eapply cancel_good; [exact G1 | exact E1 | cbn; apply N.eqb_refl | cbn; intros j X; apply N.eqb_eq in X; exact X]|].
      apply (SVo_SV w). apply (SVo_step w _ s1 _ _ noextra (FR_start w s1 noextra G1 (g_fresh _ G1 w _ E1))); [apply fr_upgrade_fail | intros K'; apply fq_upgrade_fail|].
      destruct B1 as [P|(t & k' & E' & W)]; [left; exact P|]. right. exists t, k'. split; [|auto]. intros ->. rewrite E1 in E'. injection E' as <-. destruct W as [W|[W _]]; discriminate.
    + rewrite stof_bind. rewrite stof_bind. apply settle_sv.
      set (s1 := stof (pconn c _ s)). assert (G1 : GS s1) by (apply pgs_pconn; exact G). assert (E1 : entk s1 w = Some (TWsUpgr r0 i0 c0)) by exact E. clearbody s1. destruct G1 as [G1 B1].
      split; [eapply cancel_good; [exact G1 | exact E1 | cbn; apply N.eqb_refl | cbn; intros j X; apply N.eqb_eq in X; exact X]|].
      apply (SVo_SV w). apply (SVo_step w _ s1 _ _ noextra (FR_start w s1 noextra G1 (g_fresh _ G1 w _ E1))); [apply fr_upgrade_fail | intros K'; apply fq_upgrade_fail|].
      destruct B1 as [P|(t & k' & E' & W)]; [left; exact P|]. right. exists t, k'. split; [|auto]. intros ->. rewrite E1 in E'. injection E' as <-. destruct W as [W|[W _]]; discriminate.
  - destruct (q_timeout_wins (c_quirks cfg)); [|apply pgs_ret]. apply pgs_getst_dep. intros s G.
    destruct (find _ (tasks s)) as [[t e]|]; [|exact G]. rewrite stof_bind. apply settle_sv. apply pgs_fire. exact G.
  - apply pgs_bind; [apply pgs_same; intros s; cbn; auto 8|]. intros s0. apply advance_sv.
Qed.
End WithCfg.

(* ---- every reachable state ---- *)
Theorem reachable_sv cfg ops : c_monitor cfg = true -> SVat (fst (run_sched cfg ops (init cfg) [])).
Proof.
  intros MON.
  assert (H : forall ops s acc, GS s -> GS (fst (run_sched cfg ops s acc))).
  { induction ops0 as [|[o ch] r IH]; intros s acc G; cbn [run_sched]; [exact G|].
    pose proof (apply_op_gs cfg o ch s G) as P. unfold stof in P. destruct (apply_op cfg o ch s) as [[u s1] o1]. cbn in P. apply IH. exact P. }
  apply (H ops (init cfg) []). split; [apply Good_init|]. left. exact MON.
Qed.

Definition monitor_task (s : st) (t : tid) (e : tentry) : Prop :=
  (exists tm, t_task e = TSvcIdle tm) \/ (exists rest iv tm, t_task e = TSvcVisit rest iv tm) \/ (t_task e = TSvcStart /\ nmem t (runq s) = true).

Theorem monitor_never_dies cfg ops : c_monitor cfg = true ->
  let s := fst (run_sched cfg ops (init cfg) []) in
  svc_pending s = true \/ exists t e, alookup t (tasks s) = Some e /\ monitor_task s t e.
Proof.
  intros MON s. destruct (reachable_sv cfg ops MON) as [P|(t & k & E & W)]; [left; exact P|]. right. fold s in E, W.
  unfold entk in E. destruct (alookup t (tasks s)) as [e|] eqn:L; [|discriminate]. injection E as E. exists t, e. split; [exact L|].
  destruct W as [W|[W1 W2]].
  - destruct k; try discriminate; [left | right; left]; rewrite E; eauto.
  - right; right. split; [congruence | exact W2].
Qed.

(* not vacuous: with monitoring on, before the first connection the task is still to be started; after it, it waits for its visit *)
Definition ex_mon : config :=
  {| c_interval := c_interval ex_cfg; c_timeout := c_timeout ex_cfg; c_async_handlers := false; c_monitor := true; c_allow_upgrades := true;
     c_polling := true; c_websocket := true; c_quirks := c_quirks ex_cfg |}.
Example ex_before : svc_pending (init ex_mon) = true.  Proof. reflexivity. Qed.
Example ex_after : let s := fst (run_sched ex_mon [(OpReq 0 ex_open, [])] (init ex_mon) []) in
  svc_pending s = false /\ exists t e rest iv tm, alookup t (tasks s) = Some e /\ t_task e = TSvcVisit rest iv tm.
Proof. split; [vm_compute; reflexivity|]. exists 1. vm_compute. do 4 eexists. split; reflexivity. Qed.

(* ---- C16: what a visit of the monitor does with an ended session, and the shape of the table in every reachable state ---- *)
Lemma visit_closed_reaps cfg fuel me i r iv s : s_closed (cur i s) = true ->
  table (stof (svc_continue cfg fuel me (i :: r) iv s)) = nrem i (table s).
Proof.
  intros C. destruct fuel; cbn [svc_continue]; rewrite stof_bind; change (stof (gsess i s)) with s; change (valof (gsess i s)) with (cur i s); cbv beta;
    rewrite C; rewrite stof_bind, stof_bind; reflexivity.
Qed.
Theorem table_ids_have_records cfg ops :
  let s := fst (run_sched cfg ops (init cfg) []) in
  forall i, nmem i (table s) = true -> alookup i (store s) <> None /\ i < nsid s.
Proof.
  intros s i X. pose proof (reachable_good cfg ops) as G. fold s in G. split; [exact (g_tab _ G i X) | apply (g_ids _ G), (g_tab _ G i X)].
Qed.
