(* C15: no request is answered twice.  For every history whose request ids are pairwise distinct and every schedule, the outputs
   contain at most one response per request id. *)
From Coq Require Import ZArith NArith List Bool Lia.
Import ListNotations.
From EIO Require Import Server ServerReasons ServerResp ServerInv ServerUpg ServerHb ServerTimers.
Open Scope N_scope.

Definition keys (l : list (tid * tentry)) : list tid := map fst l.
Lemma keys_aset k v l : NoDup (keys l) -> NoDup (keys (aset k v l)).
Proof.
  induction l as [|[k' v'] r IH]; cbn; [intros _; constructor; [intros []|constructor]|].
  intros H. inversion H as [|a b NI ND]; subst. destruct (N.eqb_spec k k') as [->|NE]; cbn; [constructor; assumption|].
  constructor; [|apply IH; exact ND]. intros X. apply NI. clear - X NE. induction r as [|[k2 v2] r IH]; cbn in *; [destruct X as [X|[]]; congruence|].
  destruct (N.eqb_spec k k2) as [->|N2]; cbn in *; [exact X|]. destruct X as [X|X]; [left; exact X | right; apply IH; exact X].
Qed.
Lemma keys_adel_sub k l x : In x (keys (adel k l)) -> In x (keys l).
Proof. induction l as [|[k' v'] r IH]; cbn; [auto|]. destruct (N.eqb k k'); cbn; [auto|]. intros [X|X]; auto. Qed.
Lemma keys_adel k l : NoDup (keys l) -> NoDup (keys (adel k l)).
Proof.
  induction l as [|[k' v'] r IH]; cbn; [auto|]. intros H. inversion H as [|a b NI ND]; subst. destruct (N.eqb k k'); cbn; [exact ND|].
  constructor; [intros X; apply NI; eapply keys_adel_sub; exact X | apply IH; exact ND].
Qed.
Lemma adel_gone k l e : NoDup (keys l) -> ~ In (k, e) (adel k l).
Proof.
  induction l as [|[k' v'] r IH]; cbn; [auto|]. intros H. inversion H as [|a b NI ND]; subst. destruct (N.eqb_spec k k') as [->|NE]; cbn.
  - intros X. apply NI. change k' with (fst (k', e)). apply in_map. exact X.
  - intros [X|X]; [injection X as -> _; congruence | exact (IH ND X)].
Qed.

(* ---- task ids stay pairwise distinct ---- *)
Definition ND (s : st) : Prop := NoDup (keys (tasks s)).
Definition ndk {A} (me : tid) (m : M A) (Q : A -> Prop) : Prop := forall s, ND s -> ND (stof (m s)) /\ Q (valof (m s)).
Lemma ndk_bind {A B} me (m : M A) (f : A -> M B) Q R : ndk me m Q -> (forall a, Q a -> ndk me (f a) R) -> ndk me (bind m f) R.
Proof.
  intros Hm Hf s F. destruct (Hm s F) as [F1 Q1]. unfold bind, stof, valof in *. destruct (m s) as [[a s1] o1]. cbn [fst snd] in *.
  destruct (Hf a Q1 s1 F1) as [F2 R2]. unfold stof, valof in *. destruct (f a s1) as [[b s2] o2]. cbn [fst snd] in *. auto.
Qed.
Lemma ndk_ret {A} me (a : A) (Q : A -> Prop) : Q a -> ndk me (ret a) Q.  Proof. intros H s F. cbn. auto. Qed.
Lemma ndk_same {A} me (m : M A) : (forall s, tasks (stof (m s)) = tasks s) -> ndk me m TT.
Proof. intros H s F. split; [|exact I]. unfold ND. rewrite H. exact F. Qed.
Lemma ndk_getst me : ndk me getst TT.  Proof. apply ndk_same. reflexivity. Qed.
Lemma ndk_emit me o : ndk me (emit o) TT.  Proof. apply ndk_same. reflexivity. Qed.
Lemma ndk_gsess me i : ndk me (gsess i) TT.  Proof. apply ndk_same. reflexivity. Qed.
Lemma ndk_psess me i x : ndk me (psess i x) TT.
Proof. apply ndk_same. intros s. unfold psess, modst, stof. cbn. destruct (alookup i (store s)); reflexivity. Qed.
Lemma ndk_upd me i f : ndk me (upd i f) TT.  Proof. unfold upd. eapply ndk_bind; [apply ndk_gsess|]. intros ss _. apply ndk_psess. Qed.
Lemma ndk_wake me t : ndk me (wake t) TT.
Proof. apply ndk_same. intros s. unfold wake, modst, stof. cbn. destruct (alookup t (tasks s)); [destruct (nmem t (runq s))|]; reflexivity. Qed.
Lemma ndk_wake_all me l : ndk me (wake_all l) TT.
Proof. induction l as [|t r IH]; cbn [wake_all]; [apply ndk_ret; exact I|]. eapply ndk_bind; [apply ndk_wake | intros ? _; exact IH]. Qed.
Lemma ndk_new_timer me dt : ndk me (new_timer dt) TT.  Proof. apply ndk_same. reflexivity. Qed.
Lemma ndk_alive me t : ndk me (alive t) TT.  Proof. apply ndk_same. reflexivity. Qed.
Lemma ndk_has_sess me i : ndk me (has_sess i) TT.  Proof. apply ndk_same. reflexivity. Qed.
Lemma ndk_gconn me c : ndk me (gconn c) TT.  Proof. apply ndk_same. reflexivity. Qed.
Lemma ndk_pconn me c x : ndk me (pconn c x) TT.  Proof. apply ndk_same. reflexivity. Qed.
Lemma ndk_in_table me i : ndk me (in_table i) TT.  Proof. apply ndk_same. reflexivity. Qed.
Lemma ndk_del_table me i : ndk me (del_table i) TT.  Proof. apply ndk_same. reflexivity. Qed.
Lemma ndk_del_tables me l : ndk me (del_tables l) TT.
Proof. induction l as [|i r IH]; cbn [del_tables]; [apply ndk_ret; exact I|]. eapply ndk_bind; [apply ndk_del_table | intros ? _; exact IH]. Qed.
Lemma ndk_modst_same me f : (forall s, tasks (f s) = tasks s) -> ndk me (modst f) TT.
Proof. intros H. apply ndk_same. intros s. cbn. apply H. Qed.
Lemma ndk_block me t k : ndk me (block t k) TT.
Proof. intros s F. split; [|exact I]. unfold ND, block, modst, stof. cbn. apply keys_aset. exact F. Qed.
Lemma ndk_finish me t : ndk me (finish t) TT.
Proof.
  unfold finish. eapply ndk_bind; [apply ndk_getst|]. intros s0 _. eapply ndk_bind with (Q := TT); [|intros ? _; apply ndk_wake_all].
  intros s F. split; [|exact I]. unfold ND, modst, stof. cbn. apply keys_adel. exact F.
Qed.
Lemma ndk_spawn me k : ndk me (spawn k) TT.
Proof. intros s F. split; [|exact I]. unfold ND, spawn, stof. cbn. apply keys_aset. exact F. Qed.
Create HintDb nk discriminated.
#[export] Hint Resolve ndk_getst ndk_emit ndk_wake ndk_wake_all ndk_new_timer ndk_alive ndk_has_sess ndk_gconn ndk_pconn ndk_in_table
  ndk_del_table ndk_del_tables ndk_block ndk_finish ndk_spawn ndk_gsess ndk_psess ndk_upd : nk.
Ltac nk_step :=
  match goal with
  | |- ndk _ (ret _) _ => apply ndk_ret; exact I
  | |- ndk _ (bind _ _) _ => eapply ndk_bind with (Q := TT); [|intros ? _]
  | |- ndk _ (modst _) _ => apply ndk_modst_same; intros ?; reflexivity
  | |- ndk _ (if ?b then _ else _) _ => destruct b
  | |- ndk _ (match ?x with _ => _ end) _ => destruct x
  | _ => solve [eauto with nk]
  end.
Ltac nk_go := repeat nk_step.

(* ---- which request a task entry serves: only the running task may take one up, and only its own ---- *)
Definition okr (r0 : option rid) (k : task) : Prop := rid_of k = None \/ rid_of k = r0.
Definition FKs (me : tid) (r0 : option rid) (O : tid -> tentry -> Prop) (s : st) : Prop :=
  forall t e, In (t, e) (tasks s) -> rid_of (t_task e) = None \/ (t = me /\ rid_of (t_task e) = r0) \/ O t e.
Definition htK {A} (me : tid) (r0 : option rid) (O : tid -> tentry -> Prop) (m : M A) (Q : A -> Prop) : Prop :=
  forall s, FKs me r0 O s -> FKs me r0 O (stof (m s)) /\ Q (valof (m s)).
Lemma htK_bind {A B} me r0 O (m : M A) (f : A -> M B) Q R : htK me r0 O m Q -> (forall a, Q a -> htK me r0 O (f a) R) -> htK me r0 O (bind m f) R.
Proof.
  intros Hm Hf s F. destruct (Hm s F) as [F1 Q1]. unfold bind, stof, valof in *. destruct (m s) as [[a s1] o1]. cbn [fst snd] in *.
  destruct (Hf a Q1 s1 F1) as [F2 R2]. unfold stof, valof in *. destruct (f a s1) as [[b s2] o2]. cbn [fst snd] in *. auto.
Qed.
Lemma htK_ret {A} me r0 O (a : A) (Q : A -> Prop) : Q a -> htK me r0 O (ret a) Q.  Proof. intros H s F. cbn. auto. Qed.
Lemma htK_same {A} me r0 O (m : M A) : (forall s, tasks (stof (m s)) = tasks s) -> htK me r0 O m TT.
Proof. intros H s F. split; [|exact I]. unfold FKs. rewrite H. exact F. Qed.
Lemma htK_getst me r0 O : htK me r0 O getst TT.  Proof. apply htK_same. reflexivity. Qed.
Lemma htK_emit me r0 O o : htK me r0 O (emit o) TT.  Proof. apply htK_same. reflexivity. Qed.
Lemma htK_gsess me r0 O i : htK me r0 O (gsess i) TT.  Proof. apply htK_same. reflexivity. Qed.
Lemma htK_psess me r0 O i x : htK me r0 O (psess i x) TT.
Proof. apply htK_same. intros s. unfold psess, modst, stof. cbn. destruct (alookup i (store s)); reflexivity. Qed.
Lemma htK_upd me r0 O i f : htK me r0 O (upd i f) TT.  Proof. unfold upd. eapply htK_bind; [apply htK_gsess|]. intros ss _. apply htK_psess. Qed.
Lemma htK_wake me r0 O t : htK me r0 O (wake t) TT.
Proof. apply htK_same. intros s. unfold wake, modst, stof. cbn. destruct (alookup t (tasks s)); [destruct (nmem t (runq s))|]; reflexivity. Qed.
Lemma htK_wake_all me r0 O l : htK me r0 O (wake_all l) TT.
Proof. induction l as [|t r IH]; cbn [wake_all]; [apply htK_ret; exact I|]. eapply htK_bind; [apply htK_wake | intros ? _; exact IH]. Qed.
Lemma htK_new_timer me r0 O dt : htK me r0 O (new_timer dt) TT.  Proof. apply htK_same. reflexivity. Qed.
Lemma htK_alive me r0 O t : htK me r0 O (alive t) TT.  Proof. apply htK_same. reflexivity. Qed.
Lemma htK_has_sess me r0 O i : htK me r0 O (has_sess i) TT.  Proof. apply htK_same. reflexivity. Qed.
Lemma htK_gconn me r0 O c : htK me r0 O (gconn c) TT.  Proof. apply htK_same. reflexivity. Qed.
Lemma htK_pconn me r0 O c x : htK me r0 O (pconn c x) TT.  Proof. apply htK_same. reflexivity. Qed.
Lemma htK_in_table me r0 O i : htK me r0 O (in_table i) TT.  Proof. apply htK_same. reflexivity. Qed.
Lemma htK_del_table me r0 O i : htK me r0 O (del_table i) TT.  Proof. apply htK_same. reflexivity. Qed.
Lemma htK_del_tables me r0 O l : htK me r0 O (del_tables l) TT.
Proof. induction l as [|i r IH]; cbn [del_tables]; [apply htK_ret; exact I|]. eapply htK_bind; [apply htK_del_table | intros ? _; exact IH]. Qed.
Lemma htK_modst_same me r0 O f : (forall s, tasks (f s) = tasks s) -> htK me r0 O (modst f) TT.
Proof. intros H. apply htK_same. intros s. cbn. apply H. Qed.
Lemma htK_block me r0 O k : okr r0 k -> htK me r0 O (block me k) TT.
Proof.
  intros OK s F. split; [|exact I]. intros t e IN. unfold block, modst, stof in IN. cbn in IN.
  destruct (In_aset _ _ _ _ IN) as [X|X]; [injection X as -> ->; cbn; destruct OK as [H|H]; [left; exact H | right; left; auto] | exact (F t e X)].
Qed.
Lemma htK_finish me r0 O t : htK me r0 O (finish t) TT.
Proof.
  unfold finish. eapply htK_bind; [apply htK_getst|]. intros s0 _. eapply htK_bind with (Q := TT); [|intros ? _; apply htK_wake_all].
  intros s F. split; [|exact I]. intros u e IN. unfold modst, stof in IN. cbn in IN. exact (F u e (In_adel _ _ _ IN)).
Qed.
Lemma htK_spawn me r0 O k : rid_of k = None -> htK me r0 O (spawn k) TT.
Proof.
  intros OK s F. split; [|exact I]. intros u e IN. unfold spawn, stof in IN. cbn in IN.
  destruct (In_aset _ _ _ _ IN) as [X|X]; [injection X as -> ->; left; exact OK | exact (F u e X)].
Qed.
Create HintDb kf discriminated.
#[export] Hint Resolve htK_getst htK_emit htK_wake htK_wake_all htK_new_timer htK_alive htK_has_sess htK_gconn htK_pconn htK_in_table
  htK_del_table htK_del_tables htK_finish htK_gsess htK_psess htK_upd : kf.
Ltac kf_step :=
  match goal with
  | |- htK _ _ _ (ret _) _ => apply htK_ret; exact I
  | |- htK _ _ _ (bind _ _) _ => eapply htK_bind with (Q := TT); [|intros ? _]
  | |- htK _ _ _ (block _ _) _ => apply htK_block; unfold okr; cbn; auto
  | |- htK _ _ _ (spawn _) _ => apply htK_spawn; reflexivity
  | |- htK _ _ _ (modst _) _ => apply htK_modst_same; intros ?; reflexivity
  | |- htK _ _ _ (if ?b then _ else _) _ => destruct b
  | |- htK _ _ _ (match ?x with _ => _ end) _ => destruct x
  | _ => solve [eauto with kf]
  end.
Ltac kf_go := repeat kf_step.

Section WithCfg.
Variable cfg : config.

Lemma nk_q_put me i x : ndk me (q_put i x) TT.  Proof. unfold q_put. nk_go. Qed.
Lemma nk_q_task_done me i : ndk me (q_task_done i) TT.  Proof. unfold q_task_done. nk_go. Qed.
Hint Resolve nk_q_put nk_q_task_done : nk.
Lemma nk_drain me fuel : forall i acc, ndk me (drain fuel i acc) TT.
Proof. induction fuel as [|n IH]; intros i acc; cbn [drain]; nk_go; try apply IH. Qed.
Hint Resolve nk_drain : nk.


Lemma nk_close_nowait me i ab r : ndk me (close_nowait cfg i ab r) TT.
Proof. unfold close_nowait, begin_close. nk_go. Qed.
Hint Resolve nk_close_nowait : nk.
Lemma nk_sock_send me i p : ndk me (sock_send cfg i p) TT.  Proof. unfold sock_send. nk_go. Qed.
Lemma nk_get_socket me i : ndk me (get_socket i) TT.  Proof. unfold get_socket. nk_go. Qed.
Hint Resolve nk_sock_send nk_get_socket : nk.
Lemma nk_srv_send me i m : ndk me (srv_send cfg i m) TT.  Proof. unfold srv_send. nk_go. Qed.
Lemma nk_close_wait me i r : ndk me (close_wait cfg i r) TT.  Proof. unfold close_wait. nk_go. Qed.
Hint Resolve nk_srv_send nk_close_wait : nk.
Lemma nk_run_handler me bg i payload a : ndk me (run_handler cfg me bg i payload a) TT.
Proof. unfold run_handler. nk_go. Qed.
Lemma nk_run_handler_fg me m' i payload a : ndk me (run_handler cfg m' false i payload a) TT.
Proof. unfold run_handler. nk_go. Qed.
Hint Resolve nk_run_handler nk_run_handler_fg : nk.
Lemma nk_receive me i p : ndk me (receive cfg i p) TT.
Proof. unfold receive. nk_go. Qed.
Lemma nk_receive_all me i l : ndk me (receive_all cfg i l) TT.
Proof. induction l as [|p r IH]; cbn [receive_all]; nk_go; try apply nk_receive; try exact IH. Qed.
Lemma nk_refuse_and_end me i : ndk me (refuse_and_end cfg i) TT.  Proof. unfold refuse_and_end. nk_go. Qed.
Lemma nk_reap_if_closed me i : ndk me (reap_if_closed i) TT.  Proof. unfold reap_if_closed. nk_go. Qed.
Hint Resolve nk_receive nk_receive_all nk_refuse_and_end nk_reap_if_closed : nk.

Lemma nk_poll_attempt me tout i k t : ndk me (poll_attempt cfg me tout i k t) TT.
Proof.
  unfold poll_attempt.
  change (modst (fun s => set_tasks (aset me {| t_task := TPoll i k t; t_tout := false |} (tasks s)) s)) with (block me (TPoll i k t)).
  eapply ndk_bind; [apply ndk_gsess|]. intros ss Hs.
  destruct (if tout && q_timeout_wins (c_quirks cfg) then [] else s_q ss) as [|x r]; nk_go.
Qed.
Hint Resolve nk_poll_attempt : nk.
Lemma nk_poll_start me i k : ndk me (poll_start cfg me i k) TT.  Proof. unfold poll_start. nk_go. Qed.
Hint Resolve nk_poll_start : nk.
Lemma nk_ws_send_all me c l : ndk me (ws_send_all c l) TT.
Proof. induction l as [|p r IH]; cbn [ws_send_all]; nk_go; try exact IH. Qed.
Lemma nk_ws_close me c : ndk me (ws_close c) TT.  Proof. unfold ws_close. nk_go. Qed.
Hint Resolve nk_ws_send_all nk_ws_close : nk.
Lemma nk_writer_exit me c : ndk me (writer_exit me c) TT.  Proof. unfold writer_exit. nk_go. Qed.
Hint Resolve nk_writer_exit : nk.
Lemma nk_writer_loop me fuel : forall i c rd first, ndk me (writer_loop cfg fuel me i c rd first) TT.
Proof. induction fuel as [|n IH]; intros i c rd first; destruct first as [| |[|p l]]; cbn [writer_loop]; nk_go; try apply IH. Qed.
Lemma nk_finish_get me i r p : ndk me (finish_get cfg me i r p) TT.  Proof. unfold finish_get. nk_go. Qed.
Lemma nk_ping_fire me i : ndk me (ping_fire cfg me i) TT.  Proof. unfold ping_fire. nk_go. Qed.
Lemma nk_check_ping_timeout me i : ndk me (check_ping_timeout cfg i) TT.  Proof. unfold check_ping_timeout. nk_go. Qed.
Hint Resolve nk_writer_loop nk_finish_get nk_ping_fire nk_check_ping_timeout : nk.
Lemma nk_svc_continue me fuel : forall rest interval, ndk me (svc_continue cfg fuel me rest interval) TT.
Proof. induction fuel as [|n IH]; intros rest interval; destruct rest as [|i r]; cbn [svc_continue]; nk_go; try apply IH. Qed.
Lemma nk_ws_take me c : ndk me (ws_take c) TT.  Proof. unfold ws_take. nk_go. Qed.
Lemma nk_ws_block me c k : ndk me (ws_block me c k) TT.  Proof. unfold ws_block. nk_go. Qed.
Hint Resolve nk_svc_continue nk_ws_take nk_ws_block : nk.
Lemma nk_ws_request_done me i r x : ndk me (ws_request_done me i r x) TT.  Proof. unfold ws_request_done. nk_go. Qed.
Hint Resolve nk_ws_request_done : nk.
Lemma nk_ws_epilogue_end me i r : ndk me (ws_epilogue_end cfg me i r) TT.  Proof. unfold ws_epilogue_end. nk_go. Qed.
Hint Resolve nk_ws_epilogue_end : nk.
Lemma nk_ws_epilogue me i r c w fresh : ndk me (ws_epilogue cfg me i r c w fresh) TT.  Proof. unfold ws_epilogue. nk_go. Qed.
Hint Resolve nk_ws_epilogue : nk.
Lemma nk_ws_read_loop me fuel : forall i r c w fresh, ndk me (ws_read_loop cfg fuel me i r c w fresh) TT.
Proof. induction fuel as [|n IH]; intros i r c w fresh; cbn [ws_read_loop]; nk_go; try apply IH. Qed.
Hint Resolve nk_ws_read_loop : nk.
Lemma nk_ws_steady me i r c fresh : ndk me (ws_steady cfg me i r c fresh) TT.  Proof. unfold ws_steady. nk_go. Qed.
Lemma nk_upgrade_fail me i r x : ndk me (upgrade_fail me i r x) TT.  Proof. unfold upgrade_fail. nk_go. Qed.
Hint Resolve nk_ws_steady nk_upgrade_fail : nk.
Lemma nk_ws_upgr me i r c : ndk me (ws_upgr cfg me i r c) TT.  Proof. unfold ws_upgr. nk_go. Qed.
Hint Resolve nk_ws_upgr : nk.
Lemma nk_ws_probe me i r c : ndk me (ws_probe cfg me i r c) TT.  Proof. unfold ws_probe. nk_go. Qed.
Hint Resolve nk_ws_probe : nk.
Lemma nk_disc_seq me fuel : forall a l, ndk me (disc_seq cfg fuel me a l) TT.
Proof. induction fuel as [|n IH]; intros a l; destruct l as [|i r]; cbn [disc_seq]; nk_go; try apply IH. Qed.
Lemma nk_spawn_closers me p l : ndk me (spawn_closers p l) TT.
Proof. induction l as [|i r IH]; cbn [spawn_closers]; nk_go; try exact IH. Qed.
Lemma nk_answer me r x : ndk me (answer me r x) TT.  Proof. unfold answer. nk_go. Qed.
Lemma nk_lookup_view me q : ndk me (lookup_view cfg q) TT.
Proof. unfold lookup_view. destruct (decide_early cfg q); [apply ndk_ret; exact I|]. destruct (r_sid q) as [[i|]|]; try (apply ndk_ret; exact I). nk_go. Qed.
Hint Resolve nk_disc_seq nk_spawn_closers nk_answer nk_lookup_view : nk.
Lemma nk_run_api me a x : ndk me (run_api cfg me a x) TT.
Proof. destruct x as [ref m|[ref|]|ref|ref|ref u]; cbn [run_api]; nk_go. Qed.
Lemma kf_q_put me r0 O i x : htK me r0 O (q_put i x) TT.  Proof. unfold q_put. kf_go. Qed.
Lemma kf_q_task_done me r0 O i : htK me r0 O (q_task_done i) TT.  Proof. unfold q_task_done. kf_go. Qed.
Hint Resolve kf_q_put kf_q_task_done : kf.
Lemma kf_drain me r0 O fuel : forall i acc, htK me r0 O (drain fuel i acc) TT.
Proof. induction fuel as [|n IH]; intros i acc; cbn [drain]; kf_go; try apply IH. Qed.
Hint Resolve kf_drain : kf.


Lemma kf_close_nowait me r0 O i ab r : htK me r0 O (close_nowait cfg i ab r) TT.
Proof. unfold close_nowait, begin_close. kf_go. Qed.
Hint Resolve kf_close_nowait : kf.
Lemma kf_sock_send me r0 O i p : htK me r0 O (sock_send cfg i p) TT.  Proof. unfold sock_send. kf_go. Qed.
Lemma kf_get_socket me r0 O i : htK me r0 O (get_socket i) TT.  Proof. unfold get_socket. kf_go. Qed.
Hint Resolve kf_sock_send kf_get_socket : kf.
Lemma kf_srv_send me r0 O i m : htK me r0 O (srv_send cfg i m) TT.  Proof. unfold srv_send. kf_go. Qed.
Lemma kf_close_wait me r0 O i r : htK me r0 O (close_wait cfg i r) TT.  Proof. unfold close_wait. kf_go. Qed.
Hint Resolve kf_srv_send kf_close_wait : kf.
Lemma kf_run_handler me r0 O bg i payload a : htK me r0 O (run_handler cfg me bg i payload a) TT.
Proof. unfold run_handler. kf_go. Qed.
Lemma kf_run_handler_fg me r0 O m' i payload a : htK me r0 O (run_handler cfg m' false i payload a) TT.
Proof. unfold run_handler. kf_go. Qed.
Hint Resolve kf_run_handler kf_run_handler_fg : kf.
Lemma kf_receive me r0 O i p : htK me r0 O (receive cfg i p) TT.
Proof. unfold receive. kf_go. Qed.
Lemma kf_receive_all me r0 O i l : htK me r0 O (receive_all cfg i l) TT.
Proof. induction l as [|p r IH]; cbn [receive_all]; kf_go; try apply kf_receive; try exact IH. Qed.
Lemma kf_refuse_and_end me r0 O i : htK me r0 O (refuse_and_end cfg i) TT.  Proof. unfold refuse_and_end. kf_go. Qed.
Lemma kf_reap_if_closed me r0 O i : htK me r0 O (reap_if_closed i) TT.  Proof. unfold reap_if_closed. kf_go. Qed.
Hint Resolve kf_receive kf_receive_all kf_refuse_and_end kf_reap_if_closed : kf.

Lemma kf_poll_attempt me r0 O tout i k t : okr r0 (TPoll i k t) -> htK me r0 O (poll_attempt cfg me tout i k t) TT.
Proof.
  intros HT. unfold poll_attempt.
  change (modst (fun s => set_tasks (aset me {| t_task := TPoll i k t; t_tout := false |} (tasks s)) s)) with (block me (TPoll i k t)).
  eapply htK_bind with (Q := TT); [kf_go|]. intros ss _.
  destruct (if tout && q_timeout_wins (c_quirks cfg) then [] else s_q ss) as [|x r]; kf_go.
Qed.
Hint Extern 1 (htK _ _ _ (poll_attempt _ _ _ _ _ _) _) => apply kf_poll_attempt; unfold okr; cbn; auto : kf.
Lemma kf_poll_start me r0 O i k : (forall t, okr r0 (TPoll i k t)) -> htK me r0 O (poll_start cfg me i k) TT.
Proof. intros H. unfold poll_start. eapply htK_bind with (Q := TT); [kf_go|]. intros t _. apply kf_poll_attempt. apply H. Qed.
Hint Extern 1 (htK _ _ _ (poll_start _ _ _ _) _) => apply kf_poll_start; intros ?; unfold okr; cbn; auto : kf.
Lemma kf_ws_send_all me r0 O c l : htK me r0 O (ws_send_all c l) TT.
Proof. induction l as [|p r IH]; cbn [ws_send_all]; kf_go; try exact IH. Qed.
Lemma kf_ws_close me r0 O c : htK me r0 O (ws_close c) TT.  Proof. unfold ws_close. kf_go. Qed.
Hint Resolve kf_ws_send_all kf_ws_close : kf.
Lemma kf_writer_exit me r0 O c : htK me r0 O (writer_exit me c) TT.  Proof. unfold writer_exit. kf_go. Qed.
Hint Resolve kf_writer_exit : kf.
Lemma kf_writer_loop me r0 O fuel : forall i c rd first, htK me r0 O (writer_loop cfg fuel me i c rd first) TT.
Proof. induction fuel as [|n IH]; intros i c rd first; destruct first as [| |[|p l]]; cbn [writer_loop]; kf_go; try apply IH. Qed.
Lemma kf_finish_get me O i r p : htK me (Some r) O (finish_get cfg me i r p) TT.  Proof. unfold finish_get. kf_go. Qed.
Lemma kf_ping_fire me r0 O i : htK me r0 O (ping_fire cfg me i) TT.  Proof. unfold ping_fire. kf_go. Qed.
Lemma kf_check_ping_timeout me r0 O i : htK me r0 O (check_ping_timeout cfg i) TT.  Proof. unfold check_ping_timeout. kf_go. Qed.
Hint Resolve kf_writer_loop kf_finish_get kf_ping_fire kf_check_ping_timeout : kf.
Lemma kf_svc_continue me r0 O fuel : forall rest interval, htK me r0 O (svc_continue cfg fuel me rest interval) TT.
Proof. induction fuel as [|n IH]; intros rest interval; destruct rest as [|i r]; cbn [svc_continue]; kf_go; try apply IH. Qed.
Lemma kf_ws_take me r0 O c : htK me r0 O (ws_take c) TT.  Proof. unfold ws_take. kf_go. Qed.
Lemma kf_ws_block me r0 O c k : okr r0 k -> htK me r0 O (ws_block me c k) TT.  Proof. intros OK. unfold ws_block. kf_go. Qed.
Hint Extern 1 (htK _ _ _ (ws_block _ _ _) _) => apply kf_ws_block; unfold okr; cbn; auto : kf.
Hint Resolve kf_svc_continue kf_ws_take : kf.
Lemma kf_ws_request_done me O i r x : htK me (Some r) O (ws_request_done me i r x) TT.  Proof. unfold ws_request_done. kf_go. Qed.
Hint Resolve kf_ws_request_done : kf.
Lemma kf_ws_epilogue_end me O i r : htK me (Some r) O (ws_epilogue_end cfg me i r) TT.  Proof. unfold ws_epilogue_end. kf_go. Qed.
Hint Resolve kf_ws_epilogue_end : kf.
Lemma kf_ws_epilogue me O i r c w fresh : htK me (Some r) O (ws_epilogue cfg me i r c w fresh) TT.  Proof. unfold ws_epilogue. kf_go. Qed.
Hint Resolve kf_ws_epilogue : kf.
Lemma kf_ws_read_loop me O fuel : forall i r c w fresh, htK me (Some r) O (ws_read_loop cfg fuel me i r c w fresh) TT.
Proof. induction fuel as [|n IH]; intros i r c w fresh; cbn [ws_read_loop]; kf_go; try apply IH. Qed.
Hint Resolve kf_ws_read_loop : kf.
Lemma kf_ws_steady me O i r c fresh : htK me (Some r) O (ws_steady cfg me i r c fresh) TT.  Proof. unfold ws_steady. kf_go. Qed.
Lemma kf_upgrade_fail me O i r x : htK me (Some r) O (upgrade_fail me i r x) TT.  Proof. unfold upgrade_fail. kf_go. Qed.
Hint Resolve kf_ws_steady kf_upgrade_fail : kf.
Lemma kf_ws_upgr me O i r c : htK me (Some r) O (ws_upgr cfg me i r c) TT.  Proof. unfold ws_upgr. kf_go. Qed.
Hint Resolve kf_ws_upgr : kf.
Lemma kf_ws_probe me O i r c : htK me (Some r) O (ws_probe cfg me i r c) TT.  Proof. unfold ws_probe. kf_go. Qed.
Hint Resolve kf_ws_probe : kf.
Lemma kf_disc_seq me r0 O fuel : forall a l, htK me r0 O (disc_seq cfg fuel me a l) TT.
Proof. induction fuel as [|n IH]; intros a l; destruct l as [|i r]; cbn [disc_seq]; kf_go; try apply IH. Qed.
Lemma kf_spawn_closers me r0 O p l : htK me r0 O (spawn_closers p l) TT.
Proof. induction l as [|i r IH]; cbn [spawn_closers]; kf_go; try exact IH. Qed.
Lemma kf_answer me O r x : htK me (Some r) O (answer me r x) TT.  Proof. unfold answer. kf_go. Qed.
Lemma kf_lookup_view me r0 O q : htK me r0 O (lookup_view cfg q) TT.
Proof. unfold lookup_view. destruct (decide_early cfg q); [apply htK_ret; exact I|]. destruct (r_sid q) as [[i|]|]; try (apply htK_ret; exact I). kf_go. Qed.
Hint Resolve kf_disc_seq kf_spawn_closers kf_answer kf_lookup_view : kf.
Lemma kf_run_api me r0 O a x : htK me r0 O (run_api cfg me a x) TT.
Proof. destruct x as [ref m|[ref|]|ref|ref|ref u]; cbn [run_api]; kf_go. Qed.
Lemma nk_ws_begin me j r c : ndk me (ws_begin cfg me j r c) TT.  Proof. unfold ws_begin. nk_go. Qed.
Hint Resolve nk_ws_begin : nk.
Lemma nk_new_session me : ndk me new_session TT.  Proof. apply ndk_same. reflexivity. Qed.
Hint Resolve nk_new_session : nk.
Lemma nk_handle_connect me r q : ndk me (handle_connect cfg me r q) TT.  Proof. unfold handle_connect. nk_go. Qed.
Lemma nk_handle_request me r q : ndk me (handle_request cfg me r q) TT.
Proof. unfold handle_request. eapply ndk_bind with (Q := TT); [apply nk_lookup_view|]. intros v _. destruct (decide cfg q v); nk_go; apply nk_handle_connect. Qed.
Lemma nk_run_task me e : ndk me (run_task cfg me e) TT.
Proof.
  unfold run_task.
  destruct (t_task e) as [i [r|c rd] t | i c rd | r i c | r i c | r i c w t fresh | r i c w fresh | i k | i | i t | | t | rest iv t | i payload a | i parent | a pend sids]; nk_go.
Qed.

Lemma kf_ws_begin me O j r c : htK me (Some r) O (ws_begin cfg me j r c) TT.  Proof. unfold ws_begin. kf_go. Qed.
Hint Resolve kf_ws_begin : kf.
Lemma kf_new_session me r0 O : htK me r0 O new_session TT.  Proof. apply htK_same. reflexivity. Qed.
Hint Resolve kf_new_session : kf.
Lemma kf_handle_connect me O r q : htK me (Some r) O (handle_connect cfg me r q) TT.  Proof. unfold handle_connect. kf_go. Qed.
Lemma kf_handle_request me O r q : htK me (Some r) O (handle_request cfg me r q) TT.
Proof. unfold handle_request. eapply htK_bind with (Q := TT); [apply kf_lookup_view|]. intros v _. destruct (decide cfg q v); kf_go; apply kf_handle_connect. Qed.
Lemma kf_run_task me O e : htK me (rid_of (t_task e)) O (run_task cfg me e) TT.
Proof.
  unfold run_task.
  destruct (t_task e) as [i [r|c rd] t | i c rd | r i c | r i c | r i c w t fresh | r i c w fresh | i k | i | i t | | t | rest iv t | i payload a | i parent | a pend sids]; cbn [rid_of]; kf_go.
Qed.

(* ---- at most one response per step, and the task that answers ends ---- *)
Definition is_resp (o : out) : bool := match o with OResp _ _ => true | _ => false end.
Definition nresp (l : list out) : nat := length (filter is_resp l).
Lemma nresp_app a b : nresp (a ++ b) = (nresp a + nresp b)%nat.
Proof. unfold nresp. rewrite filter_app, app_length. reflexivity. Qed.
Lemma quiet_nresp l : Forall (ronly None) l -> nresp l = 0%nat.
Proof. induction 1 as [|o l H _ IH]; [reflexivity|]. unfold nresp in *. cbn. destruct o; cbn in *; try exact IH. discriminate. Qed.
Definition quiet {A} (m : M A) : Prop := emits (ronly None) m.
Definition gone (me : tid) (s : st) : Prop := forall e, ~ In (me, e) (tasks s).
Definition AF {A} (me : tid) (m : M A) : Prop :=
  forall s, ND s -> (nresp (ServerInv.outof (m s)) <= 1)%nat /\ (nresp (ServerInv.outof (m s)) = 1%nat -> gone me (stof (m s))).
Definition ends {A} (me : tid) (m : M A) : Prop := quiet m /\ forall s, ND s -> gone me (stof (m s)).

Lemma af_quiet {A} me (m : M A) : quiet m -> AF me m.
Proof. intros Q s _. assert (E : nresp (ServerInv.outof (m s)) = 0%nat) by exact (quiet_nresp _ (Q s)). rewrite E. split; [lia | discriminate]. Qed.
Lemma af_bind_q {A B} me (m : M A) (f : A -> M B) : quiet m -> ndk me m TT -> (forall a, AF me (f a)) -> AF me (bind m f).
Proof.
  intros Q N H s D. rewrite outof_bind, nresp_app, stof_bind.
  assert (E : nresp (ServerInv.outof (m s)) = 0%nat) by exact (quiet_nresp _ (Q s)). rewrite E. cbn [Nat.add]. apply H. exact (proj1 (N s D)).
Qed.
Lemma af_emit_end {A} me r x (rest : M A) : ends me rest -> AF me (bind (emit (OResp r x)) (fun _ => rest)).
Proof.
  intros [Q G] s D. rewrite outof_bind, nresp_app, stof_bind. change (stof (emit (OResp r x) s)) with s. change (valof (emit (OResp r x) s)) with tt.
  assert (E : nresp (ServerInv.outof (rest s)) = 0%nat) by exact (quiet_nresp _ (Q s)). rewrite E. cbn. split; [lia|]. intros _. apply G, D.
Qed.
Lemma ends_finish me : ends me (finish me).
Proof.
  split; [apply rq_finish|]. intros s D e. unfold finish. rewrite stof_getst_bind, stof_bind.
  assert (T : tasks (stof (modst (fun s0 => set_tasks (adel me (tasks s0)) s0) s)) = adel me (tasks s)) by reflexivity.
  revert T. generalize (stof (modst (fun s0 => set_tasks (adel me (tasks s0)) s0) s)). intros s1 T.
  assert (W : forall l z, tasks (stof (wake_all l z)) = tasks z).
  { induction l as [|t r IH]; intros z; cbn [wake_all]; [reflexivity|]. rewrite stof_bind, IH. unfold wake, modst, stof. cbn. destruct (alookup t (tasks z)); [destruct (nmem t (runq z))|]; reflexivity. }
  rewrite W, T. apply adel_gone. exact D.
Qed.
Lemma ends_bind_q {A B} me (m : M A) (f : A -> M B) : quiet m -> ndk me m TT -> (forall a, ends me (f a)) -> ends me (bind m f).
Proof.
  intros Q N H. split.
  - apply emits_bind; [exact Q | intros a; exact (proj1 (H a))].
  - intros s D. rewrite stof_bind. apply (proj2 (H _)). exact (proj1 (N s D)).
Qed.

Hint Resolve rq_close_nowait rq_sock_send rq_get_socket rq_srv_send rq_close_wait rq_check_ping_timeout rq_run_handler rq_receive rq_receive_all
  rq_refuse_and_end rq_reap_if_closed rq_poll_attempt rq_poll_start rq_ws_send_all rq_ws_close rq_writer_loop rq_ws_take rq_ws_block rq_ping_fire
  rq_svc_continue rq_disc_seq rq_spawn_closers rq_lookup_view rq_run_api : em.
Ltac q_solve := unfold quiet; solve [em_go].
Ltac n_solve := solve [nk_go].
Ltac ends_go :=
  repeat match goal with
         | |- ends _ (finish _) => apply ends_finish
         | |- ends _ (bind _ _) => apply ends_bind_q; [q_solve | n_solve | intros ?]
         | |- ends _ (match ?x with _ => _ end) => destruct x
         end.
Create HintDb af discriminated.
Ltac af_step :=
  match goal with
  | |- AF _ (bind (emit (OResp _ _)) _) => apply af_emit_end; ends_go
  | |- AF _ (bind _ _) => apply af_bind_q; [q_solve | n_solve | intros ?]
  | |- AF _ (if ?b then _ else _) => destruct b
  | |- AF _ (match ?x with _ => _ end) => destruct x
  | |- AF _ _ => first [ solve [eauto with af] | apply af_quiet; q_solve ]
  end.
Ltac af_go := repeat af_step.

Lemma af_answer me r x : AF me (answer me r x).  Proof. unfold answer. af_go. Qed.
Lemma af_finish_get me i r p : AF me (finish_get cfg me i r p).  Proof. destruct p; cbn [finish_get]; af_go. Qed.
Lemma af_ws_request_done me i r x : AF me (ws_request_done me i r x).  Proof. unfold ws_request_done. af_go. Qed.
Hint Resolve af_answer af_finish_get af_ws_request_done : af.
Lemma af_ws_epilogue_end me i r : AF me (ws_epilogue_end cfg me i r).  Proof. unfold ws_epilogue_end. af_go. Qed.
Hint Resolve af_ws_epilogue_end : af.
Lemma af_ws_epilogue me i r c w fresh : AF me (ws_epilogue cfg me i r c w fresh).  Proof. unfold ws_epilogue. af_go. Qed.
Hint Resolve af_ws_epilogue : af.
Lemma af_ws_read_loop fuel : forall me i r c w fresh, AF me (ws_read_loop cfg fuel me i r c w fresh).
Proof. induction fuel as [|n IH]; intros me i r c w fresh; cbn [ws_read_loop]; af_go; try apply IH. Qed.
Hint Resolve af_ws_read_loop : af.
Lemma af_ws_steady me i r c fresh : AF me (ws_steady cfg me i r c fresh).  Proof. unfold ws_steady. af_go. Qed.
Lemma af_upgrade_fail me i r x : AF me (upgrade_fail me i r x).  Proof. unfold upgrade_fail. af_go. Qed.
Hint Resolve af_ws_steady af_upgrade_fail : af.
Lemma af_ws_upgr me i r c : AF me (ws_upgr cfg me i r c).  Proof. unfold ws_upgr. af_go. Qed.
Hint Resolve af_ws_upgr : af.
Lemma af_ws_probe me i r c : AF me (ws_probe cfg me i r c).  Proof. unfold ws_probe. af_go. Qed.
Hint Resolve af_ws_probe : af.
Lemma af_ws_begin me i r c : AF me (ws_begin cfg me i r c).  Proof. unfold ws_begin. af_go. Qed.
Hint Resolve af_ws_begin : af.
Lemma af_handle_connect me r q : AF me (handle_connect cfg me r q).  Proof. unfold handle_connect. af_go. Qed.
Hint Resolve af_handle_connect : af.
Lemma af_handle_request me r q : AF me (handle_request cfg me r q).  Proof. unfold handle_request. af_go. Qed.
Lemma af_run_task me e : AF me (run_task cfg me e).
Proof.
  unfold run_task.
  destruct (t_task e) as [i [r|c rd] t | i c rd | r i c | r i c | r i c w t fresh | r i c w fresh | i k | i | i t | | t | rest iv t | i payload a | i parent | a pend sids]; af_go.
Qed.

(* ---- the invariant ---- *)
Definition resp_r (r : rid) (o : out) : bool := match o with OResp r' _ => N.eqb r r' | _ => false end.
Definition nr (r : rid) (l : list out) : nat := length (filter (resp_r r) l).
Lemma nr_app r a b : nr r (a ++ b) = (nr r a + nr r b)%nat.
Proof. unfold nr. rewrite filter_app, app_length. reflexivity. Qed.
Lemma nr_le_nresp r l : (nr r l <= nresp l)%nat.
Proof. unfold nr, nresp. induction l as [|o l IH]; cbn; [lia|]. destruct o; cbn; try exact IH. destruct (N.eqb r r0); cbn; lia. Qed.
Lemma nr_pos_ronly r0 r l : Forall (ronly r0) l -> (1 <= nr r l)%nat -> r0 = Some r.
Proof.
  unfold nr. induction 1 as [|o l H _ IH]; cbn; [lia|]. destruct o; cbn; try exact IH. destruct (N.eqb_spec r r1) as [->|]; cbn; [intros _; exact H | exact IH].
Qed.

Record J (I : list rid) (s : st) (acc : list out) : Prop := {
  j_nd : ND s;
  j_u : forall t e t' e' r, In (t, e) (tasks s) -> In (t', e') (tasks s) -> rid_of (t_task e) = Some r -> rid_of (t_task e') = Some r -> t = t';
  j_ans : forall r t e, (1 <= nr r acc)%nat -> In (t, e) (tasks s) -> rid_of (t_task e) <> Some r;
  j_cnt : forall r, (nr r acc <= 1)%nat;
  j_iss : forall t e r, In (t, e) (tasks s) -> rid_of (t_task e) = Some r -> In r I;
  j_isa : forall r, (1 <= nr r acc)%nat -> In r I }.

Lemma step_J {A} me r0 (m : M A) I I' s acc :
  J I s acc -> incl I I' ->
  (forall e, In (me, e) (tasks s) -> okr r0 (t_task e)) ->
  (forall r, r0 = Some r -> nr r acc = 0%nat /\ (forall t e, In (t, e) (tasks s) -> rid_of (t_task e) = Some r -> t = me) /\ In r I') ->
  (forall O, htK me r0 O m TT) -> AF me m -> emits (ronly r0) m -> ndk me m TT ->
  J I' (stof (m s)) (acc ++ ServerInv.outof (m s)).
Proof.
  intros [D U AN CN IS IA] SUB MEOK R0 HK HA HR HN.
  set (O := fun t e => t <> me /\ In (t, e) (tasks s)).
  assert (F0 : FKs me r0 O s).
  { intros t e IN. destruct (N.eq_dec t me) as [->|NE]; [|right; right; split; assumption]. destruct (MEOK e IN) as [H|H]; [left; exact H | right; left; auto]. }
  destruct (HK O s F0) as [F' _]. destruct (HA s D) as [A1 A2]. pose proof (HR s) as RO. change (ServerReasons.outof (m s)) with (ServerInv.outof (m s)) in RO.
  destruct (HN s D) as [D' _].
  set (s' := stof (m s)) in *. set (out := ServerInv.outof (m s)) in *. clearbody s' out.
  (* an entry of s' that serves request r *)
  assert (CL : forall t e r, In (t, e) (tasks s') -> rid_of (t_task e) = Some r -> (t = me /\ r0 = Some r) \/ (t <> me /\ In (t, e) (tasks s))).
  { intros t e r IN RI. destruct (F' t e IN) as [H|[[-> H]|[H1 H2]]]; [congruence | left; split; [reflexivity | congruence] | right; auto]. }
  split.
  - exact D'.
  - intros t e t' e' r IN IN' RI RI'. destruct (CL t e r IN RI) as [[-> E0]|[NE OLD]], (CL t' e' r IN' RI') as [[-> E0']|[NE' OLD']]; try reflexivity.
    + symmetry. exact (proj1 (proj2 (R0 r E0)) t' e' OLD' RI').
    + exact (proj1 (proj2 (R0 r E0')) t e OLD RI).
    + exact (U t e t' e' r OLD OLD' RI RI').
  - intros r t e POS IN RI. rewrite nr_app in POS. destruct (CL t e r IN RI) as [[-> E0]|[NE OLD]].
    + destruct (R0 r E0) as (Z & _ & _). rewrite Z in POS. cbn in POS.
      assert (N1 : nresp out = 1%nat) by (pose proof (nr_le_nresp r out); lia). exact (A2 N1 e IN).
    + destruct (Nat.eq_dec (nr r acc) 0) as [Z|NZ]; [|apply (AN r t e); [lia | exact OLD | exact RI]].
      rewrite Z in POS. cbn in POS. pose proof (nr_pos_ronly r0 r out RO POS) as E0. apply NE. exact (proj1 (proj2 (R0 r E0)) t e OLD RI).
  - intros r. rewrite nr_app. destruct (Nat.eq_dec (nr r out) 0) as [Z|NZ]; [rewrite Z; pose proof (CN r); lia|].
    assert (E0 : r0 = Some r) by (apply (nr_pos_ronly r0 r out RO); lia). destruct (R0 r E0) as (Z & _ & _). rewrite Z. pose proof (nr_le_nresp r out). lia.
  - intros t e r IN RI. destruct (CL t e r IN RI) as [[-> E0]|[NE OLD]]; [exact (proj2 (proj2 (R0 r E0))) | apply SUB; exact (IS t e r OLD RI)].
  - intros r POS. rewrite nr_app in POS. destruct (Nat.eq_dec (nr r acc) 0) as [Z|NZ]; [|apply SUB, IA; lia].
    rewrite Z in POS. cbn in POS. exact (proj2 (proj2 (R0 r (nr_pos_ronly r0 r out RO POS)))).
Qed.

(* a step of the task `me`, which holds the entry e *)
Lemma run_task_J me e I s acc : J I s acc -> In (me, e) (tasks s) ->
  J I (stof (run_task cfg me e s)) (acc ++ ServerInv.outof (run_task cfg me e s)).
Proof.
  intros H IN. pose proof H as [D U AN CN IS IA].
  assert (UNIQ : forall e', In (me, e') (tasks s) -> e' = e).
  { intros e' IN'. clear - D IN IN'. unfold ND, keys in D. induction (tasks s) as [|[k v] l IHl]; [destruct IN|]. cbn in D. inversion D as [|a b NI NDl]; subst.
    destruct IN as [X|X], IN' as [Y|Y].
    - congruence.
    - injection X as -> ->. exfalso. apply NI. change me with (fst (me, e')). apply in_map. exact Y.
    - injection Y as -> ->. exfalso. apply NI. change me with (fst (me, e)). apply in_map. exact X.
    - apply IHl; assumption. }
  apply (step_J me (rid_of (t_task e)) _ I I s acc H (incl_refl I)).
  - intros e' IN'. rewrite (UNIQ e' IN'). right. reflexivity.
  - intros r E0. split; [|split].
    + destruct (Nat.eq_dec (nr r acc) 0) as [Z|NZ]; [exact Z|]. exfalso. apply (AN r me e); [lia | exact IN | exact E0].
    + intros t e' IN' RI. exact (U t e' me e r IN' IN RI E0).
    + exact (IS me e r IN E0).
  - intros O. apply kf_run_task.
  - apply af_run_task.
  - intros s0. apply task_answers_only_its_request.
  - apply nk_run_task.
Qed.

(* ---- composition ---- *)
Lemma nd_unique s me e e' : ND s -> In (me, e) (tasks s) -> In (me, e') (tasks s) -> e' = e.
Proof.
  unfold ND, keys. intros D IN IN'. induction (tasks s) as [|[k v] l IHl]; [destruct IN|]. cbn in D. inversion D as [|a b NI NDl]; subst.
  destruct IN as [X|X], IN' as [Y|Y].
  - congruence.
  - injection X as -> ->. exfalso. apply NI. change me with (fst (me, e')). apply in_map. exact Y.
  - injection Y as -> ->. exfalso. apply NI. change me with (fst (me, e)). apply in_map. exact X.
  - apply IHl; assumption.
Qed.
Lemma J_sub I s s' acc : J I s acc -> ND s' ->
  (forall u e', In (u, e') (tasks s') -> rid_of (t_task e') = None \/ exists e, In (u, e) (tasks s) /\ rid_of (t_task e) = rid_of (t_task e')) -> J I s' acc.
Proof.
  intros [D U AN CN IS IA] D' SUB.
  assert (OLD : forall u e' r, In (u, e') (tasks s') -> rid_of (t_task e') = Some r -> exists e, In (u, e) (tasks s) /\ rid_of (t_task e) = Some r).
  { intros u e' r IN RI. destruct (SUB u e' IN) as [H|(e & H1 & H2)]; [congruence | exists e; split; [exact H1 | congruence]]. }
  split; auto.
  - intros t e t' e' r IN IN' RI RI'. destruct (OLD t e r IN RI) as (e0 & A1 & A2), (OLD t' e' r IN' RI') as (e1 & B1 & B2). exact (U t e0 t' e1 r A1 B1 A2 B2).
  - intros r t e POS IN RI. destruct (OLD t e r IN RI) as (e0 & A1 & A2). exact (AN r t e0 POS A1 A2).
  - intros t e r IN RI. destruct (OLD t e r IN RI) as (e0 & A1 & A2). exact (IS t e0 r A1 A2).
Qed.
Lemma J_out I s acc o : nresp o = 0%nat -> J I s acc -> J I s (acc ++ o).
Proof.
  intros Z [D U AN CN IS IA]. assert (E : forall r, nr r (acc ++ o) = nr r acc) by (intros r; rewrite nr_app; pose proof (nr_le_nresp r o); lia).
  split; [exact D | exact U | | | exact IS | ].
  - intros r t e. rewrite E. apply AN.
  - intros r. rewrite E. apply CN.
  - intros r. rewrite E. apply IA.
Qed.
Lemma J_incl I I' s acc : incl I I' -> J I s acc -> J I' s acc.
Proof. intros SUB [D U AN CN IS IA]. split; auto. intros t e r A B. apply SUB. exact (IS t e r A B). Qed.

Definition pj {A} (I I' : list rid) (m : M A) : Prop := forall s acc, J I s acc -> J I' (stof (m s)) (acc ++ ServerInv.outof (m s)).
Lemma pj_bind {A B} I I1 I2 (m : M A) (f : A -> M B) : pj I I1 m -> (forall a, pj I1 I2 (f a)) -> pj I I2 (bind m f).
Proof. intros Hm Hf s acc H. rewrite stof_bind, outof_bind, app_assoc. apply Hf, Hm, H. Qed.
Lemma pj_ret {A} I (a : A) : pj I I (ret a).  Proof. intros s acc H. cbn. rewrite app_nil_r. exact H. Qed.
Lemma pj_same {A} I (m : M A) : (forall s, tasks (stof (m s)) = tasks s /\ nresp (ServerInv.outof (m s)) = 0%nat) -> pj I I m.
Proof.
  intros E s acc H. destruct (E s) as [E1 E2]. apply J_out; [exact E2|]. apply (J_sub I s); [exact H | unfold ND; rewrite E1; exact (j_nd _ _ _ H)|].
  intros u e' IN. rewrite E1 in IN. right. exists e'. auto.
Qed.
Lemma pj_getst_dep {B} I I' (f : st -> M B) : (forall s acc, J I s acc -> J I' (stof (f s s)) (acc ++ ServerInv.outof (f s s))) -> pj I I' (bind getst f).
Proof. intros H s acc X. rewrite stof_getst_bind, outof_getst_bind. apply H, X. Qed.
Lemma pj_wake I t : pj I I (wake t).
Proof. apply pj_same. intros s. unfold wake, modst, stof. cbn. destruct (alookup t (tasks s)); [destruct (nmem t (runq s))|]; auto. Qed.
Lemma pj_fire I t : pj I I (fire t).
Proof.
  unfold fire. apply (pj_bind I I I); [|intros ?; apply pj_wake]. intros s acc H. cbn [ServerInv.outof modst snd]. rewrite app_nil_r.
  unfold modst, stof. cbn [fst snd]. destruct (alookup t (tasks s)) as [e0|] eqn:L; [|exact H].
  apply (J_sub I s); [exact H | unfold ND; cbn; apply keys_aset; exact (j_nd _ _ _ H)|].
  intros u e' IN. cbn in IN. destruct (In_aset _ _ _ _ IN) as [X|X]; [injection X as -> ->; right; exists e0; split; [apply alookup_In; exact L | reflexivity] | right; exists e'; auto].
Qed.
Lemma pj_fire_all I l : pj I I (fire_all l).
Proof. induction l as [|[t n] r IH]; cbn [fire_all]; [apply pj_ret | apply (pj_bind I I I); [apply pj_fire | intros ?; exact IH]]. Qed.

Lemma J_runq I s acc rq : J I s acc -> J I (set_runq rq s) acc.
Proof. intros H. apply (J_sub I s); [exact H | exact (j_nd _ _ _ H) | intros u e' IN; right; exists e'; auto]. Qed.
Lemma J_now I s acc n : J I s acc -> J I (set_now n s) acc.
Proof. intros H. apply (J_sub I s); [exact H | exact (j_nd _ _ _ H) | intros u e' IN; right; exists e'; auto]. Qed.

Lemma settle_J I fuel : forall choices s acc, J I s acc -> J I (stof (settle cfg fuel choices s)) (acc ++ ServerInv.outof (settle cfg fuel choices s)).
Proof.
  induction fuel as [|f IH]; intros choices s acc H; cbn [settle]; rewrite stof_getst_bind, outof_getst_bind.
  - destruct (runq s); [cbn; rewrite app_nil_r; exact H | apply J_out; [reflexivity | exact H]].
  - destruct (match choices with [] => (O, []) | c :: r => (c, r) end) as [k cs].
    destruct (nth_remove k (runq s)) as [[t rq]|]; [|cbn; rewrite app_nil_r; exact H].
    rewrite stof_bind, outof_bind. change (stof (modst (set_runq rq) s)) with (set_runq rq s). change (ServerInv.outof (modst (set_runq rq) s)) with (@nil out). cbn [app].
    pose proof (J_runq I s acc rq H) as H1.
    destruct (alookup t (tasks s)) as [e|] eqn:L; [|apply IH; exact H1].
    rewrite stof_bind, outof_bind, app_assoc. apply IH. apply run_task_J; [exact H1 | apply alookup_In; exact L].
Qed.

Lemma advance_J I fuel target : forall s acc, J I s acc -> J I (stof (advance cfg fuel target s)) (acc ++ ServerInv.outof (advance cfg fuel target s)).
Proof.
  induction fuel as [|f IH]; intros s acc H; cbn [advance]; [apply J_out; [reflexivity | exact H]|].
  rewrite stof_bind, outof_bind, app_assoc. pose proof (settle_J I SETTLE_FUEL [] s acc H) as H1.
  revert H1. generalize (stof (settle cfg SETTLE_FUEL [] s)). generalize (acc ++ ServerInv.outof (settle cfg SETTLE_FUEL [] s)). generalize (valof (settle cfg SETTLE_FUEL [] s)).
  intros u acc1 s1 H1. cbv beta. rewrite stof_getst_bind, outof_getst_bind.
  destruct (next_timer (tasks s1) None) as [[t tm]|]; [|cbn; rewrite app_nil_r; apply J_now; exact H1].
  destruct (Z.leb (fst tm) target); [|cbn; rewrite app_nil_r; apply J_now; exact H1].
  rewrite stof_bind, outof_bind. change (ServerInv.outof (modst (fun s0 => set_now (Z.max (now s0) (fst tm)) s0) s1)) with (@nil out). cbn [app].
  change (stof (modst (fun s0 => set_now (Z.max (now s0) (fst tm)) s0) s1)) with (set_now (Z.max (now s1) (fst tm)) s1).
  pose proof (J_now I s1 acc1 (Z.max (now s1) (fst tm)) H1) as H2. revert H2. generalize (set_now (Z.max (now s1) (fst tm)) s1). intros s2 H2.
  rewrite stof_bind, outof_bind, app_assoc. apply IH.
  destruct (q_batch_timers (c_quirks cfg)); [|apply pj_fire; exact H2].
  rewrite stof_bind, outof_bind, app_assoc. apply pj_fire_all.
  destruct (due_at (fst tm) (tasks s1) []) as [|x [|y l]]; try (cbn; rewrite app_nil_r; exact H2). apply J_out; [reflexivity | exact H2].
Qed.

Lemma aset_key_unique k v l e : NoDup (keys l) -> In (k, e) (aset k v l) -> e = v.
Proof.
  induction l as [|[k' v'] r IH]; cbn; [intros _ [X|[]]; congruence|].
  intros H. inversion H as [|a b NI NDl]; subst. destruct (N.eqb_spec k k') as [->|NE]; cbn.
  - intros [X|X]; [congruence|]. exfalso. apply NI. change k' with (fst (k', e)). apply in_map. exact X.
  - intros [X|X]; [congruence | apply IH; assumption].
Qed.
Lemma J_add I s acc : J I s acc -> J I (add_task s) acc /\ (forall e, In (ntid s, e) (tasks (add_task s)) -> rid_of (t_task e) = None).
Proof.
  intros H. split.
  - apply (J_sub I s); [exact H | unfold ND, add_task; cbn; apply keys_aset; exact (j_nd _ _ _ H)|].
    intros u e' IN. unfold add_task in IN. cbn in IN. destruct (In_aset _ _ _ _ IN) as [X|X]; [injection X as -> ->; left; reflexivity | right; exists e'; auto].
  - intros e IN. unfold add_task in IN. cbn in IN. rewrite (aset_key_unique _ _ _ _ (j_nd _ _ _ H) IN). reflexivity.
Qed.

(* a request with a fresh id *)
Lemma request_J I r q s acc : J I s acc -> ~ In r I ->
  J (r :: I) (stof (handle_request cfg (ntid s) r q (add_task s))) (acc ++ ServerInv.outof (handle_request cfg (ntid s) r q (add_task s))).
Proof.
  intros H FR. destruct (J_add I s acc H) as [H1 DUM].
  apply (step_J (ntid s) (Some r) _ I (r :: I) (add_task s) acc H1).
  - intros x X. right. exact X.
  - intros e IN. left. exact (DUM e IN).
  - intros r' E. injection E as <-. split; [|split; [|left; reflexivity]].
    + destruct (Nat.eq_dec (nr r acc) 0) as [Z|NZ]; [exact Z|]. exfalso. apply FR. apply (j_isa _ _ _ H1). lia.
    + intros t e IN RI. exfalso. apply FR. exact (j_iss _ _ _ H1 t e r IN RI).
  - intros O. apply kf_handle_request.
  - apply af_handle_request.
  - intros z. apply request_answers_only_itself.
  - apply nk_handle_request.
Qed.
Lemma api_J I a x s acc : J I s acc ->
  J I (stof (run_api cfg (ntid s) a x (add_task s))) (acc ++ ServerInv.outof (run_api cfg (ntid s) a x (add_task s))).
Proof.
  intros H. destruct (J_add I s acc H) as [H1 DUM].
  apply (step_J (ntid s) None _ I I (add_task s) acc H1 (incl_refl I)).
  - intros e IN. left. exact (DUM e IN).
  - intros r' E. discriminate.
  - intros O. apply kf_run_api.
  - apply af_quiet. unfold quiet. apply rq_run_api.
  - intros z. apply api_answers_no_request.
  - apply nk_run_api.
Qed.
Lemma cancel_J I w e i r s acc : J I s acc -> In (w, e) (tasks s) -> rid_of (t_task e) = Some r ->
  J I (stof (upgrade_fail w i r RRaised s)) (acc ++ ServerInv.outof (upgrade_fail w i r RRaised s)).
Proof.
  intros H IN RI.
  apply (step_J w (Some r) _ I I s acc H (incl_refl I)).
  - intros e' IN'. rewrite (nd_unique s w e e' (j_nd _ _ _ H) IN IN'). right. exact RI.
  - intros r' E. injection E as <-. split; [|split].
    + destruct (Nat.eq_dec (nr r acc) 0) as [Z|NZ]; [exact Z|]. exfalso. apply (j_ans _ _ _ H r w e); [lia | exact IN | exact RI].
    + intros t e' IN' RI'. exact (j_u _ _ _ H t e' w e r IN' IN RI' RI).
    + exact (j_iss _ _ _ H w e r IN RI).
  - intros O. apply kf_upgrade_fail.
  - apply af_upgrade_fail.
  - apply ro_upgrade_fail.
  - apply nk_upgrade_fail.
Qed.

Definition op_rid (o : op) : list rid := match o with OpReq r _ => [r] | _ => [] end.
Theorem apply_op_J I o ch s acc : J I s acc -> (forall r, In r (op_rid o) -> ~ In r I) ->
  J (op_rid o ++ I) (stof (apply_op cfg o ch s)) (acc ++ ServerInv.outof (apply_op cfg o ch s)).
Proof.
  intros H FR. destruct o as [r q|c f|c|a x|c|r|dt]; cbn [apply_op op_rid app].
  - rewrite stof_bind, outof_bind, app_assoc.
    assert (H0 : J I (stof ((match r_conn q with Some c => pconn c new_conn | None => ret tt end) s)) (acc ++ ServerInv.outof ((match r_conn q with Some c => pconn c new_conn | None => ret tt end) s))).
    { destruct (r_conn q); [apply (pj_same I (pconn _ _)); [intros z; cbn; auto | exact H] | apply pj_ret; exact H]. }
    revert H0. generalize (stof ((match r_conn q with Some c => pconn c new_conn | None => ret tt end) s)). generalize (acc ++ ServerInv.outof ((match r_conn q with Some c => pconn c new_conn | None => ret tt end) s)).
    generalize (valof ((match r_conn q with Some c => pconn c new_conn | None => ret tt end) s)). intros u acc0 s0 H0. cbv beta.
    rewrite stof_getst_bind, outof_getst_bind. rewrite stof_bind, outof_bind. change (stof (modst _ s0)) with (add_task s0). change (ServerInv.outof (modst _ s0)) with (@nil out). cbn [app].
    rewrite stof_bind, outof_bind, app_assoc. apply settle_J. apply request_J; [exact H0 | apply FR; left; reflexivity].
  - revert s acc H. apply (pj_bind I I I); [apply pj_same; intros z; cbn; auto | intros k]. apply (pj_bind I I I); [apply pj_same; intros z; cbn; auto | intros _].
    apply (pj_bind I I I); [destruct (k_waiter k); [apply pj_wake | apply pj_ret] | intros _; intros z accz Hz; apply settle_J; exact Hz].
  - revert s acc H. apply (pj_bind I I I); [apply pj_same; intros z; cbn; auto | intros k]. apply (pj_bind I I I); [apply pj_same; intros z; cbn; auto | intros _].
    apply (pj_bind I I I); [destruct (k_waiter k); [apply pj_wake | apply pj_ret] | intros _; intros z accz Hz; apply settle_J; exact Hz].
  - rewrite stof_getst_bind, outof_getst_bind. rewrite stof_bind, outof_bind. change (stof (modst _ s)) with (add_task s). change (ServerInv.outof (modst _ s)) with (@nil out). cbn [app].
    rewrite stof_bind, outof_bind, app_assoc. apply settle_J. apply api_J. exact H.
  - rewrite stof_bind, outof_bind. change (stof (gconn c s)) with s. change (ServerInv.outof (gconn c s)) with (@nil out). cbn [app].
    destruct (k_waiter (valof (gconn c s))) as [w|]; [|apply pj_ret; exact H].
    rewrite stof_getst_bind, outof_getst_bind. destruct (alookup w (tasks s)) as [e|] eqn:L; [|apply pj_ret; exact H].
    pose proof (alookup_In _ _ _ L) as IN.
    destruct (t_task e) eqn:TK; try (apply pj_ret; exact H).
    + rewrite stof_bind, outof_bind, app_assoc. rewrite stof_bind, outof_bind, app_assoc. apply settle_J.
      apply (cancel_J I w e); [apply (pj_same I (pconn c _)); [intros z; cbn; auto | exact H] | exact IN | rewrite TK; reflexivity].
    + rewrite stof_bind, outof_bind, app_assoc. rewrite stof_bind, outof_bind, app_assoc. apply settle_J.
      apply (cancel_J I w e); [apply (pj_same I (pconn c _)); [intros z; cbn; auto | exact H] | exact IN | rewrite TK; reflexivity].
  - destruct (q_timeout_wins (c_quirks cfg)); [|apply pj_ret; exact H].
    rewrite stof_getst_bind, outof_getst_bind. destruct (find _ (tasks s)) as [[t e]|]; [|apply pj_ret; exact H].
    rewrite stof_bind, outof_bind, app_assoc. apply settle_J. apply pj_fire. exact H.
  - rewrite stof_getst_bind, outof_getst_bind. apply advance_J. exact H.
Qed.
End WithCfg.

(* ---- every history whose request ids are pairwise distinct, every schedule ---- *)
Lemma NoDup_app_r {A} (a b : list A) : NoDup (a ++ b) -> NoDup b.
Proof. induction a as [|x a IH]; cbn; [auto|]. intros H. inversion H; subst. auto. Qed.

Definition rids (ops : list (op * list nat)) : list rid := flat_map (fun x => op_rid (fst x)) ops.

Theorem answered_at_most_once cfg ops : NoDup (rids ops) ->
  forall r, (nr r (snd (run_sched cfg ops (init cfg) [])) <= 1)%nat.
Proof.
  assert (G : forall ops s acc I, J I s acc -> NoDup (rids ops) -> (forall r, In r (rids ops) -> ~ In r I) ->
              exists I', J I' (fst (run_sched cfg ops s acc)) (snd (run_sched cfg ops s acc))).
  { induction ops0 as [|[o ch] rest IH]; intros s acc I H ND FR; cbn [run_sched]; [exists I; exact H|].
    cbn [rids flat_map fst] in ND, FR.
    pose proof (apply_op_J cfg I o ch s acc H (fun r X => FR r (in_or_app _ _ _ (or_introl X)))) as H1.
    unfold stof, ServerInv.outof in H1. destruct (apply_op cfg o ch s) as [[u s1] o1]. cbn [fst snd] in H1.
    apply (IH s1 (acc ++ o1) (op_rid o ++ I) H1).
    - exact (NoDup_app_r _ _ ND).
    - intros r X Y. apply in_app_or in Y. destruct Y as [Y|Y]; [|exact (FR r (in_or_app _ _ _ (or_intror X)) Y)].
      clear - ND X Y. induction (op_rid o) as [|a l IHl]; [destruct Y|]. cbn in ND. inversion ND as [|b c NI ND']; subst. destruct Y as [->|Y]; [apply NI; apply in_or_app; right; exact X | exact (IHl ND' Y)]. }
  intros ND r. destruct (G ops (init cfg) [] [] ) as [I' H]; [|exact ND | intros ? ? []|exact (j_cnt _ _ _ H r)].
  split; cbn; try (intros; contradiction); try constructor; intros; cbn; lia.
Qed.

(* not vacuous: two requests, each answered exactly once (the second one only when its long poll is handed the PING) *)
Example ex_answered :
  let out := snd (run_sched ex_cfg (ex_hist ++ [(OpAdvance (c_interval ex_cfg), [])]) (init ex_cfg) []) in
  NoDup (rids (ex_hist ++ [(OpAdvance (c_interval ex_cfg), [])])) /\ nr 0 out = 1%nat /\ nr 1 out = 1%nat.
Proof. split; [repeat constructor; cbn; intuition discriminate | vm_compute; auto]. Qed.
