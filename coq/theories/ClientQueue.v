(* The send queue of the client is a FIFO that only send() / PONG / CLOSE append to and only the write loop takes from (C09):
     - a step of any task other than the write loop, and any application call but connect(), leaves the queue as it was or
       appends to it, and transmits nothing;
     - a step of the write loop transmits packets in queue order: what it transmitted, followed by what a failed WebSocket send
       dropped, followed by what is still queued, is what was queued.
   A logic of effects on (queue, transmitted packets). *)
From Coq Require Import ZArith NArith List Bool.
Import ListNotations.
From EIO Require Import Client ClientProofs.
Open Scope N_scope.

Definition valof {A} (r : A * st * list out) : A := fst (fst r).
(* the packets a list of outputs puts on the wire, in order *)
Definition txd (l : list out) : list ck :=
  flat_map (fun o => match o with OHttp _ KindPost body => body | OWsSend _ (WPk p) => [p] | _ => [] end) l.
Lemma txd_app a b : txd (a ++ b) = txd a ++ txd b.  Proof. unfold txd. apply flat_map_app. Qed.

(* m appends to the queue (possibly nothing) and transmits nothing *)
Definition appends {A} (m : M A) : Prop := forall s, (exists suf, queue (stof (m s)) = queue s ++ suf) /\ txd (outof (m s)) = [].
Lemma appends_bind {A B} (m : M A) (f : A -> M B) : appends m -> (forall a, appends (f a)) -> appends (bind m f).
Proof.
  intros Hm Hf s. destruct (Hm s) as [[s1' E1] T1]. unfold bind, stof, outof in *. destruct (m s) as [[a s1] o1]. cbn [fst snd] in *.
  destruct (Hf a s1) as [[s2' E2] T2]. unfold stof, outof in *. destruct (f a s1) as [[b s2] o2]. cbn [fst snd] in *.
  split; [exists (s1' ++ s2'); rewrite E2, E1, app_assoc; reflexivity | rewrite txd_app, T1, T2; reflexivity].
Qed.
Lemma appends_same {A} (m : M A) : (forall s, queue (stof (m s)) = queue s /\ txd (outof (m s)) = []) -> appends m.
Proof. intros H s. destruct (H s) as [E T]. split; [exists []; rewrite app_nil_r; exact E | exact T]. Qed.
Lemma appends_ret {A} (a : A) : appends (ret a).  Proof. apply appends_same. intros s. split; reflexivity. Qed.
Lemma appends_getst : appends getst.  Proof. apply appends_same. intros s. split; reflexivity. Qed.
Lemma appends_modst f : (forall s, queue (f s) = queue s) -> appends (modst f).
Proof. intros H. apply appends_same. intros s. cbn. split; [apply H | reflexivity]. Qed.
Lemma appends_emit o : txd [o] = [] -> appends (emit o).
Proof. intros H. apply appends_same. intros s. split; [reflexivity | exact H]. Qed.

Ltac qsame := intros; cbn; reflexivity.
Lemma ap_wake t : appends (wake t).
Proof. apply appends_modst. intros s. destruct (alookup t (tasks s)); [destruct (nmem t (runq s))|]; reflexivity. Qed.
Lemma ap_wake_all l : appends (wake_all l).
Proof. induction l as [|t r IH]; cbn [wake_all]; [apply appends_ret | apply appends_bind; [apply ap_wake | intros ?; exact IH]]. Qed.
Lemma ap_spawn k : appends (spawn k).  Proof. apply appends_same. intros s. split; reflexivity. Qed.
Lemma ap_block me k : appends (block me k).  Proof. apply appends_modst. qsame. Qed.
Lemma ap_new_timer dt : appends (new_timer dt).  Proof. apply appends_same. intros s. split; reflexivity. Qed.
Lemma ap_alive t : appends (alive t).  Proof. apply appends_same. intros s. split; reflexivity. Qed.
Lemma ap_finish me : appends (finish me).
Proof. unfold finish. apply appends_bind; [apply appends_getst|]. intros s0. apply appends_bind; [apply appends_modst; qsame | intros ?; apply ap_wake_all]. Qed.
Lemma ap_q_put x : appends (q_put x).
Proof.
  unfold q_put. apply appends_bind; [apply appends_getst|]. intros s0. apply appends_bind.
  - intros s. cbn. split; [exists [x]; reflexivity | reflexivity].
  - intros ?. destruct (getter s0); [apply appends_bind; [apply appends_modst; qsame | intros ?; apply ap_wake] | apply appends_ret].
Qed.
Lemma ap_send_packet p : appends (send_packet p).
Proof. unfold send_packet. apply appends_bind; [apply appends_getst|]. intros s0. destruct (state s0); try apply appends_ret. apply ap_q_put. Qed.
Lemma ap_gws c : appends (gws c).  Proof. apply appends_same. intros s. split; reflexivity. Qed.
Lemma ap_pws c x : appends (pws c x).  Proof. apply appends_modst. qsame. Qed.
Lemma ap_ws_close c : appends (ws_close c).
Proof.
  unfold ws_close. apply appends_bind; [apply ap_gws|]. intros w. destruct (w_cli_closed w); [apply appends_ret|].
  apply appends_bind; [apply ap_pws|]. intros ?. apply appends_bind; [apply appends_emit; reflexivity|]. intros ?. destruct (w_waiter w); [apply ap_wake | apply appends_ret].
Qed.
Lemma ap_ws_can_send c : appends (ws_can_send c).
Proof. unfold ws_can_send. apply appends_bind; [apply ap_gws | intros ?; apply appends_ret]. Qed.
Lemma ap_http_request t k : k <> KindPost -> forall b, appends (http_request t k b).
Proof. intros N b. apply appends_same. intros s. cbn. split; [reflexivity|]. destruct k; try reflexivity. contradiction N; reflexivity. Qed.
Lemma ap_http_take h : appends (http_take h).  Proof. apply appends_same. intros s. split; reflexivity. Qed.
Lemma ap_ws_take c : appends (ws_take c).
Proof.
  unfold ws_take. apply appends_bind; [apply ap_gws|]. intros w.
  destruct (w_cli_closed w || (w_srv_closed w && match w_inbox w with [] => true | _ => false end)); [apply appends_ret|].
  destruct (w_inbox w); [apply appends_ret|]. apply appends_bind; [apply ap_pws | intros ?; apply appends_ret].
Qed.
Lemma ap_ws_wait me c k : appends (ws_wait me c k).
Proof. unfold ws_wait. apply appends_bind; [apply ap_gws|]. intros w. apply appends_bind; [apply ap_pws | intros ?; apply ap_block]. Qed.
Lemma ap_reset : appends reset.  Proof. apply appends_modst. qsame. Qed.
Lemma ap_disconnect_core me abort r : appends (disconnect_core me abort r).
Proof.
  unfold disconnect_core. apply appends_bind; [apply appends_getst|]. intros s0. destruct (state s0).
  - apply appends_bind; [apply ap_reset | intros ?; apply appends_ret].
  - apply appends_bind; [apply ap_send_packet|]. intros ?. apply appends_bind; [apply ap_q_put|]. intros ?.
    apply appends_bind; [apply appends_modst; qsame|]. intros ?. apply appends_bind; [apply appends_emit; reflexivity|]. intros ?.
    apply appends_bind; [destruct (transport s0) as [[]|]; try apply appends_ret; destruct (ws s0); [apply ap_ws_close | apply appends_ret]|]. intros ?.
    apply appends_bind; [apply appends_getst|]. intros s1.
    assert (FIN : appends (bind (modst (set_state Disconnected)) (fun _ => bind reset (fun _ => ret (@None tid))))).
    { apply appends_bind; [apply appends_modst; qsame|]. intros ?. apply appends_bind; [apply ap_reset | intros ?; apply appends_ret]. }
    destruct abort; [exact FIN|]. destruct (read_task s1); [|exact FIN].
    apply appends_bind; [apply ap_alive|]. intros al. destruct (al && negb (N.eqb t me)); [apply appends_ret | exact FIN].
  - apply appends_ret.
Qed.
Lemma ap_receive_packet me p : appends (receive_packet me p).
Proof.
  destruct p; cbn [receive_packet]; try apply appends_ret.
  - apply appends_bind; [apply ap_spawn | intros ?; apply appends_ret].
  - apply ap_send_packet.
  - apply appends_bind; [apply ap_disconnect_core | intros ?; apply appends_ret].
Qed.
Lemma ap_receive_all me l : appends (receive_all me l).
Proof.
  induction l as [|p r IH]; cbn [receive_all]; [apply appends_ret|]. apply appends_bind; [apply appends_getst|]. intros s0.
  destruct (state s0); try apply appends_ret. apply appends_bind; [apply ap_receive_packet | intros ?; exact IH].
Qed.
Lemma ap_read_final me ep : appends (read_final me ep).
Proof.
  unfold read_final. apply appends_bind; [|intros ?; apply ap_finish]. apply appends_bind; [apply appends_getst|]. intros s1.
  destruct (state s1); try apply appends_ret. destruct (N.eqb (qepoch s1) ep); [|apply appends_ret].
  apply appends_bind; [apply appends_modst; qsame|]. intros ?. apply appends_bind; [apply appends_emit; reflexivity | intros ?; apply ap_reset].
Qed.
Lemma ap_read_epilogue me ep : appends (read_epilogue me ep).
Proof.
  unfold read_epilogue. apply appends_bind; [apply appends_getst|]. intros s0. destruct (write_task s0); [|apply ap_read_final].
  apply appends_bind; [apply ap_alive|]. intros al. destruct al; [apply ap_block | apply ap_read_final].
Qed.
Lemma ap_read_poll_next me ep : appends (read_poll_next me ep).
Proof.
  unfold read_poll_next. apply appends_bind; [apply appends_getst|]. intros s0. destruct (state s0); try apply ap_read_epilogue.
  destruct (write_task s0); [|apply ap_read_epilogue].
  apply appends_bind; [apply ap_http_request; discriminate|]. intros h. apply appends_bind; [apply ap_new_timer | intros tm; apply ap_block].
Qed.
Lemma ap_read_poll_reply me ep tout h : appends (read_poll_reply me ep tout h).
Proof.
  unfold read_poll_reply. apply appends_bind; [apply ap_http_take|]. intros r.
  destruct (if tout then Some HFail else r) as [[l| | |]|]; try apply appends_ret;
    try (apply appends_bind; [apply ap_q_put | intros ?; apply ap_read_epilogue]).
  apply appends_bind; [apply ap_receive_all | intros ?; apply ap_read_poll_next].
Qed.
Lemma ap_read_ws_loop fuel : forall me ep c top, appends (read_ws_loop fuel me ep c top).
Proof.
  induction fuel as [|f IH]; intros me ep c top; cbn [read_ws_loop]; [apply appends_emit; reflexivity|].
  apply appends_bind; [apply appends_getst|]. intros s0. destruct (top && negb match state s0 with Connected => true | _ => false end); [apply ap_read_epilogue|].
  apply appends_bind; [apply ap_ws_take|]. intros x. destruct x as [[[p|]|]|].
  - apply appends_bind; [apply ap_receive_packet | intros ?; apply IH].
  - apply appends_bind; [apply ap_q_put | intros ?; apply ap_read_epilogue].
  - apply appends_bind; [apply ap_q_put | intros ?; apply ap_read_epilogue].
  - apply appends_bind; [apply ap_new_timer | intros tm; apply ap_ws_wait].
Qed.

(* ---- the write loop ---- *)
Definition qsilent {A} (m : M A) : Prop := forall s, queue (stof (m s)) = queue s /\ txd (outof (m s)) = [].
Lemma qsilent_bind {A B} (m : M A) (f : A -> M B) : qsilent m -> (forall a, qsilent (f a)) -> qsilent (bind m f).
Proof.
  intros Hm Hf s. destruct (Hm s) as [E1 T1]. unfold bind, stof, outof in *. destruct (m s) as [[a s1] o1]. cbn [fst snd] in *.
  destruct (Hf a s1) as [E2 T2]. unfold stof, outof in *. destruct (f a s1) as [[b s2] o2]. cbn [fst snd] in *.
  split; [congruence | rewrite txd_app, T1, T2; reflexivity].
Qed.
Lemma qs_finish me : qsilent (finish me).
Proof.
  unfold finish. apply qsilent_bind; [intros s; split; reflexivity|]. intros s0. apply qsilent_bind; [intros s; split; reflexivity|]. intros ?.
  induction (flat_map _ _) as [|t r IH]; cbn [wake_all]; [intros s; split; reflexivity|].
  apply qsilent_bind; [|intros ?; exact IH]. intros s. unfold wake, modst, stof, outof. cbn [fst snd]. split; [|reflexivity].
  destruct (alookup t (tasks s)); [destruct (nmem t (runq s))|]; reflexivity.
Qed.
Lemma qs_block me k : qsilent (block me k).  Proof. intros s. split; reflexivity. Qed.
Lemma qs_new_timer dt : qsilent (new_timer dt).  Proof. intros s. split; reflexivity. Qed.

Section WithCfg.
Variable cfg : ccfg.

(* sending a batch over the WebSocket: a prefix goes out; all of it when the result is true *)
Lemma ws_send_all_spec c l : forall s,
  queue (stof (ws_send_all c l s)) = queue s /\
  exists rest, txd (outof (ws_send_all c l s)) ++ rest = l /\ (valof (ws_send_all c l s) = true -> rest = []).
Proof.
  induction l as [|p r IH]; intros s; cbn [ws_send_all]; [split; [reflexivity | exists []; split; [reflexivity | auto]]|].
  unfold ws_can_send, gws. unfold bind, ret, emit. cbn [fst snd app].
  match goal with |- context [if ?X then _ else _] => destruct X end.
  - specialize (IH s). unfold stof, outof, valof in *.
    destruct (ws_send_all c r s) as [[b s2] o2]. cbn [fst snd app] in *. destruct IH as [E (rest & T & V)].
    split; [exact E|]. exists rest. split; [change (txd (OWsSend c (WPk p) :: o2)) with (p :: txd o2); cbn [app]; rewrite T; reflexivity | exact V].
  - cbn. split; [reflexivity|]. exists (p :: r). split; [reflexivity | discriminate].
Qed.

Definition cons_at {A} (r : A * st * list out) (q : list qi) : Prop := exists lost, txd (outof r) ++ lost ++ pks (queue (stof r)) = pks q.
Lemma bind_getst_eq {B} (f : st -> M B) s : bind getst f s = f s s.
Proof. unfold bind, getst. cbn. destruct (f s s) as [[b s2] o2]. reflexivity. Qed.
Lemma bind_modst_eq {B} g (f : unit -> M B) s : bind (modst g) f s = f tt (g s).
Proof. unfold bind, modst. cbn. destruct (f tt (g s)) as [[b s2] o2]. reflexivity. Qed.
Lemma bind_take_eq {B} h (f : option hreply -> M B) s :
  bind (http_take h) f s = f (match alookup h (https s) with Some r => h_reply r | None => None end) (set_https (adel h (https s)) s).
Proof. unfold bind, http_take. cbn. destruct (f _ _) as [[b s2] o2]. reflexivity. Qed.
Lemma cons_finish me s : cons_at (finish me s) (queue s).
Proof. destruct (qs_finish me s) as [E T]. exists []. rewrite T, E. reflexivity. Qed.

Lemma write_loop_conserves fuel : forall me ep top tout s, cons_at (write_loop cfg fuel me ep top tout s) (queue s).
Proof.
  induction fuel as [|f IH]; intros me ep top tout s; cbn [write_loop]; [exists []; reflexivity|].
  rewrite bind_getst_eq.
  destruct (top && negb match state s with Connected => N.eqb (qepoch s) ep | _ => false end); [apply cons_finish|].
  destruct (negb (N.eqb (qepoch s) ep)); [apply cons_finish|].
  destruct (queue s) as [|[p|] r] eqn:Q.
  - destruct tout; [rewrite <- Q; apply cons_finish|]. exists []. cbn. rewrite Q. reflexivity.
  - destruct (take_batch (pred BATCH) r [p]) as [batch rest] eqn:TB.
    pose proof (take_batch_order (pred BATCH) r [p]) as TO. rewrite TB in TO. cbn [fst snd] in TO.
    rewrite bind_modst_eq. set (s1 := set_queue rest s).
    assert (POST : cons_at ((bind (http_request me KindPost batch) (fun h => bind (new_timer (cc_request_timeout cfg)) (fun t => block me (TWPost h t (length batch) ep)))) s1) (QP p :: r)).
    { exists []. cbn. rewrite app_nil_r. exact TO. }
    destruct (transport s) as [[]|]; try exact POST.
    destruct (ws s) as [c|].
    + pose proof (ws_send_all_spec c batch s1) as (E & restb & T & V). unfold cons_at, bind, stof, outof, valof in *.
      destruct (ws_send_all c batch s1) as [[ok s2] o2]. cbn [fst snd] in *. destruct ok.
      * specialize (V eq_refl). subst restb. rewrite app_nil_r in T.
        destruct (IH me ep true false s2) as [lost EL]. unfold cons_at, stof, outof in *. destruct (write_loop cfg f me ep true false s2) as [[u s3] o3]. cbn [fst snd] in *.
        exists lost. rewrite txd_app, T, <- app_assoc, EL, E. exact TO.
      * destruct (qs_finish me s2) as [E3 T3]. unfold stof, outof in *. destruct (finish me s2) as [[u s3] o3]. cbn [fst snd] in *.
        exists restb. rewrite txd_app, T3, app_nil_r, E3, E, app_assoc, T. exact TO.
    + destruct (qs_finish me s1) as [E3 T3]. unfold cons_at, stof, outof in *. destruct (finish me s1) as [[u s3] o3]. cbn [fst snd] in *.
      exists batch. rewrite T3, E3. exact TO.
  - rewrite bind_modst_eq. destruct (qs_finish me (set_queue r s)) as [E3 T3]. unfold cons_at, stof, outof in *.
    destruct (finish me (set_queue r s)) as [[u s3] o3]. cbn [fst snd] in *. exists []. rewrite T3, E3. reflexivity.
Qed.

Lemma ap_start_loops b : appends (start_loops b).
Proof.
  unfold start_loops. apply appends_bind; [apply ap_spawn|]. intros w. apply appends_bind; [apply appends_modst; qsame|]. intros ?.
  apply appends_bind; [apply ap_spawn | intros r; apply appends_modst; qsame].
Qed.
Lemma ap_conn_done me call r : appends (bind (emit (ORet call r)) (fun _ => finish me)).
Proof. apply appends_bind; [apply appends_emit; reflexivity | intros ?; apply ap_finish]. Qed.
Lemma ap_ws_connect me call u : appends (ws_connect cfg me call u).
Proof. apply appends_same. intros s. unfold ws_connect, stof, outof. cbn. split; reflexivity. Qed.
Lemma ap_hs_timer : appends (hs_timer cfg).
Proof. unfold hs_timer. destruct (cq_handshake_recv_timeout (cc_quirks cfg)); [|apply appends_ret]. apply appends_bind; [apply ap_new_timer | intros ?; apply appends_ret]. Qed.
Lemma ap_ws_established me call c : appends (ws_established me call c).
Proof. unfold ws_established, conn_ok. apply appends_bind; [apply appends_modst; qsame|]. intros ?. apply appends_bind; [apply ap_start_loops | intros ?; apply ap_conn_done]. Qed.
Lemma ap_connect_event me : appends (connect_event cfg me).
Proof.
  unfold connect_event. apply appends_bind; [apply appends_emit; reflexivity|]. intros ?.
  destruct (cc_connect_handler_disconnects cfg); [|apply appends_ret]. apply appends_bind; [apply ap_disconnect_core | intros ?; apply appends_ret].
Qed.

Definition is_write (k : task) : bool := match k with TWriteStart | TWGet _ _ | TWPost _ _ _ _ => true | _ => false end.

(* a step of a task that is not the write loop: the queue is left alone or appended to; nothing is transmitted *)
Theorem nonwrite_appends t e : is_write (t_task e) = false -> appends (run_task cfg t e).
Proof.
  intros NW. unfold run_task.
  destruct (t_task e) as [call h tm trs | call c u tm | call c tm | call c tm | b | h tm ep | c tm ep | w ep | | tm ep | h tm n ep | k r | m a | call r]; try discriminate.
  - unfold open_reply. apply appends_bind; [apply ap_http_take|]. intros r.
    assert (F : forall rr, appends (conn_fail t call rr)) by (intros rr; apply ap_conn_done).
    destruct (if t_tout e then Some HFail else r) as [[l| | |]|]; try apply F; try (apply appends_bind; [apply ap_reset | intros ?; apply F]); [|apply appends_ret].
    destruct l as [|[wf u i tt0| | | | | |] rest]; try apply F. destruct wf; [|apply F].
    apply appends_bind; [apply appends_modst; qsame|]. intros ?. apply appends_bind; [apply ap_connect_event|]. intros ?.
    unfold after_open_polling. apply appends_bind; [apply ap_receive_all|]. intros ?. apply appends_bind; [apply appends_getst|]. intros s0.
    destruct (state s0); try apply ap_conn_done.
    destruct (upgrades_ws s0 && existsb _ (transports s0)); [apply ap_ws_connect|]. apply appends_bind; [apply ap_start_loops | intros ?; apply ap_conn_done].
  - unfold wsconn_reply. apply appends_bind; [apply appends_getst|]. intros s0.
    destruct (if t_tout e then Some false else alookup c (wsconn_result s0)) as [[|]|]; [| |apply appends_ret].
    + apply appends_bind; [apply ap_pws|]. intros ?. destruct u.
      * apply appends_bind; [apply appends_emit; reflexivity|]. intros ?. apply appends_bind; [apply ap_hs_timer | intros ?; apply ap_ws_wait].
      * apply appends_bind; [apply ap_hs_timer | intros ?; apply ap_ws_wait].
    + destruct u; [apply appends_bind; [apply ap_start_loops | intros ?; apply ap_conn_done] | apply ap_conn_done].
  - unfold probe_reply.
    assert (SL : appends (bind (start_loops false) (fun _ => conn_ok t call))) by (apply appends_bind; [apply ap_start_loops | intros ?; apply ap_conn_done]).
    apply appends_bind; [destruct (t_tout e); [apply appends_ret | apply ap_ws_take]|]. intros x.
    destruct x as [[[p|]|]|]; try exact SL; [|apply ap_ws_wait]. destruct p; try exact SL.
    apply appends_bind; [apply ap_ws_can_send|]. intros ok. destruct ok; [|exact SL].
    apply appends_bind; [apply appends_emit; reflexivity|]. intros ?. apply appends_bind; [apply appends_modst; qsame | intros ?; apply ap_ws_established].
  - unfold openrecv_reply. apply appends_bind; [destruct (t_tout e); [apply appends_ret | apply ap_ws_take]|]. intros x.
    assert (F : appends (conn_fail t call RConnectionError)) by apply ap_conn_done.
    destruct x as [[[p|]|]|]; try exact F; [|apply ap_ws_wait]. destruct p as [wf u i tt0| | | | | |]; try exact F. destruct wf; [|exact F].
    apply appends_bind; [apply appends_modst; qsame|]. intros ?. apply appends_bind; [apply ap_connect_event | intros ?; apply ap_ws_established].
  - destruct b; apply appends_bind; try apply appends_getst; intros s0; [|apply ap_read_poll_next].
    destruct (ws s0); [|apply ap_read_epilogue]. apply appends_bind; [apply ap_gws | intros w0; apply ap_read_ws_loop].
  - apply ap_read_poll_reply.
  - destruct (t_tout e); [apply appends_bind; [apply ap_q_put | intros ?; apply ap_read_epilogue] | apply appends_bind; [apply ap_gws | intros w0; apply ap_read_ws_loop]].
  - apply appends_bind; [apply ap_alive|]. intros al. destruct al; [apply ap_block | apply ap_read_final].
  - apply appends_bind; [apply ap_alive|]. intros al. destruct al; [apply ap_block|].
    unfold disconnect_finish. apply appends_bind; [apply appends_bind; [apply appends_modst; qsame | intros ?; apply ap_reset]|]. intros ?.
    apply appends_bind; [destruct k; [apply appends_emit; reflexivity | apply appends_ret] | intros ?; apply ap_finish].
  - apply appends_bind; [apply appends_emit; reflexivity|]. intros ?. destruct a; try apply ap_finish.
    + apply appends_bind; [apply ap_send_packet | intros ?; apply ap_finish].
    + apply appends_bind; [apply ap_disconnect_core|]. intros w0. destruct w0; [apply ap_block | apply ap_finish].
  - apply appends_bind; [apply ap_alive|]. intros al. destruct al; [apply ap_block | apply ap_conn_done].
Qed.

(* an application call other than connect(): the same *)
Theorem call_appends me call x : (match x with AConnect _ => False | _ => True end) -> appends (run_api cfg me call x).
Proof.
  destruct x as [trs|m b| |]; intros H; [contradiction| | |]; cbn [run_api].
  - apply appends_bind; [apply ap_send_packet | intros ?; apply ap_conn_done].
  - apply appends_bind; [apply ap_disconnect_core|]. intros w0. destruct w0; [apply ap_block | apply ap_conn_done].
  - apply appends_bind; [apply appends_getst|]. intros s0. destruct (read_task s0); [|apply ap_conn_done].
    apply appends_bind; [apply ap_alive|]. intros al. destruct al; [apply ap_block | apply ap_conn_done].
Qed.

(* a step of the write loop: transmitted ++ dropped by a failed WebSocket send ++ still queued = queued, in that order *)
Theorem write_conserves t e s : is_write (t_task e) = true -> cons_at (run_task cfg t e s) (queue s).
Proof.
  intros W. unfold run_task.
  destruct (t_task e) as [call h tm trs | call c u tm | call c tm | call c tm | b | h tm ep | c tm ep | w ep | | tm ep | h tm n ep | k r | m a | call r]; try discriminate.
  - rewrite bind_getst_eq. apply write_loop_conserves.
  - rewrite bind_getst_eq. destruct (N.eqb (qepoch s) ep).
    + rewrite bind_modst_eq. pose proof (write_loop_conserves (S (S (length (queue s)))) t ep false (t_tout e) (set_getter None s)) as H. exact H.
    + unfold bind at 1, ret. cbn [fst snd app]. pose proof (write_loop_conserves (S (S (length (queue s)))) t ep false (t_tout e) s) as H.
      unfold cons_at, stof, outof in *. destruct (write_loop cfg _ t ep false (t_tout e) s) as [[u s3] o3]. exact H.
  - unfold write_post_reply. rewrite bind_take_eq.
    set (s1 := set_https (adel h (https s)) s). set (r := if t_tout e then Some HFail else match alookup h (https s) with Some x => h_reply x | None => None end).
    change (queue s) with (queue s1).
    destruct r as [[l| | |]|].
    + rewrite bind_getst_eq. apply (write_loop_conserves _ t ep true false s1).
    + destruct (qs_finish t s1) as [E3 T3]. unfold cons_at, bind, modst, stof, outof in *. destruct (finish t s1) as [[u s3] o3]. cbn [fst snd] in *.
      exists []. rewrite app_nil_r, T3. cbn. rewrite E3. reflexivity.
    + rewrite bind_getst_eq. apply (write_loop_conserves _ t ep true false s1).
    + apply (cons_finish t s1).
    + exists []. reflexivity.
Qed.
End WithCfg.
