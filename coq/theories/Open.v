(* The OPEN handshake answer: the packet's fields (server.py/_handle_connect, base_server._upgrades) and the session cookie
   (base_server._generate_sid_cookie).  Times are in ticks of 1/1024 s (so that the float arithmetic of the code is exact). *)
From Coq Require Import ZArith NArith List Bool.
Import ListNotations.
From EIO Require Import Util Strings.
Open Scope Z_scope.

Definition ms_of_ticks (t : Z) : Z := (t * 1000) / 1024.         (* int(seconds * 1000) *)

Record ocfg := {
  oc_interval : Z; oc_grace : Z; oc_timeout : Z;     (* ticks *)
  oc_maxbuf : Z;
  oc_allow_upgrades : bool; oc_polling : bool; oc_websocket : bool;
  oc_driver_ws : bool }.                              (* the async driver provides a WebSocket implementation *)

Record open_info := { oi_upgrades : bool; oi_ping_timeout : Z; oi_ping_interval : Z; oi_max_payload : Z }.

(* _upgrades(sid, transport) for a session that was just created *)
Definition upgrades_adv (c : ocfg) (opened_on_ws : bool) : bool :=
  oc_allow_upgrades c && negb opened_on_ws && oc_websocket c && oc_driver_ws c.

Definition open_packet (c : ocfg) (opened_on_ws : bool) : open_info :=
  {| oi_upgrades := upgrades_adv c opened_on_ws;
     oi_ping_timeout := ms_of_ticks (oc_timeout c);
     oi_ping_interval := ms_of_ticks (oc_interval c + oc_grace c);
     oi_max_payload := oc_maxbuf c |}.

Close Scope Z_scope.
Open Scope N_scope.
(* ---- the session cookie ---- *)
Inductive cval := VStr (s : text) | VBool (b : bool).       (* the value of an attribute, after calling it if it was callable *)
Inductive cookie_cfg := CkNone | CkName (name : text) | CkDict (name : option text) (attrs : list (text * cval)).

Definition t_io : text := [105; 111].
Definition semi_sp : text := [59; 32].                       (* "; " *)
Definition t_path : text := [112; 97; 116; 104].             (* path *)
Definition t_slash : text := [47].
Definition t_samesite : text := [83; 97; 109; 101; 83; 105; 116; 101].
Definition t_lax : text := [76; 97; 120].

Fixpoint render_attrs (l : list (text * cval)) : text :=
  match l with
  | [] => []
  | (k, VBool true) :: r => semi_sp ++ k ++ render_attrs r
  | (k, VBool false) :: r => render_attrs r                       (* since the fix of D15 *)
  | (k, VStr v) :: r => semi_sp ++ k ++ [61] ++ v ++ render_attrs r
  end.

Definition cookie_header (c : cookie_cfg) (sid : text) : option text :=
  match c with
  | CkNone => None
  | CkName n => Some (n ++ [61] ++ sid ++ render_attrs [(t_path, VStr t_slash); (t_samesite, VStr t_lax)])
  | CkDict n attrs => Some ((match n with Some x => x | None => t_io end) ++ [61] ++ sid ++ render_attrs attrs)
  end.
