From Coq Require Import NArith List Bool Lia.
Import ListNotations.
From EIO Require Import Util Strings Jsonp JsonpProofs Transform.
Open Scope N_scope.

Lemma first_enc_spec l e : first_enc l = Some e <->
  exists pre t post, l = pre ++ t :: post /\ enc_of_token t = Some e /\ Forall (fun x => enc_of_token x = None) pre.
Proof.
  induction l as [|t r IH].
  - split; [discriminate|]. intros (pre & t & post & E & _). destruct pre; discriminate.
  - cbn [first_enc]. destruct (enc_of_token t) as [e'|] eqn:T.
    + split.
      * intros H. injection H as <-. exists [], t, r. auto.
      * intros (pre & t' & post & E & T' & F). destruct pre as [|x pre].
        -- injection E as <- <-. congruence.
        -- injection E as <- _. inversion F; congruence.
    + rewrite IH. split.
      * intros (pre & t' & post & -> & T' & F). exists (t :: pre), t', post. auto.
      * intros (pre & t' & post & E & T' & F). destruct pre as [|x pre].
        -- injection E as <- <-. congruence.
        -- injection E as <- ->. inversion F; subst. exists pre, t', post. auto.
Qed.

Lemma first_enc_none l : first_enc l = None <-> Forall (fun x => enc_of_token x = None) l.
Proof.
  induction l as [|t r IH]; cbn [first_enc]; [split; auto|].
  destruct (enc_of_token t) eqn:T.
  - split; [discriminate | intros F; inversion F; congruence].
  - rewrite IH. split; [intros F; constructor; auto | intros F; inversion F; auto].
Qed.

Section Transform.
  Variable compress : enc -> list N -> list N.
  Notation transform := (transform compress).

  Lemma declared_iff c th acc body e :
    snd (transform c th acc body) = Some e <->
    c = true /\ th <= N.of_nat (length body) /\ pick_encoding acc = Some e.
  Proof.
    unfold transform. destruct c; cbn [andb].
    - destruct (N.leb_spec th (N.of_nat (length body))) as [L|L].
      + destruct (pick_encoding acc) as [e'|]; cbn [snd].
        * split; [intros X; injection X as <-; auto | intros (_ & _ & X); exact X].
        * split; [discriminate | intros (_ & _ & X); discriminate].
      + cbn [snd]. split; [discriminate | intros (_ & X & _); lia].
    - cbn [snd]. split; [discriminate | intros (X & _); discriminate].
  Qed.

  Lemma body_spec c th acc body :
    fst (transform c th acc body) =
      match snd (transform c th acc body) with Some e => compress e body | None => body end.
  Proof.
    unfold transform. destruct (c && (th <=? N.of_nat (length body))); [|reflexivity].
    destruct (pick_encoding acc); reflexivity.
  Qed.

  Variable decompress : enc -> list N -> list N.
  Variable utf8enc : text -> list N.
  Variable utf8dec : list N -> text.
  Hypothesis inflate_deflate : forall e b, decompress e (compress e b) = b.      (* O4 *)
  Hypothesis utf8_roundtrip : forall t, utf8dec (utf8enc t) = t.

  Lemma lossless jsonp c th acc payload :
    client_text decompress utf8dec (respond compress utf8enc jsonp c th acc payload) =
      match jsonp with Some ix => jsonp_wrap ix payload | None => payload end.
  Proof.
    unfold client_text, respond. rewrite body_spec.
    destruct (snd (transform c th acc _)); [rewrite inflate_deflate|]; apply utf8_roundtrip.
  Qed.

  Lemma lossless_jsonp ix c th acc payload : ~ In 93 ix -> Forall codepoint payload ->
    parse_jsonp (client_text decompress utf8dec (respond compress utf8enc (Some ix) c th acc payload))
      = Some (ix, flat_map utf16 payload).
  Proof. intros I F. rewrite lossless. apply jsonp_complete; assumption. Qed.
End Transform.
