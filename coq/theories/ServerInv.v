(* Global invariants of the server model, for every history and every schedule:
     - conservation: for every session, accepted = taken ++ messages still queued (C03: at most once, in order, not lost in the queue);
     - closed implies closing; the disconnect event is emitted at most once per session, and never while closing is unset (C05);
     - session ids are issued in increasing order and a session record, once created, is never removed from the store.
   The invariant relates the state to the outputs emitted so far, so it is stated on (state, accumulated outputs). *)
From Coq Require Import ZArith NArith List Bool Lia.
Import ListNotations.
From EIO Require Import Server.
Open Scope N_scope.

Definition is_disc (i : sid) (o : out) : bool := match o with OEvent j (EDisconnect _) => N.eqb i j | _ => false end.
Definition count_disc (i : sid) (l : list out) : nat := length (filter (is_disc i) l).
Lemma count_disc_app i a b : count_disc i (a ++ b) = (count_disc i a + count_disc i b)%nat.
Proof. unfold count_disc. rewrite filter_app, app_length. reflexivity. Qed.

Definition Good (ss : sess) : Prop :=
  s_accepted ss = s_taken ss ++ mids_of (s_q ss) /\ (s_closed ss = true -> s_closing ss = true).

Definition Inv (s : st) (acc : list out) : Prop :=
  (forall i ss, alookup i (store s) = Some ss ->
     i < nsid s /\ Good ss /\ (count_disc i acc <= 1)%nat /\ (s_closing ss = false -> count_disc i acc = 0%nat)) /\
  (forall i, alookup i (store s) = None -> count_disc i acc = 0%nat).

Definition stof {A} (r : A * st * list out) : st := snd (fst r).
Definition outof {A} (r : A * st * list out) : list out := snd r.
Definition valof {A} (r : A * st * list out) : A := fst (fst r).

(* m preserves the invariant from states satisfying Q *)
Definition pf {A} (Q : st -> Prop) (m : M A) : Prop :=
  forall s acc, Inv s acc -> Q s -> Inv (stof (m s)) (acc ++ outof (m s)).
Definition po {A} (m : M A) : Prop := pf (fun _ => True) m.

(* m neither touches the sessions nor emits anything, and returns a value satisfying R in the unchanged store *)
Definition sf {A} (m : M A) : Prop := forall s, store (stof (m s)) = store s /\ nsid (stof (m s)) = nsid s /\ outof (m s) = [].

Lemma bind_unfold {A B} (m : M A) (f : A -> M B) s :
  bind m f s = (let r := m s in let r2 := f (valof r) (stof r) in (valof r2, stof r2, outof r ++ outof r2)).
Proof. unfold bind, valof, stof, outof. destruct (m s) as [[a s1] o1]. cbn. destruct (f a s1) as [[b s2] o2]. reflexivity. Qed.

Lemma Inv_frame s s' acc : store s' = store s -> nsid s' = nsid s -> Inv s acc -> Inv s' acc.
Proof. intros E1 E2 [H1 H2]. unfold Inv. rewrite E1, E2. split; assumption. Qed.

Lemma po_of_sf {A} (m : M A) : sf m -> po m.
Proof.
  intros F s acc I _. destruct (F s) as (E1 & E2 & E3). rewrite E3, app_nil_r. eapply Inv_frame; eauto.
Qed.
Lemma pf_weaken {A} (Q : st -> Prop) (m : M A) : po m -> pf Q m.
Proof. intros H s acc I _. apply H; auto. Qed.

Lemma pf_bind {A B} (Q : st -> Prop) (m : M A) (f : A -> M B) : pf Q m -> (forall a, po (f a)) -> pf Q (bind m f).
Proof.
  intros Hm Hf s acc I q. specialize (Hm s acc I q). unfold bind, stof, outof in *.
  destruct (m s) as [[a s1] o1]. cbn in *.
  specialize (Hf a s1 (acc ++ o1) Hm Logic.I). unfold stof, outof in Hf.
  destruct (f a s1) as [[b s2] o2]. cbn in *. rewrite app_assoc. exact Hf.
Qed.
Lemma po_bind {A B} (m : M A) (f : A -> M B) : po m -> (forall a, po (f a)) -> po (bind m f).
Proof. apply pf_bind. Qed.
Lemma po_ret {A} (a : A) : po (ret a).
Proof. apply po_of_sf. intros s. cbn. auto. Qed.

Lemma sf_ret {A} (a : A) : sf (ret a).
Proof. intros s. cbn. auto. Qed.
Lemma sf_bind {A B} (m : M A) (f : A -> M B) : sf m -> (forall a, sf (f a)) -> sf (bind m f).
Proof.
  intros Hm Hf s. pose proof (Hm s) as Pm. unfold bind, stof, outof in *.
  destruct (m s) as [[a s1] o1]. cbn in *.
  pose proof (Hf a s1) as Pf. unfold stof, outof in Pf.
  destruct (f a s1) as [[b s2] o2]. cbn in *.
  destruct Pm as (E1 & E2 & E3), Pf as (F1 & F2 & F3). subst. rewrite F1, F2. auto.
Qed.
Lemma sf_getst : sf getst.  Proof. intros s. cbn. auto. Qed.
Lemma sf_modst f : (forall s, store (f s) = store s /\ nsid (f s) = nsid s) -> sf (modst f).
Proof. intros H s. cbn. destruct (H s). auto. Qed.

(* ---- primitives ---- *)
Lemma sf_gsess i : sf (gsess i).  Proof. intros s. cbn. auto. Qed.
Lemma sf_has_sess i : sf (has_sess i).  Proof. intros s. cbn. auto. Qed.
Lemma sf_gconn c : sf (gconn c).  Proof. intros s. cbn. auto. Qed.
Lemma sf_pconn c x : sf (pconn c x).  Proof. apply sf_modst. intros s. cbn. auto. Qed.
Lemma sf_in_table i : sf (in_table i).  Proof. intros s. cbn. auto. Qed.
Lemma sf_del_table i : sf (del_table i).  Proof. apply sf_modst. intros s. cbn. auto. Qed.
Lemma sf_del_tables l : sf (del_tables l).
Proof. induction l as [|i r IH]; cbn [del_tables]; [apply sf_ret | apply sf_bind; [apply sf_del_table | intros _; exact IH]]. Qed.
Lemma sf_wake t : sf (wake t).
Proof. apply sf_modst. intros s. destruct (alookup t (tasks s)); [destruct (nmem t (runq s))|]; cbn; auto. Qed.
Lemma sf_wake_all l : sf (wake_all l).
Proof. induction l as [|t r IH]; cbn [wake_all]; [apply sf_ret|]. apply sf_bind; [apply sf_wake | intros _; exact IH]. Qed.
Lemma sf_spawn k : sf (spawn k).  Proof. intros s. cbn. auto. Qed.
Lemma sf_block me k : sf (block me k).  Proof. apply sf_modst. intros s. cbn. auto. Qed.
Lemma sf_new_timer dt : sf (new_timer dt).  Proof. intros s. cbn. auto. Qed.
Lemma sf_alive t : sf (alive t).  Proof. intros s. cbn. auto. Qed.
Lemma sf_finish me : sf (finish me).
Proof.
  unfold finish. apply sf_bind; [apply sf_getst|]. intros s0. apply sf_bind; [apply sf_modst; intros s; cbn; auto|].
  intros _. apply sf_wake_all.
Qed.

Lemma po_emit o : (forall i, is_disc i o = false) -> po (emit o).
Proof.
  intros H s acc [I1 I2] _. cbn. split.
  - intros i ss L. destruct (I1 i ss L) as (A & B & C & D). rewrite count_disc_app. unfold count_disc at 2 4. cbn. rewrite H. cbn.
    rewrite !Nat.add_0_r. auto.
  - intros i L. rewrite count_disc_app, (I2 i L). unfold count_disc. cbn. rewrite H. reflexivity.
Qed.

(* writing a session value that is a legitimate successor of the current one *)
Definition cur (i : sid) (s : st) : sess := match alookup i (store s) with Some x => x | None => new_sess end.
Definition Step (a b : sess) : Prop := (Good a -> Good b) /\ (s_closing b = false -> s_closing a = false).

Lemma alookup_aset_same {A} k (v : A) l : alookup k (aset k v l) = Some v.
Proof. induction l as [|[k' v'] r IH]; cbn; [rewrite N.eqb_refl; reflexivity|]. destruct (N.eqb_spec k k'); cbn; [rewrite N.eqb_refl; reflexivity|].
  destruct (N.eqb_spec k k'); [contradiction | exact IH]. Qed.
Lemma alookup_aset_other {A} k j (v : A) l : j <> k -> alookup j (aset k v l) = alookup j l.
Proof.
  intros N. induction l as [|[k' v'] r IH]; cbn.
  - destruct (N.eqb_spec j k); [contradiction | reflexivity].
  - destruct (N.eqb_spec k k') as [->|Nk]; cbn.
    + destruct (N.eqb_spec j k'); [contradiction | reflexivity].
    + destruct (N.eqb_spec j k'); [reflexivity | exact IH].
Qed.

Lemma pf_psess i a b : Step a b -> pf (fun s => cur i s = a) (psess i b).
Proof.
  intros [S1 S2] s acc [I1 I2] C. unfold psess, modst, stof, outof. cbn. rewrite app_nil_r.
  unfold cur in C. destruct (alookup i (store s)) as [x|] eqn:L; [|split; assumption]. subst x.
  split.
  - intros j ss Lj. cbn in Lj. destruct (N.eq_dec j i) as [->|Nj].
    + rewrite alookup_aset_same in Lj. injection Lj as <-. destruct (I1 i a L) as (A & B & C' & D). cbn.
      split; [exact A|]. split; [exact (S1 B)|]. split; [exact C'|]. intros X. exact (D (S2 X)).
    + rewrite alookup_aset_other in Lj by exact Nj. cbn. apply I1. exact Lj.
  - intros j Lj. cbn in Lj. destruct (N.eq_dec j i) as [->|Nj]; [rewrite alookup_aset_same in Lj; discriminate|].
    rewrite alookup_aset_other in Lj by exact Nj. apply I2. exact Lj.
Qed.

(* ss <- gsess i ;; k ss  where k starts by writing a successor of ss *)
Lemma po_gsess_then {B} i (k : sess -> M B) : (forall a, pf (fun s => cur i s = a) (k a)) -> po (bind (gsess i) k).
Proof.
  intros H s acc I _. specialize (H (cur i s) s acc I eq_refl). unfold bind, gsess, stof, outof, cur in *. cbn in *.
  destruct (k match alookup i (store s) with Some x => x | None => new_sess end s) as [[b s2] o2]. cbn in *. exact H.
Qed.

Lemma po_upd i f : (forall a, Step a (f a)) -> po (upd i f).
Proof. intros H. unfold upd. apply po_gsess_then. intros a. apply pf_psess. apply H. Qed.

(* setters that leave queue, ghosts and the closing/closed flags alone *)
Ltac step_trivial := intros a; split; [intros [G1 G2]; split; cbn; auto | cbn; auto].
Lemma step_getters v a : Step a (w_getters v a).  Proof. revert a. step_trivial. Qed.
Lemma step_joiners v a : Step a (w_joiners v a).  Proof. revert a. step_trivial. Qed.
Lemma step_unfin v a : Step a (w_unfin v a).  Proof. revert a. step_trivial. Qed.
Lemma step_lastp v a : Step a (w_lastp v a).  Proof. revert a. step_trivial. Qed.
Lemma step_udata v a : Step a (w_udata v a).  Proof. revert a. step_trivial. Qed.
Lemma step_connected v a : Step a (w_connected v a).  Proof. revert a. step_trivial. Qed.
Lemma step_upgrading v a : Step a (w_upgrading v a).  Proof. revert a. step_trivial. Qed.
Lemma step_upgraded v a : Step a (w_upgraded v a).  Proof. revert a. step_trivial. Qed.
Lemma step_closing_true a : Step a (w_closing true a).
Proof. split; [intros [G1 G2]; split; cbn; auto | cbn; discriminate]. Qed.
Lemma step_closed_closing a : Step a (w_closed true (w_closing true a)).
Proof. split; [intros [G1 G2]; split; cbn; auto | cbn; discriminate]. Qed.
Lemma step_trans a b c : Step a b -> Step b c -> Step a c.
Proof. intros [A1 A2] [B1 B2]. split; auto. Qed.
Lemma step_refl a : Step a a.  Proof. split; auto. Qed.

Lemma mids_of_app a b : mids_of (a ++ b) = mids_of a ++ mids_of b.
Proof. unfold mids_of. apply flat_map_app. Qed.

(* ---- queue ---- *)
Lemma po_q_put i x : po (q_put i x).
Proof.
  unfold q_put. apply po_gsess_then. intros a. apply pf_bind.
  - apply pf_psess. split; [|cbn; auto]. intros [G1 G2]. split; [|exact G2].
    cbn [w_accepted w_unfin w_q s_accepted s_taken s_q]. rewrite G1, mids_of_app, app_assoc. reflexivity.
  - intros _. destruct (s_getters a) as [|g r]; [apply po_ret|].
    apply po_bind; [apply po_upd; intros; apply step_getters | intros _; apply po_of_sf, sf_wake].
Qed.

Lemma po_q_task_done i : po (q_task_done i).
Proof.
  unfold q_task_done. apply po_gsess_then. intros a. apply pf_bind; [apply pf_psess, step_unfin|].
  intros _. destruct (pred (s_unfin a)); [|apply po_ret].
  apply po_bind; [apply po_upd; intros; apply step_joiners | intros _; apply po_of_sf, sf_wake_all].
Qed.

Lemma po_drain fuel : forall i acc, po (drain fuel i acc).
Proof.
  induction fuel as [|f IH]; intros i acc; cbn [drain]; [apply po_ret|].
  destruct (Nat.leb MAX_BATCH (length acc)); [apply po_ret|].
  apply po_gsess_then. intros a. destruct (s_q a) as [|x r] eqn:Q; [apply pf_weaken, po_ret|].
  apply pf_bind.
  - apply pf_psess. split; [|cbn; auto]. intros [G1 G2]. split; [|exact G2].
    cbn [w_taken w_q s_accepted s_taken s_q]. rewrite G1, Q. change (x :: r) with ([x] ++ r). rewrite mids_of_app, app_assoc. reflexivity.
  - intros _. apply po_bind; [apply po_q_task_done|]. intros _. destruct x as [p|].
    + apply IH.
    + apply po_bind; [apply po_q_put | intros _; apply po_ret].
Qed.

(* ---- automation ---- *)
Create HintDb po.
Create HintDb sf.
#[export] Hint Resolve sf_ret sf_getst sf_gsess sf_has_sess sf_gconn sf_pconn sf_in_table sf_del_table sf_del_tables sf_wake sf_wake_all sf_spawn sf_block
  sf_new_timer sf_alive sf_finish : sf.

Ltac step_solve := split; [intros [?G1 ?G2]; split; cbn; auto | cbn; first [discriminate | auto]].

Ltac sf_go :=
  repeat first
    [ apply sf_ret
    | solve [ auto with sf ]
    | apply sf_bind; [ | intros ]
    | match goal with
      | |- sf (match ?x with _ => _ end) => destruct x
      | |- sf (if ?x then _ else _) => destruct x
      end
    | solve [ auto with sf ]
    | apply sf_modst; intros; cbn; split; reflexivity ].

Ltac po_go :=
  repeat first
    [ apply po_ret
    | solve [ auto with po ]
    | apply po_upd; intros; step_solve
    | apply po_emit; intro; reflexivity
    | solve [ apply po_of_sf; auto with sf ]
    | apply po_bind; [ | intros ]
    | match goal with
      | |- po (match ?x with _ => _ end) => destruct x
      | |- po (if ?x then _ else _) => destruct x
      end
    | solve [ auto with po ]
    | apply po_emit; intro; reflexivity
    | apply po_upd; intros; step_solve
    | solve [ apply po_of_sf; sf_go ] ].

#[export] Hint Resolve po_ret po_q_put po_q_task_done po_drain : po.

(* reads that leave the state exactly as it is *)
Definition pure_read {A} (m : M A) : Prop := forall s, stof (m s) = s /\ outof (m s) = [].
Lemma pf_bind_read {A B} (Q : st -> Prop) (m : M A) (f : A -> M B) :
  pure_read m -> (forall a, pf (fun s => Q s /\ valof (m s) = a) (f a)) -> pf Q (bind m f).
Proof.
  intros Hm Hf s acc I q. destruct (Hm s) as [E1 E2]. specialize (Hf (valof (m s)) s acc I (conj q eq_refl)).
  unfold bind, stof, outof, valof in *. destruct (m s) as [[a s1] o1]. cbn in *. subst.
  destruct (f a s) as [[b s2] o2]. cbn in *. exact Hf.
Qed.
Lemma pr_gsess i : pure_read (gsess i).  Proof. intros s. cbn. auto. Qed.
Lemma pr_has_sess i : pure_read (has_sess i).  Proof. intros s. cbn. auto. Qed.
Lemma pr_getst : pure_read getst.  Proof. intros s. cbn. auto. Qed.

(* ---- close ---- *)
Lemma begin_close_run i r s ss : alookup i (store s) = Some ss ->
  begin_close i r s = (tt, set_store (aset i (w_closing true ss) (store s)) s, [OEvent i (EDisconnect r)]).
Proof.
  intros L. unfold begin_close, upd, bind, gsess, psess, modst, emit. cbn. rewrite L. cbn. reflexivity.
Qed.

Lemma pf_begin_close i r : pf (fun s => exists ss, alookup i (store s) = Some ss /\ s_closing ss = false) (begin_close i r).
Proof.
  intros s acc [I1 I2] (ss & L & C). rewrite (begin_close_run i r s ss L). unfold stof, outof. cbn [fst snd].
  destruct (I1 i ss L) as (A & B & C1 & D). specialize (D C).
  split.
  - intros j x Lj. cbn [store set_store nsid] in *. destruct (N.eq_dec j i) as [->|Nj].
    + rewrite alookup_aset_same in Lj. injection Lj as <-. split; [exact A|]. split; [destruct B as [B1 B2]; split; cbn; auto|].
      rewrite count_disc_app, D. unfold count_disc. cbn. rewrite N.eqb_refl. cbn. split; [lia | discriminate].
    + rewrite alookup_aset_other in Lj by exact Nj. destruct (I1 j x Lj) as (A' & B' & C' & D').
      rewrite count_disc_app. unfold count_disc at 2 4. cbn. destruct (N.eqb_spec j i); [contradiction|]. cbn. rewrite !Nat.add_0_r. auto.
  - intros j Lj. cbn [store set_store] in Lj. destruct (N.eq_dec j i) as [->|Nj]; [rewrite alookup_aset_same in Lj; discriminate|].
    rewrite alookup_aset_other in Lj by exact Nj. rewrite count_disc_app, (I2 j Lj). unfold count_disc. cbn.
    destruct (N.eqb_spec j i); [contradiction | reflexivity].
Qed.

Section WithCfg.
Variable cfg : config.

Lemma po_close_nowait i abort r : po (close_nowait cfg i abort r).
Proof.
  unfold close_nowait. apply pf_bind_read; [apply pr_has_sess|]. intros h.
  apply pf_bind_read; [apply pr_gsess|]. intros ss.
  destruct (negb h || s_closed ss || s_closing ss) eqn:G.
  - apply pf_weaken, po_ret.
  - apply orb_false_elim in G. destruct G as [G G3]. apply orb_false_elim in G. destruct G as [G1 G2]. apply negb_false_iff in G1. subst h.
    apply pf_bind.
    + intros s acc I [[_ H1] H2]. apply pf_begin_close; [exact I|].
      unfold has_sess, gsess, valof in H1, H2. cbn in H1, H2. destruct (alookup i (store s)) as [x|]; [|discriminate].
      exists x. subst. auto.
    + intros _. po_go.
Qed.
#[local] Hint Resolve po_close_nowait : po.

Lemma po_sock_send i p : po (sock_send cfg i p).
Proof. unfold sock_send. po_go. Qed.
#[local] Hint Resolve po_sock_send : po.

Lemma po_get_socket i : po (get_socket i).
Proof. unfold get_socket. po_go. Qed.
#[local] Hint Resolve po_get_socket : po.

Lemma po_srv_send i m : po (srv_send cfg i m).
Proof. unfold srv_send. po_go. Qed.
#[local] Hint Resolve po_srv_send : po.

Lemma po_close_wait i r : po (close_wait cfg i r).
Proof. unfold close_wait. po_go. Qed.
#[local] Hint Resolve po_close_wait : po.

Lemma po_run_handler me bg i p a : po (run_handler cfg me bg i p a).
Proof. unfold run_handler. po_go. Qed.
#[local] Hint Resolve po_run_handler : po.

Lemma po_receive i p : po (receive cfg i p).
Proof. unfold receive. po_go. Qed.
#[local] Hint Resolve po_receive : po.

Lemma po_receive_all i l : po (receive_all cfg i l).
Proof. induction l as [|p r IH]; cbn [receive_all]; po_go. Qed.
#[local] Hint Resolve po_receive_all : po.

Lemma po_refuse_and_end i : po (refuse_and_end cfg i).
Proof. unfold refuse_and_end. po_go. Qed.
Lemma po_reap_if_closed i : po (reap_if_closed i).
Proof. unfold reap_if_closed. po_go. Qed.
#[local] Hint Resolve po_refuse_and_end po_reap_if_closed : po.

Lemma po_poll_attempt me tout i k t : po (poll_attempt cfg me tout i k t).
Proof.
  unfold poll_attempt. apply po_gsess_then. intros a.
  destruct (if tout && q_timeout_wins (c_quirks cfg) then [] else s_q a) as [|x r] eqn:Q.
  - apply pf_weaken. po_go.
  - assert (Q' : s_q a = x :: r) by (destruct (tout && q_timeout_wins (c_quirks cfg)); [discriminate | exact Q]).
    apply pf_bind.
    + apply pf_psess. split; [|cbn; auto]. intros [G1 G2]. split; [|exact G2].
      cbn [w_taken w_getters w_q s_accepted s_taken s_q]. rewrite G1, Q'. change (x :: r) with ([x] ++ r). rewrite mids_of_app, app_assoc. reflexivity.
    + intros _. po_go.
Qed.
#[local] Hint Resolve po_poll_attempt : po.
Lemma po_poll_start me i k : po (poll_start cfg me i k).
Proof. unfold poll_start. po_go. Qed.
#[local] Hint Resolve po_poll_start : po.

Lemma po_ws_send_all c l : po (ws_send_all c l).
Proof. induction l as [|p r IH]; cbn [ws_send_all]; po_go. Qed.
Lemma po_ws_close c : po (ws_close c).
Proof. unfold ws_close. po_go. Qed.
#[local] Hint Resolve po_ws_send_all po_ws_close : po.
Lemma po_writer_exit me c : po (writer_exit me c).
Proof. unfold writer_exit. po_go. Qed.
#[local] Hint Resolve po_writer_exit : po.
Lemma po_writer_loop fuel : forall me i c rd first, po (writer_loop cfg fuel me i c rd first).
Proof. induction fuel as [|f IH]; intros; cbn [writer_loop]; po_go. Qed.
#[local] Hint Resolve po_writer_loop : po.

Lemma po_finish_get me i r p : po (finish_get cfg me i r p).
Proof. unfold finish_get. po_go. Qed.
Lemma po_ping_fire me i : po (ping_fire cfg me i).
Proof. unfold ping_fire. po_go. Qed.
Lemma po_check_ping_timeout i : po (check_ping_timeout cfg i).
Proof. unfold check_ping_timeout. po_go. Qed.
#[local] Hint Resolve po_finish_get po_ping_fire po_check_ping_timeout : po.
Lemma po_svc_continue fuel : forall me rest interval, po (svc_continue cfg fuel me rest interval).
Proof.
  induction fuel as [|f IH]; intros me rest interval; destruct rest as [|i r]; cbn [svc_continue]; po_go.
Qed.
#[local] Hint Resolve po_svc_continue : po.

Lemma sf_ws_take c : sf (ws_take c).
Proof. unfold ws_take. sf_go. Qed.
Lemma sf_ws_block me c k : sf (ws_block me c k).
Proof. unfold ws_block. sf_go. Qed.
#[local] Hint Resolve sf_ws_take sf_ws_block : sf.
Lemma po_ws_request_done me i r x : po (ws_request_done me i r x).
Proof. unfold ws_request_done. po_go. Qed.
#[local] Hint Resolve po_ws_request_done : po.
Lemma po_ws_epilogue_end me i r : po (ws_epilogue_end cfg me i r).
Proof. unfold ws_epilogue_end. po_go. Qed.
#[local] Hint Resolve po_ws_epilogue_end : po.
Lemma po_ws_epilogue me i r c w fresh : po (ws_epilogue cfg me i r c w fresh).
Proof. unfold ws_epilogue. po_go. Qed.
#[local] Hint Resolve po_ws_epilogue : po.
Lemma po_ws_read_loop fuel : forall me i r c w fresh, po (ws_read_loop cfg fuel me i r c w fresh).
Proof. induction fuel as [|f IH]; intros; cbn [ws_read_loop]; po_go. Qed.
#[local] Hint Resolve po_ws_read_loop : po.
Lemma po_ws_steady me i r c fresh : po (ws_steady cfg me i r c fresh).
Proof. unfold ws_steady. po_go. Qed.
Lemma po_upgrade_fail me i r x : po (upgrade_fail me i r x).
Proof. unfold upgrade_fail. po_go. Qed.
#[local] Hint Resolve po_ws_steady po_upgrade_fail : po.
Lemma po_ws_upgr me i r c : po (ws_upgr cfg me i r c).
Proof. unfold ws_upgr. po_go. Qed.
#[local] Hint Resolve po_ws_upgr : po.
Lemma po_ws_probe me i r c : po (ws_probe cfg me i r c).
Proof. unfold ws_probe. po_go. Qed.
#[local] Hint Resolve po_ws_probe : po.
Lemma po_ws_begin me i r c : po (ws_begin cfg me i r c).
Proof. unfold ws_begin. po_go. Qed.
#[local] Hint Resolve po_ws_begin : po.
Lemma po_answer me r x : po (answer me r x).
Proof. unfold answer. po_go. Qed.
#[local] Hint Resolve po_answer : po.

Lemma po_new_session : po new_session.
Proof.
  intros s acc [I1 I2] _. unfold new_session, stof, outof. cbn [fst snd]. rewrite app_nil_r.
  assert (Fresh : alookup (nsid s) (store s) = None).
  { destruct (alookup (nsid s) (store s)) as [x|] eqn:L; [|reflexivity]. destruct (I1 _ _ L) as (A & _). lia. }
  split.
  - intros j x Lj. cbn [store set_store set_table set_nsid nsid] in *. destruct (N.eq_dec j (nsid s)) as [->|Nj].
    + rewrite alookup_aset_same in Lj. injection Lj as <-. split; [lia|]. split; [split; [reflexivity | discriminate]|].
      rewrite (I2 _ Fresh). split; [lia | reflexivity].
    + rewrite alookup_aset_other in Lj by exact Nj. destruct (I1 j x Lj) as (A & B & C & D).
      split; [lia|]. split; [exact B|]. split; [exact C | exact D].
  - intros j Lj. cbn [store set_store set_table set_nsid] in Lj. destruct (N.eq_dec j (nsid s)) as [->|Nj]; [rewrite alookup_aset_same in Lj; discriminate|].
    rewrite alookup_aset_other in Lj by exact Nj. apply I2. exact Lj.
Qed.
#[local] Hint Resolve po_new_session : po.

Lemma po_handle_connect me r q : po (handle_connect cfg me r q).
Proof. unfold handle_connect. po_go. Qed.
#[local] Hint Resolve po_handle_connect : po.
Lemma po_lookup_view q : po (lookup_view cfg q).
Proof. unfold lookup_view. po_go. Qed.
#[local] Hint Resolve po_lookup_view : po.
Lemma po_handle_request me r q : po (handle_request cfg me r q).
Proof. unfold handle_request. po_go. Qed.
#[local] Hint Resolve po_handle_request : po.

Lemma po_disc_seq fuel : forall me a l, po (disc_seq cfg fuel me a l).
Proof. induction fuel as [|f IH]; intros me a l; destruct l as [|i r]; cbn [disc_seq]; po_go. Qed.
#[local] Hint Resolve po_disc_seq : po.
Lemma sf_spawn_closers me l : sf (spawn_closers me l).
Proof. induction l as [|i r IH]; cbn [spawn_closers]; sf_go. Qed.
#[local] Hint Resolve sf_spawn_closers : sf.
Lemma po_run_api me a x : po (run_api cfg me a x).
Proof. unfold run_api. po_go. Qed.
#[local] Hint Resolve po_run_api : po.
Lemma po_run_task me e : po (run_task cfg me e).
Proof. unfold run_task. po_go. Qed.
#[local] Hint Resolve po_run_task : po.
Lemma po_settle fuel : forall choices, po (settle cfg fuel choices).
Proof. induction fuel as [|f IH]; intros choices; cbn [settle]; po_go. Qed.
#[local] Hint Resolve po_settle : po.
Lemma sf_fire t : sf (fire t).
Proof. unfold fire. sf_go. apply sf_modst. intros s. destruct (alookup t (tasks s)); cbn; auto. Qed.
#[local] Hint Resolve sf_fire : sf.
Lemma sf_fire_all l : sf (fire_all l).
Proof. induction l as [|[t n] r IH]; cbn [fire_all]; sf_go. Qed.
#[local] Hint Resolve sf_fire_all : sf.
Lemma po_advance fuel : forall target, po (advance cfg fuel target).
Proof. induction fuel as [|f IH]; intros target; cbn [advance]; po_go. Qed.
#[local] Hint Resolve po_advance : po.
Lemma po_apply_op o choices : po (apply_op cfg o choices).
Proof. unfold apply_op. po_go. Qed.
End WithCfg.

(* ---- every reachable state, for every schedule ---- *)
Fixpoint run_sched (cfg : config) (ops : list (op * list nat)) (s : st) (acc : list out) : st * list out :=
  match ops with
  | [] => (s, acc)
  | (o, ch) :: r => let '(_, s1, o1) := apply_op cfg o ch s in run_sched cfg r s1 (acc ++ o1)
  end.

Lemma Inv_init cfg : Inv (init cfg) [].
Proof. split; cbn; [intros i ss L; discriminate | reflexivity]. Qed.

Theorem reachable_inv cfg ops : let '(s, acc) := run_sched cfg ops (init cfg) [] in Inv s acc.
Proof.
  assert (G : forall ops s acc, Inv s acc -> let '(s', acc') := run_sched cfg ops s acc in Inv s' acc').
  { induction ops0 as [|[o ch] r IH]; intros s acc I; cbn [run_sched]; [exact I|].
    pose proof (po_apply_op cfg o ch s acc I Logic.I) as P. unfold stof, outof in P.
    destruct (apply_op cfg o ch s) as [[u s1] o1]. cbn in P. apply IH. exact P. }
  apply G. apply Inv_init.
Qed.
