(* Small executable helpers shared by the models and by the generated correspondence files. *)
From Coq Require Import NArith ZArith List Bool.
Import ListNotations.

Fixpoint eqbl (a b : list N) : bool :=
  match a, b with
  | [], [] => true
  | x :: a', y :: b' => N.eqb x y && eqbl a' b'
  | _, _ => false
  end.

Lemma eqbl_eq a b : eqbl a b = true <-> a = b.
Proof.
  revert b; induction a as [|x a IH]; intros [|y b]; cbn; split; intros H; try discriminate; auto.
  - apply andb_true_iff in H. destruct H as [H1 H2]. apply N.eqb_eq in H1. apply IH in H2. subst. reflexivity.
  - injection H as -> ->. rewrite N.eqb_refl. apply IH. reflexivity.
Qed.

Fixpoint eqb_list {A} (eqb : A -> A -> bool) (a b : list A) : bool :=
  match a, b with
  | [], [] => true
  | x :: a', y :: b' => eqb x y && eqb_list eqb a' b'
  | _, _ => false
  end.

Definition eqb_opt {A} (eqb : A -> A -> bool) (a b : option A) : bool :=
  match a, b with Some x, Some y => eqb x y | None, None => true | _, _ => false end.
