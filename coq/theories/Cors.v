(* base_server.py: _cors_allowed_origins, _cors_headers, and the origin gate at the top of handle_request. *)
From Coq Require Import NArith List Bool.
Import ListNotations.
From EIO Require Import Util Strings.
Open Scope N_scope.

(* the forms of cors_allowed_origins.  A callable is represented by the set of origins it accepts
   (it is asked about the request's Origin only; None is never accepted by the predicates used) *)
Inductive cors_cfg := CDefault | CStar | CStr (s : text) | CList (l : list text) | CPred (accepts : list text).

Definition disabled (c : cors_cfg) : bool := match c with CList [] => true | _ => false end.   (* cors_allowed_origins == [] *)

(* the parts of the WSGI environment the policy reads *)
Record env := {
  e_scheme : text;                 (* wsgi.url_scheme *)
  e_host : option text;            (* Host *)
  e_xproto : option text;          (* X-Forwarded-Proto *)
  e_xhost : option text;           (* X-Forwarded-Host *)
  e_origin : option text;          (* Origin *)
  e_options : bool;                (* method is OPTIONS *)
  e_acrh : option text }.          (* Access-Control-Request-Headers *)

Definition sep3 : text := [58; 47; 47].     (* "://" *)
Definition first_stripped (s : text) : text := strip (first_field 44 s).     (* s.split(',')[0].strip() *)

Definition default_origins (e : env) : list text :=
  match e_host e with
  | None => []
  | Some h =>
    (e_scheme e ++ sep3 ++ h) ::
    (match e_xproto e, e_xhost e with
     | None, None => []
     | xp, xh =>
       [first_stripped (match xp with Some p => p | None => e_scheme e end) ++ sep3 ++
        first_stripped (match xh with Some x => x | None => h end)]
     end)
  end.

(* None = every origin is allowed *)
Definition allowed_origins (c : cors_cfg) (e : env) : option (list text) :=
  match c with
  | CDefault => Some (default_origins e)
  | CStar => None
  | CStr s => Some [s]
  | CList l => Some l
  | CPred acc => Some (match e_origin e with Some o => if mem o acc then [o] else [] | None => [] end)
  end.

Definition origin_allowed (c : cors_cfg) (e : env) (o : text) : bool :=
  match allowed_origins c e with None => true | Some l => mem o l end.

(* the gate: true = the request is refused with 400 before anything else happens *)
Definition gate_refuses (c : cors_cfg) (e : env) : bool :=
  if disabled c then false
  else match e_origin e with
       | Some (x :: o) => negb (origin_allowed c e (x :: o))
       | _ => false                              (* no Origin header, or an empty one *)
       end.

Inductive hdr := ACAO (v : text) | ACAM | ACAH (v : text) | ACAC.

Definition cors_headers (c : cors_cfg) (credentials : bool) (e : env) : list hdr :=
  if disabled c then []
  else (match e_origin e with Some o => if origin_allowed c e o then [ACAO o] else [] | None => [] end)
       ++ (if e_options e then [ACAM] else [])
       ++ (match e_acrh e with Some h => [ACAH h] | None => [] end)
       ++ (if credentials then [ACAC] else []).

(* handle_request starts with the gate; `rest` is everything that follows (session lookup, handlers, ...) *)
Definition with_gate {S R} (c : cors_cfg) (e : env) (refusal : R) (rest : S -> S * R) (st : S) : S * R :=
  if gate_refuses c e then (st, refusal) else rest st.
