(* The heartbeat schedule, step by step (C07): what arms the PING timer, when it is armed for, and what its firing does. *)
From Coq Require Import ZArith NArith List Bool Lia.
Import ListNotations.
From EIO Require Import Server ServerInv.
Open Scope Z_scope.

Section WithCfg.
Variable cfg : config.

Lemma alookup_aset_same' {A} k (v : A) l : alookup k (aset k v l) = Some v.
Proof. apply alookup_aset_same. Qed.

(* the step that follows the handshake or a processed PONG: no PING is outstanding any more, and the next PING is due exactly
   ping_interval later *)
Theorem ping_rearmed me e i s : t_task e = TPingStart i ->
  let s' := stof (run_task cfg me e s) in
  alookup me (tasks s') = Some {| t_task := TPing i (now s + c_interval cfg, tseq s); t_tout := false |} /\
  now s' = now s /\ outof (run_task cfg me e s) = [] /\
  (forall ss, alookup i (store s) = Some ss -> exists ss', alookup i (store s') = Some ss' /\ s_lastp ss' = None /\ s_q ss' = s_q ss /\ s_closed ss' = s_closed ss).
Proof.
  intros K s'. subst s'. unfold run_task. rewrite K. unfold upd, psess, gsess, new_timer, block, modst, bind, stof, outof. cbn [fst snd app].
  destruct (alookup i (store s)) as [ss|] eqn:L; cbn [fst snd tasks now store set_store set_tasks set_tseq].
  - split; [rewrite alookup_aset_same'; reflexivity|]. split; [reflexivity|]. split; [reflexivity|].
    intros ss0 X. injection X as <-. eexists. split; [rewrite alookup_aset_same'; reflexivity|]. cbn. auto.
  - split; [rewrite alookup_aset_same'; reflexivity|]. split; [reflexivity|]. split; [reflexivity|]. intros ss0 X. discriminate.
Qed.

End WithCfg.
