(* executable comparison helpers for the history correspondence of the client model *)
From Coq Require Import ZArith NArith List Bool.
Import ListNotations.
From EIO Require Import Client.
Open Scope N_scope.

Fixpoint leqb {A} (e : A -> A -> bool) (a b : list A) : bool :=
  match a, b with [], [] => true | x :: a', y :: b' => e x y && leqb e a' b' | _, _ => false end.
Definition ck_eqb (a b : ck) : bool :=
  match a, b with CkMsg m x, CkMsg m' x' => (m =? m') && Bool.eqb x x' | CkPong d, CkPong d' => d =? d' | CkClose, CkClose => true | _, _ => false end.
Definition rkind_eqb (a b : rkind) : bool := match a, b with KindOpen, KindOpen | KindPoll, KindPoll | KindPost, KindPost => true | _, _ => false end.
Definition reason_eqb (a b : reason) : bool := match a, b with RClient, RClient | RServer, RServer | RTransportError, RTransportError => true | _, _ => false end.
Definition ev_eqb (a b : ev) : bool :=
  match a, b with EvConnect, EvConnect => true | EvMessage x, EvMessage y => x =? y | EvDisconnect x, EvDisconnect y => reason_eqb x y | _, _ => false end.
Definition callres_eqb (a b : callres) : bool :=
  match a, b with ROk, ROk | RConnectionError, RConnectionError | RValueError, RValueError | ROtherError, ROtherError => true | _, _ => false end.
Definition wsout_eqb (a b : wsout) : bool := match a, b with WProbe, WProbe | WUpgrade, WUpgrade => true | WPk x, WPk y => ck_eqb x y | _, _ => false end.
Definition out_eqb (a b : out) : bool :=
  match a, b with
  | OHttp h k l, OHttp h' k' l' => (h =? h') && rkind_eqb k k' && leqb ck_eqb l l'
  | OWsConnect c u, OWsConnect c' u' => (c =? c') && Bool.eqb u u'
  | OWsSend c w, OWsSend c' w' => (c =? c') && wsout_eqb w w'
  | OWsClose c, OWsClose c' => c =? c'
  | OEv e, OEv e' => ev_eqb e e'
  | ORet c r, ORet c' r' => (c =? c') && callres_eqb r r'
  | OOutOfFuel, OOutOfFuel => true
  | _, _ => false
  end.

(* outputs are compared per channel: requests and returns, socket traffic, events *)
Definition chan (o : out) : N :=
  match o with OHttp _ _ _ => 0 | OWsConnect _ _ | OWsSend _ _ | OWsClose _ => 1 | OEv _ => 2 | ORet _ _ => 3 | OOutOfFuel => 4 end.
(* returns of different application calls within one step are compared as a set: which of two calls that end in the same step
   (two time-outs with the same deadline) returns first is a scheduling accident, and each call is its own thread/task *)
Definition okey (o : out) : N * N := match o with ORet c _ => (chan o, c) | _ => (chan o, 0) end.
Definition key_le (a b : N * N) : bool := (fst a <? fst b) || ((fst a =? fst b) && (snd a <=? snd b)).
Fixpoint insert_o (o : out) (l : list out) : list out :=
  match l with [] => [o] | x :: r => if key_le (okey x) (okey o) then x :: insert_o o r else o :: l end.
Definition canon (l : list out) : list out := fold_left (fun acc o => insert_o o acc) l [].
Definition outs_eqb (a b : list out) : bool := leqb out_eqb (canon a) (canon b).

Definition cstate_eqb (a b : cstate) : bool :=
  match a, b with Disconnected, Disconnected | Connected, Connected | Disconnecting, Disconnecting => true | _, _ => false end.
Definition view_eqb (a b : cstate * bool * option tr) : bool :=
  let '(s, i, t) := a in let '(s', i', t') := b in
  cstate_eqb s s' && Bool.eqb i i' && match t, t' with None, None => true | Some TrPolling, Some TrPolling | Some TrWebsocket, Some TrWebsocket => true | _, _ => false end.
Definition view_of (s : st) : cstate * bool * option tr :=
  (state s, sid_set s, match state s with Connected => transport s | _ => None end).

Fixpoint run_views (cfg : ccfg) (ops : list op) (s : st) : list (list out * (cstate * bool * option tr)) :=
  match ops with
  | [] => []
  | o :: r => let '(_, s1, o1) := apply_op cfg o s in (o1, view_of s1) :: run_views cfg r s1
  end.
Fixpoint first_diff (i : N) (m : list (list out * (cstate * bool * option tr))) (outs : list (list out)) (views : list (cstate * bool * option tr)) : option N :=
  match m, outs, views with
  | [], [], [] => None
  | (o, v) :: m', o' :: outs', v' :: views' => if outs_eqb o o' && view_eqb v v' then first_diff (N.succ i) m' outs' views' else Some i
  | _, _, _ => Some i
  end.
Definition check_chist (c : ccfg * list op * list (list out) * list (cstate * bool * option tr)) : bool :=
  let '(cfg, ops, outs, views) := c in
  match first_diff 0 (run_views cfg ops init) outs views with None => true | Some _ => false end.
Definition diff_chist (c : ccfg * list op * list (list out) * list (cstate * bool * option tr)) :=
  let '(cfg, ops, outs, views) := c in
  let m := run_views cfg ops init in (first_diff 0 m outs views, m).
