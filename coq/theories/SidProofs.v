(* ---- SidProofs.v ---- *)
From Coq Require Import ZArith NArith List Lia Bool.
Import ListNotations.
From EIO Require Import Sid.
Open Scope N_scope.
Ltac Zify.zify_post_hook ::= Z.to_euclidean_division_equations.

Definition sextets := map N.of_nat (seq 0 64).
Lemma sextet_in s : s < 64 -> In s sextets.
Proof.
  intros H. unfold sextets. apply in_map_iff. exists (N.to_nat s). split; [lia|]. apply in_seq. lia.
Qed.

Definition uchar s := urlsafe (b64char s).
Lemma uchar_idchar_all : forallb (fun s => idchar (uchar s)) sextets = true.
Proof. vm_compute. reflexivity. Qed.
Lemma uchar_idchar s : s < 64 -> idchar (uchar s) = true.
Proof. intros H. exact (proj1 (forallb_forall _ _) uchar_idchar_all s (sextet_in s H)). Qed.

Lemma uchar_inj_all :
  forallb (fun s => forallb (fun t => implb (uchar s =? uchar t) (s =? t)) sextets) sextets = true.
Proof. vm_compute. reflexivity. Qed.
Lemma uchar_inj s t : s < 64 -> t < 64 -> uchar s = uchar t -> s = t.
Proof.
  intros Hs Ht E.
  pose proof (proj1 (forallb_forall _ _) uchar_inj_all s (sextet_in s Hs)) as H1. cbv beta in H1.
  pose proof (proj1 (forallb_forall _ _) H1 t (sextet_in t Ht)) as H2. cbv beta in H2.
  rewrite E, N.eqb_refl in H2. simpl in H2. now apply N.eqb_eq.
Qed.

Definition sx (a b c : N) := [a / 4; (a mod 4) * 16 + b / 16; (b mod 16) * 4 + c / 64; c mod 64].
Lemma sx_bound a b c : a < 256 -> b < 256 -> c < 256 -> Forall (fun s => s < 64) (sx a b c).
Proof. intros. unfold sx. repeat constructor; lia. Qed.
Lemma sx_inj a b c a' b' c' : a < 256 -> b < 256 -> c < 256 -> a' < 256 -> b' < 256 -> c' < 256 ->
  sx a b c = sx a' b' c' -> a = a' /\ b = b' /\ c = c'.
Proof. unfold sx. intros ? ? ? ? ? ? E. injection E as E1 E2 E3 E4. lia. Qed.

Lemma map_uchar_inj l l' : Forall (fun s => s < 64) l -> Forall (fun s => s < 64) l' ->
  map uchar l = map uchar l' -> l = l'.
Proof.
  intros Hl. revert l'. induction Hl as [|x l Hx Hl IH]; intros l' Hl' E; destruct l' as [|y l']; try discriminate; auto.
  simpl in E. injection E as E1 E2. inversion Hl' as [|? ? Hy Hl'']; subst.
  f_equal; [apply uchar_inj; auto | apply IH; auto].
Qed.

Lemma Forall_app_i {A} (P : A -> Prop) l1 l2 : Forall P l1 -> Forall P l2 -> Forall P (l1 ++ l2).
Proof. intros. apply Forall_app. split; assumption. Qed.
Ltac sx5 := apply Forall_app_i; [apply sx_bound; assumption|]; apply Forall_app_i; [apply sx_bound; assumption|];
            apply Forall_app_i; [apply sx_bound; assumption|]; apply Forall_app_i; [apply sx_bound; assumption|]; apply sx_bound; assumption.
Lemma enc3_u a b c : map urlsafe (enc3 a b c) = map uchar (sx a b c).
Proof. unfold enc3. rewrite map_map. reflexivity. Qed.

Lemma be3_bytes n : n < 16777216 -> Forall is_byte (be3 n).
Proof. intros. unfold be3, is_byte. repeat constructor; lia. Qed.
Lemma be3_inj n m : n < 16777216 -> m < 16777216 -> be3 n = be3 m -> n = m.
Proof. unfold be3. intros ? ? E. injection E as E1 E2 E3. lia. Qed.

(* shape of a 12-byte random string *)
Definition rnd12 (r : list N) := length r = 12%nat /\ Forall is_byte r.

Lemma id_split r n : rnd12 r ->
  exists a0 a1 a2 a3 a4 a5 a6 a7 a8 a9 a10 a11,
    r = [a0;a1;a2;a3;a4;a5;a6;a7;a8;a9;a10;a11] /\
    generate_id r n = map uchar (sx a0 a1 a2 ++ sx a3 a4 a5 ++ sx a6 a7 a8 ++ sx a9 a10 a11
                                 ++ sx (n / 65536) ((n / 256) mod 256) (n mod 256)).
Proof.
  intros [L _].
  do 12 (destruct r as [|? r]; [discriminate L|]). destruct r; [|discriminate L].
  do 12 eexists. split; [reflexivity|].
  unfold generate_id, be3. cbn [app b64_full]. rewrite !map_app, !enc3_u, app_nil_r. reflexivity.
Qed.

Theorem format r n : rnd12 r -> n < 16777216 ->
  length (generate_id r n) = 20%nat /\ forallb idchar (generate_id r n) = true.
Proof.
  intros Hr Hn. destruct (id_split r n Hr) as (a0&a1&a2&a3&a4&a5&a6&a7&a8&a9&a10&a11&Er&Eid).
  rewrite Eid. split; [reflexivity|].
  destruct Hr as [_ Hb]. rewrite Er in Hb.
  repeat match goal with H : Forall _ (_ :: _) |- _ => inversion H; clear H; subst end.
  unfold is_byte in *.
  apply forallb_forall. intros x Hx. apply in_map_iff in Hx. destruct Hx as (s & <- & Hs).
  apply uchar_idchar.
  assert (F : Forall (fun s => s < 64) (sx a0 a1 a2 ++ sx a3 a4 a5 ++ sx a6 a7 a8 ++ sx a9 a10 a11 ++ sx (n / 65536) ((n / 256) mod 256) (n mod 256))).
  { assert (n / 65536 < 256) by lia. assert ((n / 256) mod 256 < 256) by lia. assert (n mod 256 < 256) by lia. sx5. }
  exact (proj1 (Forall_forall _ _) F s Hs).
Qed.

Lemma sx_app_inj a b c a' b' c' l l' : sx a b c ++ l = sx a' b' c' ++ l' -> sx a b c = sx a' b' c' /\ l = l'.
Proof. unfold sx. cbn [app]. intros E. injection E as E1 E2 E3 E4 E5. rewrite E1, E2, E3, E4, E5. auto. Qed.
Lemma ctr_inj n m : n < 16777216 -> m < 16777216 ->
  n / 65536 = m / 65536 -> (n / 256) mod 256 = (m / 256) mod 256 -> n mod 256 = m mod 256 -> n = m.
Proof. intros. lia. Qed.

Theorem injective r n r' n' : rnd12 r -> rnd12 r' -> n < 16777216 -> n' < 16777216 ->
  generate_id r n = generate_id r' n' -> r = r' /\ n = n'.
Proof.
  intros Hr Hr' Hn Hn' E.
  destruct (id_split r n Hr) as (a0&a1&a2&a3&a4&a5&a6&a7&a8&a9&a10&a11&Er&Eid).
  destruct (id_split r' n' Hr') as (b0&b1&b2&b3&b4&b5&b6&b7&b8&b9&b10&b11&Er'&Eid').
  rewrite Eid, Eid' in E.
  destruct Hr as [_ Hb]. rewrite Er in Hb. destruct Hr' as [_ Hb']. rewrite Er' in Hb'.
  repeat match goal with H : Forall _ (_ :: _) |- _ => inversion H; clear H; subst end.
  unfold is_byte in *.
  assert (B1 : n / 65536 < 256) by lia. assert (B2 : (n / 256) mod 256 < 256) by lia. assert (B3 : n mod 256 < 256) by lia.
  assert (B1' : n' / 65536 < 256) by lia. assert (B2' : (n' / 256) mod 256 < 256) by lia. assert (B3' : n' mod 256 < 256) by lia.
  apply map_uchar_inj in E;
    [| sx5 | sx5 ].
  apply sx_app_inj in E. destruct E as [E0 E].
  apply sx_app_inj in E. destruct E as [E1 E].
  apply sx_app_inj in E. destruct E as [E2 E].
  apply sx_app_inj in E. destruct E as [E3 E4].
  apply sx_inj in E0; try assumption. apply sx_inj in E1; try assumption.
  apply sx_inj in E2; try assumption. apply sx_inj in E3; try assumption.
  apply sx_inj in E4; try assumption.
  destruct E0 as (?&?&?), E1 as (?&?&?), E2 as (?&?&?), E3 as (?&?&?), E4 as (C1&C2&C3). subst.
  split; [reflexivity | apply ctr_inj; assumption].
Qed.

(* uniqueness within any window of 2^24 consecutive issues, whatever the random source returns *)
Fixpoint iter_seq (k : nat) (c : N) : N := match k with O => c | S k => next_seq (iter_seq k c) end.
Lemma iter_seq_spec k c : c < 16777216 -> iter_seq k c = (c + N.of_nat k) mod 16777216.
Proof.
  intros Hc. induction k as [|k IH]; cbn [iter_seq].
  - rewrite N.add_0_r. symmetry. apply N.mod_small. exact Hc.
  - rewrite IH. unfold next_seq. lia.
Qed.
Theorem unique_in_window c i j (ri rj : list N) :
  c < 16777216 -> rnd12 ri -> rnd12 rj -> (i < j)%nat -> N.of_nat j < 16777216 ->
  generate_id ri (iter_seq i c) <> generate_id rj (iter_seq j c).
Proof.
  intros Hc Hi Hj Lij Lj E.
  rewrite !iter_seq_spec in E by exact Hc.
  apply injective in E; auto; try lia.
Qed.

Lemma counter_step c : c < 16777216 ->
  next_seq c < 16777216 /\ next_seq c = (c + 1) mod 16777216 /\ (c = 16777215 -> next_seq c = 0).
Proof. intros H. unfold next_seq. split; [lia|]. split; [reflexivity|]. intros ->. reflexivity. Qed.

Lemma nonvacuous : rnd12 [0;1;2;3;4;5;6;7;8;9;10;255] /\ 16777215 < 16777216.
Proof. split; [split; [reflexivity|]|reflexivity]. unfold is_byte. repeat constructor. Qed.
