From Coq Require Import NArith List Bool.
Import ListNotations.
From EIO Require Import Util Strings Url.
Open Scope N_scope.

(* http(s) is mapped to ws(s) for the WebSocket transport and kept (normalised) for polling *)
Lemma scheme_table ws scheme :
  scheme_for ws scheme =
    match ws, secure scheme with
    | false, false => t_http | false, true => t_https | true, false => t_ws | true, true => t_wss
    end.
Proof. unfold scheme_for. destruct ws, (secure scheme); reflexivity. Qed.

(* protocol version 4 is requested and the transport named, at the end of the URL, whatever the caller's URL was *)
Lemma url_suffix scheme netloc query path ws :
  exists pre, engineio_url scheme netloc query path ws =
    pre ++ [116;114;97;110;115;112;111;114;116;61] ++ (if ws then t_websocket else t_polling) ++ [38;69;73;79;61;52].
Proof. unfold engineio_url. eexists. rewrite !app_assoc. reflexivity. Qed.

(* the caller's query string is kept verbatim, followed by '&' only when it is not empty *)
Lemma url_query_kept scheme netloc query path ws :
  exists pre post, engineio_url scheme netloc query path ws = pre ++ [47; 63] ++ query ++ post /\
    (query = [] -> post = [116;114;97;110;115;112;111;114;116;61] ++ (if ws then t_websocket else t_polling) ++ [38;69;73;79;61;52]) /\
    (query <> [] -> post = [38] ++ [116;114;97;110;115;112;111;114;116;61] ++ (if ws then t_websocket else t_polling) ++ [38;69;73;79;61;52]).
Proof.
  unfold engineio_url.
  exists (scheme_for ws scheme ++ [58; 47; 47] ++ netloc ++ [47] ++ strip_slash path). eexists. split.
  - rewrite <- !app_assoc. reflexivity.
  - split; intros H; [subst query; reflexivity | destruct query; [contradiction | reflexivity]].
Qed.

Lemma lstrip_slash_nohead l : match lstrip_slash l with 47 :: _ => False | _ => True end.
Proof. induction l as [|c r IH]; cbn; [exact I|]. destruct (N.eq_dec c 47) as [->|N]; [exact IH|]. destruct c as [|p]; [exact I|].
  destruct p as [[[[[[]|[]|]|[]|]|[[]|[]|]|]|[]|]|[[[[[]|[]|]|[]|]|[]|]|[]|]|]; try exact I; exfalso; apply N; reflexivity. Qed.
