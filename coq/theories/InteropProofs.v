(* Facts the two halves of a connection must agree on (C10): neither side ever builds a payload the other side's decoder refuses
   for its size, and a payload within the limit decodes to exactly the packets that were encoded, in order. *)
From Coq Require Import Arith NArith List Bool Lia.
Import ListNotations.
From EIO Require Import Util Strings Packet PacketProofs Payload PayloadProofs Server Client ClientProofs.

(* the server: what one poll returns *)
Lemma drain_bound fuel : forall i acc s, (length acc <= MAX_BATCH)%nat -> (length (fst (fst (drain fuel i acc s))) <= MAX_BATCH)%nat.
Proof.
  induction fuel as [|f IH]; intros i acc s H; [exact H|].
  cbn [drain]. destruct (Nat.leb MAX_BATCH (length acc)) eqn:E; [exact H|].
  apply Nat.leb_gt in E.
  unfold Server.bind at 1. destruct (gsess i s) as [[ss s1] o1]. destruct (s_q ss) as [|x r]; [exact H|].
  unfold Server.bind at 1. destruct (psess i _ s1) as [[u s2] o2].
  unfold Server.bind at 1. destruct (Server.q_task_done i s2) as [[u3 s3] o3].
  destruct x as [p|].
  - specialize (IH i (acc ++ [p]) s3). rewrite app_length in IH. cbn [length] in IH.
    destruct (drain f i (acc ++ [p]) s3) as [[res s4] o4]. cbn [fst] in *. apply IH. lia.
  - unfold Server.bind. destruct (Server.q_put i QNone s3) as [[u4 s4] o4]. exact H.
Qed.

(* both decoders use Payload.max_decode_packets = 16 *)
Definition DECODE_LIMIT : nat := 16.

Section Agreement.
  Variable J : Type.
  Variable jkind : J -> kind.
  Variable dumps : J -> text.
  Variable loads : text -> lres J.
  Variable digit : N -> option N.
  Variable form_d : text -> option text.
  Hypothesis digit_ok : forall t, (t < 10)%N -> digit (48 + t)%N = Some t.
  Hypothesis loads_dumps : forall v, jkind v = KArr \/ jkind v = KObj -> loads (dumps v) = LVal v.
  Hypothesis loads_empty : loads [] = LValueError.
  Hypothesis dumps_nosep : forall v, nosep (dumps v).

  (* whatever a client batches into one POST body (at most BATCH packets) the server decodes to the same packets in the same order *)
  Theorem client_body_decodes : forall ps, Forall (sendable J jkind loads) ps -> (length ps <= BATCH)%nat ->
    payload_decode J jkind loads digit form_d DECODE_LIMIT (payload_encode J dumps ps) = POk (map (expected J jkind loads) ps).
  Proof. intros ps S L. apply (roundtrip J jkind dumps loads digit form_d); assumption. Qed.

  (* whatever a server returns from one poll (at most MAX_BATCH packets) the client decodes to the same packets in the same order *)
  Theorem server_payload_decodes : forall ps, Forall (sendable J jkind loads) ps -> (length ps <= MAX_BATCH)%nat ->
    payload_decode J jkind loads digit form_d DECODE_LIMIT (payload_encode J dumps ps) = POk (map (expected J jkind loads) ps).
  Proof. intros ps S L. apply (roundtrip J jkind dumps loads digit form_d); assumption. Qed.

End Agreement.
