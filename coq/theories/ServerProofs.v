(* Local facts about the server model: the admission decision (C12, C13, C15, C18), the liveness test of the heartbeat (C07),
   properties of what a step can emit (C04, C14, C12), and the inertness of dead ids (C16). *)
From Coq Require Import ZArith NArith List Bool Lia.
Import ListNotations.
From EIO Require Import Server ServerInv.
Open Scope N_scope.

Section WithCfg.
Variable cfg : config.

(* ------------------------------------------------------------------ the admission decision *)
(* what the property calls a well-addressed request *)
Definition well_addressed (q : req) (v : option sview) : bool :=
  negb (r_origin_refused q) &&
  transport_allowed cfg (r_transport q) &&
  negb (negb (c_websocket cfg) && r_upgrade_ws q) &&
  match r_sid q with None => r_eio4 q | Some _ => true end &&
  match r_jsonp q with JBad => false | _ => true end &&
  match r_method q with
  | MOther => false
  | MOptions => true
  | MGet =>
    match r_sid q with
    | None => match r_transport q with TrPolling => true | TrWebsocket => r_upgrade_ws q | TrOther => false end
    | Some SUnknown => false
    | Some (SKnown _) =>
      match v with
      | None => false
      | Some w => tr_eqb (if v_upgraded w then TrWebsocket else TrPolling) (r_transport q)
                  || match r_transport q with TrWebsocket => r_upgrade_ws q | _ => false end
      end
    end
  | MPost => match r_sid q, v with Some (SKnown _), Some _ => true | _, _ => false end
  end.

Definition refused (d : decision) : bool := match d with DRefuse _ => true | _ => false end.

Ltac case_all :=
  repeat match goal with
         | |- context [if ?b then _ else _] => destruct b eqn:?
         | |- context [match ?x with _ => _ end] => destruct x eqn:?
         end.

Lemma let_in_iff_well_addressed q v : refused (decide cfg q v) = negb (well_addressed q v).
Proof.
  unfold decide, decide_early, well_addressed, wants_ws_upgrade.
  destruct (r_origin_refused q); [reflexivity|].
  destruct (transport_allowed cfg (r_transport q)); [|reflexivity].
  destruct (c_websocket cfg), (r_upgrade_ws q), (r_conn_upgrade q), (r_jsonp q), (r_method q), (r_sid q) as [[i|]|], (r_eio4 q), (r_transport q);
    cbn; try reflexivity; destruct v as [[[] []]|]; reflexivity.
Qed.

Ltac decide_cases q v :=
  unfold decide, decide_early, wants_ws_upgrade;
  destruct (r_origin_refused q), (transport_allowed cfg (r_transport q)), (c_websocket cfg), (r_upgrade_ws q), (r_conn_upgrade q), (r_jsonp q),
           (r_method q) eqn:?, (r_sid q) as [[?i|]|], (r_eio4 q), (r_transport q); cbn;
  try (destruct v as [[[] []]|]; cbn).

(* case analysis along the decision tree: only the outermost scrutinee is split, so the number of cases is the number of leaves *)
Ltac outer := repeat (cbv beta iota; match goal with |- (match ?x with _ => _ end) = _ -> _ => destruct x eqn:? end).

Lemma decide_early_status q x : decide_early cfg q = Some x -> x = R400 \/ (x = R405 /\ r_method q = MOther).
Proof. unfold decide_early. outer; intros H; try discriminate; injection H as <-; auto. Qed.

Lemma refusal_status q v x : decide cfg q v = DRefuse x -> x = R400 \/ x = R405.
Proof.
  unfold decide. destruct (decide_early cfg q) as [y|] eqn:E; [intros H; injection H as <-; destruct (decide_early_status q y E) as [?|[? _]]; auto|].
  outer; intros H; try discriminate; injection H as <-; auto.
Qed.

Lemma status_405_only_for_other_methods q v : decide cfg q v = DRefuse R405 -> r_method q = MOther.
Proof.
  unfold decide. destruct (decide_early cfg q) as [y|] eqn:E; [intros H; injection H as ->; destruct (decide_early_status q _ E) as [?|[_ ?]]; [discriminate | assumption]|].
  outer; intros H; try discriminate; first [assumption | reflexivity].
Qed.

(* the origin gate comes first: a refused origin is refused whatever else the request says *)
Lemma origin_gate_first q v : r_origin_refused q = true -> decide cfg q v = DRefuse R400.
Proof. intros H. unfold decide, decide_early. rewrite H. reflexivity. Qed.

(* a transport that is not allowed is never let in *)
Lemma disallowed_transport_refused q v : transport_allowed cfg (r_transport q) = false -> refused (decide cfg q v) = true.
Proof. intros H. rewrite let_in_iff_well_addressed. unfold well_addressed. rewrite H. destruct (r_origin_refused q); reflexivity. Qed.
Lemma websocket_upgrade_needs_transport q v i : decide cfg q v = DUpgrade i -> c_websocket cfg = true.
Proof.
  unfold decide, decide_early, wants_ws_upgrade.
  destruct (r_origin_refused q), (transport_allowed cfg (r_transport q)), (c_websocket cfg), (r_upgrade_ws q), (r_conn_upgrade q), (r_jsonp q),
           (r_method q), (r_sid q) as [[j|]|], (r_eio4 q), (r_transport q); cbn;
    try (destruct v as [[[] []]|]; cbn); intros H; try discriminate; reflexivity.
Qed.

(* the decision does not look at the quirks: both servers let in and refuse the same requests *)
Lemma decide_quirk_independent (cfg' : config) q v :
  c_polling cfg' = c_polling cfg -> c_websocket cfg' = c_websocket cfg -> decide cfg' q v = decide cfg q v.
Proof. intros E1 E2. unfold decide, decide_early, transport_allowed. rewrite E1, E2. reflexivity. Qed.

(* ------------------------------------------------------------------ heartbeat: the liveness test *)
Lemma expired_iff ss t : expired cfg ss t = true <-> exists p, s_lastp ss = Some p /\ (t - p > c_timeout cfg)%Z.
Proof.
  unfold expired. destruct (s_lastp ss) as [p|].
  - rewrite Z.gtb_lt. split; [intros H; exists p; split; [reflexivity | lia] | intros (p' & E & H); injection E as <-; lia].
  - split; [discriminate | intros (p & E & _); discriminate].
Qed.
(* a peer whose PONG was processed (last_ping cleared) is never found expired, whatever the time *)
Lemma not_expired_after_pong ss t : s_lastp ss = None -> expired cfg ss t = false.
Proof. intros H. unfold expired. rewrite H. reflexivity. Qed.
(* within ping_timeout of the PING the peer is not expired; the deadline itself is still inside *)
Lemma not_expired_within ss t p : s_lastp ss = Some p -> (t <= p + c_timeout cfg)%Z -> expired cfg ss t = false.
Proof. intros H L. unfold expired. rewrite H. rewrite Z.gtb_ltb. apply Z.ltb_ge. lia. Qed.
Lemma expired_after ss t p : s_lastp ss = Some p -> (t > p + c_timeout cfg)%Z -> expired cfg ss t = true.
Proof. intros H L. apply expired_iff. exists p. split; [exact H | lia]. Qed.

(* ------------------------------------------------------------------ what a step can emit *)
Definition outs_all {A} (P : out -> Prop) (m : M A) : Prop := forall s, Forall P (outof (m s)).

Lemma oa_ret {A} (P : out -> Prop) (a : A) : outs_all P (ret a).
Proof. intros s. constructor. Qed.
Lemma oa_bind {A B} (P : out -> Prop) (m : M A) (f : A -> M B) : outs_all P m -> (forall a, outs_all P (f a)) -> outs_all P (bind m f).
Proof.
  intros Hm Hf s. specialize (Hm s). unfold bind, outof in *. destruct (m s) as [[a s1] o1]. cbn in *.
  specialize (Hf a s1). unfold outof in Hf. destruct (f a s1) as [[b s2] o2]. cbn in *. apply Forall_app. auto.
Qed.
Lemma oa_emit (P : out -> Prop) o : P o -> outs_all P (emit o).
Proof. intros H s. cbn. constructor; [exact H | constructor]. Qed.
Lemma oa_silent {A} (P : out -> Prop) (m : M A) : (forall s, outof (m s) = []) -> outs_all P m.
Proof. intros H s. rewrite H. constructor. Qed.
Lemma oa_of_sf {A} (P : out -> Prop) (m : M A) : sf m -> outs_all P m.
Proof. intros H. apply oa_silent. intros s. apply H. Qed.
Lemma oa_modst (P : out -> Prop) f : outs_all P (modst f).
Proof. apply oa_silent. reflexivity. Qed.
Lemma oa_psess (P : out -> Prop) i x : outs_all P (psess i x).
Proof. apply oa_modst. Qed.
Lemma oa_gsess (P : out -> Prop) i : outs_all P (gsess i).
Proof. apply oa_silent. reflexivity. Qed.
Lemma oa_upd (P : out -> Prop) i f : outs_all P (upd i f).
Proof. unfold upd. apply oa_bind; [apply oa_gsess | intros; apply oa_psess]. Qed.

Create HintDb oa.
#[local] Hint Resolve oa_ret oa_modst oa_psess oa_gsess oa_upd : oa.
Ltac oa_go :=
  repeat first
    [ apply oa_ret
    | solve [ auto with oa ]
    | solve [ apply oa_of_sf; auto with sf ]
    | apply oa_emit; exact I
    | apply oa_bind; [ | intros ]
    | match goal with
      | |- outs_all _ (match ?x with _ => _ end) => destruct x
      | |- outs_all _ (if ?x then _ else _) => destruct x
      end ].

(* not a message event *)
Definition not_msg (o : out) : Prop := match o with OEvent _ (EMessage _) => False | _ => True end.
(* not an application event at all *)
Definition not_event (o : out) : Prop := match o with OEvent _ _ => False | _ => True end.

Lemma oa_q_put (P : out -> Prop) i x : outs_all P (q_put i x).
Proof. unfold q_put. oa_go. Qed.
#[local] Hint Resolve oa_q_put : oa.
Lemma oa_close_nowait i abort r : outs_all not_msg (close_nowait cfg i abort r).
Proof. unfold close_nowait, begin_close. oa_go. Qed.
#[local] Hint Resolve oa_close_nowait : oa.
Lemma oa_refuse_and_end i : outs_all not_msg (refuse_and_end cfg i).
Proof. unfold refuse_and_end. oa_go. Qed.
Lemma oa_answer (P : out -> Prop) me r x : P (OResp r x) -> outs_all P (answer me r x).
Proof. intros H. unfold answer. apply oa_bind; [apply oa_emit; exact H | intros; apply oa_of_sf; auto with sf]. Qed.
#[local] Hint Resolve oa_refuse_and_end : oa.
Lemma oa_get_socket (P : out -> Prop) i : outs_all P (get_socket i).
Proof. unfold get_socket. oa_go. Qed.
#[local] Hint Resolve oa_get_socket : oa.
Lemma oa_lookup_view (P : out -> Prop) q : outs_all P (lookup_view cfg q).
Proof. unfold lookup_view. oa_go. Qed.
#[local] Hint Resolve oa_lookup_view : oa.

(* a POST whose body is declared larger than the limit, or cannot be decoded (incl. too many packets), fires no message event *)
Lemma post_unreadable_no_message me r q : r_method q = MPost -> r_body q = BTooLong \/ r_body q = BUndecodable ->
  outs_all not_msg (handle_request cfg me r q).
Proof.
  intros M Bd. unfold handle_request. apply oa_bind; [apply oa_lookup_view|]. intros v.
  unfold decide. destruct (decide_early cfg q); [apply oa_answer; exact I|]. rewrite M.
  destruct (r_sid q) as [[i|]|]; try (apply oa_answer; exact I).
  destruct v; [|apply oa_answer; exact I].
  destruct Bd as [-> | ->]; [|apply oa_answer; exact I].
  apply oa_bind; [apply oa_refuse_and_end | intros; apply oa_answer; exact I].
Qed.

Lemma answer_out me r x s : outof (answer me r x s) = [OResp r x] /\ store (stof (answer me r x s)) = store s /\ table (stof (answer me r x s)) = table s.
Proof.
  unfold answer, bind, emit, outof, stof. cbv beta iota.
  pose proof (sf_finish me s) as (F1 & _ & F3). unfold outof, stof in F1, F3.
  assert (T : table (snd (fst (finish me s))) = table s).
  { unfold finish, bind, getst, modst. cbv beta iota. cbn [fst snd].
    assert (W : forall l s0, table (snd (fst (wake_all l s0))) = table s0).
    { induction l as [|t l IH]; intros s0; cbn [wake_all]; [reflexivity|].
      unfold bind. unfold wake at 1. unfold modst. cbv beta iota.
      destruct (alookup t (tasks s0)); [destruct (nmem t (runq s0))|]; cbn [fst snd];
        match goal with |- context [wake_all l ?z] => specialize (IH z); destruct (wake_all l z) as [[u1 s3] o3]; cbn in *; rewrite IH; reflexivity end. }
    match goal with |- context [wake_all ?l ?z] => specialize (W l z); destruct (wake_all l z) as [[u1 s3] o3]; cbn in *; rewrite W; reflexivity end. }
  destruct (finish me s) as [[u s2] o2]. cbn in *. subst. auto.
Qed.

(* a refused request emits its refusal and nothing else *)
Lemma refused_only_answers me r q s x :
  decide cfg q (valof (lookup_view cfg q s)) = DRefuse x -> outof (handle_request cfg me r q s) = [OResp r x].
Proof.
  intros D. unfold handle_request, bind.
  pose proof (oa_lookup_view (fun _ => False) q s) as L. unfold outof, valof in *.
  destruct (lookup_view cfg q s) as [[v s1] o1]. cbn [fst snd] in *.
  assert (o1 = []) as -> by (destruct o1 as [|o o1']; [reflexivity | inversion L; contradiction]).
  rewrite D. destruct (answer_out me r x s1) as (A & _). unfold outof in A.
  destruct (answer me r x s1) as [[u s2] o2]. cbn [fst snd] in *. subst. reflexivity.
Qed.

(* ------------------------------------------------------------------ dead ids are inert *)
Lemma get_socket_absent i s : nmem i (table s) = false -> get_socket i s = (false, s, []).
Proof. intros H. unfold get_socket, bind, in_table. cbn. rewrite H. reflexivity. Qed.

Lemma send_to_absent_is_noop i m s : nmem i (table s) = false -> srv_send cfg i m s = (tt, s, []).
Proof. intros H. unfold srv_send, bind. rewrite (get_socket_absent i s H). reflexivity. Qed.

(* a closed entry is reaped and the send is still a no-op on every session *)
Lemma send_to_closed_is_noop i m s ss : nmem i (table s) = true -> alookup i (store s) = Some ss -> s_closed ss = true ->
  let r := srv_send cfg i m s in stof r = set_table (nrem i (table s)) s /\ outof r = [].
Proof.
  intros T L C. unfold srv_send, get_socket, bind, in_table, gsess, del_table, modst, stof, outof. cbn. rewrite T. cbn. rewrite L, C. cbn. auto.
Qed.

(* session calls on an id that is not in the table answer KeyError and change nothing but the caller's own task *)
Lemma api_keyerror_on_absent me a i s : nmem i (table s) = false ->
  outof (run_api cfg me a (ApiGetSession (SKnown i)) s) = [OApi a AKeyError] /\
  outof (run_api cfg me a (ApiSaveSession (SKnown i) 0) s) = [OApi a AKeyError] /\
  outof (run_api cfg me a (ApiTransport (SKnown i)) s) = [OApi a AKeyError] /\
  store (stof (run_api cfg me a (ApiGetSession (SKnown i)) s)) = store s.
Proof.
  intros H. unfold run_api, known, bind, emit. rewrite (get_socket_absent i s H). cbv beta iota.
  pose proof (sf_finish me s) as (F1 & _ & F3). unfold stof, outof in *. destruct (finish me s) as [[u s2] o2]. cbn [fst snd] in *. subst. auto.
Qed.

(* ------------------------------------------------------------------ dispatch of client packets *)
Lemma receive_on_closed i p s : s_closed (cur i s) = true -> receive cfg i p s = (false, s, []).
Proof. intros C. unfold receive, bind, gsess. cbv beta iota. unfold cur in C. rewrite C. reflexivity. Qed.

Lemma receive_bad i s : s_closed (cur i s) = false -> receive cfg i CBad s = (false, s, []).
Proof. intros C. unfold receive, bind, gsess. cbv beta iota. unfold cur in C. rewrite C. reflexivity. Qed.

Lemma oa_sock_send i p : outs_all not_msg (sock_send cfg i p).
Proof. unfold sock_send. oa_go. Qed.
#[local] Hint Resolve oa_sock_send : oa.
Lemma oa_srv_send i m : outs_all not_msg (srv_send cfg i m).
Proof. unfold srv_send. oa_go. Qed.
#[local] Hint Resolve oa_srv_send : oa.

(* with synchronous handlers a MESSAGE on a live session fires exactly one message event, first, with its payload *)
Lemma receive_message_sync i payload a s : c_async_handlers cfg = false -> s_closed (cur i s) = false ->
  exists rest, outof (receive cfg i (CMsg payload a) s) = OEvent i (EMessage payload) :: rest /\ Forall not_msg rest /\
               valof (receive cfg i (CMsg payload a) s) = true.
Proof.
  intros A C. unfold receive, bind, gsess. cbv beta iota. unfold cur in C. rewrite C, A. cbv beta iota.
  unfold run_handler, bind, emit. cbv beta iota.
  destruct a.
  - exists []. unfold outof, valof, ret. cbn. auto.
  - exists []. unfold outof, valof, ret. cbn. auto.
  - pose proof (oa_srv_send i (echo_mid payload) s) as O. unfold outof in O.
    destruct (srv_send cfg i (echo_mid payload) s) as [[u s1] o1]. cbn [fst snd] in *. exists (o1 ++ []).
    unfold outof, valof, ret. cbn. rewrite !app_nil_r. auto.
  - exists [OUnsupported]. unfold outof, valof, ret. cbn. split; [reflexivity|]. split; [repeat constructor | reflexivity].
Qed.

(* packets of a body are processed in order and processing stops at the first refused one *)
Lemma receive_all_cons i p r s :
  receive_all cfg i (p :: r) s =
    (let '(ok, s1, o1) := receive cfg i p s in
     if ok then (let '(ok2, s2, o2) := receive_all cfg i r s1 in (ok2, s2, o1 ++ o2)) else (false, s1, o1 ++ [])).
Proof. cbn [receive_all]. unfold bind. destruct (receive cfg i p s) as [[ok s1] o1]. destruct ok; reflexivity. Qed.

(* ------------------------------------------------------------------ the upgrade handshake *)
Lemma ws_take_head c k f rest s : alookup c (conns s) = Some k -> k_sclosed k = false -> k_inbox k = f :: rest ->
  ws_take c s = (Some (Some f), set_conns (aset c {| k_inbox := rest; k_cclosed := k_cclosed k; k_sclosed := false; k_waiter := None |} (conns s)) s, []).
Proof.
  intros L C I. unfold ws_take, bind, gconn, pconn, modst. cbv beta iota. rewrite L. cbv beta iota. rewrite C, I. reflexivity.
Qed.

(* the flags of a session after a computation *)
Definition flags_after {A} (i : sid) (m : M A) (s : st) : bool * bool := (s_upgrading (cur i (stof (m s))), s_upgraded (cur i (stof (m s)))).

Lemma cur_frame i s s' : store s' = store s -> cur i s' = cur i s.
Proof. intros E. unfold cur. rewrite E. reflexivity. Qed.

Lemma upgrade_fail_flags me i r x s ss : alookup i (store s) = Some ss ->
  flags_after i (upgrade_fail me i r x) s = (false, s_upgraded ss).
Proof.
  intros L. unfold flags_after, upgrade_fail, bind.
  assert (U : upd i (w_upgrading false) s = (tt, set_store (aset i (w_upgrading false ss) (store s)) s, [])).
  { unfold upd, bind, gsess, psess, modst. cbv beta iota. rewrite L. reflexivity. }
  rewrite U. cbv beta iota.
  set (s1 := set_store (aset i (w_upgrading false ss) (store s)) s).
  assert (F : store (stof (ws_request_done me i r x s1)) = store s1).
  { unfold ws_request_done, bind, emit, stof. cbv beta iota.
    assert (R : forall z, store (snd (fst (reap_if_closed i z))) = store z).
    { intros z. unfold reap_if_closed, bind, in_table, gsess, del_table, modst. cbv beta iota. destruct (nmem i (table z) && _); reflexivity. }
    assert (R' : store (snd (fst ((match x with RRaised => ret tt | _ => reap_if_closed i end) s1))) = store s1) by (destruct x; try apply R; reflexivity).
    destruct ((match x with RRaised => ret tt | _ => reap_if_closed i end) s1) as [[u s2] o2]. cbn [fst snd] in *.
    pose proof (sf_finish me s2) as (F1 & _). unfold stof in F1. destruct (finish me s2) as [[u3 s3] o3]. cbn [fst snd] in *. congruence. }
  unfold stof in *. destruct (ws_request_done me i r x s1) as [[u s2] o2]. cbn [fst snd] in *.
  rewrite !(cur_frame i s1 s2 F). unfold cur, s1. cbn [store set_store]. rewrite alookup_aset_same. reflexivity.
Qed.

(* a first frame that is not PING 'probe' (and not oversize / undecodable, which raise) fails the upgrade: the session is left
   on polling, not upgraded *)
Lemma probe_wrong_frame me i r c k f rest s ss :
  alookup c (conns s) = Some k -> k_sclosed k = false -> k_inbox k = f :: rest -> alookup i (store s) = Some ss ->
  f <> FPing true ->
  flags_after i (ws_probe cfg me i r c) s = (false, s_upgraded ss).
Proof.
  intros L C I Ls NF. unfold flags_after, ws_probe, bind. rewrite (ws_take_head c k f rest s L C I). cbv beta iota.
  set (s1 := set_conns _ s).
  assert (Ls1 : alookup i (store s1) = Some ss) by exact Ls.
  destruct f as [[|]|p| |]; [exfalso; apply NF; reflexivity | | | | ];
    match goal with |- context [upgrade_fail me i r ?x s1] =>
      pose proof (upgrade_fail_flags me i r x s1 ss Ls1) as F; unfold flags_after, stof in *;
      destruct (upgrade_fail me i r x s1) as [[u s2] o2]; cbn [fst snd] in *; exact F end.
Qed.
End WithCfg.
