(* Standard base64 as used by packet.py: base64.b64encode, and CPython 3.12's non-strict binascii.a2b_base64
   (what base64.b64decode(str) runs after its ASCII check).  Transcribed from the C code's state machine and
   compared with CPython on every string of length <= 5 over a 12-symbol alphabet by the C01 check. *)
From Coq Require Import NArith List Bool.
Import ListNotations.
From EIO Require Import Sid.
Open Scope N_scope.

Definition PAD : N := 61.

Fixpoint b64encode (l : list N) : list N :=
  match l with
  | a :: b :: c :: r => enc3 a b c ++ b64encode r
  | [a; b] => [b64char (a / 4); b64char ((a mod 4) * 16 + b / 16); b64char ((b mod 16) * 4); PAD]
  | [a] => [b64char (a / 4); b64char ((a mod 4) * 16); PAD; PAD]
  | [] => []
  end.

(* inverse of the alphabet; None for every other character *)
Definition b64val (c : N) : option N :=
  if (65 <=? c) && (c <=? 90) then Some (c - 65)
  else if (97 <=? c) && (c <=? 122) then Some (c - 97 + 26)
  else if (48 <=? c) && (c <=? 57) then Some (c - 48 + 52)
  else if c =? 43 then Some 62 else if c =? 47 then Some 63 else None.

(* the decoding loop: quad = position in the current quad (0..3), left = leftover bits, pads = '=' seen since
   the last alphabet character; acc = output so far, reversed *)
Fixpoint a2b (l : list N) (quad left pads : N) (acc : list N) : option (list N) :=
  match l with
  | [] => if quad =? 0 then Some (rev acc) else None
  | c :: r =>
    if c =? PAD then
      if 2 <=? quad then
        (if 4 <=? quad + (pads + 1) then Some (rev acc)      (* padding complete: stop, the rest is ignored *)
         else a2b r quad left (pads + 1) acc)
      else a2b r quad left pads acc
    else match b64val c with
      | None => a2b r quad left pads acc                      (* characters outside the alphabet are skipped *)
      | Some v =>
        if quad =? 0 then a2b r 1 v 0 acc
        else if quad =? 1 then a2b r 2 (v mod 16) 0 ((left * 4 + v / 16) :: acc)
        else if quad =? 2 then a2b r 3 (v mod 4) 0 ((left * 16 + v / 4) :: acc)
        else a2b r 0 0 0 ((left * 64 + v) :: acc)
      end
  end.

(* base64.b64decode on a str: ASCII check over the whole string first, then the loop *)
Definition b64decode (l : list N) : option (list N) :=
  if forallb (fun c => c <? 128) l then a2b l 0 0 0 [] else None.
