(* The JSONP response body of payload.py:  ___eio[<index>]("<literal>");
   js_quote is json.dumps of a str (ensure_ascii), transcribed from json.encoder.py_encode_basestring_ascii;
   scan_lit evaluates an ECMAScript double-quoted string literal to UTF-16 code units. *)
From Coq Require Import NArith List Bool.
Import ListNotations.
From EIO Require Import Util Strings.
Open Scope N_scope.

Definition hexd (n : N) : N := if n <? 10 then 48 + n else 87 + n.     (* 0-9a-f *)
Definition hex4 (n : N) : text := [hexd (n / 4096); hexd ((n / 256) mod 16); hexd ((n / 16) mod 16); hexd (n mod 16)].
Definition esc_unit (u : N) : text := 92 :: 117 :: hex4 u.              (* \uXXXX *)

Definition quote_char (c : N) : text :=
  if c =? 34 then [92; 34] else if c =? 92 then [92; 92]
  else if c =? 10 then [92; 110] else if c =? 13 then [92; 114] else if c =? 9 then [92; 116]
  else if c =? 8 then [92; 98] else if c =? 12 then [92; 102]
  else if (32 <=? c) && (c <=? 126) then [c]
  else if c <? 65536 then esc_unit c
  else esc_unit (55296 + (c - 65536) / 1024) ++ esc_unit (56320 + (c - 65536) mod 1024).

Definition js_quote (s : text) : text := 34 :: flat_map quote_char s ++ [34].

(* the pre-fix escaping: only the double quote *)
Definition quote_char_old (c : N) : text := if c =? 34 then [92; 34] else [c].

Definition jsonp_prefix : text := [95; 95; 95; 101; 105; 111; 91].   (* ___eio[ *)
Definition jsonp_wrap (index : text) (payload : text) : text :=
  jsonp_prefix ++ index ++ [93; 40] ++ js_quote payload ++ [41; 59].               (* ]( ... ); *)
Definition jsonp_wrap_old (index : text) (payload : text) : text :=
  jsonp_prefix ++ index ++ [93; 40; 34] ++ flat_map quote_char_old payload ++ [34; 41; 59].

(* ---- the JavaScript side ---- *)
Definition utf16 (c : N) : list N :=
  if c <? 65536 then [c] else [55296 + (c - 65536) / 1024; 56320 + (c - 65536) mod 1024].

Definition unhex (c : N) : option N :=
  if (48 <=? c) && (c <=? 57) then Some (c - 48)
  else if (97 <=? c) && (c <=? 102) then Some (c - 87)
  else if (65 <=? c) && (c <=? 70) then Some (c - 55) else None.

Definition unhex4 (a b c d : N) : option N :=
  match unhex a, unhex b, unhex c, unhex d with
  | Some x, Some y, Some z, Some w => Some (((x * 16 + y) * 16 + z) * 16 + w)
  | _, _, _, _ => None
  end.

(* single-character escapes; anything else after a backslash (that is not x, u, a digit or a line terminator) is itself *)
Definition simple_escape (e : N) : option N :=
  if e =? 110 then Some 10 else if e =? 114 then Some 13 else if e =? 116 then Some 9 else if e =? 98 then Some 8
  else if e =? 102 then Some 12 else if e =? 118 then Some 11 else if e =? 48 then Some 0
  else if (e =? 120) || (e =? 117) || ((49 <=? e) && (e <=? 57)) || (e =? 10) || (e =? 13) || (e =? 8232) || (e =? 8233) then None
  else Some e.

Definition line_terminator (c : N) : bool := (c =? 10) || (c =? 13) || (c =? 8232) || (c =? 8233).

(* evaluate the characters after the opening quote up to the closing quote: (code units, rest after the quote) *)
Fixpoint scan_lit (l : text) : option (list N * text) :=
  match l with
  | [] => None                                              (* unterminated literal *)
  | c :: r =>
    if c =? 34 then Some ([], r)
    else if c =? 92 then
      match r with
      | [] => None
      | e :: r1 =>
        if e =? 117 then
          match r1 with
          | a :: b :: c' :: d :: r2 =>
            match unhex4 a b c' d, scan_lit r2 with
            | Some u, Some (us, rest) => Some (u :: us, rest)
            | _, _ => None
            end
          | _ => None
          end
        else match simple_escape e, scan_lit r1 with
             | Some u, Some (us, rest) => Some (u :: us, rest)
             | _, _ => None
             end
      end
    else if line_terminator c then None                     (* a raw line terminator ends the script line *)
    else match scan_lit r with Some (us, rest) => Some (utf16 c ++ us, rest) | None => None end
  end.

Fixpoint strip_prefix (p l : text) : option text :=
  match p, l with
  | [], _ => Some l
  | x :: p', y :: l' => if x =? y then strip_prefix p' l' else None
  | _ :: _, [] => None
  end.

Fixpoint take_index (l : text) : text * text :=       (* characters up to ']' *)
  match l with
  | [] => ([], [])
  | c :: r => if c =? 93 then ([], l) else let '(a, b) := take_index r in (c :: a, b)
  end.

(* the body is exactly one statement ___eio[<index>]("<lit>");  -> (index text, evaluated literal) *)
Definition parse_jsonp (body : text) : option (text * list N) :=
  match strip_prefix jsonp_prefix body with
  | None => None
  | Some r =>
    let '(ix, r1) := take_index r in
    match strip_prefix [93; 40; 34] r1 with
    | None => None
    | Some r2 =>
      match scan_lit r2 with
      | Some (us, rest) => if eqbl rest [41; 59] then Some (ix, us) else None
      | None => None
      end
    end
  end.
