From Coq Require Import ZArith NArith List Lia Bool.
Import ListNotations.
From EIO Require Import Util Strings Jsonp.
Open Scope N_scope.
Ltac Zify.zify_post_hook ::= Z.to_euclidean_division_equations.

Definition nibbles := map N.of_nat (seq 0 16).
Lemma nibble_in n : n < 16 -> In n nibbles.
Proof. intros H. unfold nibbles. apply in_map_iff. exists (N.to_nat n). split; [lia|]. apply in_seq. lia. Qed.
Lemma unhex_hexd_all : forallb (fun n => match unhex (hexd n) with Some m => m =? n | None => false end) nibbles = true.
Proof. vm_compute. reflexivity. Qed.
Lemma unhex_hexd n : n < 16 -> unhex (hexd n) = Some n.
Proof.
  intros H. pose proof (proj1 (forallb_forall _ _) unhex_hexd_all n (nibble_in n H)) as E. cbv beta in E.
  destruct (unhex (hexd n)); [|discriminate]. apply N.eqb_eq in E. now subst.
Qed.

Lemma unhex4_hex4 u : u < 65536 ->
  unhex4 (hexd (u / 4096)) (hexd ((u / 256) mod 16)) (hexd ((u / 16) mod 16)) (hexd (u mod 16)) = Some u.
Proof.
  intros H. unfold unhex4.
  rewrite !unhex_hexd by lia. f_equal. lia.
Qed.

Lemma scan_esc_unit u l : u < 65536 ->
  scan_lit (esc_unit u ++ l) = match scan_lit l with Some (us, rest) => Some (u :: us, rest) | None => None end.
Proof.
  intros H. unfold esc_unit, hex4. cbn [app scan_lit].
  change (92 =? 34) with false. change (92 =? 92) with true. change (117 =? 117) with true. cbv iota.
  rewrite (unhex4_hex4 u H). reflexivity.
Qed.

(* the seven two-character escapes *)
Lemma scan_simple e u l : (e =? 117) = false -> simple_escape e = Some u ->
  scan_lit (92 :: e :: l) = match scan_lit l with Some (us, rest) => Some (u :: us, rest) | None => None end.
Proof.
  intros E S. cbn [scan_lit]. change (92 =? 34) with false. change (92 =? 92) with true. cbv iota. rewrite E, S. reflexivity.
Qed.

Definition codepoint (c : N) := c < 1114112.

Lemma scan_quote_char c l : codepoint c ->
  scan_lit (quote_char c ++ l) = match scan_lit l with Some (us, rest) => Some (utf16 c ++ us, rest) | None => None end.
Proof.
  intros C. unfold quote_char.
  destruct (N.eqb_spec c 34) as [E|N34]; [subst c; cbn [app]; rewrite (scan_simple 34 34) by reflexivity; reflexivity|].
  destruct (N.eqb_spec c 92) as [E|N92]; [subst c; cbn [app]; rewrite (scan_simple 92 92) by reflexivity; reflexivity|].
  destruct (N.eqb_spec c 10) as [E|N10]; [subst c; cbn [app]; rewrite (scan_simple 110 10) by reflexivity; reflexivity|].
  destruct (N.eqb_spec c 13) as [E|N13]; [subst c; cbn [app]; rewrite (scan_simple 114 13) by reflexivity; reflexivity|].
  destruct (N.eqb_spec c 9) as [E|N9]; [subst c; cbn [app]; rewrite (scan_simple 116 9) by reflexivity; reflexivity|].
  destruct (N.eqb_spec c 8) as [E|N8]; [subst c; cbn [app]; rewrite (scan_simple 98 8) by reflexivity; reflexivity|].
  destruct (N.eqb_spec c 12) as [E|N12]; [subst c; cbn [app]; rewrite (scan_simple 102 12) by reflexivity; reflexivity|].
  destruct ((32 <=? c) && (c <=? 126)) eqn:P.
  - (* printable ASCII other than quote and backslash: itself *)
    apply andb_true_iff in P. destruct P as [P1 P2]. apply N.leb_le in P1. apply N.leb_le in P2.
    cbn [app scan_lit].
    apply N.eqb_neq in N34. apply N.eqb_neq in N92. rewrite N34, N92.
    assert (LT : line_terminator c = false).
    { unfold line_terminator. apply N.eqb_neq in N10. apply N.eqb_neq in N13. rewrite N10, N13.
      destruct (N.eqb_spec c 8232); [lia|]. destruct (N.eqb_spec c 8233); [lia|]. reflexivity. }
    rewrite LT. reflexivity.
  - destruct (N.ltb_spec c 65536) as [B|B].
    + rewrite scan_esc_unit by exact B. unfold utf16. destruct (N.ltb_spec c 65536); [reflexivity | lia].
    + unfold codepoint in C.
      rewrite <- app_assoc. rewrite scan_esc_unit by lia. rewrite scan_esc_unit by lia.
      unfold utf16. destruct (N.ltb_spec c 65536); [lia|].
      destruct (scan_lit l) as [[us rest]|]; reflexivity.
Qed.

Lemma scan_quoted s : forall l, Forall codepoint s ->
  scan_lit (flat_map quote_char s ++ 34 :: l) = Some (flat_map utf16 s, l).
Proof.
  induction s as [|c r IH]; intros l F.
  - reflexivity.
  - inversion F as [|? ? Hc Hr]; subst. cbn [flat_map]. rewrite <- app_assoc.
    rewrite scan_quote_char by exact Hc. rewrite (IH l Hr). reflexivity.
Qed.

Lemma strip_prefix_app p l : strip_prefix p (p ++ l) = Some l.
Proof. induction p as [|x p IH]; [reflexivity|]. cbn. rewrite N.eqb_refl. exact IH. Qed.

Lemma take_index_app ix l : ~ In 93 ix -> take_index (ix ++ 93 :: l) = (ix, 93 :: l).
Proof.
  induction ix as [|c r IH]; intros H.
  - reflexivity.
  - cbn [app take_index]. destruct (N.eqb_spec c 93) as [->|_]; [exfalso; apply H; left; reflexivity|].
    rewrite IH; [reflexivity | intros X; apply H; right; exact X].
Qed.

Theorem jsonp_complete index payload : ~ In 93 index -> Forall codepoint payload ->
  parse_jsonp (jsonp_wrap index payload) = Some (index, flat_map utf16 payload).
Proof.
  intros I F. unfold parse_jsonp, jsonp_wrap.
  rewrite strip_prefix_app.
  change (index ++ [93; 40] ++ js_quote payload ++ [41; 59]) with (index ++ 93 :: ([40] ++ js_quote payload ++ [41; 59])).
  rewrite take_index_app by exact I.
  unfold js_quote. cbn [app strip_prefix]. rewrite !N.eqb_refl.
  rewrite <- app_assoc. cbn [app].
  rewrite scan_quoted by exact F. cbn. reflexivity.
Qed.

(* the body is printable ASCII only, whatever the payload contains *)
Lemma quote_char_ascii c : codepoint c -> Forall (fun x => 32 <= x <= 126) (quote_char c).
Proof.
  intros C. unfold quote_char.
  repeat match goal with |- context [if ?a =? ?b then _ else _] => destruct (N.eqb_spec a b); [repeat constructor; lia|] end.
  destruct ((32 <=? c) && (c <=? 126)) eqn:P.
  - apply andb_true_iff in P. destruct P as [P1 P2]. apply N.leb_le in P1. apply N.leb_le in P2. repeat constructor; lia.
  - assert (HD : forall n, n < 16 -> 32 <= hexd n <= 126).
    { intros m Hm. unfold hexd. destruct (N.ltb_spec m 10); lia. }
    assert (EU : forall u, u < 65536 -> Forall (fun x => 32 <= x <= 126) (esc_unit u)).
    { intros u Hu. unfold esc_unit, hex4. repeat constructor; try lia; apply HD; lia. }
    unfold codepoint in C.
    destruct (N.ltb_spec c 65536); [apply EU; assumption|].
    apply Forall_app. split; apply EU; lia.
Qed.

(* the pre-fix escaping is not a complete statement for a payload containing a backslash *)
Lemma jsonp_old_refuted : parse_jsonp (jsonp_wrap_old [49] [52; 92]) = None.
Proof. vm_compute. reflexivity. Qed.
