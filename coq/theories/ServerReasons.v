(* Why a session ended (C05): the reason carried by a disconnect event is determined by what emitted it.
     - 'client disconnect'  only while a CLOSE packet of that client is being handled;
     - 'ping timeout'       only by the liveness test (a send or the monitor), and only when the test fails;
     - 'transport close'    only by the epilogue of a WebSocket handler;
     - 'transport error'    only by a long poll whose wait ended without a packet;
     - 'server disconnect'  only by the application's disconnect() and by the refusal of a request.
   A logic of output shapes: `emits P m` = every output of m, from any state, satisfies P. *)
From Coq Require Import ZArith NArith List Bool.
Import ListNotations.
From EIO Require Import Server.
Open Scope N_scope.

Definition outof {A} (r : A * st * list out) : list out := snd r.
Definition emits {A} (P : out -> Prop) (m : M A) : Prop := forall s, Forall P (outof (m s)).

Lemma emits_ret {A} P (a : A) : emits P (ret a).  Proof. intros s. constructor. Qed.
Lemma emits_getst P : emits P getst.  Proof. intros s. constructor. Qed.
Lemma emits_modst P f : emits P (modst f).  Proof. intros s. constructor. Qed.
Lemma emits_emit (P : out -> Prop) o : P o -> emits P (emit o).  Proof. intros H s. constructor; [exact H | constructor]. Qed.
Lemma emits_bind {A B} P (m : M A) (f : A -> M B) : emits P m -> (forall a, emits P (f a)) -> emits P (bind m f).
Proof.
  intros Hm Hf s. specialize (Hm s). unfold bind, outof in *. destruct (m s) as [[a s1] o1]. cbn in *.
  specialize (Hf a s1). unfold outof in Hf. destruct (f a s1) as [[b s2] o2]. cbn in *. apply Forall_app. split; assumption.
Qed.
Lemma emits_weaken {A} (P Q : out -> Prop) (m : M A) : (forall o, P o -> Q o) -> emits P m -> emits Q m.
Proof. intros H Hm s. eapply Forall_impl; [exact H | apply Hm]. Qed.

Definition among (f : reason -> bool) (o : out) : Prop := match o with OEvent _ (EDisconnect r) => f r = true | _ => True end.
Definition none_of (r : reason) : bool := false.
Definition nodisc := among none_of.
Lemma among_mono (f g : reason -> bool) o : (forall r, f r = true -> g r = true) -> among f o -> among g o.
Proof. intros H. destruct o as [| | | | | | | | |]; cbn; auto; try (destruct e; cbn; auto). Qed.

Create HintDb em discriminated.
Ltac em_step :=
  match goal with
  | |- emits _ (ret _) => apply emits_ret
  | |- emits _ getst => apply emits_getst
  | |- emits _ (modst _) => apply emits_modst
  | |- emits _ (bind _ _) => apply emits_bind; [|intros ?]
  | |- emits _ (emit _) => apply emits_emit; try first [exact I | reflexivity]
  | |- emits _ (if ?b then _ else _) => destruct b
  | |- emits _ (match ?x with _ => _ end) => destruct x
  | _ => solve [eauto with em]
  end.
Ltac em_go := repeat em_step.

Lemma nd_raw {A} (m : M A) : (forall s, outof (m s) = []) -> forall f, emits (among f) m.
Proof. intros H f s. rewrite H. constructor. Qed.
Lemma nd_gsess f i : emits (among f) (gsess i).  Proof. apply nd_raw. reflexivity. Qed.
Lemma nd_has_sess f i : emits (among f) (has_sess i).  Proof. apply nd_raw. reflexivity. Qed.
Lemma nd_gconn f c : emits (among f) (gconn c).  Proof. apply nd_raw. reflexivity. Qed.
Lemma nd_in_table f i : emits (among f) (in_table i).  Proof. apply nd_raw. reflexivity. Qed.
Lemma nd_alive f t : emits (among f) (alive t).  Proof. apply nd_raw. reflexivity. Qed.
Lemma nd_spawn f k : emits (among f) (spawn k).  Proof. apply nd_raw. reflexivity. Qed.
Lemma nd_new_timer f dt : emits (among f) (new_timer dt).  Proof. apply nd_raw. reflexivity. Qed.
Lemma nd_new_session f : emits (among f) new_session.  Proof. apply nd_raw. reflexivity. Qed.
#[export] Hint Resolve nd_gsess nd_has_sess nd_gconn nd_in_table nd_alive nd_spawn nd_new_timer nd_new_session : em.
Lemma nd_psess f i x : emits (among f) (psess i x).  Proof. apply emits_modst. Qed.
Lemma nd_upd f i g : emits (among f) (upd i g).  Proof. unfold upd. em_go. Qed.
Lemma nd_pconn f c x : emits (among f) (pconn c x).  Proof. apply emits_modst. Qed.
Lemma nd_del_table f i : emits (among f) (del_table i).  Proof. apply emits_modst. Qed.
Lemma nd_wake f t : emits (among f) (wake t).  Proof. apply emits_modst. Qed.
Lemma nd_block f me k : emits (among f) (block me k).  Proof. apply emits_modst. Qed.
Lemma nd_del_tables f l : emits (among f) (del_tables l).
Proof. induction l as [|i r IH]; cbn [del_tables]; [apply emits_ret | apply emits_bind; [apply nd_del_table | intros ?; exact IH]]. Qed.
#[export] Hint Resolve nd_psess nd_upd nd_pconn nd_del_table nd_del_tables nd_wake nd_block : em.
Lemma nd_wake_all f l : emits (among f) (wake_all l).
Proof. induction l as [|t r IH]; cbn [wake_all]; [apply emits_ret | apply emits_bind; [apply nd_wake | intros ?; exact IH]]. Qed.
#[export] Hint Resolve nd_wake_all : em.
Lemma nd_finish f me : emits (among f) (finish me).  Proof. unfold finish. em_go. Qed.
Lemma nd_q_put f i x : emits (among f) (q_put i x).  Proof. unfold q_put. em_go. Qed.
Lemma nd_q_task_done f i : emits (among f) (q_task_done i).  Proof. unfold q_task_done. em_go. Qed.
#[export] Hint Resolve nd_finish nd_q_put nd_q_task_done : em.

Definition reason_eqb (a b : reason) : bool :=
  match a, b with RServer, RServer | RClient, RClient | RPingTimeout, RPingTimeout | RTransportClose, RTransportClose | RTransportError, RTransportError => true | _, _ => false end.
Definition rin (l : list reason) (r : reason) : bool := existsb (reason_eqb r) l.
Lemma sub {A} (l l' : list reason) (m : M A) : (forall r, rin l r = true -> rin l' r = true) -> emits (among (rin l)) m -> emits (among (rin l')) m.
Proof. intros H. apply emits_weaken. intros o. apply among_mono. exact H. Qed.
Ltac sub_ok := let r := fresh in intros r; destruct r; cbn; auto.

Section WithCfg.
Variable cfg : config.

(* close(reason): at most a disconnect event with that reason *)
Lemma close_nowait_reason i abort r : emits (among (rin [r])) (close_nowait cfg i abort r).
Proof.
  unfold close_nowait, begin_close. em_go. destruct r; reflexivity.
Qed.
(* a send: the liveness test may end the session, with 'ping timeout' *)
Lemma sock_send_reason i p : emits (among (rin [RPingTimeout])) (sock_send cfg i p).
Proof. unfold sock_send. em_go. apply close_nowait_reason. Qed.
Lemma srv_send_reason i m : emits (among (rin [RPingTimeout])) (srv_send cfg i m).
Proof. unfold srv_send, get_socket. em_go. apply sock_send_reason. Qed.
Lemma close_wait_reason i r : emits (among (rin [r])) (close_wait cfg i r).
Proof. unfold close_wait. em_go. apply close_nowait_reason. Qed.
Lemma check_ping_timeout_reason i : emits (among (rin [RPingTimeout])) (check_ping_timeout cfg i).
Proof. unfold check_ping_timeout. em_go. apply close_nowait_reason. Qed.

(* ... and only when the test fails: a PING is outstanding for longer than ping_timeout *)
Lemma ping_timeout_only_if_expired i p s :
  Exists (fun o => match o with OEvent _ (EDisconnect RPingTimeout) => True | _ => False end) (outof (sock_send cfg i p s)) ->
  expired cfg (match alookup i (store s) with Some x => x | None => new_sess end) (now s) = true.
Proof.
  unfold sock_send, bind at 1, gsess. cbn [fst snd].
  set (ss := match alookup i (store s) with Some x => x | None => new_sess end).
  destruct (s_closed ss); [cbn; intros H; inversion H|].
  unfold bind at 1, getst. cbn [fst snd]. destruct (expired cfg ss (now s)) eqn:E; [reflexivity|].
  intros H. exfalso. revert H.
  assert (X : emits (among none_of) (bind (q_put i (QP p)) (fun _ => ret SSent))) by (apply emits_bind; [apply nd_q_put | intros ?; apply emits_ret]).
  specialize (X s). unfold outof in *. destruct (bind (q_put i (QP p)) (fun _ => ret SSent) s) as [[a s2] o2]. cbn [fst snd app] in *.
  intros H. apply Exists_exists in H. destruct H as (o & I1 & I2). rewrite Forall_forall in X. specialize (X o I1).
  destruct o as [| | | |j [| |[]]| | | | |]; cbn in *; try contradiction; discriminate.
Qed.

Ltac use L := eapply sub; [|apply L]; sub_ok.

Lemma run_handler_reason me bg i payload a : emits (among (rin [RPingTimeout; RServer])) (run_handler cfg me bg i payload a).
Proof.
  unfold run_handler, get_socket. em_go; try (use srv_send_reason); try (use (close_wait_reason i RServer)).
Qed.
(* one packet from the client: 'client disconnect' only for its CLOSE packet; otherwise at most what a handler or a send does *)
Lemma receive_reason i p :
  emits (among (rin (match p with CClose => [RClient] | _ => [RPingTimeout; RServer] end))) (receive cfg i p).
Proof.
  unfold receive. apply emits_bind; [apply nd_gsess|]. intros ss0. destruct (s_closed ss0); [apply emits_ret|].
  destruct p; em_go; try (use run_handler_reason); try (use sock_send_reason); try (use (close_nowait_reason i true RClient)).
Qed.
Lemma receive_reason' i p : emits (among (rin [RClient; RPingTimeout; RServer])) (receive cfg i p).
Proof. pose proof (receive_reason i p) as H. destruct p; (eapply sub; [|exact H]; sub_ok). Qed.
Lemma receive_all_reason i l : emits (among (rin [RClient; RPingTimeout; RServer])) (receive_all cfg i l).
Proof. induction l as [|p r IH]; cbn [receive_all]; em_go; try apply receive_reason'; try exact IH. Qed.

Lemma refuse_and_end_reason i : emits (among (rin [RServer])) (refuse_and_end cfg i).
Proof. unfold refuse_and_end. em_go; try apply close_nowait_reason. Qed.
Lemma nd_reap_if_closed f i : emits (among f) (reap_if_closed i).
Proof. unfold reap_if_closed. em_go. Qed.
#[local] Hint Resolve nd_reap_if_closed : em.

Lemma nd_drain f fuel : forall i acc, emits (among f) (drain fuel i acc).
Proof. induction fuel as [|n IH]; intros i acc; cbn [drain]; em_go; try apply IH. Qed.
Lemma nd_poll_attempt f me tout i k t : emits (among f) (poll_attempt cfg me tout i k t).
Proof. unfold poll_attempt. em_go; try apply nd_drain. Qed.
Lemma nd_poll_start f me i k : emits (among f) (poll_start cfg me i k).
Proof. unfold poll_start. em_go; try apply nd_poll_attempt. Qed.
#[local] Hint Resolve nd_poll_attempt nd_poll_start : em.

(* a long poll that ends without a packet: 'transport error' (and the session is ended) *)
Lemma finish_get_reason me i r p : emits (among (rin (match p with PEmpty => [RTransportError; RServer] | _ => [] end))) (finish_get cfg me i r p).
Proof.
  destruct p; cbn [finish_get]; em_go.
  - use (close_nowait_reason i false RTransportError).
  - use refuse_and_end_reason.
Qed.

Lemma nd_ws_send_all f c l : emits (among f) (ws_send_all c l).
Proof. induction l as [|p r IH]; cbn [ws_send_all]; em_go; try exact IH. Qed.
Lemma nd_ws_close f c : emits (among f) (ws_close c).
Proof. unfold ws_close. em_go. Qed.
#[local] Hint Resolve nd_ws_send_all nd_ws_close : em.
Lemma nd_writer_loop f fuel : forall me i c rd first, emits (among f) (writer_loop cfg fuel me i c rd first).
Proof.
  induction fuel as [|n IH]; intros me i c rd first; destruct first as [| |[|p l]]; cbn [writer_loop]; unfold writer_exit; em_go; try apply IH.
Qed.

Lemma nd_ws_take f c : emits (among f) (ws_take c).  Proof. unfold ws_take. em_go. Qed.
Lemma nd_ws_block f me c k : emits (among f) (ws_block me c k).  Proof. unfold ws_block. em_go. Qed.
#[local] Hint Resolve nd_ws_take nd_ws_block : em.

Definition WS := [RClient; RPingTimeout; RServer; RTransportClose].
Lemma ws_epilogue_end_reason me i r : emits (among (rin [RTransportClose])) (ws_epilogue_end cfg me i r).
Proof. unfold ws_epilogue_end, ws_request_done. em_go; try apply close_nowait_reason. Qed.
Lemma ws_epilogue_reason me i r c w fresh : emits (among (rin [RTransportClose])) (ws_epilogue cfg me i r c w fresh).
Proof. unfold ws_epilogue. em_go; try apply ws_epilogue_end_reason. Qed.
Lemma ws_read_loop_reason fuel : forall me i r c w fresh, emits (among (rin WS)) (ws_read_loop cfg fuel me i r c w fresh).
Proof.
  induction fuel as [|n IH]; intros me i r c w fresh; cbn [ws_read_loop]; em_go; try apply IH;
    try (use (ws_epilogue_reason me i r c w fresh)); try (use receive_reason').
Qed.
Lemma ws_steady_reason me i r c fresh : emits (among (rin WS)) (ws_steady cfg me i r c fresh).
Proof. unfold ws_steady. em_go; try apply ws_read_loop_reason. Qed.
Lemma nd_upgrade_fail f me i r x : emits (among f) (upgrade_fail me i r x).
Proof. unfold upgrade_fail, ws_request_done. em_go. Qed.
#[local] Hint Resolve nd_upgrade_fail : em.
Lemma ws_upgr_reason me i r c : emits (among (rin WS)) (ws_upgr cfg me i r c).
Proof. unfold ws_upgr. em_go; apply ws_steady_reason. Qed.
Lemma ws_probe_reason me i r c : emits (among (rin WS)) (ws_probe cfg me i r c).
Proof. unfold ws_probe. em_go; apply ws_upgr_reason. Qed.

Lemma ping_fire_reason me i : emits (among (rin [RPingTimeout])) (ping_fire cfg me i).
Proof. unfold ping_fire. em_go; try apply sock_send_reason. Qed.
Lemma svc_continue_reason fuel : forall me rest interval, emits (among (rin [RPingTimeout])) (svc_continue cfg fuel me rest interval).
Proof.
  induction fuel as [|n IH]; intros me rest interval; destruct rest as [|i r]; cbn [svc_continue]; em_go; try apply check_ping_timeout_reason; try apply IH.
Qed.
Lemma disc_seq_reason fuel : forall me a l, emits (among (rin [RServer])) (disc_seq cfg fuel me a l).
Proof.
  induction fuel as [|n IH]; intros me a l; destruct l as [|i r]; cbn [disc_seq]; em_go; try apply (close_wait_reason i RServer); try apply IH.
Qed.

(* which reasons a step of a task of each kind can give *)
Definition reasons_of (k : task) : list reason :=
  match k with
  | TPoll _ (PKGet _) _ => [RTransportError; RServer]
  | TPoll _ (PKWriter _ _) _ | TWriterStart _ _ _ => []
  | TWsProbe _ _ _ | TWsUpgr _ _ _ | TWsRead _ _ _ _ _ _ => WS
  | TWsJoinW _ _ _ _ _ => [RTransportClose]
  | TJoin _ _ | TCloseOne _ _ => [RServer]
  | TPingStart _ | TWaitAll _ _ _ => []
  | TPing _ _ | TSvcStart | TSvcIdle _ | TSvcVisit _ _ _ => [RPingTimeout]
  | THandler _ _ _ => [RPingTimeout; RServer]
  end.

Theorem task_reasons me e s : Forall (among (rin (reasons_of (t_task e)))) (outof (run_task cfg me e s)).
Proof.
  revert s. change (emits (among (rin (reasons_of (t_task e)))) (run_task cfg me e)). unfold run_task.
  destruct (t_task e) as [i [r|c rd] t | i c rd | r i c | r i c | r i c w t fresh | r i c w fresh | i k | i | i t | | t | rest iv t | i payload a | i parent | a pend]; cbn [reasons_of].
  - apply emits_bind; [apply nd_poll_attempt|]. intros p. pose proof (finish_get_reason me i r p) as H. destruct p; (eapply sub; [|exact H]; sub_ok).
  - em_go. apply nd_writer_loop.
  - em_go. apply nd_writer_loop.
  - apply ws_probe_reason.
  - apply ws_upgr_reason.
  - em_go; [use (ws_epilogue_reason me i r c w fresh) | apply ws_read_loop_reason].
  - apply ws_epilogue_end_reason.
  - em_go. apply disc_seq_reason.
  - em_go.
  - apply ping_fire_reason.
  - apply svc_continue_reason.
  - apply svc_continue_reason.
  - apply svc_continue_reason.
  - em_go. apply run_handler_reason.
  - em_go. apply (close_wait_reason i RServer).
  - em_go.
Qed.

(* a request on arrival: a refused one ends nothing except, for a body that cannot be taken, the session it names (as the server);
   'client disconnect' only through a CLOSE packet in a POST body or a frame; never 'transport error' *)
Lemma nd_answer f me r x : emits (among f) (answer me r x).  Proof. unfold answer. em_go. Qed.
Lemma nd_get_socket f i : emits (among f) (get_socket i).  Proof. unfold get_socket. em_go. Qed.
#[local] Hint Resolve nd_get_socket : em.
Lemma nd_lookup_view f q : emits (among f) (lookup_view cfg q).
Proof. unfold lookup_view. destruct (decide_early cfg q); [apply emits_ret|]. destruct (r_sid q) as [[i|]|]; try apply emits_ret. em_go. Qed.
#[local] Hint Resolve nd_answer nd_lookup_view : em.
Lemma ws_begin_reason me i r c : emits (among (rin WS)) (ws_begin cfg me i r c).
Proof. unfold ws_begin. em_go; try apply ws_probe_reason; try apply ws_steady_reason. Qed.
Lemma handle_connect_reason me r q : emits (among (rin WS)) (handle_connect cfg me r q).
Proof.
  unfold handle_connect. em_go; try (use sock_send_reason); try (use srv_send_reason); try apply ws_begin_reason.
Qed.

Definition valof {A} (r : A * st * list out) : A := fst (fst r).
Lemma emits_bind_v {A B} P (Q : A -> Prop) (m : M A) (f : A -> M B) :
  emits P m -> (forall s, Q (valof (m s))) -> (forall a, Q a -> emits P (f a)) -> emits P (bind m f).
Proof.
  intros Hm Hq Hf s. specialize (Hm s). specialize (Hq s). unfold bind, outof, valof in *. destruct (m s) as [[a s1] o1]. cbn in *.
  specialize (Hf a Hq s1). unfold outof in Hf. destruct (f a s1) as [[b s2] o2]. cbn in *. apply Forall_app. split; assumption.
Qed.
(* a poll that has only just started cannot have timed out *)
Definition returns {A} (Q : A -> Prop) (m : M A) : Prop := forall s, Q (valof (m s)).
Lemma returns_bind {A B} (Q : B -> Prop) (m : M A) (f : A -> M B) : (forall a, returns Q (f a)) -> returns Q (bind m f).
Proof. intros Hf s. unfold bind, valof. destruct (m s) as [[a s1] o1]. specialize (Hf a s1). unfold valof in Hf. destruct (f a s1) as [[b s2] o2]. exact Hf. Qed.
Lemma returns_ret {A} (Q : A -> Prop) a : Q a -> returns Q (ret a).
Proof. intros H s. exact H. Qed.
Lemma poll_start_not_empty me i k s : valof (poll_start cfg me i k s) <> PEmpty.
Proof.
  revert s. change (returns (fun p => p <> PEmpty) (poll_start cfg me i k)). unfold poll_start. apply returns_bind. intros t.
  unfold poll_attempt. apply returns_bind. intros ss. cbn [andb].
  destruct (s_q ss) as [|[p|] r].
  - apply returns_bind. intros ?. apply returns_bind. intros ?. apply returns_ret. discriminate.
  - apply returns_bind. intros ?. apply returns_bind. intros ?. apply returns_bind. intros l. apply returns_ret. discriminate.
  - apply returns_bind. intros ?. apply returns_bind. intros ?. apply returns_ret. discriminate.
Qed.

(* a request on arrival: never 'transport error'; 'client disconnect' only through a CLOSE packet in its body or, on a WebSocket
   it opens, in a frame; a refused request ends at most the session it names, as the server *)
Theorem request_reasons me r q s : Forall (among (rin WS)) (outof (handle_request cfg me r q s)).
Proof.
  revert s. change (emits (among (rin WS)) (handle_request cfg me r q)). unfold handle_request.
  apply emits_bind; [apply nd_lookup_view|]. intros v.
  destruct (decide cfg q v) as [x| | |i|i|i|i]; try (em_go; fail); try apply handle_connect_reason.
  - destruct (r_conn q); [apply ws_begin_reason | em_go].
  - apply (emits_bind_v _ (fun p => p <> PEmpty)); [apply nd_poll_start | intros s; apply poll_start_not_empty|].
    intros p NE. pose proof (finish_get_reason me i r p) as H. destruct p; [|contradiction NE; reflexivity|]; (eapply sub; [|exact H]; sub_ok).
  - destruct (r_body q); em_go; try (use refuse_and_end_reason); try (use receive_all_reason).
Qed.

(* an application call: send() may find the peer dead ('ping timeout'), disconnect() ends sessions as the server, the others end nothing *)
Lemma nd_spawn_closers f me l : emits (among f) (spawn_closers me l).
Proof. induction l as [|i r IH]; cbn [spawn_closers]; em_go; try exact IH. Qed.
Theorem api_reasons me a x s :
  Forall (among (rin (match x with ApiSend _ _ => [RPingTimeout] | ApiDisconnect _ => [RServer] | _ => [] end))) (outof (run_api cfg me a x s)).
Proof.
  revert s. change (emits (among (rin (match x with ApiSend _ _ => [RPingTimeout] | ApiDisconnect _ => [RServer] | _ => [] end))) (run_api cfg me a x)).
  destruct x as [ref m|[ref|]|ref|ref|ref u]; cbn [run_api]; unfold get_socket; em_go;
    try apply srv_send_reason; try apply (close_wait_reason _ RServer); try apply nd_spawn_closers; try apply disc_seq_reason.
Qed.
End WithCfg.
