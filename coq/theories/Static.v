(* static_files.py: get_static_file; middleware.py: WSGIApp routing; async_drivers/asgi.py: ASGIApp routing and the
   lifespan protocol.  os.path.exists is an oracle. *)
From Coq Require Import NArith List Bool.
Import ListNotations.
From EIO Require Import Util Strings.
Open Scope N_scope.

Inductive entry := EStr (f : text) | EDict (f : text) (ct : option text).
Definition smap := list (text * entry).       (* the static_files dict: keys are unique *)

Fixpoint lookup_e (k : text) (m : smap) : option entry :=
  match m with [] => None | (k', e) :: r => if eqbl k k' then Some e else lookup_e k r end.

Definition SLASH : N := 47.
(* path.rpartition('/'): (before the last slash, after it); no slash: ("", path) *)
Fixpoint rsplit1 (l : text) : option (text * text) :=
  match l with
  | [] => None
  | c :: r => match rsplit1 r with
              | Some (a, b) => Some (c :: a, b)
              | None => if c =? SLASH then Some ([], r) else None
              end
  end.
Definition rpartition (p : text) : text * text := match rsplit1 p with Some x => x | None => ([], p) end.

(* the while loop: strip the last segment until a mapping key (with or without trailing slash) is found *)
Fixpoint find_map (fuel : nat) (path extra : text) (m : smap) : option (entry * text) :=
  match fuel with
  | O => None
  | S f =>
    match path with
    | [] => None
    | _ =>
      let '(p', last) := rpartition path in
      let extra' := SLASH :: last ++ extra in
      match lookup_e p' m with
      | Some e => Some (e, extra')
      | None => match lookup_e (p' ++ [SLASH]) m with
                | Some e => Some (e, extra')
                | None => find_map f p' extra' m
                end
      end
    end
  end.

Definition efile (e : entry) : text := match e with EStr f => f | EDict f _ => f end.
Definition ectype (e : entry) : option text := match e with EStr _ => None | EDict _ c => c end.
Definition truthy_entry (e : entry) : bool := match e with EStr [] => false | _ => true end.
Definition ends_slash (s : text) : bool := match rev s with c :: _ => c =? SLASH | [] => false end.
Definition starts_slash (s : text) : bool := match s with c :: _ => c =? SLASH | [] => false end.
Definition DOTDOT : text := [46; 46].
Definition has_dotdot (s : text) : bool := mem DOTDOT (split_on SLASH s).

Definition index_html : text := [105; 110; 100; 101; 120; 46; 104; 116; 109; 108].
(* filename.rsplit('.')[-1] *)
Definition ext_of (s : text) : text := last (split_on 46 s) [].

Definition T (s : list N) := s.
Definition ctype_of_ext (x : text) : text :=
  if eqbl x [99;115;115] then [116;101;120;116;47;99;115;115]                                  (* css  -> text/css *)
  else if eqbl x [103;105;102] then [105;109;97;103;101;47;103;105;102]                        (* gif  -> image/gif *)
  else if eqbl x [104;116;109;108] then [116;101;120;116;47;104;116;109;108]                   (* html -> text/html *)
  else if eqbl x [106;112;103] then [105;109;97;103;101;47;106;112;101;103]                    (* jpg  -> image/jpeg *)
  else if eqbl x [106;115] then [97;112;112;108;105;99;97;116;105;111;110;47;106;97;118;97;115;99;114;105;112;116]   (* js *)
  else if eqbl x [106;115;111;110] then [97;112;112;108;105;99;97;116;105;111;110;47;106;115;111;110]               (* json *)
  else if eqbl x [112;110;103] then [105;109;97;103;101;47;112;110;103]                        (* png *)
  else if eqbl x [116;120;116] then [116;101;120;116;47;112;108;97;105;110]                    (* txt -> text/plain *)
  else [97;112;112;108;105;99;97;116;105;111;110;47;111;99;116;101;116;45;115;116;114;101;97;109].   (* application/octet-stream *)

(* get_static_file: (filename, content type) or None *)
Definition get_static_file (path : text) (m : smap) : option (text * text) :=
  let found := match lookup_e path m with
               | Some e => Some (e, [])
               | None => find_map (length path) path [] m
               end in
  match found with
  | None => None
  | Some (e, extra) =>
    if negb (truthy_entry e) || has_dotdot extra then None
    else
      let extra1 := if ends_slash (efile e) && starts_slash extra then tl extra else extra in
      let fn1 := efile e ++ extra1 in
      let '(fn2, ct2) :=
        if ends_slash fn1 then
          match lookup_e [] m with
          | Some d => (fn1 ++ efile d, match ectype d with Some c => Some c | None => ectype e end)
          | None => (fn1 ++ index_html, ectype e)
          end
        else (fn1, ectype e) in
      Some (fn2, match ct2 with Some c => c | None => ctype_of_ext (ext_of fn2) end)
  end.

(* ---- routing ---- *)
Inductive target := Engine | File (fn ct : text) | Other | NotFound.

Fixpoint is_prefix (p l : text) : bool :=
  match p, l with [] , _ => true | x :: p', y :: l' => (x =? y) && is_prefix p' l' | _ :: _, [] => false end.

(* engineio_path normalisation of both middlewares: leading and trailing slash *)
Definition norm_endpoint (p : text) : text :=
  let p1 := if starts_slash p then p else SLASH :: p in if ends_slash p1 then p1 else p1 ++ [SLASH].

Section Route.
  Variable exists_ : text -> bool.          (* os.path.exists *)

  Definition static_or_other (path : text) (m : smap) (has_other : bool) : target :=
    match (match m with [] => None | _ => get_static_file path m end) with
    | Some (fn, ct) => if exists_ fn then File fn ct else if has_other then Other else NotFound
    | None => if has_other then Other else NotFound
    end.

  (* WSGIApp.__call__ *)
  Definition route_wsgi (endpoint : text) (m : smap) (has_other : bool) (path : text) : target :=
    if is_prefix (norm_endpoint endpoint) path then Engine else static_or_other path m has_other.

  (* ASGIApp.__call__ for http / websocket scopes; endpoint None = everything goes to the engine.
     The path is given a trailing slash before the prefix test; static files only for http *)
  Definition route_asgi (endpoint : option text) (m : smap) (has_other : bool) (is_http : bool) (path : text) : target :=
    match endpoint with
    | None => Engine
    | Some ep =>
      if is_prefix (norm_endpoint ep) (if ends_slash path then path else path ++ [SLASH]) then Engine
      else if is_http then static_or_other path m has_other
      else if has_other then Other else NotFound
    end.
End Route.

(* ---- ASGI lifespan ---- *)
Inductive lev := LStartup | LShutdown | LUnknown.
Inductive lout := StartupComplete | StartupFailed | ShutdownComplete | ShutdownFailed | Delegated.
(* callbacks: None = not configured, Some true = runs fine, Some false = raises *)
Fixpoint lifespan_loop (on_start on_stop : option bool) (evs : list lev) : list lout :=
  match evs with
  | [] => []
  | LStartup :: r => match on_start with Some false => [StartupFailed] | _ => StartupComplete :: lifespan_loop on_start on_stop r end
  | LShutdown :: r => match on_stop with Some false => [ShutdownFailed] | _ => [ShutdownComplete] end
  | LUnknown :: r => lifespan_loop on_start on_stop r
  end.
Definition lifespan (has_other : bool) (on_start on_stop : option bool) (evs : list lev) : list lout :=
  match has_other, on_start, on_stop with
  | true, None, None => [Delegated]
  | _, _, _ => lifespan_loop on_start on_stop evs
  end.
