(* Corollaries of the global invariant (ServerInv.reachable_inv), in the form the property files quote them. *)
From Coq Require Import ZArith NArith List Bool Lia Arith.
Import ListNotations.
From EIO Require Import Packet Payload PayloadProofs Server ServerInv ServerProofs.
Open Scope N_scope.

Lemma conservation cfg ops :
  let '(s, acc) := run_sched cfg ops (init cfg) [] in
  forall i ss, alookup i (store s) = Some ss -> s_accepted ss = s_taken ss ++ mids_of (s_q ss).
Proof.
  pose proof (reachable_inv cfg ops) as R. destruct (run_sched cfg ops (init cfg) []) as [s acc].
  intros i ss L. destruct R as [I1 _]. exact (proj1 (proj1 (proj2 (I1 i ss L)))).
Qed.

Lemma nodup_app_split {A} (a b : list A) : NoDup (a ++ b) -> NoDup a /\ (forall m, In m a -> ~ In m b).
Proof.
  induction a as [|x a IH]; cbn; intros ND; [split; [constructor | intros m []]|].
  inversion ND as [|? ? NI ND']; subst. destruct (IH ND') as [N1 N2]. split.
  - constructor; [intros X; apply NI; apply in_or_app; left; exact X | exact N1].
  - intros m [->|I] Ib; [apply NI; apply in_or_app; right; exact Ib | exact (N2 m I Ib)].
Qed.

Lemma at_most_once cfg ops :
  let '(s, acc) := run_sched cfg ops (init cfg) [] in
  forall i ss, alookup i (store s) = Some ss -> NoDup (s_accepted ss) ->
    NoDup (s_taken ss) /\ (forall m, In m (s_taken ss) -> ~ In m (mids_of (s_q ss))).
Proof.
  pose proof (conservation cfg ops) as C. destruct (run_sched cfg ops (init cfg) []) as [s acc].
  intros i ss L ND. rewrite (C i ss L) in ND. exact (nodup_app_split _ _ ND).
Qed.

Lemma in_order cfg ops :
  let '(s, acc) := run_sched cfg ops (init cfg) [] in
  forall i ss, alookup i (store s) = Some ss -> exists rest, s_accepted ss = s_taken ss ++ rest.
Proof.
  pose proof (conservation cfg ops) as C. destruct (run_sched cfg ops (init cfg) []) as [s acc].
  intros i ss L. eexists. exact (C i ss L).
Qed.

Lemma disconnect_once cfg ops i :
  let '(s, acc) := run_sched cfg ops (init cfg) [] in (count_disc i acc <= 1)%nat.
Proof.
  pose proof (reachable_inv cfg ops) as R. destruct (run_sched cfg ops (init cfg) []) as [s acc].
  destruct R as [I1 I2]. destruct (alookup i (store s)) as [ss|] eqn:L.
  - exact (proj1 (proj2 (proj2 (I1 i ss L)))).
  - rewrite (I2 i L). lia.
Qed.

Lemma disconnect_only_when_closing cfg ops :
  let '(s, acc) := run_sched cfg ops (init cfg) [] in
  forall i ss, alookup i (store s) = Some ss ->
    (s_closing ss = false -> count_disc i acc = 0%nat) /\ (s_closed ss = true -> s_closing ss = true).
Proof.
  pose proof (reachable_inv cfg ops) as R. destruct (run_sched cfg ops (init cfg) []) as [s acc].
  intros i ss L. destruct R as [I1 _]. destruct (I1 i ss L) as (_ & G & _ & D). exact (conj D (proj2 G)).
Qed.

Lemma ids_never_reused cfg ops :
  let '(s, acc) := run_sched cfg ops (init cfg) [] in forall i ss, alookup i (store s) = Some ss -> i < nsid s.
Proof.
  pose proof (reachable_inv cfg ops) as R. destruct (run_sched cfg ops (init cfg) []) as [s acc].
  intros i ss L. destruct R as [I1 _]. exact (proj1 (I1 i ss L)).
Qed.

Lemma forall2_len {A B} (R : A -> B -> Prop) l l' : Forall2 R l l' -> length l = length l'.
Proof. induction 1; cbn; congruence. Qed.

Lemma decoded_within_limit J jkind loads digit form_d limit body l :
  payload_decode J jkind loads digit form_d limit body = POk l -> (length l <= limit)%nat.
Proof.
  intros H.
  destruct (proj1 (all_or_nothing J jkind loads digit form_d limit body) l H) as [[_ ->] | (b & _ & L & F)]; [cbn; lia|].
  rewrite <- (forall2_len _ _ _ F). exact L.
Qed.

Close Scope N_scope.
Open Scope Z_scope.
Lemma deadline_exact (cfg : config) (ss : sess) (t p : Z) : s_lastp ss = Some p ->
  (t <= p + c_timeout cfg -> expired cfg ss t = false) /\ (t > p + c_timeout cfg -> expired cfg ss t = true).
Proof. intros H. exact (conj (not_expired_within cfg ss t p H) (expired_after cfg ss t p H)). Qed.
