From Coq Require Import ZArith NArith List Bool.
Import ListNotations.
From EIO Require Import Util Strings Open.
Open Scope Z_scope.
(* (configuration, opened on websocket?, what the OPEN packet said: upgrades non-empty, pingTimeout, pingInterval, maxPayload) *)
Definition check_open (c : ocfg * bool * (bool * Z * Z * Z)) : bool :=
  let '(cfg, ws, (u, pt, pi, mp)) := c in
  let o := open_packet cfg ws in
  Bool.eqb (oi_upgrades o) u && Z.eqb (oi_ping_timeout o) pt && Z.eqb (oi_ping_interval o) pi && Z.eqb (oi_max_payload o) mp.
Definition check_cookie (c : cookie_cfg * text * option text) : bool :=
  let '(cfg, sid, h) := c in eqb_opt eqbl (cookie_header cfg sid) h.
