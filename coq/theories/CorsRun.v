(* executable comparison helpers for the C13 correspondence *)
From Coq Require Import NArith List Bool.
Import ListNotations.
From EIO Require Import Util Strings Cors.
Definition hdr_eqb (a b : hdr) : bool :=
  match a, b with
  | ACAO x, ACAO y => eqbl x y | ACAM, ACAM => true | ACAH x, ACAH y => eqbl x y | ACAC, ACAC => true | _, _ => false
  end.
Definition check_cors (c : cors_cfg * bool * env * bool * option (list hdr)) : bool :=
  let '(cfg, cred, e, refused, hs) := c in
  Bool.eqb (gate_refuses cfg e) refused &&
  match hs with Some l => eqb_list hdr_eqb (cors_headers cfg cred e) l | None => true end.
