(* C06, for every history and every schedule: a session is marked `upgrading` only while a WebSocket handshake for it is
   actually in progress - there is a task waiting for its PING probe or for its UPGRADE packet.  So no failed, abandoned,
   cancelled or racing upgrade attempt can leave a session unable to use polling. *)
From Coq Require Import ZArith NArith List Bool Lia.
Import ListNotations.
From EIO Require Import Server ServerInv.
Open Scope N_scope.

Definition hs_for (i : sid) (k : task) : bool := match k with TWsProbe _ j _ | TWsUpgr _ j _ => N.eqb i j | _ => false end.
Definition entk (s : st) (t : tid) : option task := match alookup t (tasks s) with Some e => Some (t_task e) | None => None end.

(* what a step of task `me` leaves alone, relative to a snapshot: U over-approximates the sessions marked upgrading, K records
   the kinds of the tasks *)
Record snap := { sk : tid -> option task; se : sid -> bool }.
Record FR (me : tid) (U : sid -> bool) (K : snap) (s : st) : Prop := {
  fr_upg : forall i, s_upgrading (cur i s) = true -> U i = true;
  fr_tasks : forall t k, t <> me -> sk K t = Some k -> entk s t = Some k;     (* others' tasks stay, with their kind *)
  fr_ex : forall i, se K i = true -> alookup i (store s) <> None;             (* session records are never removed *)
  fr_fresh : forall t k, entk s t = Some k -> t < ntid s;
  fr_me : me < ntid s;
  fr_new : forall j, nsid s <= j -> U j = true;              (* sessions that do not exist yet are not constrained *)
  fr_ids : forall i, alookup i (store s) <> None -> i < nsid s;
  fr_tab : forall i, nmem i (table s) = true -> alookup i (store s) <> None;
  fr_all : forall i, i < nsid s -> alookup i (store s) <> None }.   (* ids are issued in order and records are never removed *)

Definition htF {A} (me : tid) (U : sid -> bool) (K : snap) (m : M A) (Q : A -> Prop) : Prop :=
  forall s, FR me U K s -> FR me U K (stof (m s)) /\ Q (valof (m s)).
Definition TT {A} : A -> Prop := fun _ => True.

Lemma htF_bind {A B} me U K (m : M A) (f : A -> M B) Q R : htF me U K m Q -> (forall a, Q a -> htF me U K (f a) R) -> htF me U K (bind m f) R.
Proof.
  intros Hm Hf s F. destruct (Hm s F) as [F1 Q1]. unfold bind, stof, valof in *. destruct (m s) as [[a s1] o1]. cbn [fst snd] in *.
  destruct (Hf a Q1 s1 F1) as [F2 R2]. unfold stof, valof in *. destruct (f a s1) as [[b s2] o2]. cbn [fst snd] in *. auto.
Qed.
Lemma htF_weaken {A} me U K (m : M A) (Q R : A -> Prop) : htF me U K m Q -> (forall a, Q a -> R a) -> htF me U K m R.
Proof. intros H I s F. destruct (H s F). auto. Qed.
Lemma htF_ret {A} me U K (a : A) (Q : A -> Prop) : Q a -> htF me U K (ret a) Q.
Proof. intros H s F. cbn. auto. Qed.
Definition tsub (a b : list sid) : Prop := forall i, nmem i a = true -> nmem i b = true.
Lemma htF_same {A} me U K (m : M A) :
  (forall s, store (stof (m s)) = store s /\ tasks (stof (m s)) = tasks s /\ ntid (stof (m s)) = ntid s /\ nsid (stof (m s)) = nsid s /\ tsub (table (stof (m s))) (table s)) -> htF me U K m TT.
Proof.
  intros H s [F1 F2 FX F3 F4 F5 F6 F7 F8]. destruct (H s) as (E1 & E2 & E3 & E4 & E5). split; [|exact I]. split.
  - intros i. unfold cur. rewrite E1. apply F1.
  - intros t k N X. unfold entk. rewrite E2. exact (F2 t k N X).
  - rewrite E1. exact FX.
  - intros t k. unfold entk. rewrite E2, E3. apply F3.
  - rewrite E3. exact F4.
  - rewrite E4. exact F5.
  - rewrite E1, E4. exact F6.
  - rewrite E1. intros i X. apply F7, E5, X.
  - rewrite E1, E4. exact F8.
Qed.
Lemma tsub_refl a : tsub a a.  Proof. intros i X. exact X. Qed.
#[export] Hint Resolve tsub_refl : core.
Lemma htF_getst me U K : htF me U K getst TT.  Proof. apply htF_same. intros s. cbn. auto. Qed.
Lemma htF_emit me U K o : htF me U K (emit o) TT.  Proof. apply htF_same. intros s. cbn. auto. Qed.
Lemma htF_gsess me U K i : htF me U K (gsess i) (fun ss => s_upgrading ss = true -> U i = true).
Proof. intros s F. split; [exact F|]. unfold gsess, valof. cbn. apply (fr_upg _ _ _ _ F). Qed.

Lemma cur_psess_same i x s : cur i (stof (psess i x s)) = match alookup i (store s) with Some _ => x | None => new_sess end.
Proof. unfold cur, psess, modst, stof. cbn. destruct (alookup i (store s)) eqn:L; cbn; [rewrite alookup_aset_same; reflexivity | rewrite L; reflexivity]. Qed.
Lemma cur_psess_other i j x s : j <> i -> cur j (stof (psess i x s)) = cur j s.
Proof. intros N. unfold cur, psess, modst, stof. cbn. destruct (alookup i (store s)); cbn; [rewrite alookup_aset_other by exact N|]; reflexivity. Qed.
Lemma psess_keys i x s j : alookup j (store (stof (psess i x s))) <> None <-> alookup j (store s) <> None.
Proof.
  unfold psess, modst, stof. cbn. destruct (alookup i (store s)) eqn:L; cbn; [|tauto].
  destruct (N.eq_dec j i) as [->|N]; [rewrite alookup_aset_same, L; split; intros _; discriminate | rewrite alookup_aset_other by exact N; tauto].
Qed.
Lemma htF_psess me U K i x : (s_upgrading x = true -> U i = true) -> htF me U K (psess i x) TT.
Proof.
  intros H s [F1 F2 FX F3 F4 F5 F6 F7 F8]. split; [|exact I].
  assert (T : tasks (stof (psess i x s)) = tasks s /\ ntid (stof (psess i x s)) = ntid s /\ nsid (stof (psess i x s)) = nsid s /\ table (stof (psess i x s)) = table s)
    by (unfold psess, modst, stof; cbn; destruct (alookup i (store s)); auto).
  destruct T as (T1 & T2 & T3 & T4). split.
  - intros j X. destruct (N.eq_dec j i) as [->|N]; [|rewrite cur_psess_other in X by exact N; exact (F1 j X)].
    rewrite cur_psess_same in X. destruct (alookup i (store s)); [exact (H X) | discriminate].
  - intros t k N X. unfold entk. rewrite T1. exact (F2 t k N X).
  - intros j X. apply (proj2 (psess_keys i x s j)). apply FX. exact X.
  - intros t k. unfold entk. rewrite T1, T2. apply F3.
  - rewrite T2. exact F4.
  - rewrite T3. exact F5.
  - rewrite T3. intros j X. apply F6. apply (proj1 (psess_keys i x s j)). exact X.
  - rewrite T4. intros j X. apply (proj2 (psess_keys i x s j)). apply F7. exact X.
  - rewrite T3. intros j X. apply (proj2 (psess_keys i x s j)). apply F8. exact X.
Qed.
Lemma htF_upd me U K i f : (forall x, s_upgrading (f x) = true -> s_upgrading x = true) -> htF me U K (upd i f) TT.
Proof. intros H. unfold upd. eapply htF_bind; [apply htF_gsess|]. intros ss Hs. apply htF_psess. intros X. apply Hs, H, X. Qed.

Lemma alookup_adel_other {A} k j (l : list (N * A)) : j <> k -> alookup j (adel k l) = alookup j l.
Proof.
  intros N. induction l as [|[k' v'] r IH]; cbn; [reflexivity|].
  destruct (N.eqb_spec k k') as [->|Nk]; cbn.
  - destruct (N.eqb_spec j k'); [contradiction | reflexivity].
  - destruct (N.eqb_spec j k'); [reflexivity | exact IH].
Qed.
Lemma alookup_adel_in {A} k j (l : list (N * A)) e : alookup j (adel k l) = Some e -> exists e', In (j, e') l.
Proof.
  induction l as [|[k' v'] r IH]; cbn; [discriminate|].
  destruct (N.eqb_spec k k') as [->|Nk]; cbn.
  - intros H. clear IH. induction r as [|[k2 v2] r2 IH2]; cbn in *; [discriminate|].
    destruct (N.eqb_spec j k2) as [->|]; [eexists; right; left; reflexivity|]. destruct (IH2 H) as [e' [X|X]]; [injection X as -> ->; eexists; left; reflexivity | eexists; right; right; exact X].
  - destruct (N.eqb_spec j k') as [->|]; [intros _; eexists; left; reflexivity|]. intros H. destruct (IH H) as [e' X]. eexists; right; exact X.
Qed.

Lemma htF_wake me U K t : htF me U K (wake t) TT.
Proof. apply htF_same. intros s. unfold wake, modst, stof. cbn. destruct (alookup t (tasks s)); [destruct (nmem t (runq s))|]; cbn; auto. Qed.
Lemma htF_wake_all me U K l : htF me U K (wake_all l) TT.
Proof. induction l as [|t r IH]; cbn [wake_all]; [apply htF_ret; exact I|]. eapply htF_bind; [apply htF_wake | intros ? _; exact IH]. Qed.
Lemma htF_new_timer me U K dt : htF me U K (new_timer dt) TT.  Proof. apply htF_same. intros s. cbn. auto. Qed.
Lemma htF_alive me U K t : htF me U K (alive t) TT.  Proof. apply htF_same. intros s. cbn. auto. Qed.
Lemma htF_has_sess me U K i : htF me U K (has_sess i) TT.  Proof. apply htF_same. intros s. cbn. auto. Qed.
Lemma htF_gconn me U K c : htF me U K (gconn c) TT.  Proof. apply htF_same. intros s. cbn. auto. Qed.
Lemma htF_pconn me U K c x : htF me U K (pconn c x) TT.  Proof. apply htF_same. intros s. cbn. auto. Qed.
Lemma htF_in_table me U K i : htF me U K (in_table i) TT.  Proof. apply htF_same. intros s. cbn. auto. Qed.
Lemma nmem_nrem i j l : nmem i (nrem j l) = true -> nmem i l = true.
Proof. induction l as [|x r IH]; cbn; [auto|]. destruct (N.eqb_spec j x) as [->|N]; cbn; [intros X; rewrite X; apply orb_true_r|]. destruct (N.eqb i x); cbn; auto. Qed.
Lemma htF_del_table me U K i : htF me U K (del_table i) TT.
Proof. apply htF_same. intros s. cbn. repeat split; auto. intros j X. eapply nmem_nrem. exact X. Qed.
Lemma htF_del_tables me U K l : htF me U K (del_tables l) TT.
Proof. induction l as [|i r IH]; cbn [del_tables]; [apply htF_ret; exact I|]. eapply htF_bind; [apply htF_del_table | intros ? _; exact IH]. Qed.
Lemma htF_modst_same me U K f : (forall s, store (f s) = store s /\ tasks (f s) = tasks s /\ ntid (f s) = ntid s /\ nsid (f s) = nsid s /\ tsub (table (f s)) (table s)) -> htF me U K (modst f) TT.
Proof. intros H. apply htF_same. intros s. cbn. apply H. Qed.

(* the entry of `me` may be rewritten or removed; a fresh task may be added *)
Lemma htF_block me U K k : htF me U K (block me k) TT.
Proof.
  intros s [F1 F2 FX F3 F4 F5 F6 F7 F8]. unfold block, modst, stof, valof. cbn [fst snd]. split; [|exact I]. split; [| |exact FX| | |exact F5|exact F6|exact F7|exact F8].
  - exact F1.
  - intros t k0 N X. unfold entk. cbn. rewrite alookup_aset_other by exact N. exact (F2 t k0 N X).
  - intros t k0. unfold entk. cbn. destruct (N.eq_dec t me) as [->|N]; [intros _; exact F4|]. rewrite alookup_aset_other by exact N. apply F3.
  - exact F4.
Qed.
Lemma htF_finish me U K : htF me U K (finish me) TT.
Proof.
  unfold finish. eapply htF_bind; [apply htF_getst|]. intros s0 _. eapply htF_bind with (Q := TT); [|intros ? _; apply htF_wake_all].
  intros s [F1 F2 FX F3 F4 F5 F6 F7 F8]. unfold modst, stof, valof. cbn [fst snd]. split; [|exact I]. split; [| |exact FX| | |exact F5|exact F6|exact F7|exact F8].
  - exact F1.
  - intros t k0 N X. unfold entk. cbn. rewrite alookup_adel_other by exact N. exact (F2 t k0 N X).
  - intros t k0. unfold entk. cbn. destruct (alookup t (adel me (tasks s))) as [e|] eqn:L; [|discriminate]. intros _.
    destruct (N.eq_dec t me) as [->|N]; [exact F4|]. rewrite alookup_adel_other in L by exact N. apply (F3 t (t_task e)). unfold entk. rewrite L. reflexivity.
  - exact F4.
Qed.
Lemma htF_spawn me U K k : htF me U K (spawn k) TT.
Proof.
  intros s [F1 F2 FX F3 F4 F5 F6 F7 F8]. unfold spawn, stof, valof. cbn [fst snd]. split; [|exact I]. split; [| |exact FX| | |exact F5|exact F6|exact F7|exact F8].
  - exact F1.
  - intros t k0 N X. unfold entk. cbn. pose proof (F2 t k0 N X) as Y. assert (t < ntid s) by exact (F3 t k0 Y).
    rewrite alookup_aset_other by lia. exact Y.
  - intros t k0. unfold entk. cbn. destruct (N.eq_dec t (ntid s)) as [->|N]; [intros _; lia|]. rewrite alookup_aset_other by exact N. intros X. specialize (F3 t k0 X). lia.
  - cbn. lia.
Qed.

Create HintDb fr discriminated.
#[export] Hint Resolve htF_getst htF_emit htF_wake htF_wake_all htF_new_timer htF_alive htF_has_sess htF_gconn htF_pconn htF_in_table
  htF_del_table htF_del_tables htF_block htF_finish htF_spawn : fr.
Ltac ws := unfold w_q, w_unfin, w_getters, w_joiners, w_lastp, w_connected, w_upgrading, w_upgraded, w_closing, w_closed, w_udata, w_accepted, w_taken, w_flags; cbn.
Ltac fr_step :=
  match goal with
  | |- htF _ _ _ (ret _) _ => apply htF_ret; exact I
  | |- htF _ _ _ (bind (gsess _) _) _ => eapply htF_bind; [apply htF_gsess | intros ? ?]
  | |- htF _ _ _ (bind _ _) _ => eapply htF_bind with (Q := TT); [|intros ? _]
  | |- htF _ _ _ (psess _ _) _ => apply htF_psess; ws; try assumption; try discriminate
  | |- htF _ _ _ (upd _ _) _ => apply htF_upd; intros ?; ws; try (intros; assumption); try discriminate
  | |- htF _ _ _ (modst _) _ => apply htF_modst_same; intros ?; cbn; auto
  | |- htF _ _ _ (if ?b then _ else _) _ => destruct b
  | |- htF _ _ _ (match ?x with _ => _ end) _ => destruct x
  | |- htF _ _ _ (gsess _) TT => eapply htF_weaken; [apply htF_gsess | intros; exact I]
  | _ => solve [eauto with fr]
  end.
Ltac fr_go := repeat fr_step.

Lemma fr_q_put me U K i x : htF me U K (q_put i x) TT.  Proof. unfold q_put. fr_go. Qed.
Lemma fr_q_task_done me U K i : htF me U K (q_task_done i) TT.  Proof. unfold q_task_done. fr_go. Qed.
#[export] Hint Resolve fr_q_put fr_q_task_done : fr.
Lemma fr_drain me U K fuel : forall i acc, htF me U K (drain fuel i acc) TT.
Proof. induction fuel as [|n IH]; intros i acc; cbn [drain]; fr_go; try apply IH. Qed.
#[export] Hint Resolve fr_drain : fr.

Section WithCfg.
Variable cfg : config.

Lemma fr_close_nowait me U K i ab r : htF me U K (close_nowait cfg i ab r) TT.
Proof. unfold close_nowait, begin_close. fr_go. Qed.
Hint Resolve fr_close_nowait : fr.
Lemma fr_sock_send me U K i p : htF me U K (sock_send cfg i p) TT.  Proof. unfold sock_send. fr_go. Qed.
Lemma fr_get_socket me U K i : htF me U K (get_socket i) TT.  Proof. unfold get_socket. fr_go. Qed.
Hint Resolve fr_sock_send fr_get_socket : fr.
Lemma fr_srv_send me U K i m : htF me U K (srv_send cfg i m) TT.  Proof. unfold srv_send. fr_go. Qed.
Lemma fr_close_wait me U K i r : htF me U K (close_wait cfg i r) TT.  Proof. unfold close_wait. fr_go. Qed.
Hint Resolve fr_srv_send fr_close_wait : fr.
Lemma fr_run_handler me U K bg i payload a : htF me U K (run_handler cfg me bg i payload a) TT.
Proof. unfold run_handler. fr_go. Qed.
Lemma fr_run_handler_fg me U K m' i payload a : htF me U K (run_handler cfg m' false i payload a) TT.
Proof. unfold run_handler. fr_go. Qed.
Hint Resolve fr_run_handler fr_run_handler_fg : fr.
Lemma fr_receive me U K i p : htF me U K (receive cfg i p) TT.
Proof. unfold receive. fr_go. Qed.
Lemma fr_receive_all me U K i l : htF me U K (receive_all cfg i l) TT.
Proof. induction l as [|p r IH]; cbn [receive_all]; fr_go; try apply fr_receive; try exact IH. Qed.
Lemma fr_refuse_and_end me U K i : htF me U K (refuse_and_end cfg i) TT.  Proof. unfold refuse_and_end. fr_go. Qed.
Lemma fr_reap_if_closed me U K i : htF me U K (reap_if_closed i) TT.  Proof. unfold reap_if_closed. fr_go. Qed.
Hint Resolve fr_receive fr_receive_all fr_refuse_and_end fr_reap_if_closed : fr.

Lemma fr_poll_attempt me U K tout i k t : htF me U K (poll_attempt cfg me tout i k t) TT.
Proof.
  unfold poll_attempt.
  change (modst (fun s => set_tasks (aset me {| t_task := TPoll i k t; t_tout := false |} (tasks s)) s)) with (block me (TPoll i k t)).
  eapply htF_bind; [apply htF_gsess|]. intros ss Hs.
  destruct (if tout && q_timeout_wins (c_quirks cfg) then [] else s_q ss) as [|x r]; fr_go.
Qed.
Hint Resolve fr_poll_attempt : fr.
Lemma fr_poll_start me U K i k : htF me U K (poll_start cfg me i k) TT.  Proof. unfold poll_start. fr_go. Qed.
Hint Resolve fr_poll_start : fr.
Lemma fr_ws_send_all me U K c l : htF me U K (ws_send_all c l) TT.
Proof. induction l as [|p r IH]; cbn [ws_send_all]; fr_go; try exact IH. Qed.
Lemma fr_ws_close me U K c : htF me U K (ws_close c) TT.  Proof. unfold ws_close. fr_go. Qed.
Hint Resolve fr_ws_send_all fr_ws_close : fr.
Lemma fr_writer_exit me U K c : htF me U K (writer_exit me c) TT.  Proof. unfold writer_exit. fr_go. Qed.
Hint Resolve fr_writer_exit : fr.
Lemma fr_writer_loop me U K fuel : forall i c rd first, htF me U K (writer_loop cfg fuel me i c rd first) TT.
Proof. induction fuel as [|n IH]; intros i c rd first; destruct first as [| |[|p l]]; cbn [writer_loop]; fr_go; try apply IH. Qed.
Lemma fr_finish_get me U K i r p : htF me U K (finish_get cfg me i r p) TT.  Proof. unfold finish_get. fr_go. Qed.
Lemma fr_ping_fire me U K i : htF me U K (ping_fire cfg me i) TT.  Proof. unfold ping_fire. fr_go. Qed.
Lemma fr_check_ping_timeout me U K i : htF me U K (check_ping_timeout cfg i) TT.  Proof. unfold check_ping_timeout. fr_go. Qed.
Hint Resolve fr_writer_loop fr_finish_get fr_ping_fire fr_check_ping_timeout : fr.
Lemma fr_svc_continue me U K fuel : forall rest interval, htF me U K (svc_continue cfg fuel me rest interval) TT.
Proof. induction fuel as [|n IH]; intros rest interval; destruct rest as [|i r]; cbn [svc_continue]; fr_go; try apply IH. Qed.
Lemma fr_ws_take me U K c : htF me U K (ws_take c) TT.  Proof. unfold ws_take. fr_go. Qed.
Lemma fr_ws_block me U K c k : htF me U K (ws_block me c k) TT.  Proof. unfold ws_block. fr_go. Qed.
Hint Resolve fr_svc_continue fr_ws_take fr_ws_block : fr.
Lemma fr_ws_request_done me U K i r x : htF me U K (ws_request_done me i r x) TT.  Proof. unfold ws_request_done. fr_go. Qed.
Hint Resolve fr_ws_request_done : fr.
Lemma fr_ws_epilogue_end me U K i r : htF me U K (ws_epilogue_end cfg me i r) TT.  Proof. unfold ws_epilogue_end. fr_go. Qed.
Hint Resolve fr_ws_epilogue_end : fr.
Lemma fr_ws_epilogue me U K i r c w fresh : htF me U K (ws_epilogue cfg me i r c w fresh) TT.  Proof. unfold ws_epilogue. fr_go. Qed.
Hint Resolve fr_ws_epilogue : fr.
Lemma fr_ws_read_loop me U K fuel : forall i r c w fresh, htF me U K (ws_read_loop cfg fuel me i r c w fresh) TT.
Proof. induction fuel as [|n IH]; intros i r c w fresh; cbn [ws_read_loop]; fr_go; try apply IH. Qed.
Hint Resolve fr_ws_read_loop : fr.
Lemma fr_ws_steady me U K i r c fresh : htF me U K (ws_steady cfg me i r c fresh) TT.  Proof. unfold ws_steady. fr_go. Qed.
Lemma fr_upgrade_fail me U K i r x : htF me U K (upgrade_fail me i r x) TT.  Proof. unfold upgrade_fail. fr_go. Qed.
Hint Resolve fr_ws_steady fr_upgrade_fail : fr.
Lemma fr_ws_upgr me U K i r c : htF me U K (ws_upgr cfg me i r c) TT.  Proof. unfold ws_upgr. fr_go. Qed.
Hint Resolve fr_ws_upgr : fr.
Lemma fr_ws_probe me U K i r c : htF me U K (ws_probe cfg me i r c) TT.  Proof. unfold ws_probe. fr_go. Qed.
Hint Resolve fr_ws_probe : fr.
Lemma fr_disc_seq me U K fuel : forall a l, htF me U K (disc_seq cfg fuel me a l) TT.
Proof. induction fuel as [|n IH]; intros a l; destruct l as [|i r]; cbn [disc_seq]; fr_go; try apply IH. Qed.
Lemma fr_spawn_closers me U K p l : htF me U K (spawn_closers p l) TT.
Proof. induction l as [|i r IH]; cbn [spawn_closers]; fr_go; try exact IH. Qed.
Lemma fr_answer me U K r x : htF me U K (answer me r x) TT.  Proof. unfold answer. fr_go. Qed.
Lemma fr_lookup_view me U K q : htF me U K (lookup_view cfg q) TT.
Proof. unfold lookup_view. destruct (decide_early cfg q); [apply htF_ret; exact I|]. destruct (r_sid q) as [[i|]|]; try (apply htF_ret; exact I). fr_go. Qed.
Hint Resolve fr_disc_seq fr_spawn_closers fr_answer fr_lookup_view : fr.
Lemma fr_run_api me U K a x : htF me U K (run_api cfg me a x) TT.
Proof. destruct x as [ref m|[ref|]|ref|ref|ref u]; cbn [run_api]; fr_go. Qed.

Lemma nmem_app i a b : nmem i (a ++ b) = nmem i a || nmem i b.
Proof. induction a as [|x r IH]; cbn; [reflexivity|]. rewrite IH, orb_assoc. reflexivity. Qed.
Lemma fr_new_session me U K : htF me U K new_session (fun i => U i = true).
Proof.
  intros s [F1 F2 FX F3 F4 F5 F6 F7 F8]. unfold new_session, stof, valof. cbn [fst snd]. split; [|apply F5; lia]. split; try assumption.
  - intros j. unfold cur. cbn. destruct (N.eq_dec j (nsid s)) as [->|N]; [rewrite alookup_aset_same; cbn; discriminate|].
    rewrite alookup_aset_other by exact N. apply F1.
  - intros j X. cbn. destruct (N.eq_dec j (nsid s)) as [->|N]; [rewrite alookup_aset_same; discriminate | rewrite alookup_aset_other by exact N; exact (FX j X)].
  - intros j Hj. cbn in Hj. apply F5. lia.
  - intros j. cbn. destruct (N.eq_dec j (nsid s)) as [->|N]; [intros _; lia|]. rewrite alookup_aset_other by exact N. intros X. specialize (F6 j X). lia.
  - intros j. cbn. rewrite nmem_app. cbn. destruct (N.eq_dec j (nsid s)) as [->|N]; [intros _; rewrite alookup_aset_same; discriminate|].
    rewrite alookup_aset_other by exact N. destruct (N.eqb_spec j (nsid s)); [contradiction|]. rewrite !orb_false_r. apply F7.
  - intros j. cbn. destruct (N.eq_dec j (nsid s)) as [->|N]; [intros _; rewrite alookup_aset_same; discriminate|]. rewrite alookup_aset_other by exact N. intros X. apply F8. lia.
Qed.
(* beginning a WebSocket session / an upgrade of session j: the only place where `upgrading` is set *)
Lemma fr_ws_begin me U K j r c : U j = true -> htF me U K (ws_begin cfg me j r c) TT.
Proof.
  intros Uj. unfold ws_begin. eapply htF_bind; [apply htF_gsess|]. intros ss Hs. destruct (s_upgraded ss); [fr_go|].
  eapply htF_bind with (Q := TT); [apply htF_emit|]. intros ? _. destruct (s_connected ss).
  - eapply htF_bind with (Q := TT); [|intros ? _; apply fr_ws_probe]. unfold upd. eapply htF_bind; [apply htF_gsess|]. intros x _. apply htF_psess. intros _. exact Uj.
  - fr_go.
Qed.
Lemma fr_handle_connect me U K r q : htF me U K (handle_connect cfg me r q) TT.
Proof.
  unfold handle_connect. eapply htF_bind with (Q := TT); [apply htF_getst|]. intros s0 _.
  eapply htF_bind with (Q := TT); [fr_go|]. intros ? _.
  eapply htF_bind; [apply fr_new_session|]. intros i Ui. fr_go; try (apply fr_ws_begin; exact Ui).
Qed.

(* ---- the task that runs the handshake: it stays a handshake task of session i, or the mark is cleared ---- *)
Definition upg (i : sid) (s : st) : bool := s_upgrading (cur i s).
Definition Uall : sid -> bool := fun _ => true.
Definition Ubut (i : sid) : sid -> bool := fun j => negb (N.eqb j i).
Definition Kex (i : sid) : snap := {| sk := fun _ => None; se := fun j => N.eqb j i |}.
Definition FRb (me : tid) (i : sid) (s : st) : Prop := FR me Uall (Kex i) s.      (* well-formedness, and session i exists *)
Definition Pend (me : tid) (i : sid) (s : st) : Prop := (exists k, entk s me = Some k /\ hs_for i k = true) \/ upg i s = false.

Lemma stof_bind {A B} (m : M A) (f : A -> M B) s : stof (bind m f s) = stof (f (valof (m s)) (stof (m s))).
Proof. unfold bind, stof, valof. destruct (m s) as [[a s1] o1]. cbn. destruct (f a s1) as [[b s2] o2]. reflexivity. Qed.

Lemma frb_step {A} me i (m : M A) s : htF me Uall (Kex i) m TT -> FRb me i s -> FRb me i (stof (m s)).
Proof. intros H F. exact (proj1 (H s F)). Qed.
Lemma frb_but me i s : FRb me i s -> upg i s = false -> FR me (Ubut i) (Kex i) s.
Proof.
  intros [F1 F2 FX F3 F4 F5 F6 F7 F8] C. split; try assumption.
  - intros j X. unfold Ubut. destruct (N.eqb_spec j i) as [->|]; [unfold upg in C; congruence | reflexivity].
  - intros j X. unfold Ubut. destruct (N.eqb_spec j i) as [->|]; [|reflexivity]. exfalso.
    assert (E : alookup i (store s) <> None) by (apply FX; cbn; apply N.eqb_refl). specialize (F6 i E). lia.
Qed.
Lemma cleared_step {A} me i (m : M A) s : htF me (Ubut i) (Kex i) m TT -> FRb me i s -> upg i s = false -> upg i (stof (m s)) = false.
Proof.
  intros H F C. destruct (H s (frb_but me i s F C)) as [[F1 _ _ _ _ _ _ _ _] _]. unfold upg.
  destruct (s_upgrading (cur i (stof (m s)))) eqn:E; [|reflexivity]. specialize (F1 i E). unfold Ubut in F1. rewrite N.eqb_refl in F1. discriminate.
Qed.
Lemma Pend_cleared {A} me i (m : M A) s : htF me (Ubut i) (Kex i) m TT -> FRb me i s -> upg i s = false -> Pend me i (stof (m s)).
Proof. intros H F C. right. eapply cleared_step; eassumption. Qed.

Lemma upd_clears i f s : (forall x, s_upgrading (f x) = false) -> upg i (stof (upd i f s)) = false.
Proof.
  intros H. unfold upg, upd. rewrite stof_bind. unfold gsess, valof, stof. cbn [fst snd].
  change (snd (fst (psess i (f match alookup i (store s) with Some x => x | None => new_sess end) s))) with (stof (psess i (f match alookup i (store s) with Some x => x | None => new_sess end) s)).
  rewrite cur_psess_same. destruct (alookup i (store s)); [apply H | reflexivity].
Qed.
Lemma Pend_block me i c k s : hs_for i k = true -> Pend me i (stof (ws_block me c k s)).
Proof.
  intros H. left. exists k. split; [|exact H]. unfold ws_block. rewrite !stof_bind. unfold block, modst, stof. cbn [fst snd]. unfold entk. cbn.
  rewrite alookup_aset_same. reflexivity.
Qed.

Lemma Pend_upgrade_fail me i r x s : FRb me i s -> Pend me i (stof (upgrade_fail me i r x s)).
Proof.
  intros F. unfold upgrade_fail. rewrite stof_bind.
  apply (Pend_cleared me i (ws_request_done me i r x)); [apply fr_ws_request_done | apply frb_step; [apply htF_upd; intros y; ws; intros; discriminate | exact F] |].
  apply upd_clears. intros y. reflexivity.
Qed.
Lemma Pend_ws_upgr me i r c s : FRb me i s -> Pend me i (stof (ws_upgr cfg me i r c s)).
Proof.
  intros F. unfold ws_upgr. rewrite stof_bind.
  assert (F1 : FRb me i (stof (ws_take c s))) by (apply frb_step; [apply fr_ws_take | exact F]).
  destruct (valof (ws_take c s)) as [[[pb|p| |]|]|]; try (apply Pend_upgrade_fail; exact F1); [|apply Pend_block; cbn; apply N.eqb_refl].
  destruct p; try (apply Pend_upgrade_fail; exact F1).
  rewrite stof_bind. apply (Pend_cleared me i (ws_steady cfg me i r c false)); [apply fr_ws_steady | apply frb_step; [apply htF_upd; intros y; ws; intros; discriminate | exact F1] |].
  apply upd_clears. intros y. reflexivity.
Qed.

Lemma Pend_ws_probe me i r c s : FRb me i s -> Pend me i (stof (ws_probe cfg me i r c s)).
Proof.
  intros F. unfold ws_probe. rewrite stof_bind.
  assert (F1 : FRb me i (stof (ws_take c s))) by (apply frb_step; [apply fr_ws_take | exact F]).
  destruct (valof (ws_take c s)) as [[[pb|p| |]|]|]; try (apply Pend_upgrade_fail; exact F1); [|apply Pend_block; cbn; apply N.eqb_refl].
  destruct pb; [|apply Pend_upgrade_fail; exact F1].
  rewrite stof_bind.
  assert (F2 : FRb me i (stof (gconn c (stof (ws_take c s))))) by (apply frb_step; [apply htF_gconn | exact F1]).
  destruct (k_cclosed (valof (gconn c (stof (ws_take c s)))) || k_sclosed (valof (gconn c (stof (ws_take c s))))); [apply Pend_upgrade_fail; exact F2|].
  rewrite stof_bind. rewrite stof_bind. apply Pend_ws_upgr.
  apply frb_step; [apply fr_q_put|]. apply frb_step; [apply htF_emit | exact F2].
Qed.

(* the request that begins an upgrade of session i (or opens a WebSocket session i) *)
Lemma Pend_ws_begin me i r c s : FRb me i s -> upg i s = false -> Pend me i (stof (ws_begin cfg me i r c s)).
Proof.
  intros F C. unfold ws_begin. rewrite stof_bind. change (stof (gsess i s)) with s. set (ss := valof (gsess i s)). cbv beta.
  destruct (s_upgraded ss).
  - apply (Pend_cleared me i); [fr_go | exact F | exact C].
  - rewrite stof_bind.
    assert (F1 : FRb me i (stof (emit (OWsAccept c) s))) by (apply frb_step; [apply htF_emit | exact F]).
    assert (C1 : upg i (stof (emit (OWsAccept c) s)) = false) by exact C.
    destruct (s_connected ss).
    + rewrite stof_bind. apply Pend_ws_probe. apply frb_step; [|exact F1].
      unfold upd. eapply htF_bind; [apply htF_gsess|]. intros x _. apply htF_psess. intros _. reflexivity.
    + apply (Pend_cleared me i); [fr_go | exact F1 | exact C1].
Qed.

(* ---- session ids are issued by _handle_connect only ---- *)
Definition ns {A} (m : M A) : Prop := forall s, nsid (stof (m s)) = nsid s.
Lemma ns_bind {A B} (m : M A) (f : A -> M B) : ns m -> (forall a, ns (f a)) -> ns (bind m f).
Proof. intros Hm Hf s. rewrite stof_bind, Hf, Hm. reflexivity. Qed.
Lemma ns_ret {A} (a : A) : ns (ret a).  Proof. intros s. reflexivity. Qed.
Lemma ns_raw {A} (m : M A) : (forall s, stof (m s) = s) -> ns m.  Proof. intros H s. rewrite H. reflexivity. Qed.
Lemma ns_modst f : (forall s, nsid (f s) = nsid s) -> ns (modst f).  Proof. intros H s. apply H. Qed.
Lemma ns_psess i x : ns (psess i x).
Proof. intros s. unfold psess, modst, stof. cbn. destruct (alookup i (store s)); reflexivity. Qed.
Lemma ns_wake t : ns (wake t).
Proof. intros s. unfold wake, modst, stof. cbn. destruct (alookup t (tasks s)); [destruct (nmem t (runq s))|]; reflexivity. Qed.
Create HintDb nsdb discriminated.
Ltac ns_step :=
  match goal with
  | |- ns (ret _) => apply ns_ret
  | |- ns (bind _ _) => apply ns_bind; [|intros ?]
  | |- ns (modst _) => apply ns_modst; intros ?; reflexivity
  | |- ns (psess _ _) => apply ns_psess
  | |- ns (wake _) => apply ns_wake
  | |- ns (if ?b then _ else _) => destruct b
  | |- ns (match ?x with _ => _ end) => destruct x
  | |- ns _ => first [ solve [intros ?; reflexivity] | solve [eauto with nsdb] ]
  end.
Ltac ns_go := repeat ns_step.
Lemma ns_upd i f : ns (upd i f).  Proof. unfold upd. ns_go. Qed.
Lemma ns_wake_all l : ns (wake_all l).  Proof. induction l as [|t r IH]; cbn [wake_all]; ns_go; exact IH. Qed.
Hint Resolve ns_upd ns_wake_all ns_psess ns_wake : nsdb.
Lemma ns_finish me : ns (finish me).  Proof. unfold finish. ns_go. Qed.
Lemma ns_block me k : ns (block me k).  Proof. unfold block. ns_go. Qed.
Lemma ns_spawn k : ns (spawn k).  Proof. intros s. reflexivity. Qed.
Lemma ns_q_put i x : ns (q_put i x).  Proof. unfold q_put. ns_go. Qed.
Lemma ns_q_task_done i : ns (q_task_done i).  Proof. unfold q_task_done. ns_go. Qed.
Hint Resolve ns_finish ns_block ns_spawn ns_q_put ns_q_task_done : nsdb.
Lemma ns_drain fuel : forall i acc, ns (drain fuel i acc).  Proof. induction fuel as [|n IH]; intros i acc; cbn [drain]; ns_go; apply IH. Qed.
Lemma ns_del_table i : ns (del_table i).  Proof. unfold del_table. ns_go. Qed.
Hint Resolve ns_del_table : nsdb.
Lemma ns_del_tables l : ns (del_tables l).  Proof. induction l as [|i r IH]; cbn [del_tables]; ns_go; try exact IH. Qed.
Hint Resolve ns_drain ns_del_tables : nsdb.

Lemma ns_close_nowait i ab r : ns (close_nowait cfg i ab r).  Proof. unfold close_nowait, begin_close. ns_go. Qed.
Hint Resolve ns_close_nowait : nsdb.
Lemma ns_sock_send i p : ns (sock_send cfg i p).  Proof. unfold sock_send. ns_go. Qed.
Lemma ns_get_socket i : ns (get_socket i).  Proof. unfold get_socket. ns_go. Qed.
Hint Resolve ns_sock_send ns_get_socket : nsdb.
Lemma ns_srv_send i m : ns (srv_send cfg i m).  Proof. unfold srv_send. ns_go. Qed.
Lemma ns_close_wait i r : ns (close_wait cfg i r).  Proof. unfold close_wait. ns_go. Qed.
Hint Resolve ns_srv_send ns_close_wait : nsdb.
Lemma ns_run_handler me bg i payload a : ns (run_handler cfg me bg i payload a).  Proof. unfold run_handler. ns_go. Qed.
Hint Resolve ns_run_handler : nsdb.
Lemma ns_receive i p : ns (receive cfg i p).  Proof. unfold receive. ns_go. Qed.
Hint Resolve ns_receive : nsdb.
Lemma ns_receive_all i l : ns (receive_all cfg i l).  Proof. induction l as [|p r IH]; cbn [receive_all]; ns_go; try exact IH. Qed.
Lemma ns_refuse_and_end i : ns (refuse_and_end cfg i).  Proof. unfold refuse_and_end. ns_go. Qed.
Lemma ns_reap_if_closed i : ns (reap_if_closed i).  Proof. unfold reap_if_closed. ns_go. Qed.
Hint Resolve ns_receive_all ns_refuse_and_end ns_reap_if_closed : nsdb.
Lemma ns_poll_attempt me tout i k t : ns (poll_attempt cfg me tout i k t).
Proof. unfold poll_attempt. apply ns_bind; [ns_go|]. intros ss. destruct (if tout && q_timeout_wins (c_quirks cfg) then [] else s_q ss) as [|x r]; ns_go. Qed.
Hint Resolve ns_poll_attempt : nsdb.
Lemma ns_poll_start me i k : ns (poll_start cfg me i k).  Proof. unfold poll_start. ns_go. Qed.
Hint Resolve ns_poll_start : nsdb.
Lemma ns_ws_send_all c l : ns (ws_send_all c l).  Proof. induction l as [|p r IH]; cbn [ws_send_all]; ns_go; try exact IH. Qed.
Lemma ns_ws_close c : ns (ws_close c).  Proof. unfold ws_close. ns_go. Qed.
Hint Resolve ns_ws_send_all ns_ws_close : nsdb.
Lemma ns_writer_exit me c : ns (writer_exit me c).  Proof. unfold writer_exit. ns_go. Qed.
Hint Resolve ns_writer_exit : nsdb.
Lemma ns_writer_loop fuel : forall me i c rd first, ns (writer_loop cfg fuel me i c rd first).
Proof. induction fuel as [|n IH]; intros me i c rd first; destruct first as [| |[|p l]]; cbn [writer_loop]; ns_go; try apply IH. Qed.
Lemma ns_finish_get me i r p : ns (finish_get cfg me i r p).  Proof. unfold finish_get. ns_go. Qed.
Lemma ns_ping_fire me i : ns (ping_fire cfg me i).  Proof. unfold ping_fire. ns_go. Qed.
Lemma ns_check_ping_timeout i : ns (check_ping_timeout cfg i).  Proof. unfold check_ping_timeout. ns_go. Qed.
Hint Resolve ns_writer_loop ns_finish_get ns_ping_fire ns_check_ping_timeout : nsdb.
Lemma ns_svc_continue fuel : forall me rest interval, ns (svc_continue cfg fuel me rest interval).
Proof. induction fuel as [|n IH]; intros me rest interval; destruct rest as [|i r]; cbn [svc_continue]; ns_go; try apply IH. Qed.
Lemma ns_ws_take c : ns (ws_take c).  Proof. unfold ws_take. ns_go. Qed.
Lemma ns_ws_block me c k : ns (ws_block me c k).  Proof. unfold ws_block. ns_go. Qed.
Hint Resolve ns_svc_continue ns_ws_take ns_ws_block : nsdb.
Lemma ns_ws_request_done me i r x : ns (ws_request_done me i r x).  Proof. unfold ws_request_done. ns_go. Qed.
Hint Resolve ns_ws_request_done : nsdb.
Lemma ns_ws_epilogue_end me i r : ns (ws_epilogue_end cfg me i r).  Proof. unfold ws_epilogue_end. ns_go. Qed.
Hint Resolve ns_ws_epilogue_end : nsdb.
Lemma ns_ws_epilogue me i r c w fresh : ns (ws_epilogue cfg me i r c w fresh).  Proof. unfold ws_epilogue. ns_go. Qed.
Hint Resolve ns_ws_epilogue : nsdb.
Lemma ns_ws_read_loop fuel : forall me i r c w fresh, ns (ws_read_loop cfg fuel me i r c w fresh).
Proof. induction fuel as [|n IH]; intros me i r c w fresh; cbn [ws_read_loop]; ns_go; try apply IH. Qed.
Hint Resolve ns_ws_read_loop : nsdb.
Lemma ns_ws_steady me i r c fresh : ns (ws_steady cfg me i r c fresh).  Proof. unfold ws_steady. ns_go. Qed.
Lemma ns_upgrade_fail me i r x : ns (upgrade_fail me i r x).  Proof. unfold upgrade_fail. ns_go. Qed.
Hint Resolve ns_ws_steady ns_upgrade_fail : nsdb.
Lemma ns_ws_upgr me i r c : ns (ws_upgr cfg me i r c).  Proof. unfold ws_upgr. ns_go. Qed.
Hint Resolve ns_ws_upgr : nsdb.
Lemma ns_ws_probe me i r c : ns (ws_probe cfg me i r c).  Proof. unfold ws_probe. ns_go. Qed.
Hint Resolve ns_ws_probe : nsdb.
Lemma ns_ws_begin me i r c : ns (ws_begin cfg me i r c).  Proof. unfold ws_begin. ns_go. Qed.
Lemma ns_disc_seq fuel : forall me a l, ns (disc_seq cfg fuel me a l).
Proof. induction fuel as [|n IH]; intros me a l; destruct l as [|i r]; cbn [disc_seq]; ns_go; try apply IH. Qed.
Lemma ns_spawn_closers p l : ns (spawn_closers p l).  Proof. induction l as [|i r IH]; cbn [spawn_closers]; ns_go; try exact IH. Qed.
Lemma ns_answer me r x : ns (answer me r x).  Proof. unfold answer. ns_go. Qed.
Lemma ns_lookup_view q : ns (lookup_view cfg q).
Proof. unfold lookup_view. destruct (decide_early cfg q); [apply ns_ret|]. destruct (r_sid q) as [[i|]|]; try apply ns_ret. ns_go. Qed.
Hint Resolve ns_ws_begin ns_disc_seq ns_spawn_closers ns_answer ns_lookup_view : nsdb.
Lemma ns_run_api me a x : ns (run_api cfg me a x).
Proof. destruct x as [ref m|[ref|]|ref|ref|ref u]; cbn [run_api]; ns_go. Qed.
Lemma ns_run_task me e : ns (run_task cfg me e).
Proof. unfold run_task. destruct (t_task e) as [i [r|c rd] t | i c rd | r i c | r i c | r i c w t fresh | r i c w fresh | i k | i | i t | | t | rest iv t | i payload a | i parent | a pend sids]; ns_go. Qed.
Lemma fr_run_task me U K e : htF me U K (run_task cfg me e) TT.
Proof. unfold run_task. destruct (t_task e) as [i [r|c rd] t | i c rd | r i c | r i c | r i c w t fresh | r i c w fresh | i k | i | i t | | t | rest iv t | i payload a | i parent | a pend sids]; fr_go. Qed.

(* ---- the invariant ---- *)
Record Good (s : st) : Prop := {
  g_upg : forall i, upg i s = true -> exists t k, entk s t = Some k /\ hs_for i k = true;
  g_fresh : forall t k, entk s t = Some k -> t < ntid s;
  g_ids : forall i, alookup i (store s) <> None -> i < nsid s;
  g_tab : forall i, nmem i (table s) = true -> alookup i (store s) <> None;
  g_all : forall i, i < nsid s -> alookup i (store s) <> None }.

Definition U0 (s : st) (extra : sid -> bool) : sid -> bool := fun j => upg j s || N.leb (nsid s) j || extra j.
Definition K0 (s : st) : snap := {| sk := entk s; se := fun j => match alookup j (store s) with Some _ => true | None => false end |}.
Definition noextra : sid -> bool := fun _ => false.

Lemma FR_start me s extra : Good s -> me < ntid s -> FR me (U0 s extra) (K0 s) s.
Proof.
  intros [G1 G2 G3 G4 G5] L. split; try assumption.
  - intros i X. unfold U0. fold (upg i s) in X. rewrite X. reflexivity.
  - intros t k _ X. exact X.
  - intros i X. cbn in X. destruct (alookup i (store s)); [discriminate | discriminate].
  - intros j X. unfold U0. apply N.leb_le in X. rewrite X, orb_true_r. reflexivity.
Qed.
Lemma upg_exists i s : upg i s = true -> alookup i (store s) <> None.
Proof. unfold upg, cur. destruct (alookup i (store s)); [discriminate | cbn; discriminate]. Qed.
Lemma absent_not_upg i s : alookup i (store s) = None -> upg i s = false.
Proof. unfold upg, cur. intros ->. reflexivity. Qed.
Lemma FRb_of me U K i s : FR me U K s -> alookup i (store s) <> None -> FRb me i s.
Proof.
  intros [F1 F2 FX F3 F4 F5 F6 F7 F8] E. split; try assumption.
  - intros; reflexivity.
  - intros t k _ X. discriminate.
  - intros j X. cbn in X. apply N.eqb_eq in X. subst j. exact E.
  - intros; reflexivity.
Qed.
Lemma Good_of_FR me U K s : FR me U K s -> (forall i, upg i s = true -> exists t k, entk s t = Some k /\ hs_for i k = true) -> Good s.
Proof. intros [F1 F2 FX F3 F4 F5 F6 F7 F8] H. split; assumption. Qed.

(* what is needed of a step: frame, no new session ids, and - for a handshake task of session i - Pend *)
Lemma step_good {A} me (m : M A) s (mine : sid -> bool) :
  Good s -> me < ntid s ->
  (forall U K, htF me U K m TT) -> ns m ->
  (forall i k, entk s me = Some k -> hs_for i k = true -> mine i = true) ->
  (forall i, mine i = true -> alookup i (store s) <> None -> Pend me i (stof (m s))) ->
  Good (stof (m s)).
Proof.
  intros G L HF HN HM HP.
  destruct (HF (U0 s noextra) (K0 s) s (FR_start me s noextra G L)) as [F' _].
  apply (Good_of_FR me _ _ _ F'). intros i X.
  pose proof (fr_upg _ _ _ _ F' i X) as UI. unfold U0, noextra in UI. rewrite orb_false_r in UI.
  destruct (upg i s) eqn:UP.
  - destruct (g_upg _ G i UP) as (t & k & E & H). destruct (N.eq_dec t me) as [->|N].
    + destruct (HP i (HM i k E H) (upg_exists i s UP)) as [(k' & E' & H')|C]; [exists me, k'; auto | unfold upg in *; congruence].
    + exists t, k. split; [|exact H]. apply (fr_tasks _ _ _ _ F' t k N). exact E.
  - cbn in UI. apply N.leb_le in UI. exfalso.
    assert (AB : alookup i (store (stof (m s))) = None).
    { destruct (alookup i (store (stof (m s)))) eqn:E; [|reflexivity]. assert (i < nsid (stof (m s))) by (apply (fr_ids _ _ _ _ F'); rewrite E; discriminate). rewrite HN in H. lia. }
    rewrite (absent_not_upg _ _ AB) in X. discriminate.
Qed.

Lemma entk_in s me e : alookup me (tasks s) = Some e -> entk s me = Some (t_task e).
Proof. unfold entk. intros ->. reflexivity. Qed.

Theorem run_task_good me e s : Good s -> alookup me (tasks s) = Some e -> Good (stof (run_task cfg me e s)).
Proof.
  intros G L. pose proof (entk_in s me e L) as E.
  apply (step_good me (run_task cfg me e) s (fun i => hs_for i (t_task e))); try assumption.
  - exact (g_fresh _ G me _ E).
  - intros U K. apply fr_run_task.
  - apply ns_run_task.
  - intros i k X H. rewrite E in X. injection X as <-. exact H.
  - intros i H EX. unfold run_task.
    assert (FB : FRb me i s) by (eapply FRb_of; [apply (FR_start me s noextra G (g_fresh _ G me _ E)) | exact EX]).
    destruct (t_task e) as [i0 [r|c rd] t | i0 c rd | r i0 c | r i0 c | r i0 c w t fresh | r i0 c w fresh | i0 k | i0 | i0 t | | t | rest iv t | i0 payload a | i0 parent | a pend sids]; cbn in H; try discriminate.
    + apply N.eqb_eq in H. subst i0. apply Pend_ws_probe. exact FB.
    + apply N.eqb_eq in H. subst i0. apply Pend_ws_upgr. exact FB.
Qed.

Lemma Good_same s s' : Good s -> store s' = store s -> table s' = table s -> ntid s' = ntid s -> nsid s' = nsid s ->
  (forall t, entk s' t = entk s t) -> Good s'.
Proof.
  intros [G1 G2 G3 G4 G5] E1 E2 E3 E4 E5. split.
  - intros i X. unfold upg, cur in X. rewrite E1 in X. destruct (G1 i X) as (t & k & A & B). exists t, k. rewrite E5. auto.
  - intros t k. rewrite E5, E3. apply G2.
  - rewrite E1, E4. exact G3.
  - rewrite E1, E2. exact G4.
  - rewrite E1, E4. exact G5.
Qed.
Definition pg {A} (m : M A) : Prop := forall s, Good s -> Good (stof (m s)).
Lemma pg_bind {A B} (m : M A) (f : A -> M B) : pg m -> (forall a, pg (f a)) -> pg (bind m f).
Proof. intros Hm Hf s G. rewrite stof_bind. apply Hf, Hm, G. Qed.
Lemma pg_ret {A} (a : A) : pg (ret a).  Proof. intros s G. exact G. Qed.
Lemma pg_same {A} (m : M A) : (forall s, store (stof (m s)) = store s /\ table (stof (m s)) = table s /\ ntid (stof (m s)) = ntid s /\ nsid (stof (m s)) = nsid s /\ tasks (stof (m s)) = tasks s) -> pg m.
Proof. intros H s G. destruct (H s) as (E1 & E2 & E3 & E4 & E5). eapply Good_same; try eassumption. intros t. unfold entk. rewrite E5. reflexivity. Qed.
Lemma pg_getst_bind {B} (f : st -> M B) : (forall s0, pg (f s0)) -> pg (bind getst f).
Proof. intros H. apply pg_bind; [apply pg_same; intros s; cbn; auto | exact H]. Qed.
Lemma pg_wake t : pg (wake t).
Proof. apply pg_same. intros s. unfold wake, modst, stof. cbn. destruct (alookup t (tasks s)); [destruct (nmem t (runq s))|]; cbn; auto. Qed.
Lemma pg_fire t : pg (fire t).
Proof.
  unfold fire. apply pg_bind; [|intros ?; apply pg_wake]. intros s G. unfold modst, stof. cbn [fst snd].
  destruct (alookup t (tasks s)) as [e|] eqn:L; [|exact G]. eapply Good_same; [exact G | reflexivity | reflexivity | reflexivity | reflexivity |].
  intros t0. unfold entk. cbn. destruct (N.eq_dec t0 t) as [->|N]; [rewrite alookup_aset_same, L; reflexivity | rewrite alookup_aset_other by exact N; reflexivity].
Qed.
Lemma pg_fire_all l : pg (fire_all l).
Proof. induction l as [|[t n] r IH]; cbn [fire_all]; [apply pg_ret | apply pg_bind; [apply pg_fire | intros ?; exact IH]]. Qed.

Lemma stof_getst_bind {B} (f : st -> M B) s : stof (bind getst f s) = stof (f s s).
Proof. rewrite stof_bind. reflexivity. Qed.
Lemma settle_good fuel : forall choices, pg (settle cfg fuel choices).
Proof.
  induction fuel as [|f IH]; intros choices s G; cbn [settle]; rewrite stof_getst_bind.
  - destruct (runq s); [exact G | eapply Good_same; [exact G | reflexivity..| intros; reflexivity]].
  - destruct (match choices with [] => (O, []) | c :: r => (c, r) end) as [k cs].
    destruct (nth_remove k (runq s)) as [[t rq]|]; [|exact G].
    rewrite stof_bind. set (s1 := stof (modst (set_runq rq) s)).
    assert (G1 : Good s1) by (eapply Good_same; [exact G | reflexivity..| intros; reflexivity]).
    destruct (alookup t (tasks s)) as [e|] eqn:L; [|apply IH; exact G1].
    rewrite stof_bind. apply IH. apply run_task_good; [exact G1 | exact L].
Qed.

Lemma pg_emit o : pg (emit o).  Proof. apply pg_same. intros s. cbn. auto. Qed.
Lemma pg_modst_same f : (forall s, store (f s) = store s /\ table (f s) = table s /\ ntid (f s) = ntid s /\ nsid (f s) = nsid s /\ tasks (f s) = tasks s) -> pg (modst f).
Proof. intros H. apply pg_same. intros s. cbn. apply H. Qed.
Lemma advance_good fuel target : pg (advance cfg fuel target).
Proof.
  induction fuel as [|f IH]; cbn [advance]; [apply pg_emit|].
  apply pg_bind; [apply settle_good|]. intros ?. apply pg_getst_bind. intros s0.
  destruct (next_timer (tasks s0) None) as [[t tm]|]; [|apply pg_modst_same; intros s; cbn; auto].
  destruct (Z.leb (fst tm) target); [|apply pg_modst_same; intros s; cbn; auto].
  apply pg_bind; [apply pg_modst_same; intros s; cbn; auto|]. intros ?.
  apply pg_bind; [|intros ?; exact IH].
  destruct (q_batch_timers (c_quirks cfg)); [|apply pg_fire].
  apply pg_bind; [destruct (due_at (fst tm) (tasks s0) []) as [|x [|y l]]; try apply pg_ret; apply pg_emit | intros ?; apply pg_fire_all].
Qed.

(* a step of a task that is not running a handshake *)
Lemma neutral_good {A} me (m : M A) s :
  Good s -> me < ntid s -> (forall i k, entk s me = Some k -> hs_for i k = false) ->
  (forall U K, htF me U K m TT) -> ns m -> Good (stof (m s)).
Proof.
  intros G L NH HF HN. apply (step_good me m s (fun _ => false)); try assumption.
  - intros i k E H. rewrite (NH i k E) in H. discriminate.
  - intros i H. discriminate.
Qed.

(* ---- requests ---- *)
Definition sm {A} (m : M A) : Prop :=
  forall s, store (stof (m s)) = store s /\ tasks (stof (m s)) = tasks s /\ ntid (stof (m s)) = ntid s /\ nsid (stof (m s)) = nsid s /\ tsub (table (stof (m s))) (table s).
Lemma sm_bind {A B} (m : M A) (f : A -> M B) : sm m -> (forall a, sm (f a)) -> sm (bind m f).
Proof.
  intros Hm Hf s. rewrite stof_bind. destruct (Hm s) as (A1 & A2 & A3 & A4 & A5). destruct (Hf (valof (m s)) (stof (m s))) as (B1 & B2 & B3 & B4 & B5).
  repeat split; try congruence. intros i X. apply A5, B5, X.
Qed.
Lemma sm_raw {A} (m : M A) : (forall s, stof (m s) = s) -> sm m.
Proof. intros H s. rewrite H. repeat split; auto. Qed.
Lemma sm_lookup_view q : sm (lookup_view cfg q).
Proof.
  unfold lookup_view. destruct (decide_early cfg q); [apply sm_raw; reflexivity|]. destruct (r_sid q) as [[i|]|]; try (apply sm_raw; reflexivity).
  destruct (match r_method q with MOptions => true | _ => false end); [apply sm_raw; reflexivity|].
  apply sm_bind; [apply sm_raw; reflexivity|]. intros it. destruct (negb it); [apply sm_raw; reflexivity|].
  apply sm_bind.
  - unfold get_socket. apply sm_bind; [apply sm_raw; reflexivity|]. intros it2. destruct (negb it2); [apply sm_raw; reflexivity|].
    apply sm_bind; [apply sm_raw; reflexivity|]. intros ss. destruct (s_closed ss); [|apply sm_raw; reflexivity].
    apply sm_bind; [|intros ?; apply sm_raw; reflexivity]. intros s. unfold del_table, modst, stof. cbn. repeat split; auto. intros j X. eapply nmem_nrem. exact X.
  - intros ok. destruct (negb ok); [apply sm_raw; reflexivity|]. apply sm_bind; [apply sm_raw; reflexivity | intros ?; apply sm_raw; reflexivity].
Qed.
Lemma Good_sub s s' : Good s -> store s' = store s -> tasks s' = tasks s -> ntid s' = ntid s -> nsid s' = nsid s -> tsub (table s') (table s) -> Good s'.
Proof.
  intros [G1 G2 G3 G4 G5] E1 E2 E3 E4 E5.
  assert (EK : forall t, entk s' t = entk s t) by (intros t; unfold entk; rewrite E2; reflexivity). split.
  - intros i X. unfold upg, cur in X. rewrite E1 in X. destruct (G1 i X) as (t & k & A & B). exists t, k. rewrite EK. auto.
  - intros t k. rewrite EK, E3. apply G2.
  - rewrite E1, E4. exact G3.
  - rewrite E1. intros i X. apply G4, E5, X.
  - rewrite E1, E4. exact G5.
Qed.

Lemma upgrade_request_good me i r (oc : option cid) s :
  Good s -> me < ntid s -> (forall j k, entk s me = Some k -> hs_for j k = false) ->
  Good (stof ((match oc with Some c => ws_begin cfg me i r c | None => emit OUnsupported end) s)).
Proof.
  intros G L NH. destruct oc as [c|]; [|apply pg_emit; exact G].
  pose proof (FR_start me s (fun j => N.eqb j i) G L) as F0.
  assert (UI : U0 s (fun j => N.eqb j i) i = true) by (unfold U0; rewrite N.eqb_refl, orb_true_r; reflexivity).
  destruct (fr_ws_begin me _ (K0 s) i r c UI s F0) as [F' _].
  apply (Good_of_FR me _ _ _ F'). intros j X.
  pose proof (fr_upg _ _ _ _ F' j X) as UJ. unfold U0 in UJ.
  destruct (upg j s) eqn:UP.
  - destruct (g_upg _ G j UP) as (t & k & E & H). exists t, k. split; [|exact H].
    apply (fr_tasks _ _ _ _ F' t k); [|exact E]. intros ->. rewrite (NH j k E) in H. discriminate.
  - cbn in UJ.
    assert (ABS : alookup j (store s) = None -> False).
    { intros A0. assert (A1 : alookup j (store (stof (ws_begin cfg me i r c s))) = None).
      { destruct (alookup j (store (stof (ws_begin cfg me i r c s)))) eqn:E; [|reflexivity].
        assert (j < nsid (stof (ws_begin cfg me i r c s))) by (apply (fr_ids _ _ _ _ F'); rewrite E; discriminate).
        rewrite ns_ws_begin in H. exfalso. apply (g_all _ G j H). exact A0. }
      rewrite (absent_not_upg _ _ A1) in X. discriminate. }
    destruct (N.leb (nsid s) j) eqn:LE.
    + exfalso. apply ABS. apply N.leb_le in LE. destruct (alookup j (store s)) eqn:E; [|reflexivity]. assert (j < nsid s) by (apply (g_ids _ G); rewrite E; discriminate). lia.
    + cbn in UJ. apply N.eqb_eq in UJ. subst j.
      destruct (alookup i (store s)) eqn:EX; [|exfalso; apply ABS; reflexivity].
      assert (FB : FRb me i s) by (eapply FRb_of; [exact F0 | rewrite EX; discriminate]).
      destruct (Pend_ws_begin me i r c s FB UP) as [(k' & E' & H')|C]; [exists me, k'; auto | unfold upg in *; congruence].
Qed.

(* ---- a connect request ---- *)
Definition K00 : snap := {| sk := fun _ => None; se := fun _ => false |}.
Lemma FRbase_of me U K s : FR me U K s -> FR me Uall K00 s.
Proof.
  intros [F1 F2 FX F3 F4 F5 F6 F7 F8]. split; try assumption.
  - intros; reflexivity.
  - intros t k _ X. discriminate.
  - intros j X. discriminate.
  - intros; reflexivity.
Qed.
Definition hc_pre : M unit := s0 <- getst ;; (if svc_pending s0 then (modst (set_svc false) ;;; spawn TSvcStart ;;; ret tt) else ret tt).
Definition hc_rest (me : tid) (r : rid) (q : req) (i : sid) : M unit :=
  emit (ONewSession r i) ;;; sock_send cfg i SOpen ;;; spawn (TPingStart i) ;;; emit (OEvent i EConnect) ;;;
  match r_connect q with
  | CoReject tr => del_table i ;;; emit (OResp r (R401 tr)) ;;; finish me
  | CoRaise => del_table i ;;; emit (OResp r (R401 false)) ;;; finish me
  | co =>
    (match co with CoAcceptSend m => srv_send cfg i m | _ => ret tt end) ;;;
    match r_transport q with
    | TrWebsocket =>
      if r_conn_upgrade q then
        match r_conn q with Some c => ws_begin cfg me i r c | None => emit OUnsupported end
      else
        p <- poll_start cfg me i (PKGet r) ;;
        match p with PGot _ => emit (OResp r RMalformed) ;;; finish me | _ => emit OUnsupported end
    | _ =>
      upd i (w_connected true) ;;;
      p <- poll_start cfg me i (PKGet r) ;;
      match p with
      | PGot l => emit (OResp r (R200 l)) ;;; finish me
      | PEmpty => emit (OResp r R400) ;;; finish me
      | PBlocked => ret tt
      end
    end
  end.
Lemma hc_split me r q s : stof (handle_connect cfg me r q s) = stof (hc_rest me r q (valof (new_session (stof (hc_pre s)))) (stof (new_session (stof (hc_pre s))))).
Proof.
  unfold handle_connect. rewrite (stof_bind getst). change (stof (getst s)) with s. change (valof (getst s)) with s. cbv beta.
  rewrite (stof_bind (if svc_pending s then _ else _)). cbv beta. rewrite (stof_bind new_session). cbv beta.
  unfold hc_pre. rewrite (stof_bind getst). change (stof (getst s)) with s. change (valof (getst s)) with s. cbv beta. reflexivity.
Qed.
Lemma ns_hc_pre : ns hc_pre.  Proof. unfold hc_pre. ns_go. Qed.
Lemma ns_hc_rest me r q i : ns (hc_rest me r q i).  Proof. unfold hc_rest. ns_go; apply ns_ws_begin. Qed.
Lemma fr_hc_pre me U K : htF me U K hc_pre TT.  Proof. unfold hc_pre. fr_go. Qed.
Lemma hc_nsid me r q s : nsid (stof (handle_connect cfg me r q s)) = N.succ (nsid s).
Proof. rewrite hc_split, ns_hc_rest. set (s2 := stof (hc_pre s)). assert (E : nsid s2 = nsid s) by apply ns_hc_pre. clearbody s2. unfold new_session, stof. cbn. congruence. Qed.

Lemma keep_step {A} me i (m : M A) s : (forall U K, htF me U K m TT) -> FRb me i s /\ upg i s = false -> FRb me i (stof (m s)) /\ upg i (stof (m s)) = false.
Proof. intros H [F C]. split; [apply frb_step; [apply H | exact F] | eapply cleared_step; [apply H | exact F | exact C]]. Qed.

Lemma Pend_hc_rest me r q i s : FRb me i s -> upg i s = false -> Pend me i (stof (hc_rest me r q i s)).
Proof.
  intros F C. unfold hc_rest.
  rewrite stof_bind. destruct (keep_step me i (emit (ONewSession r i)) s (fun U K => htF_emit me U K _) (conj F C)) as [F1 C1]. set (s1 := stof (emit (ONewSession r i) s)) in *.
  rewrite stof_bind. destruct (keep_step me i (sock_send cfg i SOpen) s1 (fun U K => fr_sock_send me U K i SOpen) (conj F1 C1)) as [F2 C2]. set (s2 := stof (sock_send cfg i SOpen s1)) in *.
  rewrite stof_bind. destruct (keep_step me i (spawn (TPingStart i)) s2 (fun U K => htF_spawn me U K _) (conj F2 C2)) as [F3 C3]. set (s3 := stof (spawn (TPingStart i) s2)) in *.
  rewrite stof_bind. destruct (keep_step me i (emit (OEvent i EConnect)) s3 (fun U K => htF_emit me U K _) (conj F3 C3)) as [F4 C4]. set (s4 := stof (emit (OEvent i EConnect) s3)) in *.
  clearbody s1 s2 s3 s4. clear F F1 F2 F3 C C1 C2 C3.
  assert (TAIL : forall s5, FRb me i s5 -> upg i s5 = false ->
    Pend me i (stof ((match r_transport q with
    | TrWebsocket =>
      if r_conn_upgrade q then
        match r_conn q with Some c => ws_begin cfg me i r c | None => emit OUnsupported end
      else
        p <- poll_start cfg me i (PKGet r) ;;
        match p with PGot _ => emit (OResp r RMalformed) ;;; finish me | _ => emit OUnsupported end
    | _ =>
      upd i (w_connected true) ;;;
      p <- poll_start cfg me i (PKGet r) ;;
      match p with
      | PGot l => emit (OResp r (R200 l)) ;;; finish me
      | PEmpty => emit (OResp r R400) ;;; finish me
      | PBlocked => ret tt
      end
    end) s5))).
  { intros s5 F5 C5. destruct (r_transport q).
    - apply (Pend_cleared me i); [fr_go | exact F5 | exact C5].
    - destruct (r_conn_upgrade q).
      + destruct (r_conn q) as [c|]; [apply Pend_ws_begin; assumption | apply (Pend_cleared me i); [fr_go | exact F5 | exact C5]].
      + apply (Pend_cleared me i); [fr_go | exact F5 | exact C5].
    - apply (Pend_cleared me i); [fr_go | exact F5 | exact C5]. }
  destruct (r_connect q) as [|m|tr|].
  - rewrite stof_bind. apply TAIL; apply (keep_step me i (ret tt) s4 (fun U K => htF_ret me U K tt TT I) (conj F4 C4)).
  - rewrite stof_bind. apply TAIL; apply (keep_step me i (srv_send cfg i m) s4 (fun U K => fr_srv_send me U K i m) (conj F4 C4)).
  - apply (Pend_cleared me i); [fr_go | exact F4 | exact C4].
  - apply (Pend_cleared me i); [fr_go | exact F4 | exact C4].
Qed.

Lemma Pend_handle_connect me r q s : Good s -> me < ntid s -> Pend me (nsid s) (stof (handle_connect cfg me r q s)).
Proof.
  intros G L. rewrite hc_split.
  pose proof (FRbase_of _ _ _ _ (FR_start me s noextra G L)) as F0.
  pose proof (proj1 (fr_hc_pre me Uall K00 s F0)) as F2. pose proof (ns_hc_pre s) as N2. set (s2 := stof (hc_pre s)) in *. clearbody s2.
  pose proof (proj1 (fr_new_session me Uall K00 s2 F2)) as F3.
  assert (V : valof (new_session s2) = nsid s2) by reflexivity. rewrite V.
  assert (E3 : alookup (nsid s2) (store (stof (new_session s2))) = Some new_sess) by (unfold new_session, stof; cbn; apply alookup_aset_same).
  rewrite <- N2. apply Pend_hc_rest.
  - eapply FRb_of; [exact F3 | rewrite E3; discriminate].
  - unfold upg, cur. rewrite E3. reflexivity.
Qed.

Lemma connect_request_good me r q s :
  Good s -> me < ntid s -> (forall j k, entk s me = Some k -> hs_for j k = false) -> Good (stof (handle_connect cfg me r q s)).
Proof.
  intros G L NH.
  pose proof (FR_start me s noextra G L) as F0.
  destruct (fr_handle_connect me _ (K0 s) r q s F0) as [F' _].
  apply (Good_of_FR me _ _ _ F'). intros j X.
  pose proof (fr_upg _ _ _ _ F' j X) as UJ. unfold U0, noextra in UJ.
  destruct (upg j s) eqn:UP.
  - destruct (g_upg _ G j UP) as (t & k & E & H). exists t, k. split; [|exact H].
    apply (fr_tasks _ _ _ _ F' t k); [|exact E]. intros ->. rewrite (NH j k E) in H. discriminate.
  - cbn in UJ. rewrite orb_false_r in UJ. apply N.leb_le in UJ.
    destruct (N.eq_dec j (nsid s)) as [->|NE].
    + destruct (Pend_handle_connect me r q s G L) as [(k' & E' & H')|C]; [exists me, k'; auto | congruence].
    + exfalso. assert (A1 : alookup j (store (stof (handle_connect cfg me r q s))) = None).
      { destruct (alookup j (store (stof (handle_connect cfg me r q s)))) eqn:E; [|reflexivity].
        assert (j < nsid (stof (handle_connect cfg me r q s))) by (apply (fr_ids _ _ _ _ F'); rewrite E; discriminate).
        rewrite hc_nsid in H. lia. }
      rewrite (absent_not_upg _ _ A1) in X. discriminate.
Qed.

Hint Resolve ns_answer ns_finish_get ns_disc_seq ns_spawn_closers : nsdb.
Definition plain (s : st) (me : tid) : Prop := forall j k, entk s me = Some k -> hs_for j k = false.

Lemma request_good me r q s : Good s -> me < ntid s -> plain s me -> Good (stof (handle_request cfg me r q s)).
Proof.
  intros G L NH. unfold handle_request. rewrite stof_bind.
  destruct (sm_lookup_view q s) as (E1 & E2 & E3 & E4 & E5).
  assert (G1 : Good (stof (lookup_view cfg q s))) by (eapply Good_sub; eassumption).
  assert (L1 : me < ntid (stof (lookup_view cfg q s))) by (rewrite E3; exact L).
  assert (NH1 : plain (stof (lookup_view cfg q s)) me) by (intros j k; unfold entk; rewrite E2; apply NH).
  set (s1 := stof (lookup_view cfg q s)) in *. clearbody s1. set (v := valof (lookup_view cfg q s)). clearbody v.
  destruct (decide cfg q v) as [x| | |i|i|i|i].
  - apply (neutral_good me); auto. intros U K; fr_go. ns_go.
  - apply (neutral_good me); auto. intros U K; fr_go. ns_go.
  - apply connect_request_good; assumption.
  - apply upgrade_request_good; assumption.
  - apply (neutral_good me); auto. intros U K; fr_go. ns_go.
  - apply (neutral_good me); auto. intros U K; fr_go. ns_go.
  - apply (neutral_good me); auto. intros U K; fr_go. ns_go.
Qed.

Lemma run_api_good me a x s : Good s -> me < ntid s -> plain s me -> Good (stof (run_api cfg me a x s)).
Proof. intros G L NH. apply (neutral_good me); auto. intros U K; apply fr_run_api. apply ns_run_api. Qed.

(* ---- stimuli ---- *)
Lemma pg_getst_dep {B} (f : st -> M B) : (forall s, Good s -> Good (stof (f s s))) -> pg (bind getst f).
Proof. intros H s G. rewrite stof_getst_bind. apply H, G. Qed.
Lemma pg_pconn c x : pg (pconn c x).  Proof. apply pg_modst_same. intros s. cbn. auto. Qed.
Lemma pg_gconn_bind {B} c (f : conn -> M B) : (forall k, pg (f k)) -> pg (bind (gconn c) f).
Proof. intros H. apply pg_bind; [apply pg_same; intros s; cbn; auto | exact H]. Qed.

Definition add_task (s : st) : st := set_tasks (aset (ntid s) {| t_task := TSvcStart; t_tout := false |} (tasks s)) (set_ntid (N.succ (ntid s)) s).
Lemma Good_add s : Good s -> Good (add_task s) /\ ntid s < ntid (add_task s) /\ plain (add_task s) (ntid s).
Proof.
  intros [G1 G2 G3 G4 G5]. split; [split|split].
  - intros i X. destruct (G1 i X) as (t & k & E & H). exists t, k. split; [|exact H]. pose proof (G2 t k E) as LT.
    unfold entk, add_task. cbn. rewrite alookup_aset_other by lia. exact E.
  - intros t k. unfold entk, add_task. cbn. destruct (N.eq_dec t (ntid s)) as [->|N]; [intros _; lia|]. rewrite alookup_aset_other by exact N. intros X. specialize (G2 t k X). lia.
  - exact G3.
  - exact G4.
  - exact G5.
  - unfold add_task. cbn. lia.
  - intros j k. unfold entk, add_task. cbn. rewrite alookup_aset_same. intros X. injection X as <-. reflexivity.
Qed.

Lemma cancel_good w i r k s : Good s -> entk s w = Some k -> hs_for i k = true -> (forall j, hs_for j k = true -> j = i) ->
  Good (stof (upgrade_fail w i r RRaised s)).
Proof.
  intros G E H UQ. pose proof (g_fresh _ G w k E) as L.
  apply (step_good w _ s (fun j => N.eqb j i)); auto.
  - intros U K. apply fr_upgrade_fail.
  - apply ns_upgrade_fail.
  - intros j k' E' H'. assert (k' = k) by congruence. subst k'. rewrite (UQ j H'). apply N.eqb_refl.
  - intros j M EX. apply N.eqb_eq in M. subst j. apply Pend_upgrade_fail. eapply FRb_of; [apply (FR_start w s noextra G L) | exact EX].
Qed.

Theorem apply_op_good o ch : pg (apply_op cfg o ch).
Proof.
  destruct o as [r q|c f|c|a x|c|r|dt]; cbn [apply_op].
  - apply pg_bind; [destruct (r_conn q); [apply pg_pconn | apply pg_ret]|]. intros _. apply pg_getst_dep. intros s G.
    destruct (Good_add s G) as (G1 & L1 & P1). rewrite stof_bind. change (stof (modst _ s)) with (add_task s). rewrite stof_bind.
    apply settle_good. apply request_good; assumption.
  - apply pg_gconn_bind. intros k. apply pg_bind; [apply pg_pconn|]. intros _. apply pg_bind; [destruct (k_waiter k); [apply pg_wake | apply pg_ret]|]. intros _. apply settle_good.
  - apply pg_gconn_bind. intros k. apply pg_bind; [apply pg_pconn|]. intros _. apply pg_bind; [destruct (k_waiter k); [apply pg_wake | apply pg_ret]|]. intros _. apply settle_good.
  - apply pg_getst_dep. intros s G.
    destruct (Good_add s G) as (G1 & L1 & P1). rewrite stof_bind. change (stof (modst _ s)) with (add_task s). rewrite stof_bind.
    apply settle_good. apply run_api_good; assumption.
  - apply pg_gconn_bind. intros k. destruct (k_waiter k) as [w|]; [|apply pg_ret]. apply pg_getst_dep. intros s G.
    destruct (alookup w (tasks s)) as [e|] eqn:L; [|exact G].
    assert (E : entk s w = Some (t_task e)) by (apply entk_in; exact L).
    destruct (t_task e) as [i0 [r0|c0 rd0] t0 | i0 c0 rd0 | r0 i0 c0 | r0 i0 c0 | r0 i0 c0 w0 t0 fresh0 | r0 i0 c0 w0 fresh0 | i0 k0 | i0 | i0 t0 | | t0 | rest0 iv0 t0 | i0 payload0 a0 | i0 parent0 | a0 pend0 sids0] eqn:TK; try exact G.
    + rewrite stof_bind. rewrite stof_bind. apply settle_good.
      set (s1 := stof (pconn c _ s)). assert (G1 : Good s1) by (apply pg_pconn; exact G). assert (E1 : entk s1 w = Some (TWsProbe r0 i0 c0)) by exact E.
      eapply cancel_good; [exact G1 | exact E1 | cbn; apply N.eqb_refl | cbn; intros j X; apply N.eqb_eq in X; exact X].
    + rewrite stof_bind. rewrite stof_bind. apply settle_good.
      set (s1 := stof (pconn c _ s)). assert (G1 : Good s1) by (apply pg_pconn; exact G). assert (E1 : entk s1 w = Some (TWsUpgr r0 i0 c0)) by exact E.
      eapply cancel_good; [exact G1 | exact E1 | cbn; apply N.eqb_refl | cbn; intros j X; apply N.eqb_eq in X; exact X].
  - destruct (q_timeout_wins (c_quirks cfg)); [|apply pg_ret]. apply pg_getst_bind. intros s0.
    destruct (find _ (tasks s0)) as [[t e]|]; [|apply pg_ret]. apply pg_bind; [apply pg_fire|]. intros _. apply settle_good.
  - apply pg_getst_bind. intros s0. apply advance_good.
Qed.
End WithCfg.

(* ---- every reachable state, for every history and every schedule ---- *)
Lemma Good_init cfg : Good (init cfg).
Proof.
  split; cbn.
  - intros i X. unfold upg, cur in X. cbn in X. discriminate.
  - intros t k X. unfold entk in X. cbn in X. discriminate.
  - intros i X. exfalso. apply X. reflexivity.
  - intros i X. discriminate.
  - intros i X. lia.
Qed.

Theorem reachable_good cfg ops : Good (fst (run_sched cfg ops (init cfg) [])).
Proof.
  assert (H : forall ops s acc, Good s -> Good (fst (run_sched cfg ops s acc))).
  { induction ops0 as [|[o ch] r IH]; intros s acc G; cbn [run_sched]; [exact G|].
    pose proof (apply_op_good cfg o ch s G) as P. unfold stof in P. destruct (apply_op cfg o ch s) as [[u s1] o1]. cbn in P. apply IH. exact P. }
  apply H, Good_init.
Qed.

Definition handshake_task_of (i : sid) (e : tentry) : Prop := exists r c, t_task e = TWsProbe r i c \/ t_task e = TWsUpgr r i c.

Theorem upgrading_only_during_handshake cfg ops :
  let s := fst (run_sched cfg ops (init cfg) []) in
  forall i ss, alookup i (store s) = Some ss -> s_upgrading ss = true ->
  exists t e, alookup t (tasks s) = Some e /\ handshake_task_of i e.
Proof.
  intros s i ss L X. destruct (g_upg _ (reachable_good cfg ops) i) as (t & k & E & H); [unfold upg, cur; fold s; rewrite L; exact X|].
  fold s in E. unfold entk in E. destruct (alookup t (tasks s)) as [e|] eqn:LT; [|discriminate]. injection E as E. exists t, e. split; [exact LT|].
  destruct k; cbn in H; try discriminate; apply N.eqb_eq in H; subst; eexists; eexists; [left | right]; exact E.
Qed.

(* the contrapositive, as the property states it: when no handshake is in progress for a session, polling is not blocked *)
Corollary no_handshake_not_upgrading cfg ops :
  let s := fst (run_sched cfg ops (init cfg) []) in
  forall i ss, alookup i (store s) = Some ss ->
  (forall t e, alookup t (tasks s) = Some e -> ~ handshake_task_of i e) -> s_upgrading ss = false.
Proof.
  intros s i ss L NO. destruct (s_upgrading ss) eqn:X; [|reflexivity]. exfalso.
  destruct (upgrading_only_during_handshake cfg ops i ss L X) as (t & e & LT & H). exact (NO t e LT H).
Qed.

(* the statement is not vacuous: a history that leaves a session in the middle of the handshake, and one in which it failed *)
Definition ex_cfg : config :=
  {| c_interval := 25600; c_timeout := 20480; c_async_handlers := false; c_monitor := false; c_allow_upgrades := true; c_polling := true;
     c_websocket := true; c_quirks := {| q_sentinel := true; q_read_timeout := false; q_concurrent_disc := false; q_batch_timers := false; q_timeout_wins := false |} |}.
Definition ex_open : req :=
  {| r_method := MGet; r_transport := TrPolling; r_sid := None; r_eio4 := true; r_jsonp := JAbsent; r_upgrade_ws := false; r_conn_upgrade := false;
     r_origin_refused := false; r_conn := None; r_body := BPackets []; r_connect := CoAccept |}.
Definition ex_upgrade : req :=
  {| r_method := MGet; r_transport := TrWebsocket; r_sid := Some (SKnown 0); r_eio4 := true; r_jsonp := JAbsent; r_upgrade_ws := true; r_conn_upgrade := true;
     r_origin_refused := false; r_conn := Some 7; r_body := BPackets []; r_connect := CoAccept |}.
Definition ex_ops : list (op * list nat) := [(OpReq 0 ex_open, []); (OpReq 1 ex_upgrade, [])].
Example ex_in_progress : let s := fst (run_sched ex_cfg ex_ops (init ex_cfg) []) in
  s_upgrading (cur 0 s) = true /\ exists t e, alookup t (tasks s) = Some e /\ t_task e = TWsProbe 1 0 7.
Proof. split; [vm_compute; reflexivity|]. exists 2, {| t_task := TWsProbe 1 0 7; t_tout := false |}. vm_compute. split; reflexivity. Qed.
Example ex_failed : let s := fst (run_sched ex_cfg (ex_ops ++ [(OpWsFrame 7 (FPk CPong), [])]) (init ex_cfg) []) in
  alookup 0 (store s) <> None /\ s_upgrading (cur 0 s) = false /\ s_upgraded (cur 0 s) = false.
Proof. vm_compute. split; [discriminate | split; reflexivity]. Qed.
