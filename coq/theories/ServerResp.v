(* C15: responses are never misdirected.  Whatever runs on behalf of request r - the request itself on arrival, its long poll, its
   WebSocket handler - answers only r; whatever runs on behalf of no request (writers, heartbeats, the monitor, message handlers,
   closers, application calls) answers nothing. *)
From Coq Require Import ZArith NArith List Bool Lia.
Import ListNotations.
From EIO Require Import Server ServerReasons.
Open Scope N_scope.

Definition ronly (r0 : option rid) (o : out) : Prop := match o with OResp r _ => r0 = Some r | _ => True end.

Lemma rq_raw {A} (m : M A) : (forall s, outof (m s) = []) -> forall r0, emits (ronly r0) m.
Proof. intros H r0 s. rewrite H. constructor. Qed.
Lemma rq_gsess r0 i : emits (ronly r0) (gsess i).  Proof. apply rq_raw. reflexivity. Qed.
Lemma rq_has_sess r0 i : emits (ronly r0) (has_sess i).  Proof. apply rq_raw. reflexivity. Qed.
Lemma rq_gconn r0 c : emits (ronly r0) (gconn c).  Proof. apply rq_raw. reflexivity. Qed.
Lemma rq_in_table r0 i : emits (ronly r0) (in_table i).  Proof. apply rq_raw. reflexivity. Qed.
Lemma rq_alive r0 t : emits (ronly r0) (alive t).  Proof. apply rq_raw. reflexivity. Qed.
Lemma rq_spawn r0 k : emits (ronly r0) (spawn k).  Proof. apply rq_raw. reflexivity. Qed.
Lemma rq_new_timer r0 dt : emits (ronly r0) (new_timer dt).  Proof. apply rq_raw. reflexivity. Qed.
Lemma rq_new_session r0 : emits (ronly r0) new_session.  Proof. apply rq_raw. reflexivity. Qed.
Lemma rq_psess r0 i x : emits (ronly r0) (psess i x).  Proof. apply emits_modst. Qed.
Lemma rq_pconn r0 c x : emits (ronly r0) (pconn c x).  Proof. apply emits_modst. Qed.
Lemma rq_del_table r0 i : emits (ronly r0) (del_table i).  Proof. apply emits_modst. Qed.
Lemma rq_wake r0 t : emits (ronly r0) (wake t).  Proof. apply emits_modst. Qed.
Lemma rq_block r0 me k : emits (ronly r0) (block me k).  Proof. apply emits_modst. Qed.
#[export] Hint Resolve rq_gsess rq_has_sess rq_gconn rq_in_table rq_alive rq_spawn rq_new_timer rq_new_session rq_psess rq_pconn rq_del_table rq_wake rq_block : em.
Lemma rq_upd r0 i g : emits (ronly r0) (upd i g).  Proof. unfold upd. em_go. Qed.
Lemma rq_del_tables r0 l : emits (ronly r0) (del_tables l).
Proof. induction l as [|i r IH]; cbn [del_tables]; em_go; exact IH. Qed.
Lemma rq_wake_all r0 l : emits (ronly r0) (wake_all l).
Proof. induction l as [|t r IH]; cbn [wake_all]; em_go; exact IH. Qed.
#[export] Hint Resolve rq_upd rq_del_tables rq_wake_all : em.
Lemma rq_finish r0 me : emits (ronly r0) (finish me).  Proof. unfold finish. em_go. Qed.
Lemma rq_q_put r0 i x : emits (ronly r0) (q_put i x).  Proof. unfold q_put. em_go. Qed.
Lemma rq_q_task_done r0 i : emits (ronly r0) (q_task_done i).  Proof. unfold q_task_done. em_go. Qed.
#[export] Hint Resolve rq_finish rq_q_put rq_q_task_done : em.
Lemma rq_drain r0 fuel : forall i acc, emits (ronly r0) (drain fuel i acc).
Proof. induction fuel as [|n IH]; intros i acc; cbn [drain]; em_go; try apply IH. Qed.
#[export] Hint Resolve rq_drain : em.

Section WithCfg.
Variable cfg : config.
Variable r0 : option rid.

Lemma rq_close_nowait i ab r : emits (ronly r0) (close_nowait cfg i ab r).  Proof. unfold close_nowait, begin_close. em_go. Qed.
Hint Resolve rq_close_nowait : em.
Lemma rq_sock_send i p : emits (ronly r0) (sock_send cfg i p).  Proof. unfold sock_send. em_go. Qed.
Lemma rq_get_socket i : emits (ronly r0) (get_socket i).  Proof. unfold get_socket. em_go. Qed.
Hint Resolve rq_sock_send rq_get_socket : em.
Lemma rq_srv_send i m : emits (ronly r0) (srv_send cfg i m).  Proof. unfold srv_send. em_go. Qed.
Lemma rq_close_wait i r : emits (ronly r0) (close_wait cfg i r).  Proof. unfold close_wait. em_go. Qed.
Lemma rq_check_ping_timeout i : emits (ronly r0) (check_ping_timeout cfg i).  Proof. unfold check_ping_timeout. em_go. Qed.
Hint Resolve rq_srv_send rq_close_wait rq_check_ping_timeout : em.
Lemma rq_run_handler me bg i payload a : emits (ronly r0) (run_handler cfg me bg i payload a).  Proof. unfold run_handler. em_go. Qed.
Hint Resolve rq_run_handler : em.
Lemma rq_receive i p : emits (ronly r0) (receive cfg i p).  Proof. unfold receive. em_go. Qed.
Hint Resolve rq_receive : em.
Lemma rq_receive_all i l : emits (ronly r0) (receive_all cfg i l).
Proof. induction l as [|p r IH]; cbn [receive_all]; em_go; try exact IH. Qed.
Lemma rq_refuse_and_end i : emits (ronly r0) (refuse_and_end cfg i).  Proof. unfold refuse_and_end. em_go. Qed.
Lemma rq_reap_if_closed i : emits (ronly r0) (reap_if_closed i).  Proof. unfold reap_if_closed. em_go. Qed.
Hint Resolve rq_receive_all rq_refuse_and_end rq_reap_if_closed : em.
Lemma rq_poll_attempt me tout i k t : emits (ronly r0) (poll_attempt cfg me tout i k t).  Proof. unfold poll_attempt. em_go. Qed.
Hint Resolve rq_poll_attempt : em.
Lemma rq_poll_start me i k : emits (ronly r0) (poll_start cfg me i k).  Proof. unfold poll_start. em_go. Qed.
Hint Resolve rq_poll_start : em.
Lemma rq_ws_send_all c l : emits (ronly r0) (ws_send_all c l).
Proof. induction l as [|p r IH]; cbn [ws_send_all]; em_go; try exact IH. Qed.
Lemma rq_ws_close c : emits (ronly r0) (ws_close c).  Proof. unfold ws_close. em_go. Qed.
Hint Resolve rq_ws_send_all rq_ws_close : em.
Lemma rq_writer_loop fuel : forall me i c rd first, emits (ronly r0) (writer_loop cfg fuel me i c rd first).
Proof. induction fuel as [|n IH]; intros me i c rd first; destruct first as [| |[|p l]]; cbn [writer_loop]; unfold writer_exit; em_go; try apply IH. Qed.
Lemma rq_ws_take c : emits (ronly r0) (ws_take c).  Proof. unfold ws_take. em_go. Qed.
Lemma rq_ws_block me c k : emits (ronly r0) (ws_block me c k).  Proof. unfold ws_block. em_go. Qed.
Lemma rq_ping_fire me i : emits (ronly r0) (ping_fire cfg me i).  Proof. unfold ping_fire. em_go. Qed.
Hint Resolve rq_writer_loop rq_ws_take rq_ws_block rq_ping_fire : em.
Lemma rq_svc_continue fuel : forall me rest interval, emits (ronly r0) (svc_continue cfg fuel me rest interval).
Proof. induction fuel as [|n IH]; intros me rest interval; destruct rest as [|i r]; cbn [svc_continue]; em_go; try apply IH. Qed.
Lemma rq_disc_seq fuel : forall me a l, emits (ronly r0) (disc_seq cfg fuel me a l).
Proof. induction fuel as [|n IH]; intros me a l; destruct l as [|i r]; cbn [disc_seq]; em_go; try apply IH. Qed.
Lemma rq_spawn_closers p l : emits (ronly r0) (spawn_closers p l).
Proof. induction l as [|i r IH]; cbn [spawn_closers]; em_go; try exact IH. Qed.
Lemma rq_lookup_view q : emits (ronly r0) (lookup_view cfg q).
Proof. unfold lookup_view. destruct (decide_early cfg q); [apply emits_ret|]. destruct (r_sid q) as [[i|]|]; try apply emits_ret. em_go. Qed.
Hint Resolve rq_svc_continue rq_disc_seq rq_spawn_closers rq_lookup_view : em.
(* application calls answer no request *)
Lemma rq_run_api me a x : emits (ronly r0) (run_api cfg me a x).
Proof. destruct x as [ref m|[ref|]|ref|ref|ref u]; cbn [run_api]; em_go. Qed.
End WithCfg.

Section Answering.
Variable cfg : config.
#[local] Hint Resolve rq_close_nowait rq_sock_send rq_get_socket rq_srv_send rq_close_wait rq_check_ping_timeout rq_run_handler rq_receive rq_receive_all
  rq_refuse_and_end rq_reap_if_closed rq_poll_attempt rq_poll_start rq_ws_send_all rq_ws_close rq_writer_loop rq_ws_take rq_ws_block rq_ping_fire
  rq_svc_continue rq_disc_seq rq_spawn_closers rq_lookup_view : em.

(* what runs for request r answers r only *)
Lemma ro_answer me r x : emits (ronly (Some r)) (answer me r x).  Proof. unfold answer. em_go. Qed.
Lemma ro_finish_get me i r p : emits (ronly (Some r)) (finish_get cfg me i r p).  Proof. destruct p; cbn [finish_get]; em_go. Qed.
Lemma ro_ws_request_done me i r x : emits (ronly (Some r)) (ws_request_done me i r x).  Proof. unfold ws_request_done. em_go. Qed.
Hint Resolve ro_answer ro_finish_get ro_ws_request_done : em.
Lemma ro_ws_epilogue_end me i r : emits (ronly (Some r)) (ws_epilogue_end cfg me i r).  Proof. unfold ws_epilogue_end. em_go. Qed.
Hint Resolve ro_ws_epilogue_end : em.
Lemma ro_ws_epilogue me i r c w fresh : emits (ronly (Some r)) (ws_epilogue cfg me i r c w fresh).  Proof. unfold ws_epilogue. em_go. Qed.
Hint Resolve ro_ws_epilogue : em.
Lemma ro_ws_read_loop fuel : forall me i r c w fresh, emits (ronly (Some r)) (ws_read_loop cfg fuel me i r c w fresh).
Proof. induction fuel as [|n IH]; intros me i r c w fresh; cbn [ws_read_loop]; em_go; try apply IH. Qed.
Hint Resolve ro_ws_read_loop : em.
Lemma ro_ws_steady me i r c fresh : emits (ronly (Some r)) (ws_steady cfg me i r c fresh).  Proof. unfold ws_steady. em_go. Qed.
Lemma ro_upgrade_fail me i r x : emits (ronly (Some r)) (upgrade_fail me i r x).  Proof. unfold upgrade_fail. em_go. Qed.
Hint Resolve ro_ws_steady ro_upgrade_fail : em.
Lemma ro_ws_upgr me i r c : emits (ronly (Some r)) (ws_upgr cfg me i r c).  Proof. unfold ws_upgr. em_go. Qed.
Hint Resolve ro_ws_upgr : em.
Lemma ro_ws_probe me i r c : emits (ronly (Some r)) (ws_probe cfg me i r c).  Proof. unfold ws_probe. em_go. Qed.
Hint Resolve ro_ws_probe : em.
Lemma ro_ws_begin me i r c : emits (ronly (Some r)) (ws_begin cfg me i r c).  Proof. unfold ws_begin. em_go. Qed.
Hint Resolve ro_ws_begin : em.
Lemma ro_handle_connect me r q : emits (ronly (Some r)) (handle_connect cfg me r q).  Proof. unfold handle_connect. em_go. Qed.
Hint Resolve ro_handle_connect : em.

Theorem request_answers_only_itself me r q s : Forall (ronly (Some r)) (outof (handle_request cfg me r q s)).
Proof. revert s. change (emits (ronly (Some r)) (handle_request cfg me r q)). unfold handle_request. em_go. Qed.

Definition rid_of (k : task) : option rid :=
  match k with
  | TPoll _ (PKGet r) _ | TWsProbe r _ _ | TWsUpgr r _ _ | TWsRead r _ _ _ _ _ | TWsJoinW r _ _ _ _ => Some r
  | _ => None
  end.
Theorem task_answers_only_its_request me e s : Forall (ronly (rid_of (t_task e))) (outof (run_task cfg me e s)).
Proof.
  revert s. change (emits (ronly (rid_of (t_task e))) (run_task cfg me e)). unfold run_task.
  destruct (t_task e) as [i [r|c rd] t | i c rd | r i c | r i c | r i c w t fresh | r i c w fresh | i k | i | i t | | t | rest iv t | i payload a | i parent | a pend]; cbn [rid_of]; em_go.
Qed.
Theorem api_answers_no_request me a x s : Forall (ronly None) (outof (run_api cfg me a x s)).
Proof. apply rq_run_api. Qed.
End Answering.
