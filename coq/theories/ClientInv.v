(* A global invariant of the client model (C08), for every history of stimuli in which the application does not start a
   connect() while another one is still waiting for its handshake:
     - the lifecycle events alternate: connect, disconnect, connect, ... (never two connect events without a disconnect
       event in between, never a disconnect event for a connection that is not established, never two for one connection);
     - the client reports 'connected' exactly while the last lifecycle event is a connect event;
     - a client without a session id is disconnected.
   The invariant relates the state to all outputs so far, so it is stated on (state, accumulated outputs). *)
From Coq Require Import ZArith NArith List Bool Lia Permutation.
Import ListNotations.
From EIO Require Import Client.
Open Scope N_scope.

Definition stof {A} (r : A * st * list out) : st := snd (fst r).
Definition outof {A} (r : A * st * list out) : list out := snd r.
Definition valof {A} (r : A * st * list out) : A := fst (fst r).

(* ---- the lifecycle of a client as its application sees it ---- *)
Definition lifecycle (o : out) : option bool :=
  match o with OEv EvConnect => Some true | OEv (EvDisconnect _) => Some false | _ => None end.
(* Some b: so far the events alternate and the connection is established (b = true) or not; None: they did not alternate *)
Definition pstep (p : option bool) (o : out) : option bool :=
  match lifecycle o with
  | None => p
  | Some b => match p with Some cur => if Bool.eqb cur b then None else Some b | None => None end
  end.
Definition phase_from (p : option bool) (l : list out) : option bool := fold_left pstep l p.
Definition phase (l : list out) : option bool := phase_from (Some false) l.
Definition nolife (l : list out) : Prop := Forall (fun o => lifecycle o = None) l.

Lemma phase_app a b : phase (a ++ b) = phase_from (phase a) b.
Proof. unfold phase, phase_from. apply fold_left_app. Qed.
Lemma phase_from_nolife p l : nolife l -> phase_from p l = p.
Proof. induction 1 as [|o l H _ IH]; [reflexivity|]. cbn. unfold pstep at 2. rewrite H. exact IH. Qed.
Lemma phase_nolife a b : nolife b -> phase (a ++ b) = phase a.
Proof. intros H. rewrite phase_app. apply phase_from_nolife. exact H. Qed.
Lemma nolife_app a b : nolife a -> nolife b -> nolife (a ++ b).
Proof. apply Forall_app_intro || (intros; apply Forall_app; split; assumption). Qed.
Lemma nolife_nil : nolife [].  Proof. constructor. Qed.

Definition connected (s : st) : bool := match state s with Connected => true | _ => false end.

(* ---- kinds of tasks that matter ---- *)
Definition preopen (k : task) : bool :=
  match k with TCOpenGet _ _ _ _ | TCOpenRecv _ _ _ => true | TCWsConn _ _ u _ => negb u | _ => false end.
Definition isdj (k : task) : bool := match k with TDJoin _ _ => true | _ => false end.
Definition neutral (k : task) : bool := negb (preopen k) && negb (isdj k).

(* ---- association lists ---- *)
Lemma alookup_aset_same {A} k (v : A) l : alookup k (aset k v l) = Some v.
Proof. induction l as [|[k' v'] r IH]; cbn; [rewrite N.eqb_refl; reflexivity|]. destruct (N.eqb_spec k k'); cbn; [rewrite N.eqb_refl; reflexivity|].
  destruct (N.eqb_spec k k'); [contradiction | exact IH]. Qed.
Lemma alookup_aset_other {A} k j (v : A) l : j <> k -> alookup j (aset k v l) = alookup j l.
Proof.
  intros N. induction l as [|[k' v'] r IH]; cbn.
  - destruct (N.eqb_spec j k); [contradiction | reflexivity].
  - destruct (N.eqb_spec k k') as [->|Nk]; cbn.
    + destruct (N.eqb_spec j k'); [contradiction | reflexivity].
    + destruct (N.eqb_spec j k'); [reflexivity | exact IH].
Qed.
Lemma alookup_adel_other {A} k j (l : list (N * A)) : j <> k -> alookup j (adel k l) = alookup j l.
Proof.
  intros N. induction l as [|[k' v'] r IH]; cbn; [reflexivity|].
  destruct (N.eqb_spec k k') as [->|Nk]; cbn.
  - destruct (N.eqb_spec j k'); [contradiction | reflexivity].
  - destruct (N.eqb_spec j k'); [reflexivity | exact IH].
Qed.
(* deleting may uncover an older binding of the same key; all we need is that whatever is found was there before *)
Lemma alookup_adel_sub {A} k j (l : list (N * A)) e : alookup j (adel k l) = Some e -> exists e', In (j, e') l.
Proof.
  induction l as [|[k' v'] r IH]; cbn; [discriminate|].
  destruct (N.eqb_spec k k') as [->|Nk]; cbn.
  - intros H. clear IH. induction r as [|[k2 v2] r2 IH2]; cbn in *; [discriminate|].
    destruct (N.eqb_spec j k2) as [->|]; [eexists; right; left; reflexivity|]. destruct (IH2 H) as [e' [X|X]]; [injection X as -> ->; eexists; left; reflexivity | eexists; right; right; exact X].
  - destruct (N.eqb_spec j k') as [->|]; [intros _; eexists; left; reflexivity|]. intros H. destruct (IH H) as [e' X]. eexists; right; exact X.
Qed.

Lemma keys_aset {A} k (v : A) l : alookup k l <> None -> map fst (aset k v l) = map fst l.
Proof.
  induction l as [|[k' v'] r IH]; cbn; [intros H; contradiction H; reflexivity|].
  destruct (N.eqb_spec k k') as [->|Nk]; cbn; [reflexivity|]. intros H. f_equal. apply IH. exact H.
Qed.
Lemma keys_aset_new {A} k (v : A) l : alookup k l = None -> map fst (aset k v l) = map fst l ++ [k].
Proof.
  induction l as [|[k' v'] r IH]; cbn; [reflexivity|].
  destruct (N.eqb_spec k k') as [->|Nk]; cbn; [discriminate|]. intros H. f_equal. apply IH. exact H.
Qed.
Lemma alookup_none_notin {A} k (l : list (N * A)) : alookup k l = None -> ~ In k (map fst l).
Proof.
  induction l as [|[k' v'] r IH]; cbn; [tauto|]. destruct (N.eqb_spec k k') as [->|Nk]; [discriminate|].
  intros H [E|E]; [congruence | exact (IH H E)].
Qed.
Lemma alookup_notin_none {A} k (l : list (N * A)) : ~ In k (map fst l) -> alookup k l = None.
Proof.
  induction l as [|[k' v'] r IH]; cbn; [reflexivity|]. intros H. destruct (N.eqb_spec k k') as [->|Nk]; [contradiction H; left; reflexivity|].
  apply IH. tauto.
Qed.
Lemma nodup_aset {A} k (v : A) l : NoDup (map fst l) -> NoDup (map fst (aset k v l)).
Proof.
  intros H. destruct (alookup k l) eqn:E.
  - rewrite keys_aset; [exact H | congruence].
  - rewrite keys_aset_new by exact E. apply (Permutation_NoDup (Permutation_cons_append (map fst l) k)).
    constructor; [apply alookup_none_notin; exact E | exact H].
Qed.
Lemma in_keys_adel {A} k j (l : list (N * A)) : In j (map fst (adel k l)) -> In j (map fst l).
Proof.
  induction l as [|[k' v'] r IH]; cbn; [tauto|]. destruct (N.eqb_spec k k') as [->|Nk]; cbn; [tauto|]. intros [E|E]; [left; exact E | right; exact (IH E)].
Qed.
Lemma nodup_adel {A} k (l : list (N * A)) : NoDup (map fst l) -> NoDup (map fst (adel k l)).
Proof.
  induction l as [|[k' v'] r IH]; cbn; [trivial|]. intros H. inversion H as [|x xs N1 N2]; subst.
  destruct (N.eqb_spec k k') as [->|Nk]; cbn; [exact N2|]. constructor; [intros X; apply N1; eapply in_keys_adel; exact X | apply IH; exact N2].
Qed.
Lemma alookup_adel_same {A} k (l : list (N * A)) : NoDup (map fst l) -> alookup k (adel k l) = None.
Proof.
  induction l as [|[k' v'] r IH]; cbn; [reflexivity|]. intros H. inversion H as [|x xs N1 N2]; subst.
  destruct (N.eqb_spec k k') as [->|Nk]; cbn.
  - apply alookup_notin_none. exact N1.
  - destruct (N.eqb_spec k k'); [contradiction|]. apply IH. exact N2.
Qed.
Lemma alookup_in_keys {A} k (l : list (N * A)) e : alookup k l = Some e -> In k (map fst l).
Proof. intros H. destruct (in_dec N.eq_dec k (map fst l)) as [I|I]; [exact I|]. rewrite (alookup_notin_none _ _ I) in H. discriminate. Qed.

(* ---- the invariant ---- *)
Definition ent (s : st) (t : tid) : option task := match alookup t (tasks s) with Some e => Some (t_task e) | None => None end.

Record Core (s : st) : Prop := {
  c_sid : sid_set s = false -> state s = Disconnected;
  c_fresh : forall t k, ent s t = Some k -> t < ntid s;
  c_nodup : NoDup (map fst (tasks s)) }.

(* what must hold of the tasks other than `me` (all tasks when me = None) *)
Definition notme (me : option tid) (t : tid) : Prop := match me with Some m => t <> m | None => True end.
Record Tasks (me : option tid) (s : st) : Prop := {
  t_pre : forall t k, notme me t -> ent s t = Some k -> preopen k = true ->
          state s = Disconnected /\ forall t' k', notme me t' -> ent s t' = Some k' -> preopen k' = true -> t' = t;
  t_dj : forall t k, notme me t -> ent s t = Some k -> isdj k = true ->
          state s = Disconnecting /\ forall t' k', notme me t' -> ent s t' = Some k' -> isdj k' = true -> t' = t }.

Definition Inv (s : st) (acc : list out) : Prop := phase acc = Some (connected s) /\ Core s /\ Tasks None s.
(* in the middle of a step of task `me` *)
Definition MInv (me : tid) (s : st) (acc : list out) : Prop := phase acc = Some (connected s) /\ Core s /\ Tasks (Some me) s.
(* no task but `me` is waiting for a handshake or for the end of a read loop *)
Definition NoOthers (me : tid) (s : st) : Prop := forall t k, t <> me -> ent s t = Some k -> neutral k = true.

Lemma Inv_MInv me s acc : Inv s acc -> MInv me s acc.
Proof.
  intros (P & C & [T1 T2]). split; [exact P|]. split; [exact C|]. split.
  - intros t k N E Q. destruct (T1 t k I E Q) as [S U]. split; [exact S|]. intros t' k' N' E' Q'. exact (U t' k' I E' Q').
  - intros t k N E Q. destruct (T2 t k I E Q) as [S U]. split; [exact S|]. intros t' k' N' E' Q'. exact (U t' k' I E' Q').
Qed.

(* closing the hole: what `me` has become must fit *)
Lemma MInv_Inv me s acc :
  MInv me s acc ->
  (forall k, ent s me = Some k -> preopen k = true -> state s = Disconnected /\ forall t k', t <> me -> ent s t = Some k' -> preopen k' = false) ->
  (forall k, ent s me = Some k -> isdj k = true -> state s = Disconnecting /\ forall t k', t <> me -> ent s t = Some k' -> isdj k' = false) ->
  Inv s acc.
Proof.
  intros (P & C & [T1 T2]) Hp Hd. split; [exact P|]. split; [exact C|]. split.
  - intros t k _ E Q. destruct (N.eq_dec t me) as [->|Nt].
    + destruct (Hp k E Q) as [S U]. split; [exact S|]. intros t' k' _ E' Q'. destruct (N.eq_dec t' me) as [->|Nt']; [reflexivity|].
      rewrite (U t' k' Nt' E') in Q'. discriminate.
    + destruct (T1 t k Nt E Q) as [S U]. split; [exact S|]. intros t' k' _ E' Q'. destruct (N.eq_dec t' me) as [->|Nt']; [|exact (U t' k' Nt' E' Q')].
      destruct (Hp k' E' Q') as [_ U']. rewrite (U' t k Nt E) in Q. discriminate.
  - intros t k _ E Q. destruct (N.eq_dec t me) as [->|Nt].
    + destruct (Hd k E Q) as [S U]. split; [exact S|]. intros t' k' _ E' Q'. destruct (N.eq_dec t' me) as [->|Nt']; [reflexivity|].
      rewrite (U t' k' Nt' E') in Q'. discriminate.
    + destruct (T2 t k Nt E Q) as [S U]. split; [exact S|]. intros t' k' _ E' Q'. destruct (N.eq_dec t' me) as [->|Nt']; [|exact (U t' k' Nt' E' Q')].
      destruct (Hd k' E' Q') as [_ U']. rewrite (U' t k Nt E) in Q. discriminate.
Qed.

(* ---- Hoare triples over (state, outputs so far) ---- *)
Definition ht {A} (P : st -> list out -> Prop) (m : M A) (Q : A -> st -> list out -> Prop) : Prop :=
  forall s acc, P s acc -> Q (valof (m s)) (stof (m s)) (acc ++ outof (m s)).

Lemma ht_bind {A B} P (m : M A) (f : A -> M B) Q R : ht P m Q -> (forall a, ht (Q a) (f a) R) -> ht P (bind m f) R.
Proof.
  intros Hm Hf s acc p. specialize (Hm s acc p). unfold bind, valof, stof, outof in *.
  destruct (m s) as [[a s1] o1]. cbn in *. specialize (Hf a s1 (acc ++ o1) Hm). unfold valof, stof, outof in Hf.
  destruct (f a s1) as [[b s2] o2]. cbn in *. rewrite app_assoc. exact Hf.
Qed.
Lemma ht_ret {A} (P : st -> list out -> Prop) (a : A) : ht P (ret a) (fun _ => P).
Proof. intros s acc p. cbn. rewrite app_nil_r. exact p. Qed.
Lemma ht_conseq {A} (P P' : st -> list out -> Prop) (m : M A) (Q Q' : A -> st -> list out -> Prop) :
  ht P' m Q' -> (forall s acc, P s acc -> P' s acc) -> (forall a s acc, Q' a s acc -> Q a s acc) -> ht P m Q.
Proof. intros H I1 I2 s acc p. apply I2, H, I1, p. Qed.
Lemma ht_getst_bind {B} P (f : st -> M B) Q : (forall s0, ht (fun s acc => P s acc /\ s = s0) (f s0) Q) -> ht P (bind getst f) Q.
Proof.
  intros H s acc p. specialize (H s s acc (conj p eq_refl)). unfold bind, getst, valof, stof, outof in *. cbn.
  destruct (f s s) as [[b s2] o2]. cbn in *. exact H.
Qed.

(* the assertion carried through a step of task `me`: the invariant with a hole for `me`, optionally that no other task waits
   for a handshake or a read loop, a fact F about (state, sid) and a fact E about the entry of `me` *)
Definition G (me : tid) (n : bool) (F : cstate -> bool -> Prop) (E : option task -> Prop) (s : st) (acc : list out) : Prop :=
  MInv me s acc /\ me < ntid s /\ (n = true -> NoOthers me s) /\ F (state s) (sid_set s) /\ E (ent s me).

Definition unchanged (s s' : st) : Prop := state s' = state s /\ sid_set s' = sid_set s /\ tasks s' = tasks s /\ ntid s' = ntid s.

Lemma ent_tasks s s' t : tasks s' = tasks s -> ent s' t = ent s t.
Proof. unfold ent. intros ->. reflexivity. Qed.

Lemma G_unchanged me n F E s acc s' o : G me n F E s acc -> unchanged s s' -> nolife o -> G me n F E s' (acc ++ o).
Proof.
  intros ((P & [C1 C2 C3] & [T1 T2]) & L & NO & Ff & Ee) (U1 & U2 & U3 & U4) NL.
  assert (EN : forall t, ent s' t = ent s t) by (intros t; apply ent_tasks; exact U3).
  split; [split; [|split]|].
  - rewrite phase_nolife by exact NL. unfold connected. rewrite U1. exact P.
  - split; [rewrite U1, U2; exact C1 | intros t k; rewrite EN, U4; apply C2 | rewrite U3; exact C3].
  - split.
    + intros t k N X Q. rewrite EN in X. rewrite U1. destruct (T1 t k N X Q) as [S U]. split; [exact S|]. intros t' k' N' X'. rewrite EN in X'. apply U; assumption.
    + intros t k N X Q. rewrite EN in X. rewrite U1. destruct (T2 t k N X Q) as [S U]. split; [exact S|]. intros t' k' N' X'. rewrite EN in X'. apply U; assumption.
  - rewrite U4, U1, U2, EN. split; [exact L|]. split; [|split; assumption].
    intros Hn t k Nt X. rewrite EN in X. exact (NO Hn t k Nt X).
Qed.

(* m leaves every such assertion alone *)
Definition quiet {A} (me : tid) (m : M A) : Prop := forall n F E, ht (G me n F E) m (fun _ => G me n F E).

Lemma quiet_bind {A B} me (m : M A) (f : A -> M B) : quiet me m -> (forall a, quiet me (f a)) -> quiet me (bind m f).
Proof. intros Hm Hf n F E. eapply ht_bind; [apply Hm | intros a; apply Hf]. Qed.
Lemma quiet_ret {A} me (a : A) : quiet me (ret a).
Proof. intros n F E. apply ht_ret. Qed.
Lemma quiet_of_unchanged {A} me (m : M A) : (forall s, unchanged s (stof (m s)) /\ nolife (outof (m s))) -> quiet me m.
Proof. intros H n F E s acc g. destruct (H s) as [U NL]. eapply G_unchanged; eauto. Qed.
Lemma quiet_getst me : quiet me getst.
Proof. apply quiet_of_unchanged. intros s. cbn. repeat split; constructor. Qed.
Lemma quiet_modst me f : (forall s, unchanged s (f s)) -> quiet me (modst f).
Proof. intros H. apply quiet_of_unchanged. intros s. cbn. split; [apply H | constructor]. Qed.
Lemma quiet_emit me o : lifecycle o = None -> quiet me (emit o).
Proof. intros H. apply quiet_of_unchanged. intros s. cbn. split; [repeat split | constructor; [exact H | constructor]]. Qed.
Lemma ht_quiet_bind {A B} me n F E (m : M A) (f : A -> M B) Q : quiet me m -> (forall a, ht (G me n F E) (f a) Q) -> ht (G me n F E) (bind m f) Q.
Proof. intros Hm Hf. eapply ht_bind; [apply Hm | exact Hf]. Qed.

(* ---- primitives that are quiet ---- *)
Ltac unch := intros; unfold unchanged; cbn; repeat split; reflexivity.
Lemma quiet_wake me t : quiet me (wake t).
Proof. apply quiet_modst. intros s. destruct (alookup t (tasks s)); [destruct (nmem t (runq s))|]; unch. Qed.
Lemma quiet_wake_all me l : quiet me (wake_all l).
Proof. induction l as [|t r IH]; cbn [wake_all]; [apply quiet_ret|]. apply quiet_bind; [apply quiet_wake | intros _; exact IH]. Qed.
Lemma quiet_new_timer me dt : quiet me (new_timer dt).
Proof. apply quiet_of_unchanged. intros s. cbn. split; [unch | constructor]. Qed.
Lemma quiet_alive me t : quiet me (alive t).
Proof. apply quiet_of_unchanged. intros s. cbn. split; [unch | constructor]. Qed.
Lemma quiet_q_put me x : quiet me (q_put x).
Proof.
  unfold q_put. apply quiet_bind; [apply quiet_getst|]. intros s0. apply quiet_bind; [apply quiet_modst; unch|]. intros _.
  destruct (getter s0); [|apply quiet_ret]. apply quiet_bind; [apply quiet_modst; unch | intros _; apply quiet_wake].
Qed.
Lemma quiet_send_packet me p : quiet me (send_packet p).
Proof. unfold send_packet. apply quiet_bind; [apply quiet_getst|]. intros s0. destruct (state s0); try apply quiet_ret. apply quiet_q_put. Qed.
Lemma quiet_gws me c : quiet me (gws c).
Proof. apply quiet_of_unchanged. intros s. cbn. split; [unch | constructor]. Qed.
Lemma quiet_pws me c x : quiet me (pws c x).
Proof. apply quiet_modst. unch. Qed.
Lemma quiet_ws_close me c : quiet me (ws_close c).
Proof.
  unfold ws_close. apply quiet_bind; [apply quiet_gws|]. intros w. destruct (w_cli_closed w); [apply quiet_ret|].
  apply quiet_bind; [apply quiet_pws|]. intros _. apply quiet_bind; [apply quiet_emit; reflexivity|]. intros _.
  destruct (w_waiter w); [apply quiet_wake | apply quiet_ret].
Qed.
Lemma quiet_ws_can_send me c : quiet me (ws_can_send c).
Proof. unfold ws_can_send. apply quiet_bind; [apply quiet_gws | intros w; apply quiet_ret]. Qed.
Lemma quiet_http_request me t k b : quiet me (http_request t k b).
Proof. apply quiet_of_unchanged. intros s. cbn. split; [unch | constructor; [reflexivity | constructor]]. Qed.
Lemma quiet_http_take me h : quiet me (http_take h).
Proof. apply quiet_of_unchanged. intros s. cbn. split; [unch | constructor]. Qed.
Lemma quiet_ws_take me c : quiet me (ws_take c).
Proof.
  unfold ws_take. apply quiet_bind; [apply quiet_gws|]. intros w.
  destruct (w_cli_closed w || (w_srv_closed w && match w_inbox w with [] => true | _ => false end)); [apply quiet_ret|].
  destruct (w_inbox w); [apply quiet_ret|]. apply quiet_bind; [apply quiet_pws | intros _; apply quiet_ret].
Qed.
Lemma quiet_ws_send_all me c l : quiet me (ws_send_all c l).
Proof.
  induction l as [|p r IH]; cbn [ws_send_all]; [apply quiet_ret|]. apply quiet_bind; [apply quiet_ws_can_send|]. intros ok.
  destruct ok; [|apply quiet_ret]. apply quiet_bind; [apply quiet_emit; reflexivity | intros _; exact IH].
Qed.
Lemma quiet_hs_timer me cfg : quiet me (hs_timer cfg).
Proof. unfold hs_timer. destruct (cq_handshake_recv_timeout (cc_quirks cfg)); [|apply quiet_ret]. apply quiet_bind; [apply quiet_new_timer | intros t; apply quiet_ret]. Qed.

(* ---- tasks: spawning a neutral task, blocking and finishing `me` ---- *)
Lemma ent_aset_same s t e f : tasks (f s) = aset t e (tasks s) -> ent (f s) t = Some (t_task e).
Proof. unfold ent. intros ->. rewrite alookup_aset_same. reflexivity. Qed.
Lemma ent_aset_other s t e f j : tasks (f s) = aset t e (tasks s) -> j <> t -> ent (f s) j = ent s j.
Proof. unfold ent. intros -> N. rewrite alookup_aset_other by exact N. reflexivity. Qed.

Lemma quiet_spawn me k : neutral k = true -> quiet me (spawn k).
Proof.
  intros NK n F E s acc ((P & [C1 C2 C3] & [T1 T2]) & L & NO & Ff & Ee).
  unfold spawn, valof, stof, outof. cbn [fst snd]. rewrite app_nil_r.
  set (t := ntid s). set (s' := set_runq _ _).
  assert (TK : tasks s' = aset t {| t_task := k; t_tout := false |} (tasks s)) by reflexivity.
  assert (EO : forall j, j <> t -> ent s' j = ent s j) by (intros j N; unfold ent; rewrite TK, alookup_aset_other by exact N; reflexivity).
  assert (ES : ent s' t = Some k) by (unfold ent; rewrite TK, alookup_aset_same; reflexivity).
  assert (OLD : forall j kk, ent s' j = Some kk -> j = t /\ kk = k \/ j <> t /\ ent s j = Some kk).
  { intros j kk X. destruct (N.eq_dec j t) as [->|N]; [left; rewrite ES in X; injection X as <-; auto | right; rewrite EO in X by exact N; auto]. }
  assert (NP : preopen k = false) by (unfold neutral in NK; destruct (preopen k); [discriminate | reflexivity]).
  assert (ND : isdj k = false) by (unfold neutral in NK; destruct (preopen k), (isdj k); try discriminate; reflexivity).
  assert (ST : state s' = state s) by reflexivity. assert (SD : sid_set s' = sid_set s) by reflexivity.
  assert (NT : ntid s' = N.succ t) by reflexivity.
  split; [split; [|split]|].
  - unfold connected. rewrite ST. exact P.
  - split; [rewrite ST, SD; exact C1 | | rewrite TK; apply nodup_aset; exact C3].
    intros j kk X. rewrite NT. destruct (OLD j kk X) as [[-> _]|[_ Y]]; [lia | specialize (C2 j kk Y); unfold t; lia].
  - split.
    + intros j kk N X Q. destruct (OLD j kk X) as [[_ ->]|[Nj Y]]; [rewrite NP in Q; discriminate|].
      rewrite ST. destruct (T1 j kk N Y Q) as [S U]. split; [exact S|]. intros j' k' N' X' Q'.
      destruct (OLD j' k' X') as [[_ ->]|[_ Y']]; [rewrite NP in Q'; discriminate | exact (U j' k' N' Y' Q')].
    + intros j kk N X Q. destruct (OLD j kk X) as [[_ ->]|[Nj Y]]; [rewrite ND in Q; discriminate|].
      rewrite ST. destruct (T2 j kk N Y Q) as [S U]. split; [exact S|]. intros j' k' N' X' Q'.
      destruct (OLD j' k' X') as [[_ ->]|[_ Y']]; [rewrite ND in Q'; discriminate | exact (U j' k' N' Y' Q')].
  - rewrite NT, ST, SD. split; [unfold t; lia|]. split; [|split; [exact Ff|]].
    + intros Hn j kk Nj X. destruct (OLD j kk X) as [[_ ->]|[_ Y]]; [exact NK | exact (NO Hn j kk Nj Y)].
    + rewrite EO; [exact Ee | unfold t; lia].
Qed.

Lemma G_set_me me n F E (E' : option task -> Prop) s acc s' :
  G me n F E s acc -> state s' = state s -> sid_set s' = sid_set s -> ntid s' = ntid s ->
  (forall j, j <> me -> ent s' j = ent s j) -> NoDup (map fst (tasks s')) -> E' (ent s' me) -> G me n F E' s' acc.
Proof.
  intros ((P & [C1 C2 C3] & [T1 T2]) & L & NO & Ff & Ee) ST SD NT EO ND E2.
  split; [split; [|split]|].
  - unfold connected. rewrite ST. exact P.
  - split; [rewrite ST, SD; exact C1 | | exact ND].
    intros j kk X. rewrite NT. destruct (N.eq_dec j me) as [->|N]; [exact L | rewrite EO in X by exact N; exact (C2 j kk X)].
  - split.
    + intros j kk N X Q. cbn in N. rewrite EO in X by exact N. rewrite ST. destruct (T1 j kk N X Q) as [S U]. split; [exact S|].
      intros j' k' N' X'. cbn in N'. rewrite EO in X' by exact N'. apply U; assumption.
    + intros j kk N X Q. cbn in N. rewrite EO in X by exact N. rewrite ST. destruct (T2 j kk N X Q) as [S U]. split; [exact S|].
      intros j' k' N' X'. cbn in N'. rewrite EO in X' by exact N'. apply U; assumption.
  - rewrite NT, ST, SD. split; [exact L|]. split; [|split; assumption].
    intros Hn j kk Nj X. rewrite EO in X by exact Nj. exact (NO Hn j kk Nj X).
Qed.

Lemma ht_block me n F E k : ht (G me n F E) (block me k) (fun _ => G me n F (fun o => o = Some k)).
Proof.
  intros s acc g. unfold block, modst, valof, stof, outof. cbn [fst snd]. rewrite app_nil_r.
  eapply G_set_me; [exact g | reflexivity | reflexivity | reflexivity | | |].
  - intros j N. unfold ent. cbn. rewrite alookup_aset_other by exact N. reflexivity.
  - cbn. apply nodup_aset. destruct g as ((_ & [_ _ C3] & _) & _). exact C3.
  - unfold ent. cbn. rewrite alookup_aset_same. reflexivity.
Qed.
Lemma ht_finish me n F E : ht (G me n F E) (finish me) (fun _ => G me n F (fun o => o = None)).
Proof.
  unfold finish. apply ht_getst_bind. intros s0.
  eapply ht_bind with (Q := fun _ => G me n F (fun o => o = None)); [|intros _; apply quiet_wake_all].
  intros s acc [g _]. unfold modst, valof, stof, outof. cbn [fst snd]. rewrite app_nil_r.
  assert (C3 : NoDup (map fst (tasks s))) by (destruct g as ((_ & [_ _ C3] & _) & _); exact C3).
  eapply G_set_me; [exact g | reflexivity | reflexivity | reflexivity | | |].
  - intros j N. unfold ent. cbn. rewrite alookup_adel_other by exact N. reflexivity.
  - cbn. apply nodup_adel. exact C3.
  - unfold ent. cbn. rewrite alookup_adel_same by exact C3. reflexivity.
Qed.
Lemma ht_ws_wait me n F E c k : ht (G me n F E) (ws_wait me c k) (fun _ => G me n F (fun o => o = Some k)).
Proof.
  unfold ws_wait. apply ht_quiet_bind; [apply quiet_gws|]. intros w. apply ht_quiet_bind; [apply quiet_pws|]. intros _. apply ht_block.
Qed.

(* ---- steps that change the state ---- *)
Lemma NoOthers_of_connected me n F E s acc : G me n F E s acc -> state s = Connected -> NoOthers me s.
Proof.
  intros ((_ & _ & [T1 T2]) & _) ST t k N X. unfold neutral.
  destruct (preopen k) eqn:Q1; [destruct (T1 t k N X Q1) as [S _]; congruence|].
  destruct (isdj k) eqn:Q2; [destruct (T2 t k N X Q2) as [S _]; congruence | reflexivity].
Qed.

Lemma G_state_change me n F E (F' : cstate -> bool -> Prop) s acc s' o :
  G me n F E s acc -> tasks s' = tasks s -> ntid s' = ntid s -> NoOthers me s ->
  phase (acc ++ o) = Some (connected s') -> (sid_set s' = false -> state s' = Disconnected) ->
  F' (state s') (sid_set s') -> G me true F' E s' (acc ++ o).
Proof.
  intros ((P & [C1 C2 C3] & _) & L & _ & _ & Ee) TK NT NO P' C1' Ff.
  assert (EN : forall t, ent s' t = ent s t) by (intros t; apply ent_tasks; exact TK).
  assert (NO' : NoOthers me s') by (intros t k N X; rewrite EN in X; exact (NO t k N X)).
  split; [split; [exact P'|split]|].
  - split; [exact C1' | intros t k; rewrite EN, NT; apply C2 | rewrite TK; exact C3].
  - split; intros t k N X Q; cbn in N; specialize (NO' t k N X); unfold neutral in NO'; rewrite Q in NO'; cbn in NO'; try discriminate.
    destruct (preopen k); discriminate.
  - rewrite NT, EN. split; [exact L|]. split; [intros _; exact NO'|]. split; assumption.
Qed.

Definition FT : cstate -> bool -> Prop := fun _ _ => True.
Lemma G_weaken me n F E (F' : cstate -> bool -> Prop) (E' : option task -> Prop) s acc :
  G me n F E s acc -> (forall st sd, F st sd -> F' st sd) -> (forall o, E o -> E' o) -> G me false F' E' s acc.
Proof. intros (M & L & _ & Ff & Ee) HF HE. split; [exact M|]. split; [exact L|]. split; [discriminate|]. split; [apply HF, Ff | apply HE, Ee]. Qed.
Lemma G_weaken_n me n F E (F' : cstate -> bool -> Prop) (E' : option task -> Prop) s acc :
  G me n F E s acc -> (forall st sd, F st sd -> F' st sd) -> (forall o, E o -> E' o) -> G me n F' E' s acc.
Proof. intros (M & L & NO & Ff & Ee) HF HE. split; [exact M|]. split; [exact L|]. split; [exact NO|]. split; [apply HF, Ff | apply HE, Ee]. Qed.

Lemma G_refine me n F E (F' : cstate -> bool -> Prop) s acc : G me n F E s acc -> F' (state s) (sid_set s) -> G me n F' E s acc.
Proof. intros (M & L & NO & _ & Ee) Ff. split; [exact M|]. split; [exact L|]. split; [exact NO|]. split; [exact Ff | exact Ee]. Qed.

Lemma ht_modst_bind {B} (P : st -> list out -> Prop) g (k : M B) Q :
  ht (fun s' acc => exists s, P s acc /\ s' = g s) k Q -> ht P (bind (modst g) (fun _ => k)) Q.
Proof.
  intros H s acc p. specialize (H (g s) acc (ex_intro _ s (conj p eq_refl))). unfold bind, modst, valof, stof, outof in *. cbn.
  destruct (k (g s)) as [[b s2] o2]. cbn in *. exact H.
Qed.
Lemma ht_emit_bind {B} (P : st -> list out -> Prop) e (k : M B) Q :
  ht (fun s acc' => exists acc, P s acc /\ acc' = acc ++ [e]) k Q -> ht P (bind (emit e) (fun _ => k)) Q.
Proof.
  intros H s acc p. specialize (H s (acc ++ [e]) (ex_intro _ acc (conj p eq_refl))). unfold bind, emit, valof, stof, outof in *. cbn.
  destruct (k s) as [[b s2] o2]. cbn in *. rewrite <- app_assoc in H. exact H.
Qed.

Section WithCfg.
Variable cfg : ccfg.

(* state := 'disconnecting'; disconnect event; then k *)
Lemma ht_disc_k {B} me n E r (k : M B) Q :
  ht (G me true (fun st _ => st = Disconnecting) E) k Q ->
  ht (G me n (fun st _ => st = Connected) E) (bind (modst (set_state Disconnecting)) (fun _ => bind (disc_event r) (fun _ => k))) Q.
Proof.
  intros H. apply ht_modst_bind. unfold disc_event. apply ht_emit_bind.
  eapply ht_conseq; [exact H | | auto]. intros s' acc' (acc & (s & g & ->) & ->).
  pose proof g as ((P & [C1 _ _] & _) & _ & _ & ST & _). cbn in ST.
  eapply G_state_change; [exact g | reflexivity | reflexivity | eapply NoOthers_of_connected; eassumption | | | reflexivity].
  - rewrite phase_app, P. unfold connected. rewrite ST. reflexivity.
  - cbn. intros X. rewrite ST in C1. specialize (C1 X). discriminate.
Qed.
(* state := 'disconnected'; _reset(); then k *)
Lemma ht_to_disconnected_k {B} me E (k : M B) Q :
  ht (G me true (fun st sd => st = Disconnected /\ sd = false) E) k Q ->
  ht (G me true (fun st _ => st = Disconnecting) E) (bind (modst (set_state Disconnected)) (fun _ => bind reset (fun _ => k))) Q.
Proof.
  intros H. apply ht_modst_bind. unfold reset. apply ht_modst_bind.
  eapply ht_conseq; [exact H | | auto]. intros s'' acc (s' & (s & g & ->) & ->).
  pose proof g as ((P & _) & _ & NO & ST & _). cbn in ST.
  rewrite <- (app_nil_r acc).
  eapply G_state_change; [exact g | reflexivity | reflexivity | exact (NO eq_refl) | | reflexivity | split; reflexivity].
  rewrite app_nil_r, P. unfold connected. rewrite ST. reflexivity.
Qed.
Lemma ht_reset_D me n (F : cstate -> bool -> Prop) E : (forall st sd, F st sd -> st = Disconnected) ->
  ht (G me n F E) reset (fun _ => G me n (fun st sd => st = Disconnected /\ sd = false) E).
Proof.
  intros HF s acc ((P & [C1 C2 C3] & [T1 T2]) & L & NO & Ff & Ee). apply HF in Ff.
  unfold reset, modst, valof, stof, outof. cbn [fst snd]. rewrite app_nil_r.
  set (s' := set_sid false (set_state Disconnected s)).
  split; [split; [|split]|].
  - rewrite P. unfold connected. cbn. rewrite Ff. reflexivity.
  - split; [reflexivity | exact C2 | exact C3].
  - split; intros t k N X Q; cbn [state s'].
    + destruct (T1 t k N X Q) as [_ U]. split; [reflexivity | exact U].
    + destruct (T2 t k N X Q) as [S _]. congruence.
  - split; [exact L|]. split; [exact NO|]. split; [split; reflexivity | exact Ee].
Qed.

Lemma G_true_n me n F E s acc : G me true F E s acc -> G me n F E s acc.
Proof. intros (M & L & NO & Ff & Ee). split; [exact M|]. split; [exact L|]. split; [intros _; exact (NO eq_refl)|]. split; assumption. Qed.

Definition DcPost me n (E : option task -> Prop) (w : option tid) s acc : Prop :=
  G me n FT E s acc /\ forall rt, w = Some rt -> state s = Disconnecting /\ NoOthers me s.

Lemma ht_disconnect_core me n E abort r : ht (G me n FT E) (disconnect_core me abort r) (DcPost me n E).
Proof.
  unfold disconnect_core. apply ht_getst_bind. intros s0. destruct (state s0) eqn:ST0.
  - (* disconnected *)
    eapply ht_bind with (Q := fun _ => G me n (fun st sd => st = Disconnected /\ sd = false) E).
    + eapply ht_conseq; [apply (ht_reset_D me n (fun st _ => st = Disconnected) E); auto | | intros a s acc X; exact X].
      intros s acc [g ->]. eapply G_refine; [exact g | exact ST0].
    + intros a0 s acc g. cbn. rewrite app_nil_r. split; [eapply G_weaken_n; [exact g | intros; exact Logic.I | auto] | discriminate].
  - (* connected *)
    eapply ht_conseq with (P' := G me n (fun st _ => st = Connected) E) (Q' := DcPost me n E);
      [| intros s acc [g ->]; eapply G_refine; [exact g | exact ST0] | auto].
    apply ht_quiet_bind; [apply quiet_send_packet|]. intros _. apply ht_quiet_bind; [apply quiet_q_put|]. intros _.
    apply ht_disc_k.
    apply ht_quiet_bind; [destruct (transport s0) as [[]|]; try apply quiet_ret; destruct (ws s0); [apply quiet_ws_close | apply quiet_ret]|].
    intros _. apply ht_getst_bind. intros s3.
    assert (FIN : ht (G me true (fun st _ => st = Disconnecting) E)
                    (bind (modst (set_state Disconnected)) (fun _ => bind reset (fun _ => ret None))) (DcPost me n E)).
    { apply ht_to_disconnected_k. intros s' acc' g'. cbn. rewrite app_nil_r.
      split; [apply G_true_n; eapply G_weaken_n; [exact g' | intros; exact Logic.I | auto] | discriminate]. }
    destruct abort.
    + eapply ht_conseq; [exact FIN | intros s' acc' [g' _]; exact g' | auto].
    + destruct (read_task s3) as [rt|]; [|eapply ht_conseq; [exact FIN | intros s' acc' [g' _]; exact g' | auto]].
      eapply ht_conseq with (P' := G me true (fun st _ => st = Disconnecting) E); [| intros s' acc' [g' _]; exact g' | intros a s' acc' X; exact X].
      apply ht_quiet_bind; [apply quiet_alive|]. intros a. destruct (a && negb (N.eqb rt me)); [|exact FIN].
      intros s' acc' g'. cbn. rewrite app_nil_r. split; [apply G_true_n; eapply G_weaken_n; [exact g' | intros; exact Logic.I | auto]|].
      intros rt' _. destruct g' as (_ & _ & NO & ST & _). split; [exact ST | exact (NO eq_refl)].
  - (* disconnecting: another disconnect() is in progress *)
    intros s acc [g ->]. cbn. rewrite app_nil_r. split; [exact g | discriminate].
Qed.

(* procedures that may change the state but never touch the entry of `me` *)
Definition gk {A} (me : tid) (m : M A) : Prop := forall n E, ht (G me n FT E) m (fun _ => G me n FT E).
Lemma gk_quiet {A} me (m : M A) : quiet me m -> gk me m.
Proof. intros H n E. apply H. Qed.
Lemma gk_bind {A B} me (m : M A) (f : A -> M B) : gk me m -> (forall a, gk me (f a)) -> gk me (bind m f).
Proof. intros Hm Hf n E. eapply ht_bind; [apply Hm | intros a; apply Hf]. Qed.
Lemma gk_ret {A} me (a : A) : gk me (ret a).
Proof. intros n E. apply ht_ret. Qed.
Lemma gk_getst_bind {B} me (f : st -> M B) : (forall s0, gk me (f s0)) -> gk me (bind getst f).
Proof. intros H n E. apply ht_getst_bind. intros s0. eapply ht_conseq; [apply H | intros s acc [g _]; exact g | auto]. Qed.
Lemma gk_disconnect_core me abort r : gk me (disconnect_core me abort r).
Proof. intros n E. eapply ht_conseq; [apply ht_disconnect_core | intros s acc g; exact g | intros w s acc [g _]; exact g]. Qed.
Lemma gk_receive_packet me p : gk me (receive_packet me p).
Proof.
  destruct p; cbn [receive_packet]; try apply gk_ret.
  - apply gk_bind; [apply gk_quiet, quiet_spawn; reflexivity | intros _; apply gk_ret].
  - apply gk_quiet, quiet_send_packet.
  - apply gk_bind; [apply gk_disconnect_core | intros _; apply gk_ret].
Qed.
Lemma gk_receive_all me l : gk me (receive_all me l).
Proof.
  induction l as [|p r IH]; cbn [receive_all]; [apply gk_ret|]. apply gk_getst_bind. intros s0.
  destruct (state s0); try apply gk_ret. apply gk_bind; [apply gk_receive_packet | intros _; exact IH].
Qed.

(* ---- procedures run by a task that is neither waiting for a handshake nor for a read loop ---- *)
Definition EN (o : option task) : Prop := match o with Some k => neutral k = true | None => True end.
Definition PN (me : tid) : st -> list out -> Prop := G me false FT EN.
Definition keeps {A} (me : tid) (m : M A) : Prop := ht (PN me) m (fun _ => PN me).

Lemma keeps_quiet {A} me (m : M A) : quiet me m -> keeps me m.
Proof. intros H. apply H. Qed.
Lemma keeps_bind {A B} me (m : M A) (f : A -> M B) : keeps me m -> (forall a, keeps me (f a)) -> keeps me (bind m f).
Proof. intros Hm Hf. eapply ht_bind; [exact Hm | exact Hf]. Qed.
Lemma keeps_getst_bind {B} me (f : st -> M B) : (forall s0, keeps me (f s0)) -> keeps me (bind getst f).
Proof. intros H. apply ht_getst_bind. intros s0. eapply ht_conseq; [apply H | intros s acc [g _]; exact g | auto]. Qed.
Lemma keeps_ret {A} me (a : A) : keeps me (ret a).
Proof. apply ht_ret. Qed.
Lemma keeps_block me k : neutral k = true -> keeps me (block me k).
Proof. intros NK. eapply ht_conseq; [apply ht_block | intros s acc g; exact g |]. intros a0 s acc g. eapply G_weaken_n; [exact g | auto | intros o Ho; rewrite Ho; exact NK]. Qed.
Lemma keeps_finish me : keeps me (finish me).
Proof. eapply ht_conseq; [apply ht_finish | intros s acc g; exact g |]. intros a0 s acc g. eapply G_weaken_n; [exact g | auto | intros o Ho; rewrite Ho; exact Logic.I]. Qed.
Lemma keeps_ws_wait me c k : neutral k = true -> keeps me (ws_wait me c k).
Proof. intros NK. eapply ht_conseq; [apply ht_ws_wait | intros s acc g; exact g |]. intros a0 s acc g. eapply G_weaken_n; [exact g | auto | intros o Ho; rewrite Ho; exact NK]. Qed.
Lemma keeps_gk {A} me (m : M A) : gk me m -> keeps me m.
Proof. intros H. apply H. Qed.

Lemma keeps_receive_packet me p : keeps me (receive_packet me p).
Proof. apply keeps_gk, gk_receive_packet. Qed.
Lemma keeps_receive_all me l : keeps me (receive_all me l).
Proof. apply keeps_gk, gk_receive_all. Qed.

(* _reset() when nobody else waits: the state only gets more disconnected *)
Lemma ht_reset_N me (F : cstate -> bool -> Prop) E : (forall st sd, F st sd -> st <> Connected) ->
  ht (G me true F E) reset (fun _ => G me true (fun st sd => st = Disconnected /\ sd = false) E).
Proof.
  intros HF s acc g. pose proof g as ((P & _) & _ & NO & Ff & _). apply HF in Ff.
  unfold reset, modst, valof, stof, outof. cbn [fst snd].
  eapply G_state_change; [exact g | reflexivity | reflexivity | exact (NO eq_refl) | | reflexivity | split; reflexivity].
  rewrite app_nil_r, P. unfold connected. cbn. destruct (state s); [reflexivity | contradiction Ff; reflexivity | reflexivity].
Qed.

Lemma keeps_read_final me ep : keeps me (read_final me ep).
Proof.
  unfold read_final. apply keeps_bind; [|intros _; apply keeps_finish].
  apply ht_getst_bind. intros s1. destruct (state s1) eqn:ST1; try (eapply ht_conseq; [apply keeps_ret | intros s acc [g _]; exact g | auto]).
  destruct (N.eqb (qepoch s1) ep); [|eapply ht_conseq; [apply keeps_ret | intros s acc [g _]; exact g | auto]].
  eapply ht_conseq with (P' := G me false (fun st _ => st = Connected) EN) (Q' := fun _ => PN me);
    [| intros s acc [g ->]; eapply G_refine; [exact g | exact ST1] | auto].
  apply ht_disc_k. eapply ht_conseq; [apply (ht_reset_N me (fun st _ => st = Disconnecting) EN); intros st sd ->; discriminate | auto |].
  intros a0 s acc g. eapply G_weaken; [exact g | intros; exact Logic.I | auto].
Qed.
Lemma keeps_read_epilogue me ep : keeps me (read_epilogue me ep).
Proof.
  unfold read_epilogue. apply keeps_getst_bind. intros s0. destruct (write_task s0) as [w|]; [|apply keeps_read_final].
  apply keeps_bind; [apply keeps_quiet, quiet_alive|]. intros a. destruct a; [apply keeps_block; reflexivity | apply keeps_read_final].
Qed.
Lemma keeps_read_poll_next me ep : keeps me (read_poll_next me ep).
Proof.
  unfold read_poll_next. apply keeps_getst_bind. intros s0. destruct (state s0); try apply keeps_read_epilogue.
  destruct (write_task s0); [|apply keeps_read_epilogue].
  apply keeps_bind; [apply keeps_quiet, quiet_http_request|]. intros h. apply keeps_bind; [apply keeps_quiet, quiet_new_timer|]. intros tm.
  apply keeps_block. reflexivity.
Qed.
Lemma keeps_read_poll_reply me ep tout h : keeps me (read_poll_reply me ep tout h).
Proof.
  unfold read_poll_reply. apply keeps_bind; [apply keeps_quiet, quiet_http_take|]. intros r.
  destruct (if tout then Some HFail else r) as [[l| | |]|]; try apply keeps_ret;
    try (apply keeps_bind; [apply keeps_quiet, quiet_q_put | intros _; apply keeps_read_epilogue]).
  apply keeps_bind; [apply keeps_receive_all | intros _; apply keeps_read_poll_next].
Qed.
Lemma keeps_read_ws_loop fuel : forall me ep c top, keeps me (read_ws_loop fuel me ep c top).
Proof.
  induction fuel as [|f IH]; intros me ep c top; cbn [read_ws_loop]; [apply keeps_quiet, quiet_emit; reflexivity|].
  apply keeps_getst_bind. intros s0. destruct (top && negb match state s0 with Connected => true | _ => false end); [apply keeps_read_epilogue|].
  apply keeps_bind; [apply keeps_quiet, quiet_ws_take|]. intros x. destruct x as [[[p|]|]|].
  - apply keeps_bind; [apply keeps_receive_packet | intros _; apply IH].
  - apply keeps_bind; [apply keeps_quiet, quiet_q_put | intros _; apply keeps_read_epilogue].
  - apply keeps_bind; [apply keeps_quiet, quiet_q_put | intros _; apply keeps_read_epilogue].
  - apply keeps_bind; [apply keeps_quiet, quiet_new_timer | intros tm; apply keeps_ws_wait; reflexivity].
Qed.

Lemma keeps_write_loop fuel : forall me ep top tout, keeps me (write_loop cfg fuel me ep top tout).
Proof.
  induction fuel as [|f IH]; intros me ep top tout; cbn [write_loop]; [apply keeps_quiet, quiet_emit; reflexivity|].
  apply keeps_getst_bind. intros s0.
  destruct (top && negb match state s0 with Connected => N.eqb (qepoch s0) ep | _ => false end); [apply keeps_finish|].
  destruct (negb (N.eqb (qepoch s0) ep)); [apply keeps_finish|].
  destruct (queue s0) as [|[p|] r].
  - destruct tout; [apply keeps_finish|]. apply keeps_bind; [apply keeps_quiet, quiet_new_timer|]. intros tm.
    apply keeps_bind; [apply keeps_quiet, quiet_modst; unch | intros _; apply keeps_block; reflexivity].
  - destruct (take_batch (pred BATCH) r [p]) as [batch rest].
    apply keeps_bind; [apply keeps_quiet, quiet_modst; unch|]. intros _.
    destruct (transport s0) as [[]|].
    + apply keeps_bind; [apply keeps_quiet, quiet_http_request|]. intros h. apply keeps_bind; [apply keeps_quiet, quiet_new_timer|]. intros tm.
      apply keeps_block. reflexivity.
    + destruct (ws s0) as [c|]; [|apply keeps_finish]. apply keeps_bind; [apply keeps_quiet, quiet_ws_send_all|]. intros ok.
      destruct ok; [apply IH | apply keeps_finish].
    + apply keeps_bind; [apply keeps_quiet, quiet_http_request|]. intros h. apply keeps_bind; [apply keeps_quiet, quiet_new_timer|]. intros tm.
      apply keeps_block. reflexivity.
  - apply keeps_bind; [apply keeps_quiet, quiet_modst; unch | intros _; apply keeps_finish].
Qed.
Lemma keeps_write_post_reply me ep tout h : keeps me (write_post_reply cfg me ep tout h).
Proof.
  unfold write_post_reply. apply keeps_bind; [apply keeps_quiet, quiet_http_take|]. intros r.
  destruct (if tout then Some HFail else r) as [[l| | |]|]; try apply keeps_ret; try apply keeps_finish.
  - apply keeps_getst_bind. intros s0. apply keeps_write_loop.
  - apply keeps_bind; [apply keeps_finish | intros _; apply keeps_quiet, quiet_modst; unch].
  - apply keeps_getst_bind. intros s0. apply keeps_write_loop.
Qed.
Lemma quiet_start_loops me b : quiet me (start_loops b).
Proof.
  unfold start_loops. apply quiet_bind; [apply quiet_spawn; reflexivity|]. intros w. apply quiet_bind; [apply quiet_modst; unch|]. intros _.
  apply quiet_bind; [apply quiet_spawn; reflexivity|]. intros r. apply quiet_modst; unch.
Qed.

(* ---- closing the hole at the end of a step ---- *)
Lemma close_N me n F s acc : G me n F EN s acc -> Inv s acc.
Proof.
  intros (M & _ & _ & _ & Ee). eapply MInv_Inv; [exact M | |]; intros k X Q; rewrite X in Ee; cbn in Ee; unfold neutral in Ee; rewrite Q in Ee; cbn in Ee;
    try discriminate. destruct (preopen k); discriminate.
Qed.
Lemma NoOthers_pre me s : NoOthers me s -> forall t k', t <> me -> ent s t = Some k' -> preopen k' = false.
Proof. intros NO t k' N X. specialize (NO t k' N X). unfold neutral in NO. destruct (preopen k'); [discriminate | reflexivity]. Qed.
Lemma NoOthers_dj me s : NoOthers me s -> forall t k', t <> me -> ent s t = Some k' -> isdj k' = false.
Proof. intros NO t k' N X. specialize (NO t k' N X). unfold neutral in NO. destruct (preopen k'), (isdj k'); try discriminate; reflexivity. Qed.
(* `me` waits for a handshake: the client must be disconnected and nobody else may wait *)
Lemma close_P me (E : option task -> Prop) s acc :
  G me true (fun st _ => st = Disconnected) E s acc -> (forall k, E (Some k) -> isdj k = false) -> Inv s acc.
Proof.
  intros (M & _ & NO & ST & Ee) HE. cbn in ST. eapply MInv_Inv; [exact M | |]; intros k X Q; rewrite X in Ee.
  - split; [exact ST | apply NoOthers_pre, NO; reflexivity].
  - rewrite (HE k Ee) in Q. discriminate.
Qed.
(* `me` waits for the read loop inside disconnect(): the client must be disconnecting and nobody else may wait *)
Lemma close_D me (E : option task -> Prop) s acc :
  G me true (fun st _ => st = Disconnecting) E s acc -> (forall k, E (Some k) -> preopen k = false) -> Inv s acc.
Proof.
  intros (M & _ & NO & ST & Ee) HE. cbn in ST. eapply MInv_Inv; [exact M | |]; intros k X Q; rewrite X in Ee.
  - rewrite (HE k Ee) in Q. discriminate.
  - split; [exact ST | apply NoOthers_dj, NO; reflexivity].
Qed.
Lemma G_upgrade me n F E (F' : cstate -> bool -> Prop) s acc : G me n F E s acc -> NoOthers me s -> F' (state s) (sid_set s) -> G me true F' E s acc.
Proof. intros (M & L & _ & _ & Ee) NO Ff. split; [exact M|]. split; [exact L|]. split; [intros ?; exact NO|]. split; assumption. Qed.

Definition ends {A} (P : st -> list out -> Prop) (m : M A) : Prop := ht P m (fun _ s acc => Inv s acc).

Lemma ends_keeps {A} me (m : M A) : keeps me m -> ends (PN me) m.
Proof. intros H. eapply ht_conseq; [exact H | auto | intros a s acc g; eapply close_N; exact g]. Qed.

(* conn_ok / conn_fail: report and end *)
Lemma ends_conn_done me n F E call r : ends (G me n F E) (bind (emit (ORet call r)) (fun _ => finish me)).
Proof.
  eapply ht_bind with (Q := fun _ => G me n F E); [apply (quiet_emit me); reflexivity|]. intros ?.
  eapply ht_conseq; [apply (ht_finish me n F E) | intros s acc X; exact X |]. intros ? s acc g.
  apply (close_N me n F). eapply G_weaken_n; [exact g | auto | intros o Ho; rewrite Ho; exact Logic.I].
Qed.

Lemma ht_ws_connect me n F E call u :
  ht (G me n F E) (ws_connect cfg me call u) (fun _ => G me n F (fun o => exists c t, o = Some (TCWsConn call c u t))).
Proof.
  intros s acc g. unfold ws_connect, valof, stof, outof. cbn [new_timer fst snd].
  assert (C3 : NoDup (map fst (tasks s))) by (destruct g as ((_ & [_ _ C3] & _) & _); exact C3).
  eapply G_unchanged with (s' := set_tseq (N.succ (tseq (set_ncid (N.succ (ncid s)) s))) (set_ncid (N.succ (ncid s)) s)) (o := [OWsConnect (ncid s) u]) in g;
    [| unch | constructor; [reflexivity | constructor]].
  eapply G_set_me; [exact g | reflexivity | reflexivity | reflexivity | | |].
  - intros j N. unfold ent. cbn. rewrite alookup_aset_other by exact N. reflexivity.
  - cbn. apply nodup_aset. exact C3.
  - unfold ent. cbn. rewrite alookup_aset_same. cbn. eexists. eexists. reflexivity.
Qed.

(* the connection is established: state, sid, connect event; then k *)
Lemma ht_open_k {B} me E (f : st -> st) (k : M B) Q :
  (forall s, tasks (f s) = tasks s /\ ntid (f s) = ntid s /\ state (f s) = Connected /\ sid_set (f s) = true) ->
  ht (G me true (fun st sd => st = Connected /\ sd = true) E) k Q ->
  ht (G me true (fun st _ => st = Disconnected) E) (bind (modst f) (fun _ => bind (emit (OEv EvConnect)) (fun _ => k))) Q.
Proof.
  intros Hf H. apply ht_modst_bind. apply ht_emit_bind.
  eapply ht_conseq; [exact H | | auto]. intros s' acc' (acc & (s & g & ->) & ->).
  destruct (Hf s) as (F1 & F2 & F3 & F4).
  pose proof g as ((P & _) & _ & NO & ST & _). cbn in ST.
  eapply G_state_change; [exact g | exact F1 | exact F2 | exact (NO eq_refl) | | | split; assumption].
  - rewrite phase_app, P. unfold connected. rewrite ST, F3. reflexivity.
  - rewrite F4. discriminate.
Qed.

(* the connect handler, which may disconnect *)
Lemma gk_connect_tail me : gk me (if cc_connect_handler_disconnects cfg then bind (disconnect_core me false RClient) (fun _ => ret tt) else ret tt).
Proof. destruct (cc_connect_handler_disconnects cfg); [|apply gk_ret]. apply gk_bind; [apply gk_disconnect_core | intros ?; apply gk_ret]. Qed.

Definition EPre (o : option task) : Prop := exists k, o = Some k /\ preopen k = true.
Definition PP (me : tid) : st -> list out -> Prop := G me true (fun st _ => st = Disconnected) EPre.

Lemma EPre_not_dj k : EPre (Some k) -> isdj k = false.
Proof. intros (k' & X & Q). injection X as <-. destruct k; cbn in *; try reflexivity; discriminate. Qed.

Lemma ends_ws_established me n F E call c : ends (G me n F E) (ws_established me call c).
Proof.
  unfold ws_established, conn_ok. eapply ht_bind; [apply (quiet_modst me); unch|]. intros ?.
  eapply ht_bind; [apply quiet_start_loops|]. intros ?. apply ends_conn_done.
Qed.

Lemma ends_after_open_polling me E call rest : ends (G me true FT E) (after_open_polling cfg me call rest).
Proof.
  unfold after_open_polling. eapply ht_bind; [apply gk_receive_all|]. intros ?. apply ht_getst_bind. intros s0.
  assert (DONE : ht (fun s acc => G me true FT E s acc /\ s = s0) (conn_ok me call) (fun _ s acc => Inv s acc)).
  { eapply ht_conseq; [apply (ends_conn_done me true FT E) | intros s acc [g _]; exact g | auto]. }
  destruct (state s0); try exact DONE.
  destruct (upgrades_ws s0 && existsb _ (transports s0)).
  - eapply ht_conseq; [apply (ht_ws_connect me true (fun _ sd => sd = sid_set s0) E) | intros s acc [g ->]; eapply G_refine; [exact g | reflexivity] |].
    intros ? s acc (M & L & NO & SD & (c & t & Ee)). cbn in SD. destruct M as (P & C & T).
    eapply MInv_Inv; [split; [exact P | split; [exact C | exact T]] | |]; intros k X Q; rewrite X in Ee; injection Ee as ->; cbn in Q; try discriminate.
    split; [apply C; rewrite SD; destruct (sid_set s0); [discriminate | reflexivity] | apply NoOthers_pre, NO; reflexivity].
  - unfold conn_ok. eapply ht_bind with (Q := fun _ => G me true FT E); [|intros ?; apply ends_conn_done].
    eapply ht_conseq; [apply quiet_start_loops | intros s acc [g _]; exact g | auto].
Qed.

Lemma ends_open_reply me call tout h : ends (PP me) (open_reply cfg me call tout h).
Proof.
  unfold open_reply. eapply ht_bind; [apply (quiet_http_take me)|]. intros r.
  assert (FAIL : forall rr, ends (PP me) (conn_fail me call rr)) by (intros rr; apply ends_conn_done).
  assert (RF : ends (PP me) (bind reset (fun _ => conn_fail me call RConnectionError))).
  { eapply ht_bind; [apply ht_reset_D; auto | intros ?; apply ends_conn_done]. }
  destruct (if tout then Some HFail else r) as [[l| | |]|]; try exact RF; try apply FAIL.
  - destruct l as [|[wf u i t| | | | | |] rest]; try apply FAIL. destruct wf; [|apply FAIL].
    unfold connect_event.
    (* modst ;;; (emit ;;; tail) ;;; after_open  -- reassociate through ht_bind *)
    apply ht_modst_bind.
    eapply ht_bind with (Q := fun _ => G me true FT EPre); [|intros ?; apply ends_after_open_polling].
    apply ht_emit_bind.
    eapply ht_conseq with (P' := G me true (fun st sd => st = Connected /\ sd = true) EPre) (Q' := fun _ => G me true FT EPre); [| | intros ? s acc X; exact X].
    + eapply ht_conseq; [apply (gk_connect_tail me true EPre) | intros s acc g; eapply G_weaken_n; [exact g | intros; exact Logic.I | intros o X; exact X] | intros ? s acc X; exact X].
    + intros s' acc' (acc & (s & g & ->) & ->). pose proof g as ((P & _) & _ & NO & ST & _). cbn in ST.
      eapply G_state_change; [exact g | reflexivity | reflexivity | exact (NO eq_refl) | | | split; reflexivity].
      * rewrite phase_app, P. unfold connected. rewrite ST. reflexivity.
      * cbn. discriminate.
  - intros s acc g. cbn. rewrite app_nil_r. eapply close_P; [exact g | apply EPre_not_dj].
Qed.

Lemma ends_PP_ret me : ends (PP me) (ret tt).
Proof. intros s acc g. cbn. rewrite app_nil_r. eapply close_P; [exact g | apply EPre_not_dj]. Qed.
Lemma ends_PP_wait me c k : preopen k = true -> ends (PP me) (ws_wait me c k).
Proof.
  intros Q. eapply ht_conseq; [apply ht_ws_wait | intros s acc X; exact X |]. intros ? s acc g.
  eapply close_P; [exact g|]. intros k' X. injection X as ->. destruct k; cbn in *; try reflexivity; discriminate.
Qed.

Lemma ends_wsconn_reply_pre me call tout c : ends (PP me) (wsconn_reply cfg me call tout c false).
Proof.
  unfold wsconn_reply. apply ht_getst_bind. intros s0.
  destruct (if tout then Some false else alookup c (wsconn_result s0)) as [[|]|].
  - eapply ht_bind with (Q := fun _ => PP me); [eapply ht_conseq; [apply (quiet_pws me) | intros s acc [g _]; exact g | intros ? s acc X; exact X]|]. intros ?.
    eapply ht_bind with (Q := fun _ => PP me); [apply quiet_hs_timer|]. intros tm. apply ends_PP_wait. reflexivity.
  - eapply ht_conseq; [apply (ends_conn_done me true (fun st _ => st = Disconnected) EPre) | intros s acc [g _]; exact g | auto].
  - eapply ht_conseq; [apply ends_PP_ret | intros s acc [g _]; exact g | auto].
Qed.
Lemma keeps_wsconn_reply_up me call tout c : keeps me (wsconn_reply cfg me call tout c true).
Proof.
  unfold wsconn_reply. apply keeps_getst_bind. intros s0.
  destruct (if tout then Some false else alookup c (wsconn_result s0)) as [[|]|]; [| |apply keeps_ret].
  - apply keeps_bind; [apply keeps_quiet, quiet_pws|]. intros ?. apply keeps_bind; [apply keeps_quiet, quiet_emit; reflexivity|]. intros ?.
    apply keeps_bind; [apply keeps_quiet, quiet_hs_timer|]. intros tm. apply keeps_ws_wait. reflexivity.
  - apply keeps_bind; [apply keeps_quiet, quiet_start_loops|]. intros ?. unfold conn_ok.
    apply keeps_bind; [apply keeps_quiet, quiet_emit; reflexivity | intros ?; apply keeps_finish].
Qed.
Lemma keeps_conn_ok me call : keeps me (conn_ok me call).
Proof. unfold conn_ok. apply keeps_bind; [apply keeps_quiet, quiet_emit; reflexivity | intros ?; apply keeps_finish]. Qed.
Lemma keeps_probe_reply me call tout c : keeps me (probe_reply me call tout c).
Proof.
  unfold probe_reply.
  assert (SL : keeps me (bind (start_loops false) (fun _ => conn_ok me call))) by (apply keeps_bind; [apply keeps_quiet, quiet_start_loops | intros ?; apply keeps_conn_ok]).
  apply keeps_bind; [destruct tout; [apply keeps_ret | apply keeps_quiet, quiet_ws_take]|]. intros x.
  destruct x as [[[p|]|]|]; try exact SL; [|apply keeps_ws_wait; reflexivity].
  destruct p; try exact SL.
  apply keeps_bind; [apply keeps_quiet, quiet_ws_can_send|]. intros ok. destruct ok; [|exact SL].
  apply keeps_bind; [apply keeps_quiet, quiet_emit; reflexivity|]. intros ?. apply keeps_bind; [apply keeps_quiet, quiet_modst; unch|]. intros ?.
  unfold ws_established. apply keeps_bind; [apply keeps_quiet, quiet_modst; unch|]. intros ?.
  apply keeps_bind; [apply keeps_quiet, quiet_start_loops | intros ?; apply keeps_conn_ok].
Qed.

Lemma ends_openrecv_reply me call tout c : ends (PP me) (openrecv_reply cfg me call tout c).
Proof.
  unfold openrecv_reply.
  assert (FAIL : ends (PP me) (conn_fail me call RConnectionError)) by apply ends_conn_done.
  eapply ht_bind with (Q := fun _ => PP me); [destruct tout; [apply ht_ret | apply quiet_ws_take]|]. intros x.
  destruct x as [[[p|]|]|]; try exact FAIL; [|apply ends_PP_wait; reflexivity].
  destruct p as [wf u i t| | | | | |]; try exact FAIL. destruct wf; [|exact FAIL].
  unfold connect_event. apply ht_modst_bind.
  eapply ht_bind with (Q := fun _ => G me true FT EPre); [|intros ?; apply ends_ws_established].
  apply ht_emit_bind.
  eapply ht_conseq with (P' := G me true (fun st sd => st = Connected /\ sd = true) EPre) (Q' := fun _ => G me true FT EPre); [| | intros ? s acc X; exact X].
  - eapply ht_conseq; [apply (gk_connect_tail me true EPre) | intros s acc g; eapply G_weaken_n; [exact g | intros; exact Logic.I | intros o X; exact X] | intros ? s acc X; exact X].
  - intros s' acc' (acc & (s & g & ->) & ->). pose proof g as ((P & _) & _ & NO & ST & _). cbn in ST.
    eapply G_state_change; [exact g | reflexivity | reflexivity | exact (NO eq_refl) | | | split; reflexivity].
    + rewrite phase_app, P. unfold connected. rewrite ST. reflexivity.
    + cbn. discriminate.
Qed.

(* disconnect() from an application call or a message handler: wait for the read loop, or done *)
Definition EDJ (o : option task) : Prop := exists k r, o = Some (TDJoin k r).
Definition PD (me : tid) : st -> list out -> Prop := G me true (fun st _ => st = Disconnecting) EDJ.

Lemma ends_disconnect_then me k (fin : M unit) :
  ends (PN me) fin ->
  ends (PN me) (bind (disconnect_core me false RClient) (fun w => match w with Some rt => block me (TDJoin k rt) | None => fin end)).
Proof.
  intros Hfin. eapply ht_bind; [apply ht_disconnect_core|]. intros w. destruct w as [rt|].
  - eapply ht_conseq with (P' := G me true (fun st _ => st = Disconnecting) EN); [| |intros ? s acc X; exact X].
    + eapply ht_conseq; [apply ht_block | intros s acc X; exact X |]. intros ? s acc g. eapply close_D; [exact g|]. intros k' X. injection X as ->. reflexivity.
    + intros s acc [g H]. destruct (H rt eq_refl) as [ST NO]. eapply G_upgrade; [exact g | exact NO | exact ST].
  - eapply ht_conseq; [exact Hfin | intros s acc [g _]; exact g | auto].
Qed.

Lemma ends_djoin me k r : ends (PD me) (bind (alive r) (fun a => if a then block me (TDJoin k r)
    else bind disconnect_finish (fun _ => bind (match k with DJApi call => emit (ORet call ROk) | DJHandler => ret tt end) (fun _ => finish me)))).
Proof.
  eapply ht_bind with (Q := fun _ => PD me); [apply quiet_alive|]. intros a. destruct a.
  - eapply ht_conseq; [apply ht_block | intros s acc X; exact X |]. intros ? s acc g. eapply close_D; [exact g|]. intros k' X. injection X as ->. reflexivity.
  - unfold disconnect_finish.
    (* (modst ;;; reset) ;;; rest: go through ht_bind with the state after the reset *)
    eapply ht_bind with (Q := fun _ => G me true (fun st sd => st = Disconnected /\ sd = false) EDJ).
    + intros s acc g. pose proof (ht_to_disconnected_k me EDJ (ret tt) (fun _ => G me true (fun st sd => st = Disconnected /\ sd = false) EDJ) (ht_ret _ tt) s acc g) as H.
      unfold bind, modst, reset, ret, valof, stof, outof in *. cbn in *. rewrite ?app_nil_r in *. exact H.
    + intros ?. eapply ht_bind with (Q := fun _ => G me true (fun st sd => st = Disconnected /\ sd = false) EDJ);
        [destruct k; [apply quiet_emit; reflexivity | apply ht_ret]|]. intros ?.
      eapply ht_conseq; [apply ht_finish | intros s acc X; exact X |]. intros ? s acc g.
      apply (close_N me true (fun st sd => st = Disconnected /\ sd = false)). eapply G_weaken_n; [exact g | auto | intros o Ho; rewrite Ho; exact Logic.I].
Qed.

(* ---- a whole step of a task ---- *)
Lemma start_N t k s acc : Inv s acc -> ent s t = Some k -> neutral k = true -> PN t s acc.
Proof.
  intros I X NK. pose proof (Inv_MInv t s acc I) as M. destruct I as (_ & [_ C2 _] & _).
  split; [exact M|]. split; [exact (C2 t k X)|]. split; [discriminate|]. split; [exact Logic.I | rewrite X; exact NK].
Qed.
Lemma start_P t k s acc : Inv s acc -> ent s t = Some k -> preopen k = true -> PP t s acc.
Proof.
  intros I X Q. pose proof (Inv_MInv t s acc I) as M. destruct I as (_ & [_ C2 _] & [T1 T2]).
  destruct (T1 t k Logic.I X Q) as [ST U].
  split; [exact M|]. split; [exact (C2 t k X)|]. split; [intros _|split; [exact ST | exists k; auto]].
  intros t' k' N X'. unfold neutral.
  destruct (preopen k') eqn:Q1; [contradiction N; exact (U t' k' Logic.I X' Q1)|].
  destruct (isdj k') eqn:Q2; [destruct (T2 t' k' Logic.I X' Q2) as [S _]; congruence | reflexivity].
Qed.
Lemma start_D t k r s acc : Inv s acc -> ent s t = Some (TDJoin k r) -> PD t s acc.
Proof.
  intros I X. pose proof (Inv_MInv t s acc I) as M. destruct I as (_ & [_ C2 _] & [T1 T2]).
  destruct (T2 t _ Logic.I X eq_refl) as [ST U].
  split; [exact M|]. split; [exact (C2 t _ X)|]. split; [intros _|split; [exact ST | exists k, r; exact X]].
  intros t' k' N X'. unfold neutral.
  destruct (preopen k') eqn:Q1; [destruct (T1 t' k' Logic.I X' Q1) as [S _]; congruence|].
  destruct (isdj k') eqn:Q2; [contradiction N; exact (U t' k' Logic.I X' Q2) | reflexivity].
Qed.

Lemma keeps_read_start me b : keeps me (match b with
  | false => bind getst (fun s => read_poll_next me (qepoch s))
  | true => bind getst (fun s => match ws s with Some c => bind (gws c) (fun w => read_ws_loop (S (S (length (w_inbox w)))) me (qepoch s) c true) | None => read_epilogue me (qepoch s) end) end).
Proof.
  destruct b; apply keeps_getst_bind; intros s0; [|apply keeps_read_poll_next].
  destruct (ws s0); [|apply keeps_read_epilogue]. apply keeps_bind; [apply keeps_quiet, quiet_gws | intros w; apply keeps_read_ws_loop].
Qed.

Theorem run_task_inv t e s acc : Inv s acc -> alookup t (tasks s) = Some e ->
  Inv (stof (run_task cfg t e s)) (acc ++ outof (run_task cfg t e s)).
Proof.
  intros I L. assert (X : ent s t = Some (t_task e)) by (unfold ent; rewrite L; reflexivity).
  unfold run_task. destruct (t_task e) as [call h tm trs | call c u tm | call c tm | call c tm | b | h tm ep | c tm ep | w ep | | tm ep | h tm n ep | k r | m a | call r] eqn:K.
  - exact (ends_open_reply t call (t_tout e) h s acc (start_P t _ s acc I X eq_refl)).
  - destruct u.
    + exact (ends_keeps t _ (keeps_wsconn_reply_up t call (t_tout e) c) s acc (start_N t _ s acc I X eq_refl)).
    + exact (ends_wsconn_reply_pre t call (t_tout e) c s acc (start_P t _ s acc I X eq_refl)).
  - exact (ends_keeps t _ (keeps_probe_reply t call (t_tout e) c) s acc (start_N t _ s acc I X eq_refl)).
  - exact (ends_openrecv_reply t call (t_tout e) c s acc (start_P t _ s acc I X eq_refl)).
  - pose proof (ends_keeps t _ (keeps_read_start t b) s acc (start_N t _ s acc I X eq_refl)) as H. destruct b; exact H.
  - exact (ends_keeps t _ (keeps_read_poll_reply t ep (t_tout e) h) s acc (start_N t _ s acc I X eq_refl)).
  - refine (ends_keeps t _ _ s acc (start_N t _ s acc I X eq_refl)).
    destruct (t_tout e); [apply keeps_bind; [apply keeps_quiet, quiet_q_put | intros ?; apply keeps_read_epilogue]|].
    apply keeps_bind; [apply keeps_quiet, quiet_gws | intros w0; apply keeps_read_ws_loop].
  - refine (ends_keeps t _ _ s acc (start_N t _ s acc I X eq_refl)).
    apply keeps_bind; [apply keeps_quiet, quiet_alive|]. intros a. destruct a; [apply keeps_block; reflexivity | apply keeps_read_final].
  - refine (ends_keeps t _ _ s acc (start_N t _ s acc I X eq_refl)). apply keeps_getst_bind. intros s0. apply keeps_write_loop.
  - refine (ends_keeps t _ _ s acc (start_N t _ s acc I X eq_refl)). apply keeps_getst_bind. intros s0.
    apply keeps_bind; [destruct (N.eqb (qepoch s0) ep); [apply keeps_quiet, quiet_modst; unch | apply keeps_ret] | intros ?; apply keeps_write_loop].
  - exact (ends_keeps t _ (keeps_write_post_reply t ep (t_tout e) h) s acc (start_N t _ s acc I X eq_refl)).
  - exact (ends_djoin t k r s acc (start_D t k r s acc I X)).
  - (* a message handler *)
    assert (PNs : PN t s acc) by exact (start_N t _ s acc I X eq_refl).
    clear I L X K. revert s acc PNs. change (ends (PN t) (bind (emit (OEv (EvMessage m))) (fun _ => match a with
      | HNone | HRaise => finish t
      | HSend => bind (send_packet (CkMsg (echo_mid m) false)) (fun _ => finish t)
      | HDisc => bind (disconnect_core t false RClient) (fun w => match w with Some rt => block t (TDJoin DJHandler rt) | None => finish t end) end))).
    eapply ht_bind with (Q := fun _ => PN t); [apply (quiet_emit t); reflexivity|]. intros ?.
    destruct a; try (apply ends_keeps, keeps_finish).
    + apply ends_keeps. apply keeps_bind; [apply keeps_quiet, quiet_send_packet | intros ?; apply keeps_finish].
    + apply ends_disconnect_then. apply ends_keeps, keeps_finish.
  - refine (ends_keeps t _ _ s acc (start_N t _ s acc I X eq_refl)).
    apply keeps_bind; [apply keeps_quiet, quiet_alive|]. intros a. destruct a; [apply keeps_block; reflexivity|].
    apply keeps_bind; [apply keeps_quiet, quiet_emit; reflexivity | intros ?; apply keeps_finish].
Qed.

(* ---- the scheduler, the clock and the stimuli ---- *)
Lemma Inv_same s acc s' o :
  Inv s acc -> state s' = state s -> sid_set s' = sid_set s -> ntid s' = ntid s -> (forall t, ent s' t = ent s t) ->
  NoDup (map fst (tasks s')) -> nolife o -> Inv s' (acc ++ o).
Proof.
  intros (P & [C1 C2 C3] & [T1 T2]) ST SD NT EN ND NL. split; [|split].
  - rewrite phase_nolife by exact NL. unfold connected. rewrite ST. exact P.
  - split; [rewrite ST, SD; exact C1 | intros t k; rewrite EN, NT; apply C2 | exact ND].
  - split; intros t k N X Q; rewrite EN in X; rewrite ST.
    + destruct (T1 t k N X Q) as [S U]. split; [exact S|]. intros t' k' N' X'. rewrite EN in X'. apply U; assumption.
    + destruct (T2 t k N X Q) as [S U]. split; [exact S|]. intros t' k' N' X'. rewrite EN in X'. apply U; assumption.
Qed.
Lemma Inv_unchanged s acc s' o : Inv s acc -> unchanged s s' -> nolife o -> Inv s' (acc ++ o).
Proof.
  intros I (U1 & U2 & U3 & U4) NL. eapply Inv_same; try eassumption; [intros t; apply ent_tasks; exact U3|].
  rewrite U3. destruct I as (_ & [_ _ C3] & _). exact C3.
Qed.

Definition pinv {A} (m : M A) : Prop := ht Inv m (fun _ => Inv).
Definition inert {A} (m : M A) : Prop := forall s, unchanged s (stof (m s)) /\ nolife (outof (m s)).
Lemma pinv_inert {A} (m : M A) : inert m -> pinv m.
Proof. intros H s acc I. destruct (H s) as [U NL]. eapply Inv_unchanged; eauto. Qed.
Lemma pinv_bind {A B} (m : M A) (f : A -> M B) : pinv m -> (forall a, pinv (f a)) -> pinv (bind m f).
Proof. intros Hm Hf. eapply ht_bind; [exact Hm | exact Hf]. Qed.
Lemma pinv_ret {A} (a : A) : pinv (ret a).  Proof. apply ht_ret. Qed.
Lemma pinv_getst_bind {B} (f : st -> M B) : (forall s0, ht (fun s acc => Inv s acc /\ s = s0) (f s0) (fun _ => Inv)) -> pinv (bind getst f).
Proof. apply ht_getst_bind. Qed.
Lemma inert_modst f : (forall s, unchanged s (f s)) -> inert (modst f).
Proof. intros H s. cbn. split; [apply H | constructor]. Qed.
Lemma inert_wake t : inert (wake t).
Proof. apply inert_modst. intros s. destruct (alookup t (tasks s)); [destruct (nmem t (runq s))|]; unch. Qed.
Lemma unchanged_trans a b c : unchanged a b -> unchanged b c -> unchanged a c.
Proof. intros (A1 & A2 & A3 & A4) (B1 & B2 & B3 & B4). repeat split; congruence. Qed.
Lemma inert_bind {A B} (m : M A) (f : A -> M B) : inert m -> (forall a, inert (f a)) -> inert (bind m f).
Proof.
  intros Hm Hf s. pose proof (Hm s) as [U1 N1]. unfold bind, stof, outof in *. destruct (m s) as [[a s1] o1]. cbn in *.
  pose proof (Hf a s1) as [U2 N2]. unfold stof, outof in *. destruct (f a s1) as [[b s2] o2]. cbn in *.
  split; [eapply unchanged_trans; eassumption | apply Forall_app; split; assumption].
Qed.
Lemma inert_ret {A} (a : A) : inert (ret a).
Proof. intros s. cbn. split; [unch | constructor]. Qed.
Lemma inert_wake_all l : inert (wake_all l).
Proof. induction l as [|t r IH]; cbn [wake_all]; [apply inert_ret|]. apply inert_bind; [apply inert_wake | intros ?; exact IH]. Qed.

Lemma settle_inv fuel : pinv (settle cfg fuel).
Proof.
  induction fuel as [|f IH]; cbn [settle]; apply pinv_getst_bind; intros s0.
  - destruct (runq s0); [eapply ht_conseq; [apply pinv_ret | intros s acc [I _]; exact I | auto]|].
    eapply ht_conseq; [apply pinv_inert; intros s; cbn; split; [unch | constructor; [reflexivity | constructor]] | intros s acc [I _]; exact I | auto].
  - destruct (runq s0) as [|t rq]; [eapply ht_conseq; [apply pinv_ret | intros s acc [I _]; exact I | auto]|].
    apply ht_modst_bind. destruct (alookup t (tasks s0)) as [e|] eqn:L.
    + eapply ht_bind with (Q := fun _ => Inv); [|intros ?; exact IH].
      intros s' acc (s1 & [I ->] & ->). apply run_task_inv; [|exact L].
      rewrite <- (app_nil_r acc). eapply Inv_unchanged; [exact I | unch | constructor].
    + eapply ht_conseq; [exact IH | | auto]. intros s' acc (s1 & [I ->] & ->).
      rewrite <- (app_nil_r acc). eapply Inv_unchanged; [exact I | unch | constructor].
Qed.

Lemma advance_inv fuel target : pinv (advance cfg fuel target).
Proof.
  induction fuel as [|f IH]; cbn [advance]; [apply pinv_inert; intros s; cbn; split; [unch | constructor; [reflexivity | constructor]]|].
  apply pinv_bind; [apply settle_inv|]. intros ?. apply pinv_getst_bind. intros s0.
  assert (NOW : forall v, ht (fun s acc => Inv s acc /\ s = s0) (modst (set_now v)) (fun _ => Inv)).
  { intros v. eapply ht_conseq; [apply pinv_inert, inert_modst; unch | intros s acc [I _]; exact I | auto]. }
  destruct (next_timer (tasks s0) None) as [[t tm]|]; [|apply NOW]. destruct (Z.leb (fst tm) target); [|apply NOW].
  eapply ht_bind with (Q := fun _ => Inv); [eapply ht_conseq; [apply pinv_inert, inert_modst; unch | intros s acc [I _]; exact I | auto]|]. intros ?.
  eapply ht_bind with (Q := fun _ => Inv); [|intros ?; apply pinv_bind; [apply pinv_inert, inert_wake | intros ?; exact IH]].
  intros s acc I. unfold modst, valof, stof, outof. cbn [fst snd]. destruct (alookup t (tasks s)) as [e|] eqn:L; [|rewrite app_nil_r; exact I].
  assert (C3 : NoDup (map fst (tasks s))) by (destruct I as (_ & [_ _ C3] & _); exact C3).
  eapply Inv_same; [exact I | reflexivity | reflexivity | reflexivity | | cbn; apply nodup_aset; exact C3 | constructor].
  intros j. unfold ent. cbn. destruct (N.eq_dec j t) as [->|N]; [rewrite alookup_aset_same, L; reflexivity | rewrite alookup_aset_other by exact N; reflexivity].
Qed.

(* an application call: a fresh task *)
Lemma Inv_add_me s acc e0 : Inv s acc -> neutral (t_task e0) = true ->
  let me := ntid s in let s1 := set_tasks (aset me e0 (tasks s)) (set_ntid (N.succ me) s) in
  PN me s1 acc /\ forall t, t <> me -> ent s1 t = ent s t.
Proof.
  intros (P & [C1 C2 C3] & [T1 T2]) NK me s1.
  assert (EO : forall t, t <> me -> ent s1 t = ent s t) by (intros t N; unfold ent; cbn; rewrite alookup_aset_other by exact N; reflexivity).
  assert (ES : ent s1 me = Some (t_task e0)) by (unfold ent; cbn; rewrite alookup_aset_same; reflexivity).
  split; [|exact EO]. split; [split; [exact P | split]|].
  - split; [exact C1 | | cbn; apply nodup_aset; exact C3].
    intros t k X. change (ntid s1) with (N.succ me). destruct (N.eq_dec t me) as [->|N]; [lia|]. rewrite EO in X by exact N. specialize (C2 t k X). unfold me. lia.
  - split; intros t k N X Q; cbn in N; rewrite EO in X by exact N; change (state s1) with (state s).
    + destruct (T1 t k Logic.I X Q) as [S U]. split; [exact S|]. intros t' k' N' X' Q'. cbn in N'. rewrite EO in X' by exact N'. exact (U t' k' Logic.I X' Q').
    + destruct (T2 t k Logic.I X Q) as [S U]. split; [exact S|]. intros t' k' N' X' Q'. cbn in N'. rewrite EO in X' by exact N'. exact (U t' k' Logic.I X' Q').
  - change (ntid s1) with (N.succ me). split; [lia|]. split; [discriminate|]. split; [exact Logic.I | rewrite ES; exact NK].
Qed.

Definition no_preopen (s : st) : bool := forallb (fun e => negb (preopen (t_task (snd e)))) (tasks s).
Lemma alookup_in {A} k (l : list (N * A)) e : alookup k l = Some e -> In (k, e) l.
Proof. induction l as [|[k' v'] r IH]; cbn; [discriminate|]. destruct (N.eqb_spec k k') as [->|]; [intros X; injection X as ->; left; reflexivity | intros X; right; exact (IH X)]. Qed.
Lemma no_preopen_ent s t k : no_preopen s = true -> ent s t = Some k -> preopen k = false.
Proof.
  unfold no_preopen, ent. intros H X. destruct (alookup t (tasks s)) as [e|] eqn:L; [|discriminate]. injection X as <-.
  rewrite forallb_forall in H. specialize (H _ (alookup_in _ _ _ L)). cbn in H. destruct (preopen (t_task e)); [discriminate | reflexivity].
Qed.

Lemma ends_api_connect me call trs :
  ends (fun s acc => PN me s acc /\ (state s = Disconnected -> NoOthers me s)) (run_api cfg me call (AConnect trs)).
Proof.
  cbn [run_api]. apply ht_getst_bind. intros s0. destruct (state s0) eqn:ST0;
    try (eapply ht_conseq; [apply (ends_conn_done me false FT EN) | intros s acc [[g _] _]; exact g | auto]).
  eapply ht_conseq with (P' := G me true (fun st _ => st = Disconnected) EN) (Q' := fun _ s acc => Inv s acc);
    [| intros s acc [[g H] ->]; eapply G_upgrade; [exact g | exact (H ST0) | exact ST0] | auto].
  eapply ht_bind with (Q := fun _ => G me true (fun st _ => st = Disconnected) EN); [apply (quiet_modst me); unch|]. intros ?.
  assert (W : ends (G me true (fun st _ => st = Disconnected) EN) (ws_connect cfg me call false)).
  { eapply ht_conseq; [apply ht_ws_connect | intros s acc X; exact X |]. intros ? s acc g. eapply close_P; [exact g|]. intros k (c & tm & X). injection X as ->. reflexivity. }
  assert (H : ends (G me true (fun st _ => st = Disconnected) EN) (bind (http_request me KindOpen []) (fun h => bind (new_timer (cc_request_timeout cfg)) (fun tm => block me (TCOpenGet call h tm trs))))).
  { eapply ht_bind with (Q := fun _ => G me true (fun st _ => st = Disconnected) EN); [apply quiet_http_request|]. intros h.
    eapply ht_bind with (Q := fun _ => G me true (fun st _ => st = Disconnected) EN); [apply quiet_new_timer|]. intros tm.
    eapply ht_conseq; [apply ht_block | intros s acc X; exact X |]. intros ? s acc g. eapply close_P; [exact g|]. intros k X. injection X as ->. reflexivity. }
  destruct trs as [|[|] rest]; [exact H | exact H | exact W].
Qed.
Lemma ends_api_other me call x : (match x with AConnect _ => False | _ => True end) -> ends (PN me) (run_api cfg me call x).
Proof.
  destruct x as [trs|m b| |]; intros Hx; [contradiction | | |]; cbn [run_api].
  - apply ends_keeps. apply keeps_bind; [apply keeps_quiet, quiet_send_packet|]. intros ?.
    apply keeps_bind; [apply keeps_quiet, quiet_emit; reflexivity | intros ?; apply keeps_finish].
  - apply ends_disconnect_then. apply ends_conn_done.
  - apply ends_keeps. apply keeps_getst_bind. intros s0.
    assert (D : keeps me (bind (emit (ORet call ROk)) (fun _ => finish me))) by (apply keeps_bind; [apply keeps_quiet, quiet_emit; reflexivity | intros ?; apply keeps_finish]).
    destruct (read_task s0) as [r|]; [|exact D]. apply keeps_bind; [apply keeps_quiet, quiet_alive|]. intros a. destruct a; [apply keeps_block; reflexivity | exact D].
Qed.

(* the application does not start a connect() while another one is still waiting for its handshake *)
Definition polite_op (o : op) (s : st) : bool := match o with OpCall _ (AConnect _) => no_preopen s | _ => true end.

Theorem apply_op_inv o s acc : Inv s acc -> polite_op o s = true -> Inv (stof (apply_op cfg o s)) (acc ++ outof (apply_op cfg o s)).
Proof.
  intros I PO. revert s acc I PO.
  assert (WK : forall w : option tid, pinv (match w with Some t => wake t | None => ret tt end)) by (intros [t|]; [apply pinv_inert, inert_wake | apply pinv_ret]).
  destruct o as [call x | h r | c a | c f | c | dt | c f]; intros s acc I PO; cbn [apply_op].
  - (* an application call *)
    revert s acc I PO. change (forall s acc, Inv s acc -> polite_op (OpCall call x) s = true ->
      Inv (stof (bind getst (fun s0 => bind (modst (fun s => set_tasks (aset (ntid s0) {| t_task := TWriteStart; t_tout := false |} (tasks s)) (set_ntid (N.succ (ntid s0)) s)))
             (fun _ => bind (run_api cfg (ntid s0) call x) (fun _ => settle cfg FUEL))) s))
          (acc ++ outof (bind getst (fun s0 => bind (modst (fun s => set_tasks (aset (ntid s0) {| t_task := TWriteStart; t_tout := false |} (tasks s)) (set_ntid (N.succ (ntid s0)) s)))
             (fun _ => bind (run_api cfg (ntid s0) call x) (fun _ => settle cfg FUEL))) s))).
    intros s acc I PO.
    refine (ht_getst_bind (fun s' acc' => Inv s' acc' /\ polite_op (OpCall call x) s' = true) _ (fun _ => Inv) _ s acc (conj I PO)).
    intros s0. apply ht_modst_bind. eapply ht_bind with (Q := fun _ => Inv); [|intros ?; apply settle_inv].
    destruct x as [trs|m b| |].
    + eapply ht_conseq; [apply ends_api_connect | | auto]. intros s' acc' (s1 & [[I1 PO1] ->] & ->).
      destruct (Inv_add_me s0 acc' {| t_task := TWriteStart; t_tout := false |} I1 eq_refl) as [PNm EO]. split; [exact PNm|].
      intros ST t k N X. rewrite EO in X by exact N. cbn in PO1, ST. unfold neutral. rewrite (no_preopen_ent s0 t k PO1 X). cbn.
      destruct (isdj k) eqn:Q; [|reflexivity]. destruct I1 as (_ & _ & [_ T2]). destruct (T2 t k Logic.I X Q) as [S _]. congruence.
    + eapply ht_conseq; [apply ends_api_other; exact Logic.I | | auto]. intros s' acc' (s1 & [[I1 _] ->] & ->).
      exact (proj1 (Inv_add_me s0 acc' {| t_task := TWriteStart; t_tout := false |} I1 eq_refl)).
    + eapply ht_conseq; [apply ends_api_other; exact Logic.I | | auto]. intros s' acc' (s1 & [[I1 _] ->] & ->).
      exact (proj1 (Inv_add_me s0 acc' {| t_task := TWriteStart; t_tout := false |} I1 eq_refl)).
    + eapply ht_conseq; [apply ends_api_other; exact Logic.I | | auto]. intros s' acc' (s1 & [[I1 _] ->] & ->).
      exact (proj1 (Inv_add_me s0 acc' {| t_task := TWriteStart; t_tout := false |} I1 eq_refl)).
  - (* an HTTP reply *)
    clear PO; revert s acc I. apply pinv_getst_bind. intros s0. destruct (alookup h (https s0)); [|eapply ht_conseq; [apply pinv_ret | intros s acc [I _]; exact I | intros ? ? ? X; exact X]].
    eapply ht_conseq; [| intros s acc [I _]; exact I | intros ? ? ? X; exact X].
    apply pinv_bind; [apply pinv_inert, inert_modst; unch|]. intros ?. apply pinv_bind; [apply pinv_inert, inert_wake | intros ?; apply settle_inv].
  - clear PO; revert s acc I. apply pinv_getst_bind. intros s0. eapply ht_conseq; [| intros s acc [I _]; exact I | intros ? ? ? X; exact X].
    apply pinv_bind; [apply pinv_inert, inert_modst; unch|]. intros ?. apply pinv_bind; [apply pinv_inert, inert_wake_all | intros ?; apply settle_inv].
  - clear PO; revert s acc I. apply pinv_bind; [apply pinv_inert; intros s; cbn; split; [unch | constructor]|]. intros w.
    apply pinv_bind; [apply pinv_inert, inert_modst; unch|]. intros ?. apply pinv_bind; [apply WK | intros ?; apply settle_inv].
  - clear PO; revert s acc I. apply pinv_bind; [apply pinv_inert; intros s; cbn; split; [unch | constructor]|]. intros w.
    apply pinv_bind; [apply pinv_inert, inert_modst; unch|]. intros ?. apply pinv_bind; [apply WK | intros ?; apply settle_inv].
  - clear PO; revert s acc I. apply pinv_getst_bind. intros s0. eapply ht_conseq; [apply advance_inv | intros s acc [I _]; exact I | intros ? ? ? X; exact X].
  - clear PO; revert s acc I. apply pinv_bind; [apply pinv_inert; intros s; cbn; split; [unch | constructor]|]. intros w.
    apply pinv_bind; [apply pinv_inert, inert_modst; unch|]. intros ?. apply pinv_bind; [apply WK | intros ?; apply settle_inv].
Qed.
End WithCfg.

(* ---- every history ---- *)
Fixpoint polite (cfg : ccfg) (ops : list op) (s : st) : bool :=
  match ops with [] => true | o :: r => polite_op o s && polite cfg r (stof (apply_op cfg o s)) end.

Lemma Inv_init : Inv init [].
Proof.
  split; [reflexivity|]. split; [split; [reflexivity | intros t k X; discriminate | constructor]|].
  split; intros t k _ X; discriminate.
Qed.

Theorem reachable_inv cfg ops : forall s acc, Inv s acc -> polite cfg ops s = true ->
  Inv (fst (run_ops cfg ops s)) (acc ++ concat (snd (run_ops cfg ops s))).
Proof.
  induction ops as [|o r IH]; intros s acc I PO; cbn [run_ops]; [cbn; rewrite app_nil_r; exact I|].
  cbn [polite] in PO. apply andb_prop in PO. destruct PO as [P1 P2].
  pose proof (apply_op_inv cfg o s acc I P1) as I1. unfold stof, outof in *.
  destruct (apply_op cfg o s) as [[u s1] o1]. cbn [fst snd] in *.
  specialize (IH s1 (acc ++ o1) I1 P2). destruct (run_ops cfg r s1) as [s2 os]. cbn [fst snd concat] in *.
  rewrite app_assoc. exact IH.
Qed.

(* the lifecycle events of a whole history, and what "alternate" means *)
Definition lc (l : list out) : list bool := flat_map (fun o => match lifecycle o with Some b => [b] | None => [] end) l.
Fixpoint alt (cur : bool) (l : list bool) : Prop := match l with [] => True | x :: r => x = negb cur /\ alt x r end.
Fixpoint last_or (cur : bool) (l : list bool) : bool := match l with [] => cur | x :: r => last_or x r end.

Lemma phase_from_alt l : forall c b, phase_from (Some c) l = Some b -> alt c (lc l) /\ b = last_or c (lc l).
Proof.
  induction l as [|o r IH]; intros c b H; cbn in *; [injection H as <-; auto|].
  unfold pstep at 2 in H. destruct (lifecycle o) as [x|] eqn:L; cbn [app].
  - destruct (Bool.eqb c x) eqn:E.
    + exfalso. clear -H. induction r as [|o' r' IH']; cbn in H; [discriminate|]. apply IH'. unfold pstep at 2 in H. destruct (lifecycle o'); exact H.
    + destruct (IH x b H) as [A B]. cbn. split; [split; [destruct c, x; cbn in E; try discriminate; reflexivity | exact A] | exact B].
  - exact (IH c b H).
Qed.

(* C08, for every history of stimuli in which connect() calls do not overlap: the lifecycle events alternate, starting with a
   connect event; the client is 'connected' exactly when the last of them is a connect event; a client with no session id is
   disconnected *)
Theorem lifecycle_alternates cfg ops : polite cfg ops init = true ->
  let s := fst (run_ops cfg ops init) in let outs := concat (snd (run_ops cfg ops init)) in
  alt false (lc outs) /\ connected s = last_or false (lc outs) /\ (sid_set s = false -> state s = Disconnected).
Proof.
  intros PO s outs. pose proof (reachable_inv cfg ops init [] Inv_init PO) as (P & [C1 _ _] & _). cbn [app] in P.
  destruct (phase_from_alt _ _ _ P) as [A B]. split; [exact A|]. split; [exact B | exact C1].
Qed.

(* the hypothesis is satisfiable and the conclusion is not trivial: two connections, ended by the server and by the application *)
Definition ex_cfg : ccfg := {| cc_request_timeout := 40; cc_connect_handler_disconnects := false; cc_quirks := {| cq_handshake_recv_timeout := true |} |}.
Definition ex_ops : list op :=
  [OpCall 0 (AConnect [TrPolling]); OpReply 0 (HOk [KOpen true false 16 16]); OpCall 1 (ASend 1 false);
   OpReply 1 (HOk [KMsg 5 HNone; KClose]); OpReply 2 (HOk []);
   OpCall 2 (AConnect [TrPolling]); OpReply 3 (HOk [KOpen true false 16 16; KPing 2]); OpCall 3 ADisconnect; OpReply 4 (HOk []); OpAdvance 100].
Example polite_history : polite ex_cfg ex_ops init = true /\ lc (concat (snd (run_ops ex_cfg ex_ops init))) = [true; false; true; false].
Proof. vm_compute. split; reflexivity. Qed.
