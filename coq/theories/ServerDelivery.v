(* What a poll returns is what the queue held first, and it is recorded as taken (C03): the link between the ghost field
   `s_taken` of the conservation invariant and the packets that actually leave in a response. *)
From Coq Require Import ZArith NArith List Bool Lia.
Import ListNotations.
From EIO Require Import Server ServerReasons ServerInv.
Open Scope N_scope.

Definition smids (l : list spkt) : list N := flat_map (fun p => match p with SMsg m => [m] | _ => [] end) l.
Lemma smids_app a b : smids (a ++ b) = smids a ++ smids b.  Proof. unfold smids. apply flat_map_app. Qed.
Lemma mids_of_cons x r : mids_of (x :: r) = mids_of [x] ++ mids_of r.
Proof. unfold mids_of. cbn. rewrite app_nil_r. reflexivity. Qed.
Definition has (i : sid) (s : st) : bool := match alookup i (store s) with Some _ => true | None => false end.

Lemma bind_gsess_eq {B} i (f : sess -> M B) s : bind (gsess i) f s = f (cur i s) s.
Proof. unfold bind, gsess, cur. cbn. destruct (f _ s) as [[b s2] o2]. reflexivity. Qed.
Lemma bind_ret_eq {A B} (a : A) (f : A -> M B) s : bind (ret a) f s = f a s.
Proof. unfold bind, ret. cbn. destruct (f a s) as [[b s2] o2]. reflexivity. Qed.

(* the view of session i that matters here *)
Definition qv (i : sid) (s : st) : bool * list qitem * list N := (has i s, s_q (cur i s), s_taken (cur i s)).

Lemma psess_qv i x s : has i s = true -> qv i (stof (psess i x s)) = (true, s_q x, s_taken x).
Proof.
  intros H. unfold has in H. destruct (alookup i (store s)) eqn:L; [|discriminate].
  assert (E : store (stof (psess i x s)) = aset i x (store s)) by (unfold psess, modst, stof; cbn; rewrite L; reflexivity).
  unfold qv, has, cur. rewrite E, alookup_aset_same. reflexivity.
Qed.
Lemma psess_out i x s : outof (psess i x s) = [].  Proof. reflexivity. Qed.

(* the whole store is untouched *)
Definition qv_all (s' s : st) : Prop := store s' = store s.

(* operations that leave the view alone *)
Definition vframe {A} (i : sid) (m : M A) : Prop := forall s, qv i (stof (m s)) = qv i s.
Lemma vframe_bind {A B} i (m : M A) (f : A -> M B) : vframe i m -> (forall a, vframe i (f a)) -> vframe i (bind m f).
Proof.
  intros Hm Hf s. specialize (Hm s). unfold bind, stof in *. destruct (m s) as [[a s1] o1]. cbn in *.
  specialize (Hf a s1). unfold stof in Hf. destruct (f a s1) as [[b s2] o2]. cbn in *. congruence.
Qed.
Lemma vframe_ret {A} i (a : A) : vframe i (ret a).  Proof. intros s. reflexivity. Qed.
Lemma vframe_store {A} i (m : M A) : (forall s, store (stof (m s)) = store s) -> vframe i m.
Proof. intros H s. unfold qv, has, cur. rewrite H. reflexivity. Qed.
Lemma vframe_wake i t : vframe i (wake t).
Proof. apply vframe_store. intros s. unfold wake, modst, stof. cbn. destruct (alookup t (tasks s)); [destruct (nmem t (runq s))|]; reflexivity. Qed.
Lemma vframe_wake_all i l : vframe i (wake_all l).
Proof. induction l as [|t r IH]; cbn [wake_all]; [apply vframe_ret | apply vframe_bind; [apply vframe_wake | intros ?; exact IH]]. Qed.
Lemma vframe_psess_same i x : (forall s, has i s = true -> s_q x = s_q (cur i s) /\ s_taken x = s_taken (cur i s)) -> False -> vframe i (psess i x).
Proof. intros _ []. Qed.

(* q_task_done touches the unfinished count and the joiners only *)
Lemma q_task_done_qv i s : qv i (stof (q_task_done i s)) = qv i s.
Proof.
  unfold q_task_done. rewrite bind_gsess_eq.
  destruct (has i s) eqn:H.
  - unfold bind at 1. pose proof (psess_qv i (w_unfin (pred (s_unfin (cur i s))) (cur i s)) s H) as P. unfold stof in P.
    destruct (psess i _ s) as [[u s1] o1] eqn:E1. cbn [fst snd] in P.
    assert (Q1 : qv i s1 = qv i s) by (rewrite P; unfold qv; rewrite H; reflexivity).
    destruct (pred (s_unfin (cur i s))).
    + assert (F : vframe i (bind (upd i (w_joiners [])) (fun _ => wake_all (s_joiners (cur i s))))).
      { apply vframe_bind; [|intros ?; apply vframe_wake_all]. intros s0. unfold upd. rewrite bind_gsess_eq.
        destruct (has i s0) eqn:H0; [rewrite psess_qv by exact H0; unfold qv; rewrite H0; reflexivity|].
        unfold psess, modst, stof, has in *. cbn. destruct (alookup i (store s0)); [discriminate | reflexivity]. }
      specialize (F s1). unfold stof in *. destruct (bind _ _ s1) as [[u2 s2] o2]. cbn [fst snd] in *. congruence.
    + cbn. exact Q1.
  - (* no such session: nothing is written *)
    assert (N : forall x s0, has i s0 = false -> stof (psess i x s0) = s0).
    { intros x s0 H0. unfold psess, modst, stof, has in *. cbn. destruct (alookup i (store s0)); [discriminate | reflexivity]. }
    unfold bind at 1. pose proof (N (w_unfin (pred (s_unfin (cur i s))) (cur i s)) s H) as P. unfold stof in P.
    destruct (psess i _ s) as [[u s1] o1]. cbn [fst snd] in P. subst s1.
    destruct (pred (s_unfin (cur i s))); [|reflexivity].
    assert (F : vframe i (bind (upd i (w_joiners [])) (fun _ => wake_all (s_joiners (cur i s))))).
    { apply vframe_bind; [|intros ?; apply vframe_wake_all]. intros s0. unfold upd. rewrite bind_gsess_eq.
      destruct (has i s0) eqn:H0; [rewrite psess_qv by exact H0; unfold qv; rewrite H0; reflexivity|]. rewrite N by exact H0. reflexivity. }
    specialize (F s). unfold stof in *. destruct (bind _ _ s) as [[u2 s2] o2]. cbn [fst snd] in *. exact F.
Qed.

Lemma psess_none i x s : has i s = false -> stof (psess i x s) = s.
Proof. intros H0. unfold psess, modst, stof, has in *. cbn. destruct (alookup i (store s)); [discriminate | reflexivity]. Qed.

(* q_put appends one item and takes nothing *)
Lemma q_put_qv i x s : has i s = true -> qv i (stof (q_put i x s)) = (true, s_q (cur i s) ++ [x], s_taken (cur i s)).
Proof.
  intros H. unfold q_put. rewrite bind_gsess_eq. unfold bind at 1.
  pose proof (psess_qv i (w_accepted (s_accepted (cur i s) ++ mids_of [x]) (w_unfin (S (s_unfin (cur i s))) (w_q (s_q (cur i s) ++ [x]) (cur i s)))) s H) as P.
  unfold stof in P. destruct (psess i _ s) as [[u s1] o1]. cbn [fst snd] in P.
  destruct (s_getters (cur i s)) as [|g r]; [exact P|].
  assert (F : vframe i (bind (upd i (w_getters r)) (fun _ => wake g))).
  { apply vframe_bind; [|intros ?; apply vframe_wake]. intros s0. unfold upd. rewrite bind_gsess_eq.
    destruct (has i s0) eqn:H0; [rewrite psess_qv by exact H0; unfold qv; rewrite H0; reflexivity | rewrite psess_none by exact H0; reflexivity]. }
  specialize (F s1). unfold stof in *. destruct (bind _ _ s1) as [[u2 s2] o2]. cbn [fst snd] in *. rewrite F. exact P.
Qed.


Lemma bind_run {A B} (m : M A) (f : A -> M B) s a s1 o1 : m s = (a, s1, o1) -> bind m f s = (let '(b, s2, o2) := f a s1 in (b, s2, o1 ++ o2)).
Proof. intros E. unfold bind. rewrite E. reflexivity. Qed.
Lemma psess_run i x s : psess i x s = (tt, stof (psess i x s), []).
Proof. reflexivity. Qed.
Lemma q_task_done_out i s : outof (q_task_done i s) = [].
Proof.
  unfold q_task_done. rewrite bind_gsess_eq. rewrite (bind_run _ _ _ _ _ _ (psess_run _ _ _)).
  destruct (pred (s_unfin (cur i s))); [|reflexivity].
  set (s1 := stof (psess i _ s)). unfold upd. rewrite (bind_run _ _ s1 _ _ _ (eq_refl : bind (gsess i) (fun x => psess i (w_joiners [] x)) s1 = (tt, _, []))).
  match goal with |- context [wake_all ?l ?s0] => pose proof (sf_wake_all l s0) as (_ & _ & W); unfold outof in *; destruct (wake_all l s0) as [[uu ss] oo] end.
  cbn in *. exact W.
Qed.
Lemma q_put_out i x s : outof (q_put i x s) = [].
Proof.
  unfold q_put. rewrite bind_gsess_eq. rewrite (bind_run _ _ _ _ _ _ (psess_run _ _ _)).
  destruct (s_getters (cur i s)); [reflexivity|]. reflexivity.
Qed.

(* drain: what is added to the result is taken from the head of the queue, in order, and recorded as taken *)
Lemma drain_spec fuel : forall i acc s, has i s = true ->
  exists d, valof (drain fuel i acc s) = acc ++ d /\ has i (stof (drain fuel i acc s)) = true /\
            s_taken (cur i (stof (drain fuel i acc s))) = s_taken (cur i s) ++ smids d /\
            mids_of (s_q (cur i s)) = smids d ++ mids_of (s_q (cur i (stof (drain fuel i acc s)))) /\
            outof (drain fuel i acc s) = [].
Proof.
  induction fuel as [|f IH]; intros i acc s H; cbn [drain].
  - exists []. rewrite !app_nil_r. cbn. auto.
  - destruct (Nat.leb MAX_BATCH (length acc)); [exists []; rewrite !app_nil_r; cbn; auto|].
    rewrite bind_gsess_eq. destruct (s_q (cur i s)) as [|x r] eqn:Q; [exists []; rewrite !app_nil_r; cbn; rewrite Q; auto|].
    rewrite (bind_run _ _ _ _ _ _ (psess_run _ _ _)).
    pose proof (psess_qv i (w_taken (s_taken (cur i s) ++ mids_of [x]) (w_q r (cur i s))) s H) as P.
    set (s1 := stof (psess i _ s)) in *.
    pose proof (q_task_done_qv i s1) as T. pose proof (q_task_done_out i s1) as OT.
    destruct (q_task_done i s1) as [[u2 s2] o2] eqn:E2. unfold stof, outof in T, OT. cbn [fst snd] in T, OT. subst o2.
    rewrite (bind_run _ _ _ _ _ _ E2).
    assert (V2 : qv i s2 = (true, r, s_taken (cur i s) ++ mids_of [x])) by (rewrite T; exact P).
    assert (H2 : has i s2 = true) by (unfold qv in V2; congruence).
    assert (Q2 : s_q (cur i s2) = r) by (unfold qv in V2; congruence).
    assert (T2 : s_taken (cur i s2) = s_taken (cur i s) ++ mids_of [x]) by (unfold qv in V2; congruence).
    destruct x as [p|].
    + destruct (IH i (acc ++ [p]) s2 H2) as (d & D1 & D2 & D3 & D4 & D5). unfold valof, stof, outof in *.
      destruct (drain f i (acc ++ [p]) s2) as [[res s3] o3]. cbn [fst snd app] in *.
      exists (p :: d). rewrite D1, <- app_assoc. split; [reflexivity|]. split; [exact D2|]. split; [|split; [|rewrite D5; reflexivity]].
      * rewrite D3, T2, <- app_assoc. f_equal. destruct p; reflexivity.
      * rewrite mids_of_cons. rewrite Q2 in D4. rewrite D4, app_assoc. f_equal. destruct p; reflexivity.
    + (* the end marker is put back *)
      pose proof (q_put_qv i QNone s2 H2) as P3. pose proof (q_put_out i QNone s2) as O3.
      destruct (q_put i QNone s2) as [[u3 s3] o3] eqn:E3. unfold stof, outof in P3, O3. cbn [fst snd] in P3, O3. subst o3.
      rewrite (bind_run _ _ _ _ _ _ E3).
      exists []. rewrite !app_nil_r. unfold valof, stof, outof. cbn [fst snd ret app]. unfold qv in P3.
      split; [reflexivity|]. split; [congruence|]. split; [|split; [|reflexivity]].
      * replace (s_taken (cur i s3)) with (s_taken (cur i s2)) by congruence. rewrite T2. cbn. rewrite app_nil_r. reflexivity.
      * replace (s_q (cur i s3)) with (s_q (cur i s2) ++ [QNone]) by congruence. rewrite Q2. cbn [smids flat_map app].
        rewrite mids_of_cons. cbn [mids_of flat_map app]. unfold mids_of. rewrite flat_map_app. cbn. rewrite app_nil_r. reflexivity.
Qed.

Section WithCfg.
Variable cfg : config.

(* one attempt of a poll: if it returns packets, they are the head of the queue, in order, now recorded as taken; the attempt
   itself emits nothing *)
Lemma poll_attempt_spec me tout i k t s : has i s = true ->
  outof (poll_attempt cfg me tout i k t s) = [] /\
  ((forall l, valof (poll_attempt cfg me tout i k t s) <> PGot l) ->
     s_taken (cur i (stof (poll_attempt cfg me tout i k t s))) = s_taken (cur i s) /\ s_q (cur i (stof (poll_attempt cfg me tout i k t s))) = s_q (cur i s)) /\
  forall l, valof (poll_attempt cfg me tout i k t s) = PGot l ->
  has i (stof (poll_attempt cfg me tout i k t s)) = true /\
  s_taken (cur i (stof (poll_attempt cfg me tout i k t s))) = s_taken (cur i s) ++ smids l /\
  mids_of (s_q (cur i s)) = smids l ++ mids_of (s_q (cur i (stof (poll_attempt cfg me tout i k t s)))).
Proof.
  intros H. unfold poll_attempt. rewrite bind_gsess_eq.
  destruct (if tout && q_timeout_wins (c_quirks cfg) then [] else s_q (cur i s)) as [|x r] eqn:Q.
  - assert (U : forall g, qv i (stof (upd i (fun x => w_getters (g x) x) s)) = qv i s).
    { intros g. unfold upd. rewrite bind_gsess_eq. rewrite psess_qv by exact H. unfold qv. rewrite H. reflexivity. }
    destruct tout.
    + unfold upd. rewrite (bind_run _ _ s _ _ _ (eq_refl : bind (gsess i) (fun x => psess i (w_getters (nrem me (s_getters x)) x)) s = (tt, _, []))). cbn [fst snd ret app valof stof outof].
      split; [reflexivity|]. split; [|discriminate]. intros _. specialize (U (fun x => nrem me (s_getters x))). unfold upd, qv in U. rewrite bind_gsess_eq in U. injection U as _ U1 U2. split; assumption.
    + unfold upd. rewrite (bind_run _ _ s _ _ _ (eq_refl : bind (gsess i) (fun x => psess i (w_getters (nrem me (s_getters x) ++ [me]) x)) s = (tt, _, []))).
      set (s1 := snd (fst (bind (gsess i) (fun x => psess i (w_getters (nrem me (s_getters x) ++ [me]) x)) s))).
      rewrite (bind_run _ _ s1 tt _ [] eq_refl). cbn [fst snd ret app valof stof outof].
      split; [reflexivity|]. split; [|discriminate]. intros _. specialize (U (fun x => nrem me (s_getters x) ++ [me])). unfold upd, qv in U. rewrite bind_gsess_eq in U.
      fold s1 in U. unfold stof in U. cbn in U. injection U as _ U1 U2. split; assumption.
  - assert (QQ : s_q (cur i s) = x :: r) by (destruct (tout && q_timeout_wins (c_quirks cfg)); [discriminate | exact Q]).
    rewrite (bind_run _ _ _ _ _ _ (psess_run _ _ _)).
    pose proof (psess_qv i (w_taken (s_taken (cur i s) ++ mids_of [x]) (w_getters (nrem me (s_getters (cur i s))) (w_q r (cur i s)))) s H) as P.
    set (s1 := stof (psess i _ s)) in *.
    pose proof (q_task_done_qv i s1) as T. pose proof (q_task_done_out i s1) as OT.
    destruct (q_task_done i s1) as [[u2 s2] o2] eqn:E2. unfold stof, outof in T, OT. cbn [fst snd] in T, OT. subst o2.
    rewrite (bind_run _ _ _ _ _ _ E2).
    assert (V2 : qv i s2 = (true, r, s_taken (cur i s) ++ mids_of [x])) by (rewrite T; exact P).
    assert (H2 : has i s2 = true) by (unfold qv in V2; congruence).
    assert (Q2 : s_q (cur i s2) = r) by (unfold qv in V2; congruence).
    assert (T2 : s_taken (cur i s2) = s_taken (cur i s) ++ mids_of [x]) by (unfold qv in V2; congruence).
    destruct x as [p|].
    + destruct (drain_spec (S (length r)) i [p] s2 H2) as (d & D1 & D2 & D3 & D4 & D5). unfold valof, stof, outof in *.
      destruct (drain (S (length r)) i [p] s2) as [[res s3] o3] eqn:E3. cbn [fst snd] in *. rewrite (bind_run _ _ _ _ _ _ E3). cbn [fst snd ret app]. subst o3.
      split; [reflexivity|]. split; [intros N; exfalso; exact (N _ eq_refl)|]. intros l X. injection X as <-. subst res. split; [exact D2|]. split.
      * rewrite D3, T2, <- app_assoc. f_equal. cbn [app smids flat_map]. destruct p; reflexivity.
      * rewrite QQ, mids_of_cons. rewrite Q2 in D4. rewrite D4. cbn [app smids flat_map]. rewrite app_assoc. f_equal. destruct p; reflexivity.
    + unfold ret, valof, stof, outof. cbn [fst snd app]. split; [reflexivity|]. split; [intros N; exfalso; exact (N _ eq_refl)|]. intros l X. injection X as <-. cbn [smids flat_map app]. rewrite app_nil_r. split; [exact H2|]. split; [rewrite T2; cbn; rewrite app_nil_r; reflexivity|].
      rewrite QQ, mids_of_cons, Q2. reflexivity.
Qed.

Lemma vframe_finish i me : vframe i (finish me).
Proof.
  unfold finish. apply vframe_bind; [apply vframe_store; reflexivity|]. intros s0. apply vframe_bind; [apply vframe_store; reflexivity | intros ?; apply vframe_wake_all].
Qed.
Lemma vframe_reap i j : vframe i (reap_if_closed j).
Proof.
  unfold reap_if_closed. apply vframe_bind; [apply vframe_store; reflexivity|]. intros it. apply vframe_bind; [apply vframe_store; reflexivity|]. intros ss.
  destruct (it && s_closed ss); [apply vframe_store; reflexivity | apply vframe_ret].
Qed.
Lemma finish_out me s : outof (finish me s) = [].
Proof.
  unfold finish, bind, getst, modst, outof. cbn.
  match goal with |- context [wake_all ?l ?s0] => pose proof (sf_wake_all l s0) as (_ & _ & W); unfold outof in W; destruct (wake_all l s0) as [[uu ss] oo] end. cbn in *. exact W.
Qed.
Lemma reap_out j s : outof (reap_if_closed j s) = [].
Proof. unfold reap_if_closed, bind, in_table, gsess, del_table, modst, ret, outof. cbn. destruct (nmem j (table s) && _); reflexivity. Qed.

Definition noR200 (o : out) : Prop := match o with OResp _ (R200 _) => False | _ => True end.
Lemma raw_no200 {A} (m : M A) : (forall s, ServerReasons.outof (m s) = []) -> emits noR200 m.
Proof. intros H s. rewrite H. constructor. Qed.
Lemma timeout_answer_no_200 me i r s :
  Forall noR200 (ServerReasons.outof ((close_nowait cfg i false RTransportError;;; refuse_and_end cfg i;;; emit (OResp r R400);;; reap_if_closed i;;; finish me) s)).
Proof.
  revert s. change (emits noR200 (close_nowait cfg i false RTransportError;;; refuse_and_end cfg i;;; emit (OResp r R400);;; reap_if_closed i;;; finish me)).
  assert (G : forall i0, emits noR200 (gsess i0)) by (intros; apply raw_no200; reflexivity).
  assert (Hs : forall i0, emits noR200 (has_sess i0)) by (intros; apply raw_no200; reflexivity).
  assert (IT : forall i0, emits noR200 (in_table i0)) by (intros; apply raw_no200; reflexivity).
  assert (PS : forall i0 x, emits noR200 (psess i0 x)) by (intros; apply emits_modst).
  assert (UP : forall i0 g, emits noR200 (upd i0 g)) by (intros; unfold upd; apply emits_bind; [apply G | intros; apply PS]).
  assert (WK : forall t, emits noR200 (wake t)) by (intros; apply emits_modst).
  assert (WA : forall l, emits noR200 (wake_all l)) by (induction l as [|t0 r0 IH]; cbn [wake_all]; [apply emits_ret | apply emits_bind; [apply WK | intros; exact IH]]).
  assert (QP : forall i0 x, emits noR200 (q_put i0 x)).
  { intros. unfold q_put. apply emits_bind; [apply G|]. intros ss. apply emits_bind; [apply PS|]. intros ?. destruct (s_getters ss); [apply emits_ret|]. apply emits_bind; [apply UP | intros; apply WK]. }
  assert (CN : forall ab rr, emits noR200 (close_nowait cfg i ab rr)).
  { intros. unfold close_nowait, begin_close. apply emits_bind; [apply Hs|]. intros h. apply emits_bind; [apply G|]. intros ss.
    destruct (negb h || s_closed ss || s_closing ss); [apply emits_ret|].
    apply emits_bind; [apply emits_bind; [apply UP | intros; apply emits_emit; exact I]|]. intros ?. apply emits_bind; [apply emits_getst|]. intros st0.
    apply emits_bind; [destruct ab; [apply emits_ret|]; destruct (expired cfg ss (now st0)); [apply emits_ret | apply QP]|]. intros ?.
    apply emits_bind; [apply UP|]. intros ?. apply emits_bind; [destruct (q_sentinel (c_quirks cfg)); [apply QP | apply emits_ret] | intros; apply emits_ret]. }
  apply emits_bind; [apply CN|]. intros ?. apply emits_bind.
  - unfold refuse_and_end. apply emits_bind; [apply IT|]. intros it. destruct it; [|apply emits_ret]. apply emits_bind; [apply CN | intros; apply emits_modst].
  - intros ?. apply emits_bind; [apply emits_emit; exact I|]. intros ?. apply emits_bind.
    + unfold reap_if_closed. apply emits_bind; [apply IT|]. intros it. apply emits_bind; [apply G|]. intros ss. destruct (it && s_closed ss); [apply emits_modst | apply emits_ret].
    + intros ?. unfold finish. apply emits_bind; [apply emits_getst|]. intros s0. apply emits_bind; [apply emits_modst | intros; apply WA].
Qed.

(* C03: the packets a long poll answers with are the head of the session's queue, in order, and exactly these are recorded as
   taken - so, with the conservation invariant, a poll delivers the next messages in the order in which they were accepted *)
Theorem poll_response_is_taken me e i r t s : t_task e = TPoll i (PKGet r) t -> has i s = true ->
  forall l, In (OResp r (R200 l)) (outof (run_task cfg me e s)) ->
  s_taken (cur i (stof (run_task cfg me e s))) = s_taken (cur i s) ++ smids l /\
  mids_of (s_q (cur i s)) = smids l ++ mids_of (s_q (cur i (stof (run_task cfg me e s)))).
Proof.
  intros K H l. unfold run_task. rewrite K.
  destruct (poll_attempt_spec me (t_tout e) i (PKGet r) t s H) as (O1 & _ & SP).
  destruct (poll_attempt cfg me (t_tout e) i (PKGet r) t s) as [[p s1] o1] eqn:E1. unfold outof, valof, stof in O1, SP. cbn [fst snd] in O1, SP. subst o1.
  rewrite (bind_run _ _ _ _ _ _ E1). cbn [app].
  destruct p as [| |l'].
  - (* still blocked: nothing is answered *) cbn. intros [].
  - (* timed out: the answer is 400 *)
    unfold finish_get.
    assert (NO : forall o, In o (outof ((close_nowait cfg i false RTransportError;;; refuse_and_end cfg i;;; emit (OResp r R400);;; reap_if_closed i;;; finish me) s1)) -> forall ll, o <> OResp r (R200 ll)).
    { intros o IN ll. revert IN.
      assert (F : forall o, In o (outof ((close_nowait cfg i false RTransportError;;; refuse_and_end cfg i;;; emit (OResp r R400);;; reap_if_closed i;;; finish me) s1)) -> noR200 o).
      { pose proof (timeout_answer_no_200 me i r s1) as G. rewrite Forall_forall in G. exact G. }
      intros IN E. specialize (F o IN). rewrite E in F. exact F. }
    destruct ((close_nowait cfg i false RTransportError;;; refuse_and_end cfg i;;; emit (OResp r R400);;; reap_if_closed i;;; finish me) s1) as [[u s2] o2] eqn:E2. cbn [fst snd outof] in *.
    intros IN. exfalso. exact (NO _ IN l eq_refl).
  - unfold finish_get. destruct (SP l' eq_refl) as (H1 & T1 & Q1).
    rewrite (bind_run _ _ s1 tt s1 [OResp r (R200 l')] eq_refl).
    pose proof (vframe_reap i i s1) as FR. pose proof (reap_out i s1) as OR.
    destruct (reap_if_closed i s1) as [[u2 s2] o2] eqn:E2. unfold stof, outof in FR, OR. cbn [fst snd] in FR, OR. subst o2. rewrite (bind_run _ _ _ _ _ _ E2).
    pose proof (vframe_finish i me s2) as FF. pose proof (finish_out me s2) as OF.
    destruct (finish me s2) as [[u3 s3] o3]. unfold stof, outof in *. cbn [fst snd app] in *. subst o3.
    intros [X|[]]. injection X as <-.
    assert (V : qv i s3 = qv i s1) by congruence. unfold qv in V. injection V as _ V1 V2. rewrite V2, V1. split; assumption.
Qed.

(* ---- the WebSocket writer ---- *)
Definition wsent (c : cid) (l : list out) : list spkt :=
  flat_map (fun o => match o with OWsSend c' (WPk p) => if N.eqb c c' then [p] else [] | _ => [] end) l.
Lemma wsent_app c a b : wsent c (a ++ b) = wsent c a ++ wsent c b.  Proof. unfold wsent. apply flat_map_app. Qed.

Lemma ws_send_all_spec c l : forall s,
  qv_all (stof (ws_send_all c l s)) s /\
  exists rest, wsent c (outof (ws_send_all c l s)) ++ rest = l /\ (valof (ws_send_all c l s) = true -> rest = []).
Proof.
  induction l as [|p r IH]; intros s; cbn [ws_send_all]; [split; [reflexivity | exists []; split; [reflexivity | auto]]|].
  unfold gconn. rewrite (bind_run _ _ s _ s [] eq_refl).
  match goal with |- context [if ?X then _ else _] => destruct X end.
  - cbn. split; [reflexivity|]. exists (p :: r). split; [reflexivity | discriminate].
  - rewrite (bind_run _ _ s tt s [OWsSend c (WPk p)] eq_refl).
    specialize (IH s). destruct (ws_send_all c r s) as [[b s2] o2]. unfold stof, outof, valof in *. cbn [fst snd app] in *.
    destruct IH as [E (rest & T & V)]. split; [exact E|]. exists rest. split; [|exact V].
    change (wsent c (OWsSend c (WPk p) :: o2)) with ((if N.eqb c c then [p] else []) ++ wsent c o2). rewrite N.eqb_refl. cbn [app]. rewrite T. reflexivity.
Qed.


Definition nosend (o : out) : Prop := match o with OWsSend _ (WPk _) => False | _ => True end.
Lemma nosend_wsent c l : Forall nosend l -> wsent c l = [].
Proof. induction 1 as [|o l H _ IH]; [reflexivity|]. unfold wsent in *. cbn. rewrite IH. destruct o as [| |c' [p|]| | | | | | |]; cbn in *; try reflexivity. contradiction. Qed.
Lemma ns_raw {A} (m : M A) : (forall s, ServerReasons.outof (m s) = []) -> emits nosend m.
Proof. intros H s. rewrite H. constructor. Qed.
Lemma ns_wake t : emits nosend (wake t).  Proof. apply emits_modst. Qed.
Lemma ns_wake_all l : emits nosend (wake_all l).
Proof. induction l as [|t0 r0 IH]; cbn [wake_all]; [apply emits_ret | apply emits_bind; [apply ns_wake | intros; exact IH]]. Qed.
Lemma ns_finish me : emits nosend (finish me).
Proof. unfold finish. apply emits_bind; [apply emits_getst|]. intros s0. apply emits_bind; [apply emits_modst | intros; apply ns_wake_all]. Qed.
Lemma ns_ws_close c : emits nosend (ws_close c).
Proof.
  unfold ws_close. apply emits_bind; [apply ns_raw; reflexivity|]. intros k. destruct (k_sclosed k); [apply emits_ret|].
  apply emits_bind; [apply emits_modst|]. intros ?. apply emits_bind; [apply emits_emit; exact I|]. intros ?. destruct (k_waiter k); [apply ns_wake | apply emits_ret].
Qed.
Lemma vframe_ws_close i c : vframe i (ws_close c).
Proof.
  unfold ws_close. apply vframe_bind; [apply vframe_store; reflexivity|]. intros k. destruct (k_sclosed k); [apply vframe_ret|].
  apply vframe_bind; [apply vframe_store; reflexivity|]. intros ?. apply vframe_bind; [apply vframe_store; reflexivity|]. intros ?.
  destruct (k_waiter k); [apply vframe_wake | apply vframe_ret].
Qed.
Lemma writer_exit_spec me c i s : qv i (stof (writer_exit me c s)) = qv i s /\ wsent c (outof (writer_exit me c s)) = [].
Proof.
  split.
  - apply (vframe_bind i (ws_close c) (fun _ => finish me)); [apply vframe_ws_close | intros; apply vframe_finish].
  - apply nosend_wsent. apply (emits_bind nosend (ws_close c) (fun _ => finish me)); [apply ns_ws_close | intros; apply ns_finish].
Qed.

(* poll_start = a fresh timer, then one attempt *)
Lemma poll_start_spec me i k s : has i s = true ->
  outof (poll_start cfg me i k s) = [] /\
  ((forall l, valof (poll_start cfg me i k s) <> PGot l) ->
     s_taken (cur i (stof (poll_start cfg me i k s))) = s_taken (cur i s) /\ s_q (cur i (stof (poll_start cfg me i k s))) = s_q (cur i s)) /\
  forall l, valof (poll_start cfg me i k s) = PGot l ->
  has i (stof (poll_start cfg me i k s)) = true /\
  s_taken (cur i (stof (poll_start cfg me i k s))) = s_taken (cur i s) ++ smids l /\
  mids_of (s_q (cur i s)) = smids l ++ mids_of (s_q (cur i (stof (poll_start cfg me i k s)))).
Proof.
  intros H. unfold poll_start, new_timer. rewrite (bind_run _ _ s _ (set_tseq (N.succ (tseq s)) s) [] eq_refl).
  set (s0 := set_tseq (N.succ (tseq s)) s).
  assert (H0 : has i s0 = true) by exact H.
  pose proof (poll_attempt_spec me false i k (now s + (c_interval cfg + c_timeout cfg), tseq s)%Z s0 H0) as SP.
  destruct (poll_attempt cfg me false i k _ s0) as [[p s1] o1]. unfold valof, stof, outof in *. cbn [fst snd app] in *. exact SP.
Qed.


Definition batch_of (p : pres) : list spkt := match p with PGot l => l | _ => [] end.

(* a run of the writer: everything it takes from the queue - after the batch it starts with - is the head of the queue, in order,
   recorded as taken; what goes out on the WebSocket, followed by what a failed send dropped, is the start batch followed by
   what was taken *)
Lemma writer_loop_spec fuel : forall me i c rd first s, has i s = true ->
  exists took lost,
    s_taken (cur i (stof (writer_loop cfg fuel me i c rd first s))) = s_taken (cur i s) ++ smids took /\
    mids_of (s_q (cur i s)) = smids took ++ mids_of (s_q (cur i (stof (writer_loop cfg fuel me i c rd first s)))) /\
    wsent c (outof (writer_loop cfg fuel me i c rd first s)) ++ lost = batch_of first ++ took.
Proof.
  assert (EXIT : forall me i c s l0, exists took lost,
            s_taken (cur i (stof (writer_exit me c s))) = s_taken (cur i s) ++ smids took /\
            mids_of (s_q (cur i s)) = smids took ++ mids_of (s_q (cur i (stof (writer_exit me c s)))) /\
            wsent c (outof (writer_exit me c s)) ++ lost = l0 ++ took).
  { intros me i c s l0. destruct (writer_exit_spec me c i s) as [Q W]. exists [], l0. unfold qv in Q. injection Q as _ Q1 Q2.
    rewrite Q2, Q1, W, !app_nil_r. cbn. auto. }
  assert (NIL : forall i s, exists took lost : list spkt,
            s_taken (cur i s) = s_taken (cur i s) ++ smids took /\ mids_of (s_q (cur i s)) = smids took ++ mids_of (s_q (cur i s)) /\ @nil spkt ++ lost = [] ++ took)
    by (intros; exists [], []; cbn; rewrite !app_nil_r; auto).
  induction fuel as [|f IH]; intros me i c rd first s H;
    (destruct first as [| |[|p l]]; cbn [writer_loop batch_of]; [apply NIL | apply EXIT | apply EXIT |]).
  - (* out of fuel after one batch *)
    pose proof (ws_send_all_spec c (p :: l) s) as (E & rest & T & V).
    destruct (ws_send_all c (p :: l) s) as [[ok s1] o1] eqn:E1. unfold stof, outof, valof, qv_all in E, T, V. cbn [fst snd] in E, T, V.
    rewrite (bind_run _ _ _ _ _ _ E1).
    assert (C1 : cur i s1 = cur i s) by (unfold cur; rewrite E; reflexivity).
    destruct ok; cbn [negb].
    + specialize (V eq_refl). subst rest. rewrite app_nil_r in T. exists [], []. unfold emit, stof, outof. cbn [fst snd]. rewrite C1, ?app_nil_r, ?wsent_app, ?app_nil_r, T. cbn. rewrite ?app_nil_r. auto.
    + destruct (writer_exit_spec me c i s1) as [Q W]. destruct (writer_exit me c s1) as [[u s2] o2]. unfold stof, outof in *. cbn [fst snd] in *.
      unfold qv in Q. injection Q as _ Q1 Q2. exists [], rest. rewrite Q2, Q1, C1, ?wsent_app, ?W, ?app_nil_r. cbn. auto.
  - pose proof (ws_send_all_spec c (p :: l) s) as (E & rest & T & V).
    destruct (ws_send_all c (p :: l) s) as [[ok s1] o1] eqn:E1. unfold stof, outof, valof, qv_all in E, T, V. cbn [fst snd] in E, T, V.
    rewrite (bind_run _ _ _ _ _ _ E1).
    assert (C1 : cur i s1 = cur i s) by (unfold cur; rewrite E; reflexivity).
    assert (H1 : has i s1 = true) by (unfold has in *; rewrite E; exact H).
    destruct ok; cbn [negb].
    + specialize (V eq_refl). subst rest. rewrite app_nil_r in T.
      destruct (poll_start_spec me i (PKWriter c rd) s1 H1) as (O2 & SN & SG).
      destruct (poll_start cfg me i (PKWriter c rd) s1) as [[p2 s2] o2] eqn:E2. unfold valof, stof, outof in O2, SN, SG. cbn [fst snd] in O2, SN, SG. subst o2.
      rewrite (bind_run _ _ _ _ _ _ E2).
      destruct p2 as [| |l2].
      * destruct (SN ltac:(discriminate)) as [N1 N2]. cbn [writer_loop]. destruct f; cbn [writer_loop]; exists [], []; unfold ret, stof, outof; cbn [fst snd];
          rewrite N1, N2, C1, ?app_nil_r, ?wsent_app, ?app_nil_r, T; cbn; rewrite ?app_nil_r; auto.
      * destruct (SN ltac:(discriminate)) as [N1 N2].
        assert (X : writer_loop cfg f me i c rd PEmpty s2 = writer_exit me c s2) by (destruct f; reflexivity). rewrite X.
        destruct (writer_exit_spec me c i s2) as [Q W]. destruct (writer_exit me c s2) as [[u s3] o3]. unfold stof, outof in *. cbn [fst snd] in *.
        unfold qv in Q. injection Q as _ Q1 Q2. exists [], []. rewrite Q2, Q1, N1, N2, C1, ?app_nil_r, ?wsent_app, ?app_nil_r, T, ?W. cbn. rewrite ?app_nil_r. auto.
      * destruct (SG l2 eq_refl) as (H2 & T2 & Q2).
        destruct (IH me i c rd (PGot l2) s2 H2) as (took & lost & A1 & A2 & A3).
        destruct (writer_loop cfg f me i c rd (PGot l2) s2) as [[u s3] o3]. unfold stof, outof in *. cbn [fst snd batch_of] in *.
        exists (l2 ++ took), lost. split; [rewrite A1, T2, C1, smids_app, app_assoc; reflexivity|]. split.
        -- rewrite <- C1, Q2, A2, smids_app, app_assoc. reflexivity.
        -- rewrite !wsent_app, T. change (wsent c []) with (@nil spkt). cbn [app]. f_equal. rewrite <- app_assoc, A3. reflexivity.
    + destruct (writer_exit_spec me c i s1) as [Q W]. destruct (writer_exit me c s1) as [[u s2] o2]. unfold stof, outof in *. cbn [fst snd] in *.
      unfold qv in Q. injection Q as _ Q1 Q2. exists [], rest. rewrite Q2, Q1, C1, ?wsent_app, ?W, ?app_nil_r. cbn. auto.
Qed.


(* C03, WebSocket side: in a step of the writer, what is put on the WebSocket - followed by what a failed send dropped - is what
   the step took from the head of the session's queue, in order, and exactly that is recorded as taken *)
Theorem writer_sends_what_it_takes me e i c rd s : has i s = true ->
  (t_task e = TWriterStart i c rd \/ exists t, t_task e = TPoll i (PKWriter c rd) t) ->
  exists took lost,
    s_taken (cur i (stof (run_task cfg me e s))) = s_taken (cur i s) ++ smids took /\
    mids_of (s_q (cur i s)) = smids took ++ mids_of (s_q (cur i (stof (run_task cfg me e s)))) /\
    wsent c (outof (run_task cfg me e s)) ++ lost = took.
Proof.
  intros H K.
  assert (G : forall (m : M pres), 
     (outof (m s) = [] /\
      ((forall l, valof (m s) <> PGot l) -> s_taken (cur i (stof (m s))) = s_taken (cur i s) /\ s_q (cur i (stof (m s))) = s_q (cur i s)) /\
      (forall l, valof (m s) = PGot l -> has i (stof (m s)) = true /\ s_taken (cur i (stof (m s))) = s_taken (cur i s) ++ smids l /\
                                          mids_of (s_q (cur i s)) = smids l ++ mids_of (s_q (cur i (stof (m s)))))) ->
     exists took lost,
       s_taken (cur i (stof (bind m (fun p => bind (gsess i) (fun ss => writer_loop cfg (S (S (length (s_q ss)))) me i c rd p)) s))) = s_taken (cur i s) ++ smids took /\
       mids_of (s_q (cur i s)) = smids took ++ mids_of (s_q (cur i (stof (bind m (fun p => bind (gsess i) (fun ss => writer_loop cfg (S (S (length (s_q ss)))) me i c rd p)) s)))) /\
       wsent c (outof (bind m (fun p => bind (gsess i) (fun ss => writer_loop cfg (S (S (length (s_q ss)))) me i c rd p)) s)) ++ lost = took).
  { intros m (O1 & SN & SG). destruct (m s) as [[p s1] o1] eqn:E1. unfold valof, stof, outof in O1, SN, SG. cbn [fst snd] in O1, SN, SG. subst o1.
    rewrite (bind_run _ _ _ _ _ _ E1). rewrite bind_gsess_eq. cbn [app].
    destruct p as [| |l].
    - destruct (SN ltac:(discriminate)) as [N1 N2]. cbn [writer_loop]. exists [], []. unfold ret, stof, outof. cbn. rewrite N1, N2, !app_nil_r. auto.
    - destruct (SN ltac:(discriminate)) as [N1 N2]. cbn [writer_loop].
      destruct (writer_exit_spec me c i s1) as [Q W]. destruct (writer_exit me c s1) as [[u s2] o2]. unfold stof, outof in *. cbn [fst snd] in *.
      unfold qv in Q. injection Q as _ Q1 Q2. exists [], []. rewrite Q2, Q1, N1, N2, W, !app_nil_r. cbn. auto.
    - destruct (SG l eq_refl) as (H1 & T1 & Q1).
      destruct (writer_loop_spec (S (S (length (s_q (cur i s1))))) me i c rd (PGot l) s1 H1) as (took & lost & A1 & A2 & A3).
      destruct (writer_loop cfg _ me i c rd (PGot l) s1) as [[u s2] o2]. unfold stof, outof in *. cbn [fst snd batch_of] in *.
      exists (l ++ took), lost. split; [rewrite A1, T1, smids_app, app_assoc; reflexivity|]. split; [rewrite Q1, A2, smids_app, app_assoc; reflexivity | exact A3]. }
  unfold run_task. destruct K as [K | [t K]]; rewrite K.
  - apply G. apply poll_start_spec. exact H.
  - apply G. apply poll_attempt_spec. exact H.
Qed.

End WithCfg.
