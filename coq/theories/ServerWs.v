(* C03 / C06: frames are never written to the wrong connection.  Whatever runs for the WebSocket connection c - the handshake, the reader,
   the writer - accepts, writes to and closes only c; whatever runs for no connection (long polls, heartbeats, the monitor, message
   handlers, closers, requests on arrival that are not upgrades, application calls) touches no WebSocket at all. *)
From Coq Require Import ZArith NArith List Bool Lia.
Import ListNotations.
From EIO Require Import Server ServerReasons ServerResp.
Open Scope N_scope.

Definition wonly (c0 : option cid) (o : out) : Prop :=
  match o with OWsAccept c | OWsSend c _ | OWsClose c => c0 = Some c | _ => True end.

Lemma wq_raw {A} (m : M A) : (forall s, outof (m s) = []) -> forall c0, emits (wonly c0) m.
Proof. intros H c0 s. rewrite H. constructor. Qed.
Lemma wq_gsess c0 i : emits (wonly c0) (gsess i).  Proof. apply wq_raw. reflexivity. Qed.
Lemma wq_has_sess c0 i : emits (wonly c0) (has_sess i).  Proof. apply wq_raw. reflexivity. Qed.
Lemma wq_gconn c0 c : emits (wonly c0) (gconn c).  Proof. apply wq_raw. reflexivity. Qed.
Lemma wq_in_table c0 i : emits (wonly c0) (in_table i).  Proof. apply wq_raw. reflexivity. Qed.
Lemma wq_alive c0 t : emits (wonly c0) (alive t).  Proof. apply wq_raw. reflexivity. Qed.
Lemma wq_spawn c0 k : emits (wonly c0) (spawn k).  Proof. apply wq_raw. reflexivity. Qed.
Lemma wq_new_timer c0 dt : emits (wonly c0) (new_timer dt).  Proof. apply wq_raw. reflexivity. Qed.
Lemma wq_new_session c0 : emits (wonly c0) new_session.  Proof. apply wq_raw. reflexivity. Qed.
Lemma wq_psess c0 i x : emits (wonly c0) (psess i x).  Proof. apply emits_modst. Qed.
Lemma wq_pconn c0 c x : emits (wonly c0) (pconn c x).  Proof. apply emits_modst. Qed.
Lemma wq_del_table c0 i : emits (wonly c0) (del_table i).  Proof. apply emits_modst. Qed.
Lemma wq_wake c0 t : emits (wonly c0) (wake t).  Proof. apply emits_modst. Qed.
Lemma wq_block c0 me k : emits (wonly c0) (block me k).  Proof. apply emits_modst. Qed.
#[export] Hint Resolve wq_gsess wq_has_sess wq_gconn wq_in_table wq_alive wq_spawn wq_new_timer wq_new_session wq_psess wq_pconn wq_del_table wq_wake wq_block : em.
Lemma wq_upd c0 i g : emits (wonly c0) (upd i g).  Proof. unfold upd. em_go. Qed.
Lemma wq_del_tables c0 l : emits (wonly c0) (del_tables l).
Proof. induction l as [|i r IH]; cbn [del_tables]; em_go; exact IH. Qed.
Lemma wq_wake_all c0 l : emits (wonly c0) (wake_all l).
Proof. induction l as [|t r IH]; cbn [wake_all]; em_go; exact IH. Qed.
#[export] Hint Resolve wq_upd wq_del_tables wq_wake_all : em.
Lemma wq_finish c0 me : emits (wonly c0) (finish me).  Proof. unfold finish. em_go. Qed.
Lemma wq_q_put c0 i x : emits (wonly c0) (q_put i x).  Proof. unfold q_put. em_go. Qed.
Lemma wq_q_task_done c0 i : emits (wonly c0) (q_task_done i).  Proof. unfold q_task_done. em_go. Qed.
#[export] Hint Resolve wq_finish wq_q_put wq_q_task_done : em.
Lemma wq_drain c0 fuel : forall i acc, emits (wonly c0) (drain fuel i acc).
Proof. induction fuel as [|n IH]; intros i acc; cbn [drain]; em_go; try apply IH. Qed.
#[export] Hint Resolve wq_drain : em.

Section WithCfg.
Variable cfg : config.

Lemma wq_close_nowait c0 i ab r : emits (wonly c0) (close_nowait cfg i ab r).  Proof. unfold close_nowait, begin_close. em_go. Qed.
Hint Resolve wq_close_nowait : em.
Lemma wq_sock_send c0 i p : emits (wonly c0) (sock_send cfg i p).  Proof. unfold sock_send. em_go. Qed.
Lemma wq_get_socket c0 i : emits (wonly c0) (get_socket i).  Proof. unfold get_socket. em_go. Qed.
Hint Resolve wq_sock_send wq_get_socket : em.
Lemma wq_srv_send c0 i m : emits (wonly c0) (srv_send cfg i m).  Proof. unfold srv_send. em_go. Qed.
Lemma wq_close_wait c0 i r : emits (wonly c0) (close_wait cfg i r).  Proof. unfold close_wait. em_go. Qed.
Lemma wq_check_ping_timeout c0 i : emits (wonly c0) (check_ping_timeout cfg i).  Proof. unfold check_ping_timeout. em_go. Qed.
Hint Resolve wq_srv_send wq_close_wait wq_check_ping_timeout : em.
Lemma wq_run_handler c0 me bg i payload a : emits (wonly c0) (run_handler cfg me bg i payload a).  Proof. unfold run_handler. em_go. Qed.
Hint Resolve wq_run_handler : em.
Lemma wq_receive c0 i p : emits (wonly c0) (receive cfg i p).  Proof. unfold receive. em_go. Qed.
Hint Resolve wq_receive : em.
Lemma wq_receive_all c0 i l : emits (wonly c0) (receive_all cfg i l).
Proof. induction l as [|p r IH]; cbn [receive_all]; em_go; try exact IH. Qed.
Lemma wq_refuse_and_end c0 i : emits (wonly c0) (refuse_and_end cfg i).  Proof. unfold refuse_and_end. em_go. Qed.
Lemma wq_reap_if_closed c0 i : emits (wonly c0) (reap_if_closed i).  Proof. unfold reap_if_closed. em_go. Qed.
Hint Resolve wq_receive_all wq_refuse_and_end wq_reap_if_closed : em.
Lemma wq_poll_attempt c0 me tout i k t : emits (wonly c0) (poll_attempt cfg me tout i k t).  Proof. unfold poll_attempt. em_go. Qed.
Hint Resolve wq_poll_attempt : em.
Lemma wq_poll_start c0 me i k : emits (wonly c0) (poll_start cfg me i k).  Proof. unfold poll_start. em_go. Qed.
Hint Resolve wq_poll_start : em.
Lemma wq_ws_send_all c l : emits (wonly (Some c)) (ws_send_all c l).
Proof. induction l as [|p r IH]; cbn [ws_send_all]; em_go; try exact IH. Qed.
Lemma wq_ws_close c : emits (wonly (Some c)) (ws_close c).  Proof. unfold ws_close. em_go. Qed.
Hint Resolve wq_ws_send_all wq_ws_close : em.
Lemma wq_writer_loop fuel : forall me i c rd first, emits (wonly (Some c)) (writer_loop cfg fuel me i c rd first).
Proof. induction fuel as [|n IH]; intros me i c rd first; destruct first as [| |[|p l]]; cbn [writer_loop]; unfold writer_exit; em_go; try apply IH. Qed.
Lemma wq_ws_take c : emits (wonly (Some c)) (ws_take c).  Proof. unfold ws_take. em_go. Qed.
Lemma wq_ws_block me c k : emits (wonly (Some c)) (ws_block me c k).  Proof. unfold ws_block. em_go. Qed.
Lemma wq_ping_fire c0 me i : emits (wonly c0) (ping_fire cfg me i).  Proof. unfold ping_fire. em_go. Qed.
Hint Resolve wq_writer_loop wq_ws_take wq_ws_block wq_ping_fire : em.
Lemma wq_svc_continue c0 fuel : forall me rest interval, emits (wonly c0) (svc_continue cfg fuel me rest interval).
Proof. induction fuel as [|n IH]; intros me rest interval; destruct rest as [|i r]; cbn [svc_continue]; em_go; try apply IH. Qed.
Lemma wq_disc_seq c0 fuel : forall me a l, emits (wonly c0) (disc_seq cfg fuel me a l).
Proof. induction fuel as [|n IH]; intros me a l; destruct l as [|i r]; cbn [disc_seq]; em_go; try apply IH. Qed.
Lemma wq_spawn_closers c0 p l : emits (wonly c0) (spawn_closers p l).
Proof. induction l as [|i r IH]; cbn [spawn_closers]; em_go; try exact IH. Qed.
Lemma wq_lookup_view c0 q : emits (wonly c0) (lookup_view cfg q).
Proof. unfold lookup_view. destruct (decide_early cfg q); [apply emits_ret|]. destruct (r_sid q) as [[i|]|]; try apply emits_ret. em_go. Qed.
Hint Resolve wq_svc_continue wq_disc_seq wq_spawn_closers wq_lookup_view : em.
(* application calls answer no request *)
Lemma wq_run_api c0 me a x : emits (wonly c0) (run_api cfg me a x).
Proof. destruct x as [ref m|[ref|]|ref|ref|ref u]; cbn [run_api]; em_go. Qed.
End WithCfg.

Section Answering.
Variable cfg : config.
#[local] Hint Resolve wq_close_nowait wq_sock_send wq_get_socket wq_srv_send wq_close_wait wq_check_ping_timeout wq_run_handler wq_receive wq_receive_all
  wq_refuse_and_end wq_reap_if_closed wq_poll_attempt wq_poll_start wq_ws_send_all wq_ws_close wq_writer_loop wq_ws_take wq_ws_block wq_ping_fire
  wq_svc_continue wq_disc_seq wq_spawn_closers wq_lookup_view : em.

(* what runs for request r answers r only *)
Lemma wo_answer c0 me r x : emits (wonly c0) (answer me r x).  Proof. unfold answer. em_go. Qed.
Lemma wo_finish_get c0 me i r p : emits (wonly c0) (finish_get cfg me i r p).  Proof. destruct p; cbn [finish_get]; em_go. Qed.
Lemma wo_ws_request_done c0 me i r x : emits (wonly c0) (ws_request_done me i r x).  Proof. unfold ws_request_done. em_go. Qed.
Hint Resolve wo_answer wo_finish_get wo_ws_request_done : em.
Lemma wo_ws_epilogue_end c0 me i r : emits (wonly c0) (ws_epilogue_end cfg me i r).  Proof. unfold ws_epilogue_end. em_go. Qed.
Hint Resolve wo_ws_epilogue_end : em.
Lemma wo_ws_epilogue me i r c w fresh : emits (wonly (Some c)) (ws_epilogue cfg me i r c w fresh).  Proof. unfold ws_epilogue. em_go. Qed.
Hint Resolve wo_ws_epilogue : em.
Lemma wo_ws_read_loop fuel : forall me i r c w fresh, emits (wonly (Some c)) (ws_read_loop cfg fuel me i r c w fresh).
Proof. induction fuel as [|n IH]; intros me i r c w fresh; cbn [ws_read_loop]; em_go; try apply IH. Qed.
Hint Resolve wo_ws_read_loop : em.
Lemma wo_ws_steady me i r c fresh : emits (wonly (Some c)) (ws_steady cfg me i r c fresh).  Proof. unfold ws_steady. em_go. Qed.
Lemma wo_upgrade_fail c0 me i r x : emits (wonly c0) (upgrade_fail me i r x).  Proof. unfold upgrade_fail. em_go. Qed.
Hint Resolve wo_ws_steady wo_upgrade_fail : em.
Lemma wo_ws_upgr me i r c : emits (wonly (Some c)) (ws_upgr cfg me i r c).  Proof. unfold ws_upgr. em_go. Qed.
Hint Resolve wo_ws_upgr : em.
Lemma wo_ws_probe me i r c : emits (wonly (Some c)) (ws_probe cfg me i r c).  Proof. unfold ws_probe. em_go. Qed.
Hint Resolve wo_ws_probe : em.
Lemma wo_ws_begin me i r c : emits (wonly (Some c)) (ws_begin cfg me i r c).  Proof. unfold ws_begin. em_go. Qed.
Hint Resolve wo_ws_begin : em.
Lemma wo_handle_connect me r q : emits (wonly (r_conn q)) (handle_connect cfg me r q).  Proof. unfold handle_connect. em_go. Qed.
Hint Resolve wo_handle_connect : em.

(* a request on arrival touches only the WebSocket that came with it (an upgrade / a WebSocket open), and none otherwise *)
Theorem request_touches_only_its_websocket me r q s : Forall (wonly (r_conn q)) (outof (handle_request cfg me r q s)).
Proof. revert s. change (emits (wonly (r_conn q)) (handle_request cfg me r q)). unfold handle_request. em_go. Qed.

Definition conn_of (k : task) : option cid :=
  match k with
  | TPoll _ (PKWriter c _) _ | TWriterStart _ c _ | TWsProbe _ _ c | TWsUpgr _ _ c | TWsRead _ _ c _ _ _ | TWsJoinW _ _ c _ _ => Some c
  | _ => None
  end.
(* the handshake, the reader and the writer of connection c accept, write to and close only c; every other task touches no WebSocket *)
Theorem task_touches_only_its_websocket me e s : Forall (wonly (conn_of (t_task e))) (outof (run_task cfg me e s)).
Proof.
  revert s. change (emits (wonly (conn_of (t_task e))) (run_task cfg me e)). unfold run_task.
  destruct (t_task e) as [i [r|c rd] t | i c rd | r i c | r i c | r i c w t fresh | r i c w fresh | i k | i | i t | | t | rest iv t | i payload a | i parent | a pend]; cbn [conn_of]; em_go.
Qed.
Theorem api_touches_no_websocket me a x s : Forall (wonly None) (outof (run_api cfg me a x s)).
Proof. revert s. change (emits (wonly None) (run_api cfg me a x)). destruct x as [ref m|[ref|]|ref|ref|ref u]; cbn [run_api]; em_go. Qed.
End Answering.
