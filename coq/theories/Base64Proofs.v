From Coq Require Import ZArith NArith List Lia Bool.
Import ListNotations.
From EIO Require Import Sid SidProofs Base64.
Open Scope N_scope.
Ltac Zify.zify_post_hook ::= Z.to_euclidean_division_equations.

(* ---- alphabet facts by a 64-case sweep ---- *)
Lemma val_char_all : forallb (fun s => match b64val (b64char s) with Some v => v =? s | None => false end) sextets = true.
Proof. vm_compute. reflexivity. Qed.
Lemma val_char s : s < 64 -> b64val (b64char s) = Some s.
Proof.
  intros H. pose proof (proj1 (forallb_forall _ _) val_char_all s (sextet_in s H)) as E. cbv beta in E.
  destruct (b64val (b64char s)) as [v|]; [|discriminate]. apply N.eqb_eq in E. now subst.
Qed.
Lemma char_props_all : forallb (fun s => negb (b64char s =? PAD) && (b64char s <? 128) && negb (b64char s =? 30)) sextets = true.
Proof. vm_compute. reflexivity. Qed.
Lemma char_props s : s < 64 -> (b64char s =? PAD) = false /\ (b64char s <? 128) = true /\ b64char s <> 30.
Proof.
  intros H. pose proof (proj1 (forallb_forall _ _) char_props_all s (sextet_in s H)) as E. cbv beta in E.
  apply andb_true_iff in E. destruct E as [E E3]. apply andb_true_iff in E. destruct E as [E1 E2].
  apply negb_true_iff in E1. apply negb_true_iff in E3. apply N.eqb_neq in E3. auto.
Qed.

(* one alphabet character consumed, by position *)
Lemma a2b_char s r quad left pads acc : s < 64 ->
  a2b (b64char s :: r) quad left pads acc =
    if quad =? 0 then a2b r 1 s 0 acc
    else if quad =? 1 then a2b r 2 (s mod 16) 0 ((left * 4 + s / 16) :: acc)
    else if quad =? 2 then a2b r 3 (s mod 4) 0 ((left * 16 + s / 4) :: acc)
    else a2b r 0 0 0 ((left * 64 + s) :: acc).
Proof.
  intros H. cbn [a2b]. destruct (char_props s H) as (-> & _). rewrite (val_char s H). reflexivity.
Qed.

Lemma a2b_quad s1 s2 s3 s4 r acc : s1 < 64 -> s2 < 64 -> s3 < 64 -> s4 < 64 ->
  a2b (b64char s1 :: b64char s2 :: b64char s3 :: b64char s4 :: r) 0 0 0 acc =
  a2b r 0 0 0 (((s3 mod 4) * 64 + s4) :: ((s2 mod 16) * 16 + s3 / 4) :: (s1 * 4 + s2 / 16) :: acc).
Proof.
  intros H1 H2 H3 H4.
  rewrite (a2b_char s1) by assumption. cbn [N.eqb].
  rewrite (a2b_char s2) by assumption. change (1 =? 0) with false. change (1 =? 1) with true. cbv iota.
  rewrite (a2b_char s3) by assumption. change (2 =? 0) with false. change (2 =? 1) with false. change (2 =? 2) with true. cbv iota.
  rewrite (a2b_char s4) by assumption. change (3 =? 0) with false. change (3 =? 1) with false. change (3 =? 2) with false. cbv iota.
  reflexivity.
Qed.

Lemma a2b_pad r quad left pads acc :
  a2b (PAD :: r) quad left pads acc =
    if 2 <=? quad then (if 4 <=? quad + (pads + 1) then Some (rev acc) else a2b r quad left (pads + 1) acc)
    else a2b r quad left pads acc.
Proof. reflexivity. Qed.

(* three bytes <-> four sextets *)
Lemma three_bytes a b c : a < 256 -> b < 256 -> c < 256 ->
  let s1 := a / 4 in let s2 := (a mod 4) * 16 + b / 16 in let s3 := (b mod 16) * 4 + c / 64 in let s4 := c mod 64 in
  s1 < 64 /\ s2 < 64 /\ s3 < 64 /\ s4 < 64 /\
  s1 * 4 + s2 / 16 = a /\ (s2 mod 16) * 16 + s3 / 4 = b /\ (s3 mod 4) * 64 + s4 = c.
Proof. intros. cbv zeta. repeat split; lia. Qed.

Lemma a2b_enc3 a b c r acc : a < 256 -> b < 256 -> c < 256 ->
  a2b (enc3 a b c ++ r) 0 0 0 acc = a2b r 0 0 0 (c :: b :: a :: acc).
Proof.
  intros Ha Hb Hc. destruct (three_bytes a b c Ha Hb Hc) as (H1 & H2 & H3 & H4 & E1 & E2 & E3).
  unfold enc3. cbn [map app]. rewrite a2b_quad by assumption. rewrite E1, E2, E3. reflexivity.
Qed.

Definition bytes_ok (l : list N) := Forall (fun x => x < 256) l.

Lemma roundtrip_acc n : forall bs acc, (length bs <= n)%nat -> bytes_ok bs ->
  a2b (b64encode bs) 0 0 0 acc = Some (rev acc ++ bs).
Proof.
  induction n as [|n IH]; intros bs acc L B.
  - destruct bs; [|cbn in L; lia]. cbn. rewrite app_nil_r. reflexivity.
  - destruct bs as [|a [|b [|c r]]].
    + cbn. rewrite app_nil_r. reflexivity.
    + (* one byte: two sextets and two pads *)
      inversion B as [|? ? Ha _]; subst.
      cbn [b64encode].
      assert (S1 : a / 4 < 64) by lia. assert (S2 : (a mod 4) * 16 < 64) by lia.
      rewrite (a2b_char (a / 4)) by assumption. cbn [N.eqb].
      rewrite (a2b_char ((a mod 4) * 16)) by assumption. change (1 =? 0) with false. change (1 =? 1) with true. cbv iota.
      rewrite a2b_pad. change (2 <=? 2) with true. cbv iota. change (4 <=? 2 + (0 + 1)) with false. cbv iota.
      rewrite a2b_pad. change (2 <=? 2) with true. cbv iota. change (4 <=? 2 + (0 + 1 + 1)) with true. cbv iota.
      cbn [rev]. f_equal. f_equal. f_equal. lia.
    + (* two bytes: three sextets and one pad *)
      inversion B as [|? ? Ha B']; subst. inversion B' as [|? ? Hb _]; subst.
      cbn [b64encode].
      assert (S1 : a / 4 < 64) by lia. assert (S2 : (a mod 4) * 16 + b / 16 < 64) by lia. assert (S3 : (b mod 16) * 4 < 64) by lia.
      rewrite (a2b_char (a / 4)) by assumption. cbn [N.eqb].
      rewrite (a2b_char ((a mod 4) * 16 + b / 16)) by assumption. change (1 =? 0) with false. change (1 =? 1) with true. cbv iota.
      rewrite (a2b_char ((b mod 16) * 4)) by assumption. change (2 =? 0) with false. change (2 =? 1) with false. change (2 =? 2) with true. cbv iota.
      rewrite a2b_pad. change (2 <=? 3) with true. cbv iota. change (4 <=? 3 + (0 + 1)) with true. cbv iota.
      cbn [rev]. rewrite <- !app_assoc. cbn [app]. f_equal. f_equal. f_equal; [lia|]. f_equal. lia.
    + inversion B as [|? ? Ha B1]; subst. inversion B1 as [|? ? Hb B2]; subst. inversion B2 as [|? ? Hc B3]; subst.
      cbn [b64encode]. rewrite a2b_enc3 by assumption.
      rewrite IH; [| cbn in L; lia | exact B3].
      cbn [rev]. rewrite <- !app_assoc. reflexivity.
Qed.

Lemma enc_chars bs : bytes_ok bs -> Forall (fun c => (c <? 128) = true /\ c <> 30) (b64encode bs).
Proof.
  assert (G : forall n bs, (length bs <= n)%nat -> bytes_ok bs -> Forall (fun c => (c <? 128) = true /\ c <> 30) (b64encode bs)).
  { induction n as [|n IH]; intros l L B.
    - destruct l; [constructor | cbn in L; lia].
    - assert (P : (PAD <? 128) = true /\ PAD <> 30) by (split; [reflexivity | discriminate]).
      destruct l as [|a [|b [|c r]]].
      + constructor.
      + inversion B as [|? ? Ha _]; subst. cbn [b64encode].
        assert (S1 : a / 4 < 64) by lia. assert (S2 : (a mod 4) * 16 < 64) by lia.
        repeat constructor; try (apply char_props; assumption); try discriminate.
      + inversion B as [|? ? Ha B']; subst. inversion B' as [|? ? Hb _]; subst. cbn [b64encode].
        assert (S1 : a / 4 < 64) by lia. assert (S2 : (a mod 4) * 16 + b / 16 < 64) by lia. assert (S3 : (b mod 16) * 4 < 64) by lia.
        repeat constructor; try (apply char_props; assumption); try discriminate.
      + inversion B as [|? ? Ha B1]; subst. inversion B1 as [|? ? Hb B2]; subst. inversion B2 as [|? ? Hc B3]; subst.
        cbn [b64encode]. destruct (three_bytes a b c Ha Hb Hc) as (H1 & H2 & H3 & H4 & _).
        apply Forall_app. split; [| apply IH; [cbn in L; lia | exact B3]].
        unfold enc3. cbn [map]. repeat constructor; apply char_props; assumption. }
  intros B. apply (G (length bs)); auto.
Qed.

Theorem b64_roundtrip bs : bytes_ok bs -> b64decode (b64encode bs) = Some bs.
Proof.
  intros B. unfold b64decode.
  assert (A : forallb (fun c => c <? 128) (b64encode bs) = true).
  { apply forallb_forall. intros x Hx. exact (proj1 (proj1 (Forall_forall _ _) (enc_chars bs B) x Hx)). }
  rewrite A. rewrite (roundtrip_acc (length bs)); auto.
Qed.

(* base64 output never contains the record separator U+001E (used by the payload round trip) *)
Lemma b64_no_sep bs : bytes_ok bs -> ~ In 30 (b64encode bs).
Proof. intros B H. exact (proj2 (proj1 (Forall_forall _ _) (enc_chars bs B) 30 H) eq_refl). Qed.
