(* C07: the clock honours every timer.  When the clock has been advanced (and the model did not run out of fuel), nothing is left
   runnable, the clock stands exactly at the target, and every timer still pending - the time-out of a long poll, the next PING,
   the next visit of the monitor, a WebSocket read time-out - is due strictly later than now: none was skipped. *)
From Coq Require Import ZArith NArith List Bool Lia.
Import ListNotations.
From EIO Require Import Server ServerInv ServerUpg ServerHb.
Open Scope N_scope.

Lemma outof_bind {A B} (m : M A) (f : A -> M B) s : outof (bind m f s) = outof (m s) ++ outof (f (valof (m s)) (stof (m s))).
Proof. unfold bind, outof, stof, valof. destruct (m s) as [[a s1] o1]. cbn. destruct (f a s1) as [[b s2] o2]. reflexivity. Qed.

(* an unfired timer of the task table *)
Definition live_timer (l : list (tid * tentry)) (tm : timer) : Prop :=
  exists t e, In (t, e) l /\ timer_of (t_task e) = Some tm /\ t_tout e = false.
Definition tle (a b : timer) : Prop := (fst a <= fst b)%Z.

Lemma timer_lt_false a b : timer_lt a b = false -> tle b a.
Proof.
  unfold timer_lt, tle. intros H. apply orb_false_iff in H. destruct H as [H1 H2]. apply Z.ltb_ge in H1. exact H1.
Qed.
Lemma timer_lt_true a b : timer_lt a b = true -> tle a b.
Proof.
  unfold timer_lt, tle. intros H. apply orb_true_iff in H. destruct H as [H|H]; [apply Z.ltb_lt in H; lia|].
  apply andb_true_iff in H. destruct H as [H _]. apply Z.eqb_eq in H. lia.
Qed.

Lemma next_timer_min l : forall best,
  match next_timer l best with
  | Some (_, tm) => (forall tm', live_timer l tm' -> tle tm tm') /\ (forall t b, best = Some (t, b) -> tle tm b)
  | None => best = None /\ forall tm', ~ live_timer l tm'
  end.
Proof.
  induction l as [|[t e] r IH]; intros best; cbn [next_timer].
  - destruct best as [[t b]|]; [split; [intros tm' (t' & e' & [] & _) | intros t0 b0 X; injection X as <- <-; unfold tle; lia] | split; [reflexivity | intros tm' (t' & e' & [] & _)]].
  - assert (SKIP : forall best', (match timer_of (t_task e) with Some _ => t_tout e = true | None => True end) ->
       match next_timer r best' with
       | Some (_, tm) => (forall tm', live_timer r tm' -> tle tm tm') /\ (forall t b, best' = Some (t, b) -> tle tm b)
       | None => best' = None /\ forall tm', ~ live_timer r tm'
       end ->
       match next_timer r best' with
       | Some (_, tm) => (forall tm', live_timer ((t, e) :: r) tm' -> tle tm tm') /\ (forall t b, best' = Some (t, b) -> tle tm b)
       | None => best' = None /\ forall tm', ~ live_timer ((t, e) :: r) tm'
       end).
    { intros best' NL H. destruct (next_timer r best') as [[t1 tm1]|].
      - destruct H as [H1 H2]. split; [|exact H2]. intros tm' (t' & e' & [X|X] & TM & TO); [injection X as <- <-; rewrite TM in NL; congruence | apply H1; exists t', e'; auto].
      - destruct H as [H1 H2]. split; [exact H1|]. intros tm' (t' & e' & [X|X] & TM & TO); [injection X as <- <-; rewrite TM in NL; congruence | apply (H2 tm'); exists t', e'; auto]. }
    destruct (timer_of (t_task e)) as [tm|] eqn:TM; [|apply SKIP; [exact I | apply IH]].
    destruct (t_tout e) eqn:TO; [apply SKIP; [reflexivity | apply IH]|].
    assert (TAKE : forall ob : unit, (forall t b, best = Some (t, b) -> tle tm b) ->
       match next_timer r (Some (t, tm)) with
       | Some (_, tm0) => (forall tm', live_timer ((t, e) :: r) tm' -> tle tm0 tm') /\ (forall t b, best = Some (t, b) -> tle tm0 b)
       | None => best = None /\ forall tm', ~ live_timer ((t, e) :: r) tm'
       end).
    { intros _ HB. specialize (IH (Some (t, tm))). destruct (next_timer r (Some (t, tm))) as [[t1 tm1]|]; [|destruct IH as [X _]; discriminate].
      destruct IH as [H1 H2]. pose proof (H2 t tm eq_refl) as LE. split.
      - intros tm' (t' & e' & [X|X] & TM' & TO'); [injection X as <- <-; rewrite TM in TM'; injection TM' as <-; exact LE | apply H1; exists t', e'; auto].
      - intros t0 b0 X. specialize (HB t0 b0 X). unfold tle in *. lia. }
    destruct best as [[tb b]|].
    + destruct (timer_lt tm b) eqn:LT.
      * apply (TAKE tt). intros t0 b0 X. injection X as <- <-. apply timer_lt_true. exact LT.
      * specialize (IH (Some (tb, b))). destruct (next_timer r (Some (tb, b))) as [[t1 tm1]|]; [|destruct IH as [X _]; discriminate].
        destruct IH as [H1 H2]. split; [|exact H2]. pose proof (H2 tb b eq_refl) as LE. apply timer_lt_false in LT.
        intros tm' (t' & e' & [X|X] & TM' & TO'); [injection X as <- <-; rewrite TM in TM'; injection TM' as <-; unfold tle in *; lia | apply H1; exists t', e'; auto].
    + apply (TAKE tt). intros t0 b0 X. discriminate.
Qed.

Lemma alookup_In {A} k (l : list (N * A)) v : alookup k l = Some v -> In (k, v) l.
Proof. induction l as [|[k' v'] r IH]; cbn; [discriminate|]. destruct (N.eqb_spec k k') as [->|]; [intros X; injection X as ->; left; reflexivity | intros X; right; apply IH, X]. Qed.

Lemma notin_app {A} (x : A) a b : ~ In x (a ++ b) -> ~ In x a /\ ~ In x b.
Proof. intros H. split; intros X; apply H; apply in_or_app; auto. Qed.

Section WithCfg.
Variable cfg : config.

(* without running out of fuel, settle leaves nothing runnable *)
Lemma settle_quiesces fuel : forall choices s, ~ In OOutOfFuel (outof (settle cfg fuel choices s)) -> runq (stof (settle cfg fuel choices s)) = [].
Proof.
  induction fuel as [|f IH]; intros choices s NF; cbn [settle] in *; rewrite stof_getst_bind; rewrite outof_bind in NF; cbn [outof getst snd app] in NF;
    change (valof (getst s)) with s in NF; change (stof (getst s)) with s in NF.
  - destruct (runq s) eqn:R; [exact R | exfalso; apply NF; left; reflexivity].
  - destruct (match choices with [] => (O, []) | c :: r => (c, r) end) as [k cs].
    destruct (nth_remove k (runq s)) as [[t rq]|] eqn:NR.
    + rewrite stof_bind. rewrite outof_bind in NF. cbn [outof modst snd app] in NF.
      destruct (alookup t (tasks s)) as [e|]; [|apply IH; exact NF].
      rewrite stof_bind. apply IH. rewrite outof_bind in NF. intros X. apply NF. apply in_or_app. right. exact X.
    + destruct (runq s) as [|x r] eqn:R; [exact R|]. destruct k; cbn in NR; [discriminate|]. destruct (nth_remove k r) as [[y r']|]; discriminate.
Qed.

Definition honoured (target : Z) (s : st) : Prop :=
  runq s = [] /\ forall t e tm, alookup t (tasks s) = Some e -> timer_of (t_task e) = Some tm -> t_tout e = false -> (target < fst tm)%Z.

Theorem advance_honours fuel target : forall s, ~ In OOutOfFuel (outof (advance cfg fuel target s)) ->
  now (stof (advance cfg fuel target s)) = target /\ honoured target (stof (advance cfg fuel target s)).
Proof.
  induction fuel as [|f IH]; intros s; cbn [advance]; intros NF; [exfalso; apply NF; left; reflexivity|].
  rewrite stof_bind. rewrite outof_bind in NF.
  apply notin_app in NF. destruct NF as [NF1 NF2].
  pose proof (settle_quiesces SETTLE_FUEL [] s NF1) as RQ. clear NF1. revert NF2 RQ. generalize (stof (settle cfg SETTLE_FUEL [] s)). generalize (valof (settle cfg SETTLE_FUEL [] s)). intros u s1 NF2 RQ.
  rewrite stof_getst_bind.
  pose proof (next_timer_min (tasks s1) None) as MIN.
  destruct (next_timer (tasks s1) None) as [[t tm]|] eqn:NT.
  - destruct (Z.leb (fst tm) target) eqn:LT.
    + rewrite stof_bind, stof_bind. apply IH.
      intros X. apply NF2. rewrite outof_bind. apply in_or_app. right. change (valof (getst s1)) with s1. change (stof (getst s1)) with s1. cbv beta.
      rewrite NT, LT. rewrite outof_bind. apply in_or_app. right. rewrite outof_bind. apply in_or_app. right. exact X.
    + apply Z.leb_gt in LT. destruct MIN as [M1 _]. split; [reflexivity|]. split; [exact RQ|].
      intros t' e' tm' L' TM' TO'. cbn in L'. assert (tle tm tm') by (apply M1; exists t', e'; split; [apply alookup_In; exact L' | auto]). unfold tle in *. lia.
  - destruct MIN as [_ M2]. split; [reflexivity|]. split; [exact RQ|].
    intros t' e' tm' L' TM' TO'. exfalso. apply (M2 tm'). exists t', e'. split; [apply alookup_In; exact L' | auto].
Qed.
End WithCfg.

(* ---- every pending long poll is due within ping_interval + ping_timeout ---- *)
Section Bound.
Variable cfg : config.
Definition PT : Z := (c_interval cfg + c_timeout cfg)%Z.
Definition okk (n0 : Z) (k : task) : Prop := match k with TPoll _ _ tm => (fst tm <= n0 + PT)%Z | _ => True end.
Record FT (n0 : Z) (s : st) : Prop := {
  ft_ok : forall t e, In (t, e) (tasks s) -> okk n0 (t_task e);
  ft_now : now s = n0 }.
Definition htT {A} (me : tid) (K : Z) (m : M A) (Q : A -> Prop) : Prop :=
  forall s, FT K s -> FT K (stof (m s)) /\ Q (valof (m s)).

Lemma htT_bind {A B} me K (m : M A) (f : A -> M B) Q R : htT me K m Q -> (forall a, Q a -> htT me K (f a) R) -> htT me K (bind m f) R.
Proof.
  intros Hm Hf s F. destruct (Hm s F) as [F1 Q1]. unfold bind, stof, valof in *. destruct (m s) as [[a s1] o1]. cbn [fst snd] in *.
  destruct (Hf a Q1 s1 F1) as [F2 R2]. unfold stof, valof in *. destruct (f a s1) as [[b s2] o2]. cbn [fst snd] in *. auto.
Qed.
Lemma htT_weaken {A} me K (m : M A) (Q R : A -> Prop) : htT me K m Q -> (forall a, Q a -> R a) -> htT me K m R.
Proof. intros H I s F. destruct (H s F). auto. Qed.
Lemma htT_ret {A} me K (a : A) (Q : A -> Prop) : Q a -> htT me K (ret a) Q.
Proof. intros H s F. cbn. auto. Qed.
Lemma htT_same {A} me K (m : M A) : (forall s, tasks (stof (m s)) = tasks s /\ now (stof (m s)) = now s) -> htT me K m TT.
Proof.
  intros H s [F1 F2]. destruct (H s) as (E1 & E2). split; [|exact I]. split; [rewrite E1; exact F1 | rewrite E2; exact F2].
Qed.
Lemma htT_getst me K : htT me K getst TT.  Proof. apply htT_same. intros s. cbn. auto. Qed.
Lemma htT_emit me K o : htT me K (emit o) TT.  Proof. apply htT_same. intros s. cbn. auto. Qed.
Lemma htT_gsess me K i : htT me K (gsess i) TT.  Proof. apply htT_same. intros s. cbn. auto. Qed.
Lemma htT_psess me K i x : htT me K (psess i x) TT.
Proof. apply htT_same. intros s. unfold psess, modst, stof. cbn. destruct (alookup i (store s)); auto. Qed.
Lemma htT_upd me K i f : htT me K (upd i f) TT.
Proof. unfold upd. eapply htT_bind; [apply htT_gsess|]. intros ss _. apply htT_psess. Qed.
Lemma htT_wake me K t : htT me K (wake t) TT.
Proof. apply htT_same. intros s. unfold wake, modst, stof. cbn. destruct (alookup t (tasks s)); [destruct (nmem t (runq s))|]; cbn; auto. Qed.
Lemma htT_wake_all me K l : htT me K (wake_all l) TT.
Proof. induction l as [|t r IH]; cbn [wake_all]; [apply htT_ret; exact I|]. eapply htT_bind; [apply htT_wake | intros ? _; exact IH]. Qed.
Lemma htT_new_timer me K dt : htT me K (new_timer dt) (fun t => fst t = (K + dt)%Z).
Proof. intros s [F1 F2]. split; [split; [exact F1 | exact F2]|]. unfold new_timer, valof. cbn. rewrite F2. reflexivity. Qed.
Lemma htT_alive me K t : htT me K (alive t) TT.  Proof. apply htT_same. intros s. cbn. auto. Qed.
Lemma htT_has_sess me K i : htT me K (has_sess i) TT.  Proof. apply htT_same. intros s. cbn. auto. Qed.
Lemma htT_gconn me K c : htT me K (gconn c) TT.  Proof. apply htT_same. intros s. cbn. auto. Qed.
Lemma htT_pconn me K c x : htT me K (pconn c x) TT.  Proof. apply htT_same. intros s. cbn. auto. Qed.
Lemma htT_in_table me K i : htT me K (in_table i) TT.  Proof. apply htT_same. intros s. cbn. auto. Qed.
Lemma htT_del_table me K i : htT me K (del_table i) TT.  Proof. apply htT_same. intros s. cbn. auto. Qed.
Lemma htT_del_tables me K l : htT me K (del_tables l) TT.
Proof. induction l as [|i r IH]; cbn [del_tables]; [apply htT_ret; exact I|]. eapply htT_bind; [apply htT_del_table | intros ? _; exact IH]. Qed.
Lemma htT_modst_same me K f : (forall s, tasks (f s) = tasks s /\ now (f s) = now s) -> htT me K (modst f) TT.
Proof. intros H. apply htT_same. intros s. cbn. apply H. Qed.
Lemma In_aset {A} k (v : A) l x : In x (aset k v l) -> x = (k, v) \/ In x l.
Proof.
  induction l as [|[k' v'] r IH]; cbn; [intros [X|[]]; auto|]. destruct (N.eqb k k'); cbn; [intros [X|X]; auto|]. intros [X|X]; [auto|]. destruct (IH X); auto.
Qed.
Lemma In_adel {A} k (l : list (N * A)) x : In x (adel k l) -> In x l.
Proof. induction l as [|[k' v'] r IH]; cbn; [auto|]. destruct (N.eqb k k'); cbn; [auto|]. intros [X|X]; auto. Qed.
Lemma htT_block me K t k : okk K k -> htT me K (block t k) TT.
Proof.
  intros OK s [F1 F2]. split; [|exact I]. split; [|exact F2]. intros u e IN. unfold block, modst, stof in IN. cbn in IN.
  destruct (In_aset _ _ _ _ IN) as [X|X]; [injection X as -> ->; exact OK | exact (F1 u e X)].
Qed.
Lemma htT_finish me K t : htT me K (finish t) TT.
Proof.
  unfold finish. eapply htT_bind; [apply htT_getst|]. intros s0 _. eapply htT_bind with (Q := TT); [|intros ? _; apply htT_wake_all].
  intros s [F1 F2]. split; [|exact I]. split; [|exact F2]. intros u e IN. unfold modst, stof in IN. cbn in IN. exact (F1 u e (In_adel _ _ _ IN)).
Qed.
Lemma htT_spawn me K k : okk K k -> htT me K (spawn k) TT.
Proof.
  intros OK s [F1 F2]. split; [|exact I]. split; [|exact F2]. intros u e IN. unfold spawn, stof in IN. cbn in IN.
  destruct (In_aset _ _ _ _ IN) as [X|X]; [injection X as -> ->; exact OK | exact (F1 u e X)].
Qed.

Create HintDb ft discriminated.
Hint Resolve htT_getst htT_emit htT_wake htT_wake_all htT_alive htT_has_sess htT_gconn htT_pconn htT_in_table
  htT_del_table htT_del_tables htT_finish htT_gsess htT_psess htT_upd : ft.
Ltac ft_step :=
  match goal with
  | |- htT _ _ (ret _) _ => apply htT_ret; exact I
  | |- htT _ _ (bind (new_timer _) _) _ => eapply htT_bind; [apply htT_new_timer | intros ? ?]
  | |- htT _ _ (bind _ _) _ => eapply htT_bind with (Q := TT); [|intros ? _]
  | |- htT _ _ (block _ _) _ => apply htT_block; cbn; try exact I; try assumption
  | |- htT _ _ (spawn _) _ => apply htT_spawn; cbn; exact I
  | |- htT _ _ (modst _) _ => apply htT_modst_same; intros ?; cbn; auto
  | |- htT _ _ (if ?b then _ else _) _ => destruct b
  | |- htT _ _ (match ?x with _ => _ end) _ => destruct x
  | _ => solve [eauto with ft]
  end.
Ltac ft_go := repeat ft_step.

Lemma ft_q_put me K i x : htT me K (q_put i x) TT.  Proof. unfold q_put. ft_go. Qed.
Lemma ft_q_task_done me K i : htT me K (q_task_done i) TT.  Proof. unfold q_task_done. ft_go. Qed.
Hint Resolve ft_q_put ft_q_task_done : ft.
Lemma ft_drain me K fuel : forall i acc, htT me K (drain fuel i acc) TT.
Proof. induction fuel as [|n IH]; intros i acc; cbn [drain]; ft_go; try apply IH. Qed.
Hint Resolve ft_drain : ft.


Lemma ft_close_nowait me K i ab r : htT me K (close_nowait cfg i ab r) TT.
Proof. unfold close_nowait, begin_close. ft_go. Qed.
Hint Resolve ft_close_nowait : ft.
Lemma ft_sock_send me K i p : htT me K (sock_send cfg i p) TT.  Proof. unfold sock_send. ft_go. Qed.
Lemma ft_get_socket me K i : htT me K (get_socket i) TT.  Proof. unfold get_socket. ft_go. Qed.
Hint Resolve ft_sock_send ft_get_socket : ft.
Lemma ft_srv_send me K i m : htT me K (srv_send cfg i m) TT.  Proof. unfold srv_send. ft_go. Qed.
Lemma ft_close_wait me K i r : htT me K (close_wait cfg i r) TT.  Proof. unfold close_wait. ft_go. Qed.
Hint Resolve ft_srv_send ft_close_wait : ft.
Lemma ft_run_handler me K bg i payload a : htT me K (run_handler cfg me bg i payload a) TT.
Proof. unfold run_handler. ft_go. Qed.
Lemma ft_run_handler_fg me K m' i payload a : htT me K (run_handler cfg m' false i payload a) TT.
Proof. unfold run_handler. ft_go. Qed.
Hint Resolve ft_run_handler ft_run_handler_fg : ft.
Lemma ft_receive me K i p : htT me K (receive cfg i p) TT.
Proof. unfold receive. ft_go. Qed.
Lemma ft_receive_all me K i l : htT me K (receive_all cfg i l) TT.
Proof. induction l as [|p r IH]; cbn [receive_all]; ft_go; try apply ft_receive; try exact IH. Qed.
Lemma ft_refuse_and_end me K i : htT me K (refuse_and_end cfg i) TT.  Proof. unfold refuse_and_end. ft_go. Qed.
Lemma ft_reap_if_closed me K i : htT me K (reap_if_closed i) TT.  Proof. unfold reap_if_closed. ft_go. Qed.
Hint Resolve ft_receive ft_receive_all ft_refuse_and_end ft_reap_if_closed : ft.

Lemma ft_poll_attempt me K tout i k t : (fst t <= K + PT)%Z -> htT me K (poll_attempt cfg me tout i k t) TT.
Proof.
  intros HT. unfold poll_attempt.
  change (modst (fun s => set_tasks (aset me {| t_task := TPoll i k t; t_tout := false |} (tasks s)) s)) with (block me (TPoll i k t)).
  eapply htT_bind with (Q := TT); [ft_go|]. intros ss _.
  destruct (if tout && q_timeout_wins (c_quirks cfg) then [] else s_q ss) as [|x r]; ft_go.
Qed.
Lemma ft_poll_start me K i k : htT me K (poll_start cfg me i k) TT.
Proof. unfold poll_start. eapply htT_bind; [apply htT_new_timer|]. intros t Ht. apply ft_poll_attempt. unfold PT. cbv beta in Ht. lia. Qed.
Hint Resolve ft_poll_start : ft.
Lemma ft_ws_send_all me K c l : htT me K (ws_send_all c l) TT.
Proof. induction l as [|p r IH]; cbn [ws_send_all]; ft_go; try exact IH. Qed.
Lemma ft_ws_close me K c : htT me K (ws_close c) TT.  Proof. unfold ws_close. ft_go. Qed.
Hint Resolve ft_ws_send_all ft_ws_close : ft.
Lemma ft_writer_exit me K c : htT me K (writer_exit me c) TT.  Proof. unfold writer_exit. ft_go. Qed.
Hint Resolve ft_writer_exit : ft.
Lemma ft_writer_loop me K fuel : forall i c rd first, htT me K (writer_loop cfg fuel me i c rd first) TT.
Proof. induction fuel as [|n IH]; intros i c rd first; destruct first as [| |[|p l]]; cbn [writer_loop]; ft_go; try apply IH. Qed.
Lemma ft_finish_get me K i r p : htT me K (finish_get cfg me i r p) TT.  Proof. unfold finish_get. ft_go. Qed.
Lemma ft_ping_fire me K i : htT me K (ping_fire cfg me i) TT.  Proof. unfold ping_fire. ft_go. Qed.
Lemma ft_check_ping_timeout me K i : htT me K (check_ping_timeout cfg i) TT.  Proof. unfold check_ping_timeout. ft_go. Qed.
Hint Resolve ft_writer_loop ft_finish_get ft_ping_fire ft_check_ping_timeout : ft.
Lemma ft_svc_continue me K fuel : forall rest interval, htT me K (svc_continue cfg fuel me rest interval) TT.
Proof. induction fuel as [|n IH]; intros rest interval; destruct rest as [|i r]; cbn [svc_continue]; ft_go; try apply IH. Qed.
Lemma ft_ws_take me K c : htT me K (ws_take c) TT.  Proof. unfold ws_take. ft_go. Qed.
Lemma ft_ws_block me K c k : okk K k -> htT me K (ws_block me c k) TT.  Proof. intros OK. unfold ws_block. ft_go. Qed.
Hint Extern 1 (htT _ _ (ws_block _ _ _) _) => apply ft_ws_block; cbn; exact I : ft.
Hint Resolve ft_svc_continue ft_ws_take : ft.
Lemma ft_ws_request_done me K i r x : htT me K (ws_request_done me i r x) TT.  Proof. unfold ws_request_done. ft_go. Qed.
Hint Resolve ft_ws_request_done : ft.
Lemma ft_ws_epilogue_end me K i r : htT me K (ws_epilogue_end cfg me i r) TT.  Proof. unfold ws_epilogue_end. ft_go. Qed.
Hint Resolve ft_ws_epilogue_end : ft.
Lemma ft_ws_epilogue me K i r c w fresh : htT me K (ws_epilogue cfg me i r c w fresh) TT.  Proof. unfold ws_epilogue. ft_go. Qed.
Hint Resolve ft_ws_epilogue : ft.
Lemma ft_ws_read_loop me K fuel : forall i r c w fresh, htT me K (ws_read_loop cfg fuel me i r c w fresh) TT.
Proof. induction fuel as [|n IH]; intros i r c w fresh; cbn [ws_read_loop]; ft_go; try apply IH. Qed.
Hint Resolve ft_ws_read_loop : ft.
Lemma ft_ws_steady me K i r c fresh : htT me K (ws_steady cfg me i r c fresh) TT.  Proof. unfold ws_steady. ft_go. Qed.
Lemma ft_upgrade_fail me K i r x : htT me K (upgrade_fail me i r x) TT.  Proof. unfold upgrade_fail. ft_go. Qed.
Hint Resolve ft_ws_steady ft_upgrade_fail : ft.
Lemma ft_ws_upgr me K i r c : htT me K (ws_upgr cfg me i r c) TT.  Proof. unfold ws_upgr. ft_go. Qed.
Hint Resolve ft_ws_upgr : ft.
Lemma ft_ws_probe me K i r c : htT me K (ws_probe cfg me i r c) TT.  Proof. unfold ws_probe. ft_go. Qed.
Hint Resolve ft_ws_probe : ft.
Lemma ft_disc_seq me K fuel : forall a l, htT me K (disc_seq cfg fuel me a l) TT.
Proof. induction fuel as [|n IH]; intros a l; destruct l as [|i r]; cbn [disc_seq]; ft_go; try apply IH. Qed.
Lemma ft_spawn_closers me K p l : htT me K (spawn_closers p l) TT.
Proof. induction l as [|i r IH]; cbn [spawn_closers]; ft_go; try exact IH. Qed.
Lemma ft_answer me K r x : htT me K (answer me r x) TT.  Proof. unfold answer. ft_go. Qed.
Lemma ft_lookup_view me K q : htT me K (lookup_view cfg q) TT.
Proof. unfold lookup_view. destruct (decide_early cfg q); [apply htT_ret; exact I|]. destruct (r_sid q) as [[i|]|]; try (apply htT_ret; exact I). ft_go. Qed.
Hint Resolve ft_disc_seq ft_spawn_closers ft_answer ft_lookup_view : ft.
Lemma ft_run_api me K a x : htT me K (run_api cfg me a x) TT.
Proof. destruct x as [ref m|[ref|]|ref|ref|ref u]; cbn [run_api]; ft_go. Qed.
Lemma ft_ws_begin me K j r c : htT me K (ws_begin cfg me j r c) TT.  Proof. unfold ws_begin. ft_go. Qed.
Hint Resolve ft_ws_begin : ft.
Lemma ft_new_session me K : htT me K new_session TT.  Proof. apply htT_same. intros s. cbn. auto. Qed.
Hint Resolve ft_new_session : ft.
Lemma ft_handle_connect me K r q : htT me K (handle_connect cfg me r q) TT.  Proof. unfold handle_connect. ft_go. Qed.
Lemma ft_handle_request me K r q : htT me K (handle_request cfg me r q) TT.
Proof. unfold handle_request. eapply htT_bind with (Q := TT); [apply ft_lookup_view|]. intros v _. destruct (decide cfg q v); ft_go; apply ft_handle_connect. Qed.
Lemma ft_run_task me K e : okk K (t_task e) -> htT me K (run_task cfg me e) TT.
Proof.
  intros OK. unfold run_task.
  destruct (t_task e) as [i [r|c rd] t | i c rd | r i c | r i c | r i c w t fresh | r i c w fresh | i k | i | i t | | t | rest iv t | i payload a | i parent | a pend sids]; cbn in OK;
    try (eapply htT_bind with (Q := TT); [apply ft_poll_attempt; exact OK | intros ? _]); ft_go.
Qed.

Definition PB (s : st) : Prop := forall t e, In (t, e) (tasks s) -> okk (now s) (t_task e).
Lemma PB_FT s : PB s -> FT (now s) s.  Proof. intros H. split; [exact H | reflexivity]. Qed.
Definition pb {A} (m : M A) : Prop := forall s, PB s -> PB (stof (m s)).
Lemma pb_of_ht {A} me (m : M A) s : htT me (now s) m TT -> PB s -> PB (stof (m s)).
Proof. intros H B. destruct (H s (PB_FT s B)) as [[F1 F2] _]. intros t e IN. rewrite F2. exact (F1 t e IN). Qed.
Lemma pb_bind {A B} (m : M A) (f : A -> M B) : pb m -> (forall a, pb (f a)) -> pb (bind m f).
Proof. intros Hm Hf s G. rewrite stof_bind. apply Hf, Hm, G. Qed.
Lemma pb_ret {A} (a : A) : pb (ret a).  Proof. intros s G. exact G. Qed.
Lemma pb_same {A} (m : M A) : (forall s, tasks (stof (m s)) = tasks s /\ now (stof (m s)) = now s) -> pb m.
Proof. intros H s B t e. destruct (H s) as [E1 E2]. rewrite E1, E2. apply B. Qed.
Lemma pb_getst_dep {B} (f : st -> M B) : (forall s, PB s -> PB (stof (f s s))) -> pb (bind getst f).
Proof. intros H s G. rewrite stof_getst_bind. apply H, G. Qed.
Lemma okk_mono n n' k : (n <= n')%Z -> okk n k -> okk n' k.
Proof. intros L. destruct k; cbn; auto. lia. Qed.
Lemma pb_wake t : pb (wake t).
Proof. apply pb_same. intros s. unfold wake, modst, stof. cbn. destruct (alookup t (tasks s)); [destruct (nmem t (runq s))|]; cbn; auto. Qed.
Lemma pb_fire t : pb (fire t).
Proof.
  unfold fire. apply pb_bind; [|intros ?; apply pb_wake]. intros s B u e IN. unfold modst, stof in *. cbn [fst snd] in *.
  destruct (alookup t (tasks s)) as [e0|] eqn:L; [|exact (B u e IN)]. cbn in IN. destruct (In_aset _ _ _ _ IN) as [X|X]; [|exact (B u e X)].
  injection X as -> ->. cbn. apply (B t e0). apply alookup_In. exact L.
Qed.
Lemma pb_fire_all l : pb (fire_all l).
Proof. induction l as [|[t n] r IH]; cbn [fire_all]; [apply pb_ret | apply pb_bind; [apply pb_fire | intros ?; exact IH]]. Qed.
Lemma settle_pb fuel : forall choices, pb (settle cfg fuel choices).
Proof.
  induction fuel as [|f IH]; intros choices s G; cbn [settle]; rewrite stof_getst_bind.
  - destruct (runq s); exact G.
  - destruct (match choices with [] => (O, []) | c :: r => (c, r) end) as [k cs].
    destruct (nth_remove k (runq s)) as [[t rq]|]; [|exact G].
    rewrite stof_bind. change (stof (modst (set_runq rq) s)) with (set_runq rq s).
    assert (G1 : PB (set_runq rq s)) by exact G.
    destruct (alookup t (tasks s)) as [e|] eqn:L; [|apply IH; exact G1].
    rewrite stof_bind. apply IH. apply (pb_of_ht t); [|exact G1]. apply ft_run_task. apply (G t e). apply alookup_In. exact L.
Qed.
Lemma set_now_pb s n : PB s -> (now s <= n)%Z -> PB (set_now n s).
Proof. intros B L t e IN. cbn. eapply okk_mono; [exact L | exact (B t e IN)]. Qed.
Lemma advance_pb fuel target : forall s, PB s -> (now s <= target)%Z -> PB (stof (advance cfg fuel target s)).
Proof.
  induction fuel as [|f IH]; intros s G LE; cbn [advance]; [exact G|].
  rewrite stof_bind. pose proof (settle_pb SETTLE_FUEL [] s G) as G1. pose proof (settle_now cfg SETTLE_FUEL [] s) as N1.
  revert G1 N1. generalize (stof (settle cfg SETTLE_FUEL [] s)). intros s1 G1 N1. rewrite stof_getst_bind.
  destruct (next_timer (tasks s1) None) as [[t tm]|]; [|apply set_now_pb; [exact G1 | lia]].
  destruct (Z.leb (fst tm) target) eqn:LT; [|apply set_now_pb; [exact G1 | lia]]. apply Z.leb_le in LT.
  rewrite stof_bind. change (stof (modst (fun s0 => set_now (Z.max (now s0) (fst tm)) s0) s1)) with (set_now (Z.max (now s1) (fst tm)) s1).
  assert (G2 : PB (set_now (Z.max (now s1) (fst tm)) s1)) by (apply set_now_pb; [exact G1 | lia]).
  assert (N2 : (now (set_now (Z.max (now s1) (fst tm)) s1) <= target)%Z) by (cbn; lia).
  revert G2 N2. generalize (set_now (Z.max (now s1) (fst tm)) s1). intros s2 G2 N2.
  rewrite stof_bind. apply IH.
  - destruct (q_batch_timers (c_quirks cfg)); [|apply pb_fire; exact G2].
    rewrite stof_bind. apply pb_fire_all. destruct (due_at (fst tm) (tasks s1) []) as [|x [|y l]]; exact G2.
  - destruct (q_batch_timers (c_quirks cfg)); [|rewrite (proj2 (proj2 (entk_fire t s2 0))); exact N2].
    rewrite stof_bind, fire_all_now. destruct (due_at (fst tm) (tasks s1) []) as [|x [|y l]]; exact N2.
Qed.

Theorem apply_op_pb o ch s : forward o -> PB s -> PB (stof (apply_op cfg o ch s)).
Proof.
  intros FW. revert s. destruct o as [r q|c f|c|a x|c|r|dt]; cbn [apply_op].
  - apply pb_bind; [destruct (r_conn q); [apply pb_same; intros s; cbn; auto | apply pb_ret]|]. intros _. apply pb_getst_dep. intros s G.
    rewrite stof_bind. change (stof (modst _ s)) with (add_task s). rewrite stof_bind. apply settle_pb.
    assert (G1 : PB (add_task s)).
    { intros t e IN. unfold add_task in IN. cbn in IN. destruct (In_aset _ _ _ _ IN) as [X|X]; [injection X as -> ->; exact I | exact (G t e X)]. }
    apply (pb_of_ht (ntid s)); [apply ft_handle_request | exact G1].
  - apply pb_bind; [apply pb_same; intros s; cbn; auto|]. intros k. apply pb_bind; [apply pb_same; intros s; cbn; auto|]. intros _. apply pb_bind; [destruct (k_waiter k); [apply pb_wake | apply pb_ret]|]. intros _. apply settle_pb.
  - apply pb_bind; [apply pb_same; intros s; cbn; auto|]. intros k. apply pb_bind; [apply pb_same; intros s; cbn; auto|]. intros _. apply pb_bind; [destruct (k_waiter k); [apply pb_wake | apply pb_ret]|]. intros _. apply settle_pb.
  - apply pb_getst_dep. intros s G.
    rewrite stof_bind. change (stof (modst _ s)) with (add_task s). rewrite stof_bind. apply settle_pb.
    assert (G1 : PB (add_task s)).
    { intros t e IN. unfold add_task in IN. cbn in IN. destruct (In_aset _ _ _ _ IN) as [X|X]; [injection X as -> ->; exact I | exact (G t e X)]. }
    apply (pb_of_ht (ntid s)); [apply ft_run_api | exact G1].
  - apply pb_bind; [apply pb_same; intros s; cbn; auto|]. intros k. destruct (k_waiter k) as [w|]; [|apply pb_ret]. apply pb_getst_dep. intros s G.
    destruct (alookup w (tasks s)) as [e|]; [|exact G].
    destruct (t_task e); try exact G; rewrite stof_bind, stof_bind; apply settle_pb; apply (pb_of_ht w); try apply ft_upgrade_fail; exact G.
  - destruct (q_timeout_wins (c_quirks cfg)); [|apply pb_ret]. apply pb_getst_dep. intros s G.
    destruct (find _ (tasks s)) as [[t e]|]; [|exact G]. rewrite stof_bind. apply settle_pb. apply pb_fire. exact G.
  - apply pb_getst_dep. intros s G. apply advance_pb; [exact G | cbn in FW; lia].
Qed.
End Bound.

Theorem reachable_pb cfg ops : forward_history ops -> PB cfg (fst (run_sched cfg ops (init cfg) [])).
Proof.
  assert (H : forall ops s acc, forward_history ops -> PB cfg s -> PB cfg (fst (run_sched cfg ops s acc))).
  { induction ops0 as [|[o ch] r IH]; intros s acc FW G; cbn [run_sched]; [exact G|].
    pose proof (apply_op_pb cfg o ch s (FW o ch (or_introl eq_refl)) G) as P. unfold stof in P. destruct (apply_op cfg o ch s) as [[u s1] o1]. cbn in P. apply IH; [|exact P].
    intros o' ch' X. apply (FW o' ch'). right. exact X. }
  intros FW. apply (H ops (init cfg) [] FW). intros t e [].
Qed.

(* every pending long poll (a GET of a polling client, or the wait of a WebSocket writer) is due within ping_interval + ping_timeout *)
Theorem poll_deadline_bounded cfg ops : forward_history ops ->
  let s := fst (run_sched cfg ops (init cfg) []) in
  forall t e i k tm, alookup t (tasks s) = Some e -> t_task e = TPoll i k tm -> (fst tm <= now s + (c_interval cfg + c_timeout cfg))%Z.
Proof.
  intros FW s t e i k tm L TK. pose proof (reachable_pb cfg ops FW t e (alookup_In _ _ _ L)) as X. fold s in X. rewrite TK in X. exact X.
Qed.

(* ... and the clock never skips a deadline: once it has been advanced by dt, every timer still pending is due strictly later *)
Lemma outof_getst_bind {B} (f : st -> M B) s : outof (bind getst f s) = outof (f s s).
Proof. unfold bind, outof, getst. destruct (f s s) as [[b s2] o2]. reflexivity. Qed.
Lemma apply_op_advance cfg dt ch s : apply_op cfg (OpAdvance dt) ch s = (s0 <- getst ;; advance cfg 2000 (now s0 + dt)) s.
Proof. reflexivity. Qed.
Theorem clock_honours_timers cfg dt ch s : (0 <= dt)%Z ->
  let r := apply_op cfg (OpAdvance dt) ch s in
  ~ In OOutOfFuel (outof r) ->
  now (stof r) = (now s + dt)%Z /\ runq (stof r) = [] /\
  forall t e tm, alookup t (tasks (stof r)) = Some e -> timer_of (t_task e) = Some tm -> t_tout e = false -> (now s + dt < fst tm)%Z.
Proof.
  intros D r. unfold r. rewrite apply_op_advance, stof_getst_bind, outof_getst_bind. intros NF.
  destruct (advance_honours cfg _ (now s + dt) s NF) as [N [RQ H]]. auto.
Qed.

(* so no long poll outlives ping_interval + ping_timeout: after the clock has moved that far, a poll that is still waiting (and has not
   just timed out) is a different wait, started later *)
Corollary no_poll_outlives_timeout cfg ops dt ch : forward_history ops -> (c_interval cfg + c_timeout cfg <= dt)%Z -> (0 <= dt)%Z ->
  let s := fst (run_sched cfg ops (init cfg) []) in
  let r := apply_op cfg (OpAdvance dt) ch s in
  ~ In OOutOfFuel (outof r) ->
  forall t e i k tm, alookup t (tasks s) = Some e -> t_task e = TPoll i k tm ->
  forall e', alookup t (tasks (stof r)) = Some e' -> t_tout e' = false -> t_task e' <> t_task e.
Proof.
  intros FW LE D s r NF t e i k tm L TK e' L' TO EQ.
  pose proof (poll_deadline_bounded cfg ops FW t e i k tm L TK) as B. fold s in B.
  destruct (clock_honours_timers cfg dt ch s D NF) as (_ & _ & H). specialize (H t e' tm L'). rewrite EQ, TK in H. specialize (H eq_refl TO). lia.
Qed.

(* not vacuous: a long poll that is waiting, and the same poll answered (with an error, the session closed) once the clock has
   moved ping_interval + ping_timeout further *)
Definition ex_poll : req :=
  {| r_method := MGet; r_transport := TrPolling; r_sid := Some (SKnown 0); r_eio4 := true; r_jsonp := JAbsent; r_upgrade_ws := false; r_conn_upgrade := false;
     r_origin_refused := false; r_conn := None; r_body := BPackets []; r_connect := CoAccept |}.
Definition ex_hist : list (op * list nat) := [(OpReq 0 ex_open, []); (OpReq 1 ex_poll, [])].
Example ex_poll_waiting : let s := fst (run_sched ex_cfg ex_hist (init ex_cfg) []) in
  exists t e tm, alookup t (tasks s) = Some e /\ t_task e = TPoll 0 (PKGet 1) tm /\ fst tm = (now s + (c_interval ex_cfg + c_timeout ex_cfg))%Z.
Proof. exists 2. vm_compute. do 2 eexists. repeat split. Qed.
Example ex_poll_timed_out :
  let r := run_sched ex_cfg (ex_hist ++ [(OpAdvance (c_interval ex_cfg), []); (OpReq 2 ex_poll, []); (OpAdvance (c_interval ex_cfg + c_timeout ex_cfg), [])]) (init ex_cfg) [] in
  In (OResp 2 R400) (snd r) /\ s_closed (cur 0 (fst r)) = true /\ ~ In OOutOfFuel (snd r).
Proof. vm_compute. split; [|split; [reflexivity|]]; intuition discriminate. Qed.
