(* Who ended the connection (C08): the reason carried by a disconnect event is determined by what emitted it.
     - 'server disconnect' is emitted only while a payload / frame containing a CLOSE packet is being handled;
     - 'transport error' only by the epilogue of a read loop;
     - 'client disconnect' only by disconnect() called by the application, a message handler or the connect handler.
   A logic of output shapes: `emits P m` = every output of m, from any state, satisfies P. *)
From Coq Require Import ZArith NArith List Bool.
Import ListNotations.
From EIO Require Import Client.
Open Scope N_scope.

Definition outof {A} (r : A * st * list out) : list out := snd r.
Definition stof {A} (r : A * st * list out) : st := snd (fst r).
Definition valof {A} (r : A * st * list out) : A := fst (fst r).
Definition emits {A} (P : out -> Prop) (m : M A) : Prop := forall s, Forall P (outof (m s)).
Lemma outof_bind {A B} (m : M A) (f : A -> M B) s : outof (bind m f s) = outof (m s) ++ outof (f (valof (m s)) (stof (m s))).
Proof. unfold bind, outof, valof, stof. destruct (m s) as [[a s1] o1]. cbn. destruct (f a s1) as [[b s2] o2]. reflexivity. Qed.

Lemma emits_ret {A} P (a : A) : emits P (ret a).  Proof. intros s. constructor. Qed.
Lemma emits_getst P : emits P getst.  Proof. intros s. constructor. Qed.
Lemma emits_modst P f : emits P (modst f).  Proof. intros s. constructor. Qed.
Lemma emits_emit (P : out -> Prop) o : P o -> emits P (emit o).  Proof. intros H s. constructor; [exact H | constructor]. Qed.
Lemma emits_bind {A B} P (m : M A) (f : A -> M B) : emits P m -> (forall a, emits P (f a)) -> emits P (bind m f).
Proof.
  intros Hm Hf s. specialize (Hm s). unfold bind, outof in *. destruct (m s) as [[a s1] o1]. cbn in *.
  specialize (Hf a s1). unfold outof in Hf. destruct (f a s1) as [[b s2] o2]. cbn in *. apply Forall_app. split; assumption.
Qed.
Lemma emits_weaken {A} (P Q : out -> Prop) (m : M A) : (forall o, P o -> Q o) -> emits P m -> emits Q m.
Proof. intros H Hm s. eapply Forall_impl; [exact H | apply Hm]. Qed.

Definition nodisc (o : out) : Prop := match o with OEv (EvDisconnect _) => False | _ => True end.
Definition only (r : reason) (o : out) : Prop := match o with OEv (EvDisconnect r') => r' = r | _ => True end.
Lemma nodisc_only r o : nodisc o -> only r o.  Proof. destruct o as [| | | |[| |]| |]; cbn; tauto. Qed.

Ltac em := repeat first [ apply emits_ret | apply emits_getst | apply emits_modst | apply emits_emit; exact I
                        | apply emits_bind; [|intros ?] ].

Lemma nd_wake t : emits nodisc (wake t).  Proof. apply emits_modst. Qed.
Lemma nd_wake_all l : emits nodisc (wake_all l).
Proof. induction l as [|t r IH]; cbn [wake_all]; [apply emits_ret | apply emits_bind; [apply nd_wake | intros ?; exact IH]]. Qed.
Lemma nd_spawn k : emits nodisc (spawn k).  Proof. intros s. constructor. Qed.
Lemma nd_block me k : emits nodisc (block me k).  Proof. apply emits_modst. Qed.
Lemma nd_new_timer dt : emits nodisc (new_timer dt).  Proof. intros s. constructor. Qed.
Lemma nd_alive t : emits nodisc (alive t).  Proof. intros s. constructor. Qed.
Lemma nd_finish me : emits nodisc (finish me).
Proof. unfold finish. apply emits_bind; [apply emits_getst|]. intros s0. apply emits_bind; [apply emits_modst | intros ?; apply nd_wake_all]. Qed.
Lemma nd_q_put x : emits nodisc (q_put x).
Proof.
  unfold q_put. apply emits_bind; [apply emits_getst|]. intros s0. apply emits_bind; [apply emits_modst|]. intros ?.
  destruct (getter s0); [apply emits_bind; [apply emits_modst | intros ?; apply nd_wake] | apply emits_ret].
Qed.
Lemma nd_send_packet p : emits nodisc (send_packet p).
Proof. unfold send_packet. apply emits_bind; [apply emits_getst|]. intros s0. destruct (state s0); try apply emits_ret. apply nd_q_put. Qed.
Lemma nd_gws c : emits nodisc (gws c).  Proof. intros s. constructor. Qed.
Lemma nd_pws c x : emits nodisc (pws c x).  Proof. apply emits_modst. Qed.
Lemma nd_ws_close c : emits nodisc (ws_close c).
Proof.
  unfold ws_close. apply emits_bind; [apply nd_gws|]. intros w. destruct (w_cli_closed w); [apply emits_ret|].
  apply emits_bind; [apply nd_pws|]. intros ?. apply emits_bind; [apply emits_emit; exact I|]. intros ?. destruct (w_waiter w); [apply nd_wake | apply emits_ret].
Qed.
Lemma nd_ws_can_send c : emits nodisc (ws_can_send c).
Proof. unfold ws_can_send. apply emits_bind; [apply nd_gws | intros ?; apply emits_ret]. Qed.
Lemma nd_http_request t k b : emits nodisc (http_request t k b).  Proof. intros s. constructor; [exact I | constructor]. Qed.
Lemma nd_http_take h : emits nodisc (http_take h).  Proof. intros s. constructor. Qed.
Lemma nd_ws_take c : emits nodisc (ws_take c).
Proof.
  unfold ws_take. apply emits_bind; [apply nd_gws|]. intros w.
  destruct (w_cli_closed w || (w_srv_closed w && match w_inbox w with [] => true | _ => false end)); [apply emits_ret|].
  destruct (w_inbox w); [apply emits_ret|]. apply emits_bind; [apply nd_pws | intros ?; apply emits_ret].
Qed.
Lemma nd_ws_wait me c k : emits nodisc (ws_wait me c k).
Proof. unfold ws_wait. apply emits_bind; [apply nd_gws|]. intros w. apply emits_bind; [apply nd_pws | intros ?; apply nd_block]. Qed.
Lemma nd_ws_send_all c l : emits nodisc (ws_send_all c l).
Proof.
  induction l as [|p r IH]; cbn [ws_send_all]; [apply emits_ret|]. apply emits_bind; [apply nd_ws_can_send|]. intros ok.
  destruct ok; [|apply emits_ret]. apply emits_bind; [apply emits_emit; exact I | intros ?; exact IH].
Qed.
Lemma nd_reset : emits nodisc reset.  Proof. apply emits_modst. Qed.

(* disconnect(reason): at most events with that reason *)
Lemma only_disconnect_core me abort r : emits (only r) (disconnect_core me abort r).
Proof.
  unfold disconnect_core. apply emits_bind; [apply emits_getst|]. intros s0. destruct (state s0).
  - apply emits_bind; [apply (emits_weaken nodisc), nd_reset; apply nodisc_only | intros ?; apply emits_ret].
  - apply emits_bind; [apply (emits_weaken nodisc), nd_send_packet; apply nodisc_only|]. intros ?.
    apply emits_bind; [apply (emits_weaken nodisc), nd_q_put; apply nodisc_only|]. intros ?.
    apply emits_bind; [apply emits_modst|]. intros ?.
    apply emits_bind; [apply emits_emit; reflexivity|]. intros ?.
    apply emits_bind; [destruct (transport s0) as [[]|]; try apply emits_ret; destruct (ws s0); [apply (emits_weaken nodisc), nd_ws_close; apply nodisc_only | apply emits_ret]|]. intros ?.
    apply emits_bind; [apply emits_getst|]. intros s1.
    assert (FIN : emits (only r) (bind (modst (set_state Disconnected)) (fun _ => bind reset (fun _ => ret (@None tid))))).
    { apply emits_bind; [apply emits_modst|]. intros ?. apply emits_bind; [apply (emits_weaken nodisc), nd_reset; apply nodisc_only | intros ?; apply emits_ret]. }
    destruct abort; [exact FIN|]. destruct (read_task s1); [|exact FIN].
    apply emits_bind; [apply (emits_weaken nodisc), nd_alive; apply nodisc_only|]. intros al. destruct (al && negb (N.eqb t me)); [apply emits_ret | exact FIN].
  - apply emits_ret.
Qed.

(* handling one packet: a disconnect event only for a CLOSE packet, and then 'server disconnect' *)
Lemma receive_packet_reason me p : emits (match p with KClose => only RServer | _ => nodisc end) (receive_packet me p).
Proof.
  destruct p; cbn [receive_packet]; try apply emits_ret.
  - apply emits_bind; [apply nd_spawn | intros ?; apply emits_ret].
  - apply nd_send_packet.
  - apply emits_bind; [apply only_disconnect_core | intros ?; apply emits_ret].
Qed.
Definition has_close (l : list spk) : bool := existsb (fun p => match p with KClose => true | _ => false end) l.
Lemma receive_all_reason me l : emits (if has_close l then only RServer else nodisc) (receive_all me l).
Proof.
  induction l as [|p r IH]; cbn [receive_all]; [apply emits_ret|]. apply emits_bind; [apply emits_getst|]. intros s0.
  destruct (state s0); try apply emits_ret. cbn [has_close existsb].
  apply emits_bind.
  - pose proof (receive_packet_reason me p) as H. destruct p; cbn [orb]; try (destruct (existsb _ r); [apply (emits_weaken nodisc); [apply nodisc_only | exact H] | exact H]). exact H.
  - intros ?. fold (has_close r). destruct p; cbn [orb]; try exact IH. destruct (has_close r); [exact IH | apply (emits_weaken nodisc); [apply nodisc_only | exact IH]].
Qed.

Definition among (f : reason -> bool) (o : out) : Prop := match o with OEv (EvDisconnect r) => f r = true | _ => True end.
Lemma nodisc_among f o : nodisc o -> among f o.  Proof. destruct o as [| | | |[| |]| |]; cbn; tauto. Qed.
Lemma only_among f r o : f r = true -> only r o -> among f o.  Proof. intros H. destruct o as [| | | |[| |]| |]; cbn; try tauto. intros ->. exact H. Qed.
Lemma among_nd {A} f (m : M A) : emits nodisc m -> emits (among f) m.
Proof. apply emits_weaken. apply nodisc_among. Qed.
Lemma among_only {A} f r (m : M A) : f r = true -> emits (only r) m -> emits (among f) m.
Proof. intros H. apply emits_weaken. intros o. apply only_among. exact H. Qed.

Definition is_te (r : reason) : bool := match r with RTransportError => true | _ => false end.
Definition is_te_or_server (r : reason) : bool := match r with RClient => false | _ => true end.
Definition is_client (r : reason) : bool := match r with RClient => true | _ => false end.
Definition is_client_or_server (r : reason) : bool := match r with RTransportError => false | _ => true end.
Definition none_of (r : reason) : bool := false.

Section WithCfg.
Variable cfg : ccfg.

Lemma te_read_final me ep : emits (only RTransportError) (read_final me ep).
Proof.
  unfold read_final. apply emits_bind; [|intros ?; apply (emits_weaken nodisc), nd_finish; apply nodisc_only].
  apply emits_bind; [apply emits_getst|]. intros s1. destruct (state s1); try apply emits_ret. destruct (N.eqb (qepoch s1) ep); [|apply emits_ret].
  apply emits_bind; [apply emits_modst|]. intros ?. apply emits_bind; [apply emits_emit; reflexivity|]. intros ?.
  apply (emits_weaken nodisc), nd_reset. apply nodisc_only.
Qed.
Lemma te_read_epilogue me ep : emits (only RTransportError) (read_epilogue me ep).
Proof.
  unfold read_epilogue. apply emits_bind; [apply emits_getst|]. intros s0. destruct (write_task s0); [|apply te_read_final].
  apply emits_bind; [apply (emits_weaken nodisc), nd_alive; apply nodisc_only|]. intros al.
  destruct al; [apply (emits_weaken nodisc), nd_block; apply nodisc_only | apply te_read_final].
Qed.
Lemma te_read_poll_next me ep : emits (only RTransportError) (read_poll_next me ep).
Proof.
  unfold read_poll_next. apply emits_bind; [apply emits_getst|]. intros s0. destruct (state s0); try apply te_read_epilogue.
  destruct (write_task s0); [|apply te_read_epilogue]. apply (emits_weaken nodisc); [apply nodisc_only|].
  apply emits_bind; [apply nd_http_request|]. intros h. apply emits_bind; [apply nd_new_timer | intros tm; apply nd_block].
Qed.
(* a long-poll reply: 'server disconnect' only if the payload holds a CLOSE packet; otherwise at most a transport error *)
Lemma read_poll_reply_reason me ep (tout : bool) h s :
  Forall (among (fun r => match r with
                          | RTransportError => true
                          | RServer => match (if tout then Some HFail else match alookup h (https s) with Some x => h_reply x | None => @None hreply end) with
                                       | Some (HOk l) => has_close l | _ => false end
                          | RClient => false end))
         (outof (read_poll_reply me ep tout h s)).
Proof.
  unfold read_poll_reply. rewrite outof_bind. cbn [http_take outof valof stof fst snd app].
  set (r := if tout then Some HFail else match alookup h (https s) with Some x => h_reply x | None => None end).
  set (s1 := set_https (adel h (https s)) s).
  assert (TE : emits (among (fun r => match r with RTransportError => true | _ => false end)) (bind (q_put QEnd) (fun _ => read_epilogue me ep))).
  { apply emits_bind; [apply among_nd, nd_q_put | intros ?; apply (among_only _ RTransportError); [reflexivity | apply te_read_epilogue]]. }
  destruct r as [[l| | |]|].
  - assert (H : emits (among (fun r => match r with RTransportError => true | RServer => has_close l | RClient => false end))
                  (bind (receive_all me l) (fun _ => read_poll_next me ep))).
    { apply emits_bind; [|intros ?; apply (among_only _ RTransportError); [reflexivity | apply te_read_poll_next]].
      pose proof (receive_all_reason me l) as R. destruct (has_close l); [apply (among_only _ RServer); [reflexivity | exact R] | apply among_nd; exact R]. }
    exact (H s1).
  - eapply Forall_impl; [|exact (TE s1)]. intros o. destruct o as [| | | |[| |[]]| |]; cbn; auto.
  - eapply Forall_impl; [|exact (TE s1)]. intros o. destruct o as [| | | |[| |[]]| |]; cbn; auto.
  - eapply Forall_impl; [|exact (TE s1)]. intros o. destruct o as [| | | |[| |[]]| |]; cbn; auto.
  - constructor.
Qed.

Lemma ws_loop_reason fuel : forall me ep c top, emits (among is_te_or_server) (read_ws_loop fuel me ep c top).
Proof.
  induction fuel as [|f IH]; intros me ep c top; cbn [read_ws_loop]; [apply emits_emit; exact I|].
  assert (EP : emits (among is_te_or_server) (read_epilogue me ep)) by (apply (among_only _ RTransportError); [reflexivity | apply te_read_epilogue]).
  assert (QE : emits (among is_te_or_server) (bind (q_put QEnd) (fun _ => read_epilogue me ep))) by (apply emits_bind; [apply among_nd, nd_q_put | intros ?; exact EP]).
  apply emits_bind; [apply emits_getst|]. intros s0. destruct (top && negb match state s0 with Connected => true | _ => false end); [exact EP|].
  apply emits_bind; [apply among_nd, nd_ws_take|]. intros x. destruct x as [[[p|]|]|]; try exact QE.
  - apply emits_bind; [|intros ?; apply IH]. pose proof (receive_packet_reason me p) as H.
    destruct p; try (apply among_nd; exact H). apply (among_only _ RServer); [reflexivity | exact H].
  - apply among_nd. apply emits_bind; [apply nd_new_timer | intros tm; apply nd_ws_wait].
Qed.

Lemma nd_write_loop fuel : forall me ep top tout, emits nodisc (write_loop cfg fuel me ep top tout).
Proof.
  induction fuel as [|f IH]; intros me ep top tout; cbn [write_loop]; [apply emits_emit; exact I|].
  apply emits_bind; [apply emits_getst|]. intros s0.
  destruct (top && negb match state s0 with Connected => N.eqb (qepoch s0) ep | _ => false end); [apply nd_finish|].
  destruct (negb (N.eqb (qepoch s0) ep)); [apply nd_finish|].
  destruct (queue s0) as [|[p|] r].
  - destruct tout; [apply nd_finish|]. apply emits_bind; [apply nd_new_timer|]. intros tm. apply emits_bind; [apply emits_modst | intros ?; apply nd_block].
  - destruct (take_batch (pred BATCH) r [p]) as [batch rest]. apply emits_bind; [apply emits_modst|]. intros ?.
    assert (PO : emits nodisc (bind (http_request me KindPost batch) (fun h => bind (new_timer (cc_request_timeout cfg)) (fun t => block me (TWPost h t (length batch) ep))))).
    { apply emits_bind; [apply nd_http_request|]. intros h. apply emits_bind; [apply nd_new_timer | intros tm; apply nd_block]. }
    destruct (transport s0) as [[]|]; try exact PO.
    destruct (ws s0) as [c|]; [|apply nd_finish]. apply emits_bind; [apply nd_ws_send_all|]. intros ok. destruct ok; [apply IH | apply nd_finish].
  - apply emits_bind; [apply emits_modst | intros ?; apply nd_finish].
Qed.
Lemma nd_write_post_reply me ep tout h : emits nodisc (write_post_reply cfg me ep tout h).
Proof.
  unfold write_post_reply. apply emits_bind; [apply nd_http_take|]. intros r.
  destruct (if tout then Some HFail else r) as [[l| | |]|]; try apply emits_ret; try apply nd_finish.
  - apply emits_bind; [apply emits_getst | intros s0; apply nd_write_loop].
  - apply emits_bind; [apply nd_finish | intros ?; apply emits_modst].
  - apply emits_bind; [apply emits_getst | intros s0; apply nd_write_loop].
Qed.
Lemma nd_start_loops b : emits nodisc (start_loops b).
Proof.
  unfold start_loops. apply emits_bind; [apply nd_spawn|]. intros w. apply emits_bind; [apply emits_modst|]. intros ?.
  apply emits_bind; [apply nd_spawn | intros r; apply emits_modst].
Qed.
Lemma nd_conn_done me call r : emits nodisc (bind (emit (ORet call r)) (fun _ => finish me)).
Proof. apply emits_bind; [apply emits_emit; exact I | intros ?; apply nd_finish]. Qed.
Lemma nd_ws_connect me call u : emits nodisc (ws_connect cfg me call u).
Proof. intros s. unfold ws_connect, outof. cbn. constructor; [exact I | constructor]. Qed.
Lemma nd_hs_timer : emits nodisc (hs_timer cfg).
Proof. unfold hs_timer. destruct (cq_handshake_recv_timeout (cc_quirks cfg)); [|apply emits_ret]. apply emits_bind; [apply nd_new_timer | intros ?; apply emits_ret]. Qed.
Lemma nd_ws_established me call c : emits nodisc (ws_established me call c).
Proof. unfold ws_established, conn_ok. apply emits_bind; [apply emits_modst|]. intros ?. apply emits_bind; [apply nd_start_loops | intros ?; apply nd_conn_done]. Qed.
Lemma client_connect_event me : emits (only RClient) (connect_event cfg me).
Proof.
  unfold connect_event. apply emits_bind; [apply emits_emit; exact I|]. intros ?.
  destruct (cc_connect_handler_disconnects cfg); [|apply emits_ret]. apply emits_bind; [apply only_disconnect_core | intros ?; apply emits_ret].
Qed.

(* which reasons a step of a task of each kind can give *)
Definition reasons_of (k : task) : reason -> bool :=
  match k with
  | TReadStart false | TRJoinW _ _ => is_te
  | TReadStart true => is_te_or_server        (* a WebSocket read loop may find a CLOSE frame waiting *)
  | TRGet _ _ _ | TRWs _ _ _ => is_te_or_server
  | TCOpenGet _ _ _ _ => is_client_or_server
  | TCOpenRecv _ _ _ => is_client
  | THMsg _ HDisc => is_client
  | _ => none_of
  end.

Theorem task_reasons t e s : Forall (among (reasons_of (t_task e))) (outof (run_task cfg t e s)).
Proof.
  revert s. change (emits (among (reasons_of (t_task e))) (run_task cfg t e)). unfold run_task.
  destruct (t_task e) as [call h tm trs | call c u tm | call c tm | call c tm | b | h tm ep | c tm ep | w ep | | tm ep | h tm n ep | k r | m a | call r]; cbn [reasons_of].
  - (* the handshake reply of connect() over polling *)
    unfold open_reply. apply emits_bind; [apply among_nd, nd_http_take|]. intros r.
    assert (F : forall rr, emits (among is_client_or_server) (conn_fail t call rr)) by (intros rr; apply among_nd, nd_conn_done).
    destruct (if t_tout e then Some HFail else r) as [[l| | |]|]; try apply F; try (apply emits_bind; [apply among_nd, nd_reset | intros ?; apply F]); [|apply emits_ret].
    destruct l as [|[wf u i tt0| | | | | |] rest]; try apply F. destruct wf; [|apply F].
    apply emits_bind; [apply emits_modst|]. intros ?. apply emits_bind; [apply (among_only _ RClient); [reflexivity | apply client_connect_event]|]. intros ?.
    unfold after_open_polling. apply emits_bind.
    + pose proof (receive_all_reason t rest) as R. destruct (has_close rest); [apply (among_only _ RServer); [reflexivity | exact R] | apply among_nd; exact R].
    + intros ?. apply among_nd. apply emits_bind; [apply emits_getst|]. intros s0.
      destruct (state s0); try apply nd_conn_done.
      destruct (upgrades_ws s0 && existsb _ (transports s0)); [apply nd_ws_connect|]. apply emits_bind; [apply nd_start_loops | intros ?; apply nd_conn_done].
  - apply among_nd. unfold wsconn_reply. apply emits_bind; [apply emits_getst|]. intros s0.
    destruct (if t_tout e then Some false else alookup c (wsconn_result s0)) as [[|]|]; [| |apply emits_ret].
    + apply emits_bind; [apply nd_pws|]. intros ?. destruct u.
      * apply emits_bind; [apply emits_emit; exact I|]. intros ?. apply emits_bind; [apply nd_hs_timer | intros ?; apply nd_ws_wait].
      * apply emits_bind; [apply nd_hs_timer | intros ?; apply nd_ws_wait].
    + destruct u; [apply emits_bind; [apply nd_start_loops | intros ?; apply nd_conn_done] | apply nd_conn_done].
  - apply among_nd. unfold probe_reply.
    assert (SL : emits nodisc (bind (start_loops false) (fun _ => conn_ok t call))) by (apply emits_bind; [apply nd_start_loops | intros ?; apply nd_conn_done]).
    apply emits_bind; [destruct (t_tout e); [apply emits_ret | apply nd_ws_take]|]. intros x.
    destruct x as [[[p|]|]|]; try exact SL; [|apply nd_ws_wait]. destruct p; try exact SL.
    apply emits_bind; [apply nd_ws_can_send|]. intros ok. destruct ok; [|exact SL].
    apply emits_bind; [apply emits_emit; exact I|]. intros ?. apply emits_bind; [apply emits_modst | intros ?; apply nd_ws_established].
  - unfold openrecv_reply. apply emits_bind; [apply among_nd; destruct (t_tout e); [apply emits_ret | apply nd_ws_take]|]. intros x.
    assert (F : emits (among is_client) (conn_fail t call RConnectionError)) by apply among_nd, nd_conn_done.
    destruct x as [[[p|]|]|]; try exact F; [|apply among_nd, nd_ws_wait]. destruct p as [wf u i tt0| | | | | |]; try exact F. destruct wf; [|exact F].
    apply emits_bind; [apply emits_modst|]. intros ?. apply emits_bind; [apply (among_only _ RClient); [reflexivity | apply client_connect_event]|]. intros ?.
    apply among_nd, nd_ws_established.
  - destruct b; cbn [reasons_of]; apply emits_bind; try apply emits_getst; intros s0.
    + destruct (ws s0); [|apply (among_only _ RTransportError); [reflexivity | apply te_read_epilogue]].
      apply emits_bind; [apply among_nd, nd_gws | intros w0; apply ws_loop_reason].
    + apply (among_only _ RTransportError); [reflexivity | apply te_read_poll_next].
  - (* a long-poll reply *)
    intros s. eapply Forall_impl; [|apply read_poll_reply_reason]. intros o. destruct o as [| | | |[| |[]]| |]; cbn; auto.
  - destruct (t_tout e).
    + apply emits_bind; [apply among_nd, nd_q_put | intros ?; apply (among_only _ RTransportError); [reflexivity | apply te_read_epilogue]].
    + apply emits_bind; [apply among_nd, nd_gws | intros w0; apply ws_loop_reason].
  - apply emits_bind; [apply among_nd, nd_alive|]. intros al. destruct al; [apply among_nd, nd_block | apply (among_only _ RTransportError); [reflexivity | apply te_read_final]].
  - apply among_nd. apply emits_bind; [apply emits_getst | intros s0; apply nd_write_loop].
  - apply among_nd. apply emits_bind; [apply emits_getst|]. intros s0.
    apply emits_bind; [destruct (N.eqb (qepoch s0) ep); [apply emits_modst | apply emits_ret] | intros ?; apply nd_write_loop].
  - apply among_nd, nd_write_post_reply.
  - apply among_nd. apply emits_bind; [apply nd_alive|]. intros al. destruct al; [apply nd_block|].
    unfold disconnect_finish. apply emits_bind; [apply emits_bind; [apply emits_modst | intros ?; apply nd_reset]|]. intros ?.
    apply emits_bind; [destruct k; [apply emits_emit; exact I | apply emits_ret] | intros ?; apply nd_finish].
  - (* a message handler: only one that calls disconnect() ends the connection, as the client *)
    apply emits_bind; [apply among_nd, emits_emit; exact I|]. intros ?.
    destruct a; cbn [reasons_of]; try (apply among_nd, nd_finish).
    + apply among_nd. apply emits_bind; [apply nd_send_packet | intros ?; apply nd_finish].
    + apply emits_bind; [apply (among_only _ RClient); [reflexivity | apply only_disconnect_core]|]. intros w0.
      apply among_nd. destruct w0; [apply nd_block | apply nd_finish].
  - apply among_nd. apply emits_bind; [apply nd_alive|]. intros al. destruct al; [apply nd_block | apply nd_conn_done].
Qed.

(* application calls: only disconnect() ends a connection, as the client *)
Theorem api_reasons me call x s :
  Forall (among (match x with ADisconnect => is_client | _ => none_of end)) (outof (run_api cfg me call x s)).
Proof.
  revert s. change (emits (among (match x with ADisconnect => is_client | _ => none_of end)) (run_api cfg me call x)).
  destruct x as [trs|m b| |]; cbn [run_api].
  - apply among_nd. apply emits_bind; [apply emits_getst|]. intros s0. destruct (state s0); try apply nd_conn_done.
    apply emits_bind; [apply emits_modst|]. intros ?.
    assert (H : emits nodisc (bind (http_request me KindOpen []) (fun h => bind (new_timer (cc_request_timeout cfg)) (fun t => block me (TCOpenGet call h t trs))))).
    { apply emits_bind; [apply nd_http_request|]. intros h. apply emits_bind; [apply nd_new_timer | intros tm; apply nd_block]. }
    destruct trs as [|[|] rest]; [exact H | exact H | apply nd_ws_connect].
  - apply among_nd. apply emits_bind; [apply nd_send_packet | intros ?; apply nd_conn_done].
  - apply emits_bind; [apply (among_only _ RClient); [reflexivity | apply only_disconnect_core]|]. intros w0.
    apply among_nd. destruct w0; [apply nd_block | apply nd_conn_done].
  - apply among_nd. apply emits_bind; [apply emits_getst|]. intros s0. destruct (read_task s0); [|apply nd_conn_done].
    apply emits_bind; [apply nd_alive|]. intros al. destruct al; [apply nd_block | apply nd_conn_done].
Qed.
End WithCfg.
