(* The few Python str operations the request-handling code applies to header values, for code points < 256
   (the harness only sends latin-1 header values): str.strip(), str.lower() on ASCII, split on one character. *)
From Coq Require Import NArith List Bool.
Import ListNotations.
From EIO Require Import Util.
Open Scope N_scope.

Definition text := list N.

(* str.isspace for code points < 256 *)
Definition is_space (c : N) : bool :=
  ((9 <=? c) && (c <=? 13)) || ((28 <=? c) && (c <=? 32)) || (c =? 133) || (c =? 160).

Fixpoint lstrip (l : text) : text := match l with c :: r => if is_space c then lstrip r else l | [] => [] end.
Definition strip (l : text) : text := rev (lstrip (rev (lstrip l))).

Definition lower1 (c : N) : N := if (65 <=? c) && (c <=? 90) then c + 32 else c.
Definition lower (l : text) : text := map lower1 l.

(* str.split(sep) for a one-character separator: at least one field *)
Fixpoint split_on (sep : N) (l : text) : list text :=
  match l with
  | [] => [[]]
  | c :: r => if c =? sep then [] :: split_on sep r
              else match split_on sep r with s :: ss => (c :: s) :: ss | [] => [[c]] end
  end.
Definition first_field (sep : N) (l : text) : text := match split_on sep l with s :: _ => s | [] => [] end.

Fixpoint mem (x : text) (l : list text) : bool := match l with [] => false | y :: r => eqbl x y || mem x r end.
Lemma mem_In x l : mem x l = true <-> In x l.
Proof.
  induction l as [|y r IH]; cbn; [split; [discriminate | contradiction]|].
  rewrite orb_true_iff, IH, eqbl_eq. split; intros [H|H]; auto.
Qed.

Definition opt_nonempty (o : option text) : bool := match o with Some (_ :: _) => true | _ => false end.
