(* base_client._get_engineio_url: the connection URL.  urllib.parse.urlparse is an oracle: the model takes the
   (scheme, netloc, query) triple it returns. *)
From Coq Require Import NArith List Bool.
Import ListNotations.
From EIO Require Import Util Strings.
Open Scope N_scope.

Definition t_http : text := [104; 116; 116; 112].
Definition t_https : text := [104; 116; 116; 112; 115].
Definition t_ws : text := [119; 115].
Definition t_wss : text := [119; 115; 115].
Definition t_polling : text := [112; 111; 108; 108; 105; 110; 103].
Definition t_websocket : text := [119; 101; 98; 115; 111; 99; 107; 101; 116].

(* str.strip('/') *)
Fixpoint lstrip_slash (l : text) : text := match l with 47 :: r => lstrip_slash r | _ => l end.
Definition strip_slash (l : text) : text := rev (lstrip_slash (rev (lstrip_slash l))).

Definition secure (scheme : text) : bool := eqbl scheme t_https || eqbl scheme t_wss.
Definition scheme_for (websocket : bool) (scheme : text) : text :=
  (if websocket then t_ws else t_http) ++ (if secure scheme then [115] else []).

(* '{scheme}://{netloc}/{path}/?{query}{sep}transport={transport}&EIO=4' *)
Definition engineio_url (scheme netloc query path : text) (websocket : bool) : text :=
  scheme_for websocket scheme ++ [58; 47; 47] ++ netloc ++ [47] ++ strip_slash path ++ [47; 63] ++ query ++
  (match query with [] => [] | _ => [38] end) ++
  [116;114;97;110;115;112;111;114;116;61] ++ (if websocket then t_websocket else t_polling) ++ [38;69;73;79;61;52].
