(* C05 / C16: events are never misattributed.  Whatever runs on behalf of one session - its long poll, its WebSocket handler and writer, its
   heartbeat, a handler of one of its messages, a request or an application call that names it - fires events (connect, message,
   disconnect) for that session only. *)
From Coq Require Import ZArith NArith List Bool Lia.
Import ListNotations.
From EIO Require Import Server ServerReasons ServerIso.
Open Scope N_scope.

Definition eonly (i0 : sid) (o : out) : Prop := match o with OEvent j _ => j = i0 | _ => True end.

Lemma ev_raw {A} (m : M A) : (forall s, outof (m s) = []) -> forall j, emits (eonly j) m.
Proof. intros H j s. rewrite H. constructor. Qed.
Lemma ev_gsess j i : emits (eonly j) (gsess i).  Proof. apply ev_raw. reflexivity. Qed.
Lemma ev_has_sess j i : emits (eonly j) (has_sess i).  Proof. apply ev_raw. reflexivity. Qed.
Lemma ev_gconn j c : emits (eonly j) (gconn c).  Proof. apply ev_raw. reflexivity. Qed.
Lemma ev_in_table j i : emits (eonly j) (in_table i).  Proof. apply ev_raw. reflexivity. Qed.
Lemma ev_alive j t : emits (eonly j) (alive t).  Proof. apply ev_raw. reflexivity. Qed.
Lemma ev_spawn j k : emits (eonly j) (spawn k).  Proof. apply ev_raw. reflexivity. Qed.
Lemma ev_new_timer j dt : emits (eonly j) (new_timer dt).  Proof. apply ev_raw. reflexivity. Qed.
Lemma ev_new_session j : emits (eonly j) new_session.  Proof. apply ev_raw. reflexivity. Qed.
Lemma ev_psess j i x : emits (eonly j) (psess i x).  Proof. apply emits_modst. Qed.
Lemma ev_pconn j c x : emits (eonly j) (pconn c x).  Proof. apply emits_modst. Qed.
Lemma ev_del_table j i : emits (eonly j) (del_table i).  Proof. apply emits_modst. Qed.
Lemma ev_wake j t : emits (eonly j) (wake t).  Proof. apply emits_modst. Qed.
Lemma ev_block j me k : emits (eonly j) (block me k).  Proof. apply emits_modst. Qed.
#[export] Hint Resolve ev_gsess ev_has_sess ev_gconn ev_in_table ev_alive ev_spawn ev_new_timer ev_new_session ev_psess ev_pconn ev_del_table ev_wake ev_block : em.
Lemma ev_upd j i g : emits (eonly j) (upd i g).  Proof. unfold upd. em_go. Qed.
Lemma ev_del_tables j l : emits (eonly j) (del_tables l).
Proof. induction l as [|i r IH]; cbn [del_tables]; em_go; exact IH. Qed.
Lemma ev_wake_all j l : emits (eonly j) (wake_all l).
Proof. induction l as [|t r IH]; cbn [wake_all]; em_go; exact IH. Qed.
#[export] Hint Resolve ev_upd ev_del_tables ev_wake_all : em.
Lemma ev_finish j me : emits (eonly j) (finish me).  Proof. unfold finish. em_go. Qed.
Lemma ev_q_put j i x : emits (eonly j) (q_put i x).  Proof. unfold q_put. em_go. Qed.
Lemma ev_q_task_done j i : emits (eonly j) (q_task_done i).  Proof. unfold q_task_done. em_go. Qed.
#[export] Hint Resolve ev_finish ev_q_put ev_q_task_done : em.
Lemma ev_drain j fuel : forall i acc, emits (eonly j) (drain fuel i acc).
Proof. induction fuel as [|n IH]; intros i acc; cbn [drain]; em_go; try apply IH. Qed.
#[export] Hint Resolve ev_drain : em.

Section WithCfg.
Variable cfg : config.

Lemma ev_close_nowait i ab r : emits (eonly i) (close_nowait cfg i ab r).  Proof. unfold close_nowait, begin_close. em_go. Qed.
Hint Resolve ev_close_nowait : em.
Lemma ev_sock_send i p : emits (eonly i) (sock_send cfg i p).  Proof. unfold sock_send. em_go. Qed.
Lemma ev_get_socket j i : emits (eonly j) (get_socket i).  Proof. unfold get_socket. em_go. Qed.
Hint Resolve ev_sock_send ev_get_socket : em.
Lemma ev_srv_send i m : emits (eonly i) (srv_send cfg i m).  Proof. unfold srv_send. em_go. Qed.
Lemma ev_close_wait i r : emits (eonly i) (close_wait cfg i r).  Proof. unfold close_wait. em_go. Qed.
Lemma ev_check_ping_timeout i : emits (eonly i) (check_ping_timeout cfg i).  Proof. unfold check_ping_timeout. em_go. Qed.
Hint Resolve ev_srv_send ev_close_wait ev_check_ping_timeout : em.
Lemma ev_run_handler me bg i payload a : emits (eonly i) (run_handler cfg me bg i payload a).  Proof. unfold run_handler. em_go. Qed.
Hint Resolve ev_run_handler : em.
Lemma ev_receive i p : emits (eonly i) (receive cfg i p).  Proof. unfold receive. em_go. Qed.
Hint Resolve ev_receive : em.
Lemma ev_receive_all i l : emits (eonly i) (receive_all cfg i l).
Proof. induction l as [|p r IH]; cbn [receive_all]; em_go; try exact IH. Qed.
Lemma ev_refuse_and_end i : emits (eonly i) (refuse_and_end cfg i).  Proof. unfold refuse_and_end. em_go. Qed.
Lemma ev_reap_if_closed i : emits (eonly i) (reap_if_closed i).  Proof. unfold reap_if_closed. em_go. Qed.
Hint Resolve ev_receive_all ev_refuse_and_end ev_reap_if_closed : em.
Lemma ev_poll_attempt me tout i k t : emits (eonly i) (poll_attempt cfg me tout i k t).  Proof. unfold poll_attempt. em_go. Qed.
Hint Resolve ev_poll_attempt : em.
Lemma ev_poll_start me i k : emits (eonly i) (poll_start cfg me i k).  Proof. unfold poll_start. em_go. Qed.
Hint Resolve ev_poll_start : em.
Lemma ev_ws_send_all j c l : emits (eonly j) (ws_send_all c l).
Proof. induction l as [|p r IH]; cbn [ws_send_all]; em_go; try exact IH. Qed.
Lemma ev_ws_close j c : emits (eonly j) (ws_close c).  Proof. unfold ws_close. em_go. Qed.
Hint Resolve ev_ws_send_all ev_ws_close : em.
Lemma ev_writer_loop fuel : forall me i c rd first, emits (eonly i) (writer_loop cfg fuel me i c rd first).
Proof. induction fuel as [|n IH]; intros me i c rd first; destruct first as [| |[|p l]]; cbn [writer_loop]; unfold writer_exit; em_go; try apply IH. Qed.
Lemma ev_ws_take j c : emits (eonly j) (ws_take c).  Proof. unfold ws_take. em_go. Qed.
Lemma ev_ws_block j me c k : emits (eonly j) (ws_block me c k).  Proof. unfold ws_block. em_go. Qed.
Lemma ev_ping_fire me i : emits (eonly i) (ping_fire cfg me i).  Proof. unfold ping_fire. em_go. Qed.
Hint Resolve ev_writer_loop ev_ws_take ev_ws_block ev_ping_fire : em.
Lemma ev_lookup_view j q : emits (eonly j) (lookup_view cfg q).
Proof. unfold lookup_view. destruct (decide_early cfg q); [apply emits_ret|]. destruct (r_sid q) as [[i|]|]; try apply emits_ret. em_go. Qed.
Hint Resolve ev_lookup_view : em.
Lemma ev_answer j me r x : emits (eonly j) (answer me r x).  Proof. unfold answer. em_go. Qed.
Hint Resolve ev_answer ev_lookup_view : em.
Lemma ev_finish_get me i r p : emits (eonly i) (finish_get cfg me i r p).  Proof. destruct p; cbn [finish_get]; em_go. Qed.
Lemma ev_ws_request_done me i r x : emits (eonly i) (ws_request_done me i r x).  Proof. unfold ws_request_done. em_go. Qed.
Hint Resolve ev_finish_get ev_ws_request_done : em.
Lemma ev_ws_epilogue_end me i r : emits (eonly i) (ws_epilogue_end cfg me i r).  Proof. unfold ws_epilogue_end. em_go. Qed.
Hint Resolve ev_ws_epilogue_end : em.
Lemma ev_ws_epilogue me i r c w fresh : emits (eonly i) (ws_epilogue cfg me i r c w fresh).  Proof. unfold ws_epilogue. em_go. Qed.
Hint Resolve ev_ws_epilogue : em.
Lemma ev_ws_read_loop fuel : forall me i r c w fresh, emits (eonly i) (ws_read_loop cfg fuel me i r c w fresh).
Proof. induction fuel as [|n IH]; intros me i r c w fresh; cbn [ws_read_loop]; em_go; try apply IH. Qed.
Hint Resolve ev_ws_read_loop : em.
Lemma ev_ws_steady me i r c fresh : emits (eonly i) (ws_steady cfg me i r c fresh).  Proof. unfold ws_steady. em_go. Qed.
Lemma ev_upgrade_fail me i r x : emits (eonly i) (upgrade_fail me i r x).  Proof. unfold upgrade_fail. em_go. Qed.
Hint Resolve ev_ws_steady ev_upgrade_fail : em.
Lemma ev_ws_upgr me i r c : emits (eonly i) (ws_upgr cfg me i r c).  Proof. unfold ws_upgr. em_go. Qed.
Hint Resolve ev_ws_upgr : em.
Lemma ev_ws_probe me i r c : emits (eonly i) (ws_probe cfg me i r c).  Proof. unfold ws_probe. em_go. Qed.
Hint Resolve ev_ws_probe : em.
Lemma ev_ws_begin me i r c : emits (eonly i) (ws_begin cfg me i r c).  Proof. unfold ws_begin. em_go. Qed.
Hint Resolve ev_ws_begin : em.

(* a task of session i: its long poll, its WebSocket handler and writer, its heartbeat, a handler of one of its messages, a close of it *)
Theorem task_events_own_session me e i s : session_of (t_task e) = Some i -> Forall (eonly i) (outof (run_task cfg me e s)).
Proof.
  intros S. revert s. change (emits (eonly i) (run_task cfg me e)). unfold run_task.
  destruct (t_task e) as [i0 [r|c rd] t | i0 c rd | r i0 c | r i0 c | r i0 c w t fresh | r i0 c w fresh | i0 k | i0 | i0 t | | t | rest iv t | i0 payload a | i0 parent | a pend sids];
    try discriminate; try (destruct k; try discriminate); injection S as ->; em_go.
Qed.
(* a request that names session i: poll, post, upgrade - whatever its packets are and whatever their handlers do *)
Lemma forall_bind {A B} (P : out -> Prop) (m : M A) (f : A -> M B) s :
  Forall P (outof (m s)) -> Forall P (outof (f (fst (fst (m s))) (snd (fst (m s))))) -> Forall P (outof (bind m f s)).
Proof.
  unfold bind, outof. destruct (m s) as [[a s1] o1]. cbn [fst snd]. destruct (f a s1) as [[b s2] o2]. cbn [snd]. intros H1 H2. apply Forall_app. split; assumption.
Qed.
Theorem request_events_own_session me r q i s :
  decision_session (decide cfg q (valof (lookup_view cfg q s))) = Some i -> Forall (eonly i) (outof (handle_request cfg me r q s)).
Proof.
  intros S. unfold handle_request. apply forall_bind; [apply ev_lookup_view|].
  change (fst (fst (lookup_view cfg q s))) with (valof (lookup_view cfg q s)). revert S. generalize (valof (lookup_view cfg q s)). generalize (snd (fst (lookup_view cfg q s))).
  intros s1 v S. revert s1. match goal with |- forall s1, Forall _ (outof (?m s1)) => change (emits (eonly i) m) end.
  destruct (decide cfg q v); cbn in S; try discriminate; injection S as ->; em_go.
Qed.
(* send / disconnect(sid) / transport / get_session / save_session for session i *)
Theorem api_events_own_session me a x i s : api_session x = Some i -> Forall (eonly i) (outof (run_api cfg me a x s)).
Proof.
  intros S. revert s. change (emits (eonly i) (run_api cfg me a x)).
  destruct x as [[j|] m|[[j|]|]|[j|]|[j|]|[j|] u]; cbn in S; try discriminate; injection S as ->; cbn [run_api known]; em_go.
Qed.
End WithCfg.
