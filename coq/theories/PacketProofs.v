From Coq Require Import ZArith NArith List Lia Bool.
Import ListNotations.
From EIO Require Import Util Sid SidProofs Base64 Base64Proofs Packet.
Open Scope N_scope.

Lemma str_N_digit n : n < 10 -> str_N n = [48 + n].
Proof.
  intros H. unfold str_N. cbn [dec_fuel]. destruct (N.ltb_spec n 10); [reflexivity | lia].
Qed.

Section Codec.
  Variable J : Type.
  Variable jkind : J -> kind.
  Variable dumps : J -> text.
  Variable loads : text -> lres J.
  Variable digit : N -> option N.

  Notation pkt := (pkt J). Notation pdata := (pdata J).
  Notation encode_pure := (encode_pure J dumps).
  Notation decode := (decode J jkind loads digit).
  Notation canon := (canon J jkind loads).

  (* payloads the API accepts: text, bytes, a JSON array or object, or nothing *)
  Definition accepted (d : pdata) : Prop :=
    match d with DBin b => bytes_ok b | DJson v => jkind v = KArr \/ jkind v = KObj | _ => True end.

  (* ---- wire form ---- *)
  Lemma wire_form ty d p b64 : ty < 10 -> mk_packet ty d = Some p ->
    encode_pure b64 p =
      match d with
      | DBin b => if b64 then WText (98 :: b64encode b) else WBin b
      | DNone => WText [48 + ty]
      | DText s => WText ((48 + ty) :: s)
      | DJson v => WText ((48 + ty) :: dumps v)
      end.
  Proof.
    intros H M. unfold mk_packet in M. destruct (is_bin d && negb (ty =? MESSAGE)); [discriminate|].
    injection M as <-. unfold encode_pure. cbn [pdat ptype]. rewrite (str_N_digit ty H).
    destruct d; reflexivity.
  Qed.

  (* ---- binary only for MESSAGE ---- *)
  Lemma binary_only_message_ctor ty b : ty <> MESSAGE -> @mk_packet J ty (DBin b) = None.
  Proof. intros H. unfold mk_packet. cbn [is_bin]. apply N.eqb_neq in H. rewrite H. reflexivity. Qed.
  Lemma binary_only_message_ctor_ok b : @mk_packet J MESSAGE (DBin b) = Some {| ptype := MESSAGE; pdat := DBin b |}.
  Proof. reflexivity. Qed.
  Lemma binary_only_message_decode w ty d : decode w = DOk ty d true -> ty = MESSAGE /\ exists b, d = DBin b.
  Proof.
    unfold decode. destruct w as [t|b].
    - destruct t as [|c r]; [discriminate|]. destruct (c =? 98).
      + destruct (b64decode r); [|discriminate]. intros E; injection E as <- <-. split; [reflexivity | eexists; reflexivity].
      + destruct (digit c); [|discriminate]. destruct (loads r) as [v| |]; try discriminate.
        destruct (int_like (jkind v)); discriminate.
    - intros E; injection E as <- <-. split; [reflexivity | eexists; reflexivity].
  Qed.
  Lemma decode_binary_flag w ty d bin : decode w = DOk ty d bin -> bin = is_bin d.
  Proof.
    unfold decode. destruct w as [t|b].
    - destruct t as [|c r]; [discriminate|]. destruct (c =? 98).
      + destruct (b64decode r); [|discriminate]. intros E; injection E as <- <- <-. reflexivity.
      + destruct (digit c); [|discriminate]. destruct (loads r) as [v| |]; try discriminate.
        * destruct (int_like (jkind v)); intros E; injection E as <- <- <-; reflexivity.
        * intros E; injection E as <- <- <-; reflexivity.
    - intros E; injection E as <- <- <-. reflexivity.
  Qed.

  (* ---- decoding inverts encoding ---- *)
  Hypothesis digit_ok : forall t, t < 10 -> digit (48 + t) = Some t.                      (* O2 *)
  Hypothesis loads_dumps : forall v, jkind v = KArr \/ jkind v = KObj -> loads (dumps v) = LVal v.   (* O1 *)
  Hypothesis loads_empty : loads [] = LValueError.

  Lemma decode_encode ty d p b64 : ty < 10 -> accepted d -> mk_packet ty d = Some p ->
    (forall s, d = DText s -> loads s <> LOther) ->
    decode (encode_pure b64 p) = DOk ty (canon d) (is_bin d).
  Proof.
    intros H A M NO. rewrite (wire_form ty d p b64 H M).
    assert (N98 : (48 + ty =? 98) = false) by (apply N.eqb_neq; lia).
    destruct d as [|s|b|v]; cbn [canon is_bin].
    - unfold decode. rewrite N98, (digit_ok ty H), loads_empty. reflexivity.
    - unfold decode. rewrite N98, (digit_ok ty H). specialize (NO s eq_refl).
      destruct (loads s) as [v| |]; [destruct (int_like (jkind v)); reflexivity | reflexivity | contradiction].
    - (* binary: both channel kinds; the type must have been MESSAGE *)
      assert (ty = MESSAGE) as ->.
      { unfold mk_packet in M. cbn [is_bin] in M. destruct (N.eqb_spec ty MESSAGE); [assumption | discriminate]. }
      cbn in A. destruct b64; unfold decode.
      + change (98 =? 98) with true. cbv iota. rewrite (b64_roundtrip b A). reflexivity.
      + reflexivity.
    - unfold decode. rewrite N98, (digit_ok ty H). cbn in A. rewrite (loads_dumps v A).
      assert (int_like (jkind v) = false) as -> by (destruct A as [-> | ->]; reflexivity). reflexivity.
  Qed.

  (* ---- the cache: every call returns the representation for the channel asked for ---- *)
  Lemma encode_nonbin p f : is_bin (pdat p) = false -> encode_pure f p = encode_pure false p.
  Proof. intros B. unfold encode_pure. destruct (pdat p); try reflexivity. discriminate. Qed.

  Lemma encode_seq_spec p : forall flags (o : pobj J), o_pkt o = p ->
    (forall w, o_cache o = Some w -> is_bin (pdat p) = false -> w = encode_pure false p) ->
    encode_seq J dumps o flags = map (fun f => encode_pure f p) flags.
  Proof.
    induction flags as [|f r IH]; intros o P C; [reflexivity|].
    cbn [encode_seq map]. unfold encode_obj. rewrite P.
    destruct (o_cache o) as [w|] eqn:E.
    - destruct (truthy w && negb (is_bin (pdat p))) eqn:T.
      + apply andb_true_iff in T. destruct T as [T1 T2]. apply negb_true_iff in T2.
        f_equal; [rewrite (C w eq_refl T2); symmetry; apply encode_nonbin; exact T2|].
        apply IH; [exact P | rewrite E; exact C].
      + f_equal. apply IH; cbn [o_cache o_pkt]; [reflexivity|].
        intros w' W B. injection W as <-. apply encode_nonbin; exact B.
    - f_equal. apply IH; cbn [o_cache o_pkt]; [reflexivity|].
      intros w' W B. injection W as <-. apply encode_nonbin; exact B.
  Qed.

  Lemma cache_sequence p flags :
    encode_seq J dumps {| o_pkt := p; o_cache := None |} flags = map (fun f => encode_pure f p) flags.
  Proof. apply encode_seq_spec; cbn [o_cache o_pkt]; [reflexivity | discriminate]. Qed.
End Codec.

(* the behaviour before the fix of D1 violated the cache law: witness, with a trivial JSON instance *)
Lemma cache_sequence_old_refuted :
  let p := {| ptype := MESSAGE; pdat := @DBin unit [0; 1] |} in
  encode_seq_old unit (fun _ => []) {| o_pkt := p; o_cache := None |} [false; true]
  <> map (fun f => encode_pure unit (fun _ => []) f p) [false; true].
Proof. vm_compute. discriminate. Qed.
