(* executable comparison helpers for the history correspondence of the server model *)
From Coq Require Import ZArith NArith List Bool.
Import ListNotations.
From EIO Require Import Server.
Open Scope N_scope.

Definition spkt_eqb (a b : spkt) : bool :=
  match a, b with SOpen, SOpen | SClose, SClose | SPing, SPing | SNoop, SNoop => true | SMsg x, SMsg y => x =? y | _, _ => false end.
Fixpoint leqb {A} (e : A -> A -> bool) (a b : list A) : bool :=
  match a, b with [], [] => true | x :: a', y :: b' => e x y && leqb e a' b' | _, _ => false end.
Definition resp_eqb (a b : resp) : bool :=
  match a, b with
  | R200 x, R200 y => leqb spkt_eqb x y
  | R200ok, R200ok | R400, R400 | R405, R405 | RRaised, RRaised | RWsDone, RWsDone | RMalformed, RMalformed => true
  | R401 x, R401 y => Bool.eqb x y
  | _, _ => false
  end.
Definition reason_eqb (a b : reason) : bool :=
  match a, b with RServer, RServer | RClient, RClient | RPingTimeout, RPingTimeout | RTransportClose, RTransportClose
  | RTransportError, RTransportError => true | _, _ => false end.
Definition ev_eqb (a b : ev) : bool :=
  match a, b with EConnect, EConnect => true | EMessage x, EMessage y => x =? y | EDisconnect x, EDisconnect y => reason_eqb x y | _, _ => false end.
Definition wsout_eqb (a b : wsout) : bool :=
  match a, b with WPk x, WPk y => spkt_eqb x y | WPongProbe, WPongProbe => true | _, _ => false end.
Definition apiret_eqb (a b : apiret) : bool :=
  match a, b with ARet, ARet | AKeyError, AKeyError => true | ATransport x, ATransport y => Bool.eqb x y | ASession x, ASession y => x =? y | _, _ => false end.
Definition out_eqb (a b : out) : bool :=
  match a, b with
  | OResp r x, OResp r' x' => (r =? r') && resp_eqb x x'
  | OWsAccept c, OWsAccept c' => c =? c'
  | OWsSend c w, OWsSend c' w' => (c =? c') && wsout_eqb w w'
  | OWsClose c, OWsClose c' => c =? c'
  | OEvent s e, OEvent s' e' => (s =? s') && ev_eqb e e'
  | OApi a x, OApi a' x' => (a =? a') && apiret_eqb x x'
  | ONewSession r s, ONewSession r' s' => (r =? r') && (s =? s')
  | OUnsupported, OUnsupported | OOutOfFuel, OOutOfFuel | OTie, OTie => true
  | _, _ => false
  end.

(* channel of an output: outputs are compared per channel, in order within a channel *)
Definition chan (o : out) : N * N :=
  match o with
  | OResp r _ => (0, r) | ONewSession r _ => (0, r)
  | OWsAccept c | OWsSend c _ | OWsClose c => (1, c)
  | OEvent s _ => (2, s) | OApi a _ => (3, a)
  | OUnsupported => (4, 0) | OOutOfFuel => (5, 0) | OTie => (7, 0)
  end.
Definition chan_le (a b : N * N) : bool := (fst a <? fst b) || ((fst a =? fst b) && (snd a <=? snd b)).
Fixpoint insert_o (o : out) (l : list out) : list out :=
  match l with
  | [] => [o]
  | x :: r => if chan_le (chan x) (chan o) then x :: insert_o o r else o :: l
  end.
Definition canon (l : list out) : list out := fold_left (fun acc o => insert_o o acc) l [].
Definition drop_new (l : list out) : list out := filter (fun o => match o with ONewSession _ _ => false | _ => true end) l.

Definition outs_eqb (model impl : list out) : bool := leqb out_eqb (canon (drop_new model)) (canon impl).

(* Overlapping polls of one session: which of the pending polls receives which batch depends on the order in which the
   runtime resumes them, and a client has no order between two outstanding requests either.  Under the asyncio loop the
   answers given to the polls of one session within one step are therefore compared as a multiset. *)
Definition spkt_code (p : spkt) : list N :=
  match p with SOpen => [1] | SClose => [2] | SPing => [3] | SNoop => [4] | SMsg m => [5; m] end.
Definition resp_code (x : resp) : list N :=
  match x with
  | R200 l => 1 :: flat_map spkt_code l | R200ok => [2] | R400 => [3] | R401 b => [4; if b then 1 else 0] | R405 => [5]
  | RRaised => [6] | RWsDone => [7] | RMalformed => [8]
  end.
Fixpoint lex_le (a b : list N) : bool :=
  match a, b with
  | [], _ => true | _ :: _, [] => false
  | x :: a', y :: b' => (x <? y) || ((x =? y) && lex_le a' b')
  end.
Definition poll_sessions (ops : list op) : list (N * N) :=      (* (request, session) of every plain GET naming a known session *)
  flat_map (fun o => match o with
                     | OpReq r q => match r_method q, r_sid q, r_conn q with MGet, Some (SKnown i), None => [(r, i)] | _, _, _ => [] end
                     | _ => [] end) ops.
Fixpoint insert_r (x : resp) (l : list resp) : list resp :=
  match l with [] => [x] | y :: r => if lex_le (resp_code x) (resp_code y) then x :: l else y :: insert_r x r end.
(* replace the poll answers of each session by the sorted list of answers, attached to the session *)
Definition poll_bag (ps : list (N * N)) (l : list out) : list out :=
  let polls := flat_map (fun o => match o with OResp r x => match alookup r ps with Some i => [(i, x)] | None => [] end | _ => [] end) l in
  let others := filter (fun o => match o with OResp r _ => match alookup r ps with Some _ => false | None => true end | _ => true end) l in
  let sess := nodup N.eq_dec (map fst polls) in
  others ++ flat_map (fun i => map (fun x => OResp (1000000 + i) x)
                                   (fold_left (fun acc p => if fst p =? i then insert_r (snd p) acc else acc) polls [])) sess.
Definition outs_eqb_bag (ps : list (N * N)) (model impl : list out) : bool :=
  leqb out_eqb (canon (poll_bag ps (drop_new model))) (canon (poll_bag ps impl)).

(* index of the first op whose outputs differ (0-based), or none *)
Fixpoint first_diff_by (eq : list out -> list out -> bool) (i : N) (m i' : list (list out)) : option N :=
  match m, i' with
  | [], [] => None
  | x :: m', y :: i'' => if eq x y then first_diff_by eq (N.succ i) m' i'' else Some i
  | _, _ => Some i
  end.
Definition first_diff := first_diff_by outs_eqb.

(* the ASGI gateway answers a refused request on a websocket scope with websocket.close, whatever the status was:
   401 and 400 are the same observable there *)
Definition ws_rids (ops : list op) : list N :=
  flat_map (fun o => match o with OpReq r q => match r_conn q with Some _ => [r] | None => [] end | _ => [] end) ops.
Definition collapse (ws : list N) (o : out) : out :=
  match o with
  | OResp r (R401 _) => if nmem r ws then OResp r R400 else o
  | _ => o
  end.
Definition gateway_view (asgi : bool) (ops : list op) (m : list (list out)) : list (list out) :=
  if asgi then map (map (collapse (ws_rids ops))) m else m.

(* While time passes several causes of a session end can fall due at the same instant (heartbeat sweep, read timeout, poll
   timeout); which one the asyncio loop serves first depends on how many internal hops each wake-up takes.  In steps
   that only advance the clock the *reason* of a disconnect is therefore compared up to "ended by silence". *)
Definition silence (o : out) : out :=
  match o with
  | OEvent s (EDisconnect (RTransportClose | RTransportError)) => OEvent s (EDisconnect RPingTimeout)
  | _ => o
  end.
Definition is_adv (o : op) : bool := match o with OpAdvance _ => true | _ => false end.
Fixpoint first_diff_ops (asgi : bool) (ps : list (N * N)) (i : N) (ops : list op) (m i' : list (list out)) : option N :=
  match ops, m, i' with
  | [], [], [] => None
  | o :: ops', x :: m', y :: i'' =>
    (* simultaneous timers under the asyncio loop: which wake-up is served first is not modelled (it depends on the number of
       internal hops of each); the comparison of this history ends here *)
    if asgi && existsb (fun z => match z with OTie => true | _ => false end) x then None else
    let ok := if asgi then (if is_adv o then outs_eqb_bag ps (map silence x) (map silence y) else outs_eqb_bag ps x y) else outs_eqb x y in
    if ok then first_diff_ops asgi ps (N.succ i) ops' m' i'' else Some i
  | _, _, _ => Some i
  end.

(* one history: configuration, stimuli, and what the implementation emitted after each stimulus *)
Definition check_hist_g (asgi : bool) (c : config * list op * list (list out)) : bool :=
  let '(cfg, ops, impl) := c in
  match first_diff_ops asgi (poll_sessions ops) 0 ops (gateway_view asgi ops (snd (run_ops cfg ops (init cfg)))) impl with
  | None => true | Some _ => false end.
Definition check_hist := check_hist_g false.
Definition check_hist_asgi := check_hist_g true.
Definition diff_hist (c : config * list op * list (list out)) : option N * list (list out) :=
  let '(cfg, ops, impl) := c in
  let m := snd (run_ops cfg ops (init cfg)) in (first_diff 0 m impl, m).

(* the final observable table of a history: which sessions are in the table, which are live, their transport *)
Definition table_view (cfg : config) (ops : list op) : list (N * bool * bool) :=
  let s := fst (run_ops cfg ops (init cfg)) in
  map (fun i => match alookup i (store s) with Some x => (i, s_closed x, s_upgraded x) | None => (i, true, false) end) (table s).
