(* C07, for every history and every schedule: the heartbeat of an open session never stalls.  As long as a session is neither
   closing nor closed, either a PING is outstanding (last_ping is set: every liveness test - at each send, at each sweep of
   the monitor - will find the session expired ping_timeout later, c07_expired_iff) or a task exists that will send the next
   PING no later than ping_interval from now. *)
From Coq Require Import ZArith NArith List Bool Lia.
Import ListNotations.
From EIO Require Import Server ServerInv ServerUpg.
Open Scope N_scope.

Definition dead (x : sess) : bool := s_closing x || s_closed x.
Definition okp (x : sess) : bool := s_closing x || s_closed x || match s_lastp x with Some _ => true | None => false end.

(* what a step leaves alone: the clock, and `okp` of the sessions recorded in the snapshot *)
Record hsnap := { hp : sid -> bool; hn : Z }.
Record FH (K : hsnap) (s : st) : Prop := {
  fh_ok : forall i, hp K i = true -> okp (cur i s) = true;
  fh_now : now s = hn K }.
Definition htH {A} (me : tid) (K : hsnap) (m : M A) (Q : A -> Prop) : Prop :=
  forall s, FH K s -> FH K (stof (m s)) /\ Q (valof (m s)).

Lemma htH_bind {A B} me K (m : M A) (f : A -> M B) Q R : htH me K m Q -> (forall a, Q a -> htH me K (f a) R) -> htH me K (bind m f) R.
Proof.
  intros Hm Hf s F. destruct (Hm s F) as [F1 Q1]. unfold bind, stof, valof in *. destruct (m s) as [[a s1] o1]. cbn [fst snd] in *.
  destruct (Hf a Q1 s1 F1) as [F2 R2]. unfold stof, valof in *. destruct (f a s1) as [[b s2] o2]. cbn [fst snd] in *. auto.
Qed.
Lemma htH_weaken {A} me K (m : M A) (Q R : A -> Prop) : htH me K m Q -> (forall a, Q a -> R a) -> htH me K m R.
Proof. intros H I s F. destruct (H s F). auto. Qed.
Lemma htH_ret {A} me K (a : A) (Q : A -> Prop) : Q a -> htH me K (ret a) Q.
Proof. intros H s F. cbn. auto. Qed.
Lemma htH_same {A} me K (m : M A) : (forall s, store (stof (m s)) = store s /\ now (stof (m s)) = now s) -> htH me K m TT.
Proof.
  intros H s [F1 F2]. destruct (H s) as (E1 & E2). split; [|exact I]. split.
  - intros i. unfold cur. rewrite E1. apply F1.
  - rewrite E2. exact F2.
Qed.
Lemma htH_getst me K : htH me K getst TT.  Proof. apply htH_same. intros s. cbn. auto. Qed.
Lemma htH_emit me K o : htH me K (emit o) TT.  Proof. apply htH_same. intros s. cbn. auto. Qed.
Lemma htH_gsess me K i : htH me K (gsess i) (fun ss => hp K i = true -> okp ss = true).
Proof. intros s F. split; [exact F|]. unfold gsess, valof. cbn. apply (fh_ok _ _ F). Qed.
Lemma htH_psess me K i x : (hp K i = true -> okp x = true) -> htH me K (psess i x) TT.
Proof.
  intros H s [F1 F2]. split; [|exact I]. split.
  - intros j X. destruct (N.eq_dec j i) as [->|N]; [|rewrite cur_psess_other by exact N; exact (F1 j X)].
    rewrite cur_psess_same. destruct (alookup i (store s)) eqn:L; [exact (H X)|]. specialize (F1 i X). unfold cur in F1. rewrite L in F1. exact F1.
  - unfold psess, modst, stof. cbn. destruct (alookup i (store s)); exact F2.
Qed.
Lemma htH_upd me K i f : (forall x, okp x = true -> okp (f x) = true) -> htH me K (upd i f) TT.
Proof. intros H. unfold upd. eapply htH_bind; [apply htH_gsess|]. intros ss Hs. apply htH_psess. intros X. apply H, Hs, X. Qed.
Lemma htH_wake me K t : htH me K (wake t) TT.
Proof. apply htH_same. intros s. unfold wake, modst, stof. cbn. destruct (alookup t (tasks s)); [destruct (nmem t (runq s))|]; cbn; auto. Qed.
Lemma htH_wake_all me K l : htH me K (wake_all l) TT.
Proof. induction l as [|t r IH]; cbn [wake_all]; [apply htH_ret; exact I|]. eapply htH_bind; [apply htH_wake | intros ? _; exact IH]. Qed.
Lemma htH_new_timer me K dt : htH me K (new_timer dt) TT.  Proof. apply htH_same. intros s. cbn. auto. Qed.
Lemma htH_alive me K t : htH me K (alive t) TT.  Proof. apply htH_same. intros s. cbn. auto. Qed.
Lemma htH_has_sess me K i : htH me K (has_sess i) TT.  Proof. apply htH_same. intros s. cbn. auto. Qed.
Lemma htH_gconn me K c : htH me K (gconn c) TT.  Proof. apply htH_same. intros s. cbn. auto. Qed.
Lemma htH_pconn me K c x : htH me K (pconn c x) TT.  Proof. apply htH_same. intros s. cbn. auto. Qed.
Lemma htH_in_table me K i : htH me K (in_table i) TT.  Proof. apply htH_same. intros s. cbn. auto. Qed.
Lemma htH_del_table me K i : htH me K (del_table i) TT.  Proof. apply htH_same. intros s. cbn. auto. Qed.
Lemma htH_del_tables me K l : htH me K (del_tables l) TT.
Proof. induction l as [|i r IH]; cbn [del_tables]; [apply htH_ret; exact I|]. eapply htH_bind; [apply htH_del_table | intros ? _; exact IH]. Qed.
Lemma htH_modst_same me K f : (forall s, store (f s) = store s /\ now (f s) = now s) -> htH me K (modst f) TT.
Proof. intros H. apply htH_same. intros s. cbn. apply H. Qed.
Lemma htH_block me K t k : htH me K (block t k) TT.  Proof. apply htH_same. intros s. cbn. auto. Qed.
Lemma htH_finish me K t : htH me K (finish t) TT.
Proof. unfold finish. eapply htH_bind; [apply htH_getst|]. intros s0 _. eapply htH_bind with (Q := TT); [apply htH_modst_same; intros s; cbn; auto | intros ? _; apply htH_wake_all]. Qed.
Lemma htH_spawn me K k : htH me K (spawn k) TT.  Proof. apply htH_same. intros s. cbn. auto. Qed.

Create HintDb fh discriminated.
#[export] Hint Resolve htH_getst htH_emit htH_wake htH_wake_all htH_new_timer htH_alive htH_has_sess htH_gconn htH_pconn htH_in_table
  htH_del_table htH_del_tables htH_block htH_finish htH_spawn : fh.
Ltac okgo := unfold okp in *; cbn; try assumption; try (intros; assumption); try (intros; rewrite ?orb_true_r; reflexivity).
Ltac fh_step :=
  match goal with
  | |- htH _ _ (ret _) _ => apply htH_ret; exact I
  | |- htH _ _ (bind (gsess _) _) _ => eapply htH_bind; [apply htH_gsess | intros ? ?]
  | |- htH _ _ (bind _ _) _ => eapply htH_bind with (Q := TT); [|intros ? _]
  | |- htH _ _ (psess _ _) _ => apply htH_psess; ws; okgo
  | |- htH _ _ (upd _ _) _ => apply htH_upd; intros ?; ws; okgo
  | |- htH _ _ (modst _) _ => apply htH_modst_same; intros ?; cbn; auto
  | |- htH _ _ (if ?b then _ else _) _ => destruct b
  | |- htH _ _ (match ?x with _ => _ end) _ => destruct x
  | |- htH _ _ (gsess _) TT => eapply htH_weaken; [apply htH_gsess | intros; exact I]
  | _ => solve [eauto with fh]
  end.
Ltac fh_go := repeat fh_step.

Lemma fh_q_put me K i x : htH me K (q_put i x) TT.  Proof. unfold q_put. fh_go. Qed.
Lemma fh_q_task_done me K i : htH me K (q_task_done i) TT.  Proof. unfold q_task_done. fh_go. Qed.
#[export] Hint Resolve fh_q_put fh_q_task_done : fh.
Lemma fh_drain me K fuel : forall i acc, htH me K (drain fuel i acc) TT.
Proof. induction fuel as [|n IH]; intros i acc; cbn [drain]; fh_go; try apply IH. Qed.
#[export] Hint Resolve fh_drain : fh.

Section WithCfg.
Variable cfg : config.

Lemma fh_close_nowait me K i ab r : htH me K (close_nowait cfg i ab r) TT.
Proof. unfold close_nowait, begin_close. fh_go. Qed.
Hint Resolve fh_close_nowait : fh.
Lemma fh_sock_send me K i p : htH me K (sock_send cfg i p) TT.  Proof. unfold sock_send. fh_go. Qed.
Lemma fh_get_socket me K i : htH me K (get_socket i) TT.  Proof. unfold get_socket. fh_go. Qed.
Hint Resolve fh_sock_send fh_get_socket : fh.
Lemma fh_srv_send me K i m : htH me K (srv_send cfg i m) TT.  Proof. unfold srv_send. fh_go. Qed.
Lemma fh_close_wait me K i r : htH me K (close_wait cfg i r) TT.  Proof. unfold close_wait. fh_go. Qed.
Hint Resolve fh_srv_send fh_close_wait : fh.
Lemma fh_run_handler me K bg i payload a : htH me K (run_handler cfg me bg i payload a) TT.
Proof. unfold run_handler. fh_go. Qed.
Lemma fh_run_handler_fg me K m' i payload a : htH me K (run_handler cfg m' false i payload a) TT.
Proof. unfold run_handler. fh_go. Qed.
Hint Resolve fh_run_handler fh_run_handler_fg : fh.
Lemma fh_receive me K i p : htH me K (receive cfg i p) TT.
Proof. unfold receive. fh_go. Qed.
Lemma fh_receive_all me K i l : htH me K (receive_all cfg i l) TT.
Proof. induction l as [|p r IH]; cbn [receive_all]; fh_go; try apply fh_receive; try exact IH. Qed.
Lemma fh_refuse_and_end me K i : htH me K (refuse_and_end cfg i) TT.  Proof. unfold refuse_and_end. fh_go. Qed.
Lemma fh_reap_if_closed me K i : htH me K (reap_if_closed i) TT.  Proof. unfold reap_if_closed. fh_go. Qed.
Hint Resolve fh_receive fh_receive_all fh_refuse_and_end fh_reap_if_closed : fh.

Lemma fh_poll_attempt me K tout i k t : htH me K (poll_attempt cfg me tout i k t) TT.
Proof.
  unfold poll_attempt.
  change (modst (fun s => set_tasks (aset me {| t_task := TPoll i k t; t_tout := false |} (tasks s)) s)) with (block me (TPoll i k t)).
  eapply htH_bind; [apply htH_gsess|]. intros ss Hs.
  destruct (if tout && q_timeout_wins (c_quirks cfg) then [] else s_q ss) as [|x r]; fh_go.
Qed.
Hint Resolve fh_poll_attempt : fh.
Lemma fh_poll_start me K i k : htH me K (poll_start cfg me i k) TT.  Proof. unfold poll_start. fh_go. Qed.
Hint Resolve fh_poll_start : fh.
Lemma fh_ws_send_all me K c l : htH me K (ws_send_all c l) TT.
Proof. induction l as [|p r IH]; cbn [ws_send_all]; fh_go; try exact IH. Qed.
Lemma fh_ws_close me K c : htH me K (ws_close c) TT.  Proof. unfold ws_close. fh_go. Qed.
Hint Resolve fh_ws_send_all fh_ws_close : fh.
Lemma fh_writer_exit me K c : htH me K (writer_exit me c) TT.  Proof. unfold writer_exit. fh_go. Qed.
Hint Resolve fh_writer_exit : fh.
Lemma fh_writer_loop me K fuel : forall i c rd first, htH me K (writer_loop cfg fuel me i c rd first) TT.
Proof. induction fuel as [|n IH]; intros i c rd first; destruct first as [| |[|p l]]; cbn [writer_loop]; fh_go; try apply IH. Qed.
Lemma fh_finish_get me K i r p : htH me K (finish_get cfg me i r p) TT.  Proof. unfold finish_get. fh_go. Qed.
Lemma fh_ping_fire me K i : htH me K (ping_fire cfg me i) TT.  Proof. unfold ping_fire. fh_go. Qed.
Lemma fh_check_ping_timeout me K i : htH me K (check_ping_timeout cfg i) TT.  Proof. unfold check_ping_timeout. fh_go. Qed.
Hint Resolve fh_writer_loop fh_finish_get fh_ping_fire fh_check_ping_timeout : fh.
Lemma fh_svc_continue me K fuel : forall rest interval, htH me K (svc_continue cfg fuel me rest interval) TT.
Proof. induction fuel as [|n IH]; intros rest interval; destruct rest as [|i r]; cbn [svc_continue]; fh_go; try apply IH. Qed.
Lemma fh_ws_take me K c : htH me K (ws_take c) TT.  Proof. unfold ws_take. fh_go. Qed.
Lemma fh_ws_block me K c k : htH me K (ws_block me c k) TT.  Proof. unfold ws_block. fh_go. Qed.
Hint Resolve fh_svc_continue fh_ws_take fh_ws_block : fh.
Lemma fh_ws_request_done me K i r x : htH me K (ws_request_done me i r x) TT.  Proof. unfold ws_request_done. fh_go. Qed.
Hint Resolve fh_ws_request_done : fh.
Lemma fh_ws_epilogue_end me K i r : htH me K (ws_epilogue_end cfg me i r) TT.  Proof. unfold ws_epilogue_end. fh_go. Qed.
Hint Resolve fh_ws_epilogue_end : fh.
Lemma fh_ws_epilogue me K i r c w fresh : htH me K (ws_epilogue cfg me i r c w fresh) TT.  Proof. unfold ws_epilogue. fh_go. Qed.
Hint Resolve fh_ws_epilogue : fh.
Lemma fh_ws_read_loop me K fuel : forall i r c w fresh, htH me K (ws_read_loop cfg fuel me i r c w fresh) TT.
Proof. induction fuel as [|n IH]; intros i r c w fresh; cbn [ws_read_loop]; fh_go; try apply IH. Qed.
Hint Resolve fh_ws_read_loop : fh.
Lemma fh_ws_steady me K i r c fresh : htH me K (ws_steady cfg me i r c fresh) TT.  Proof. unfold ws_steady. fh_go. Qed.
Lemma fh_upgrade_fail me K i r x : htH me K (upgrade_fail me i r x) TT.  Proof. unfold upgrade_fail. fh_go. Qed.
Hint Resolve fh_ws_steady fh_upgrade_fail : fh.
Lemma fh_ws_upgr me K i r c : htH me K (ws_upgr cfg me i r c) TT.  Proof. unfold ws_upgr. fh_go. Qed.
Hint Resolve fh_ws_upgr : fh.
Lemma fh_ws_probe me K i r c : htH me K (ws_probe cfg me i r c) TT.  Proof. unfold ws_probe. fh_go. Qed.
Hint Resolve fh_ws_probe : fh.
Lemma fh_disc_seq me K fuel : forall a l, htH me K (disc_seq cfg fuel me a l) TT.
Proof. induction fuel as [|n IH]; intros a l; destruct l as [|i r]; cbn [disc_seq]; fh_go; try apply IH. Qed.
Lemma fh_spawn_closers me K p l : htH me K (spawn_closers p l) TT.
Proof. induction l as [|i r IH]; cbn [spawn_closers]; fh_go; try exact IH. Qed.
Lemma fh_answer me K r x : htH me K (answer me r x) TT.  Proof. unfold answer. fh_go. Qed.
Lemma fh_lookup_view me K q : htH me K (lookup_view cfg q) TT.
Proof. unfold lookup_view. destruct (decide_early cfg q); [apply htH_ret; exact I|]. destruct (r_sid q) as [[i|]|]; try (apply htH_ret; exact I). fh_go. Qed.
Hint Resolve fh_disc_seq fh_spawn_closers fh_answer fh_lookup_view : fh.
Lemma fh_run_api me K a x : htH me K (run_api cfg me a x) TT.
Proof. destruct x as [ref m|[ref|]|ref|ref|ref u]; cbn [run_api]; fh_go. Qed.
Lemma fh_ws_begin me K j r c : htH me K (ws_begin cfg me j r c) TT.  Proof. unfold ws_begin. fh_go. Qed.
Hint Resolve fh_ws_begin : fh.
Lemma fh_hc_pre me K : htH me K hc_pre TT.  Proof. unfold hc_pre. fh_go. Qed.
Lemma fh_hc_rest me K r q i : htH me K (hc_rest cfg me r q i) TT.  Proof. unfold hc_rest. fh_go. Qed.
Definition starts (k : task) : bool := match k with TPingStart _ => true | _ => false end.
Lemma fh_run_task me K e : starts (t_task e) = false -> htH me K (run_task cfg me e) TT.
Proof.
  intros NS. unfold run_task.
  destruct (t_task e) as [i [r|c rd] t | i c rd | r i c | r i c | r i c w t fresh | r i c w fresh | i k | i | i t | | t | rest iv t | i payload a | i parent | a pend sids]; try discriminate; fh_go.
Qed.

(* ---- the invariant ---- *)
Definition hb_for (i : sid) (bound : Z) (k : task) : bool :=
  match k with TPingStart j => N.eqb i j | TPing j tm => N.eqb i j && Z.leb (fst tm) bound | _ => false end.
Definition HBat (s : st) (i : sid) : Prop :=
  okp (cur i s) = true \/ exists t k, entk s t = Some k /\ hb_for i (now s + c_interval cfg) k = true.
Definition HB (s : st) : Prop := forall i, alookup i (store s) <> None -> HBat s i.
Definition Kh (s : st) : hsnap := {| hp := fun j => okp (cur j s); hn := now s |}.
Lemma FH_start s : FH (Kh s) s.  Proof. split; cbn; auto. Qed.
Lemma hb_mono i b b' k : (b <= b')%Z -> hb_for i b k = true -> hb_for i b' k = true.
Proof.
  intros L. destruct k; cbn; auto. intros H. apply andb_true_iff in H. destruct H as [H1 H2]. rewrite H1. cbn. apply Z.leb_le in H2. apply Z.leb_le. lia.
Qed.
Definition hplain (s : st) (me : tid) : Prop := forall i b k, entk s me = Some k -> hb_for i b k = false.

Lemma step_hbat {A} me (m : M A) s i extra :
  Good s -> me < ntid s -> htF me (U0 s extra) (K0 s) m TT -> (forall K, htH me K m TT) ->
  HBat s i ->
  (forall k, entk s me = Some k -> hb_for i (now s + c_interval cfg) k = true -> HBat (stof (m s)) i) ->
  HBat (stof (m s)) i.
Proof.
  intros G L HF HH [OK|(t & k & E & H)] HM.
  - left. destruct (HH (Kh s) s (FH_start s)) as [[F1 _] _]. apply F1. exact OK.
  - destruct (N.eq_dec t me) as [->|N]; [exact (HM k E H)|]. right. exists t, k.
    destruct (HF s (FR_start me s extra G L)) as [F' _].
    destruct (HH (Kh s) s (FH_start s)) as [[_ F2] _]. cbn in F2. rewrite F2. split; [apply (fr_tasks _ _ _ _ F' t k N); exact E | exact H].
Qed.

Lemma step_hb {A} me (m : M A) s extra :
  Good s -> HB s -> me < ntid s -> htF me (U0 s extra) (K0 s) m TT -> (forall K, htH me K m TT) -> ns m ->
  (forall i k, entk s me = Some k -> hb_for i (now s + c_interval cfg) k = true -> alookup i (store s) <> None -> HBat (stof (m s)) i) ->
  HB (stof (m s)).
Proof.
  intros G B L HF HH HN HM i EX.
  destruct (HF s (FR_start me s extra G L)) as [F' _].
  assert (EX0 : alookup i (store s) <> None) by (apply (g_all _ G); rewrite <- (HN s); apply (fr_ids _ _ _ _ F'); exact EX).
  apply (step_hbat me m s i extra); auto. intros k E H. apply (HM i k E H EX0).
Qed.

Lemma stof_upd i f s : stof (upd i f s) = stof (psess i (f (cur i s)) s).
Proof. unfold upd. rewrite stof_bind. reflexivity. Qed.

(* the task that re-arms the heartbeat becomes the task that will send the next PING, due exactly ping_interval from now *)
Lemma ping_start_hb me e i s : Good s -> HB s -> alookup me (tasks s) = Some e -> t_task e = TPingStart i -> HB (stof (run_task cfg me e s)).
Proof.
  intros G B L TK. unfold run_task. rewrite TK. rewrite stof_bind, stof_upd.
  set (s1 := stof (psess i (w_lastp None (cur i s)) s)).
  assert (T1 : tasks s1 = tasks s /\ now s1 = now s) by (unfold s1, psess, modst, stof; cbn; destruct (alookup i (store s)); auto). destruct T1 as [T1 N1].
  assert (C1 : forall j, j <> i -> cur j s1 = cur j s) by (intros j NE; unfold s1; apply cur_psess_other; exact NE).
  assert (K1 : forall j, alookup j (store s1) <> None -> alookup j (store s) <> None) by (intros j; unfold s1; apply (proj1 (psess_keys i _ s j))).
  clearbody s1.
  rewrite stof_bind. unfold new_timer at 2. unfold valof at 1. cbn [fst snd]. unfold new_timer, stof at 2. cbn [fst snd].
  unfold block, modst, stof. cbn [fst snd].
  intros j EX. cbn in EX. apply K1 in EX.
  destruct (N.eq_dec j i) as [->|NE].
  - right. exists me, (TPing i (now s1 + c_interval cfg, tseq s1)%Z). split; [unfold entk; cbn; rewrite alookup_aset_same; reflexivity|].
    cbn. rewrite N.eqb_refl. cbn. apply Z.leb_le. lia.
  - destruct (B j EX) as [OK|(t & k & E & H)].
    + left. unfold cur. cbn. fold (cur j s1). rewrite C1 by exact NE. exact OK.
    + right. destruct (N.eq_dec t me) as [->|NT].
      * exfalso. unfold entk in E. rewrite L, TK in E. injection E as <-. cbn in H. apply N.eqb_eq in H. contradiction.
      * exists t, k. split; [unfold entk; cbn; rewrite alookup_aset_other by exact NT; rewrite T1; exact E | cbn; rewrite N1; exact H].
Qed.

Lemma fh_keep {A} me i (m : M A) s : (forall K, htH me K m TT) -> okp (cur i s) = true -> okp (cur i (stof (m s))) = true.
Proof. intros HH O. refine (fh_ok _ _ (proj1 (HH (Kh s) s (FH_start s))) i _). exact O. Qed.
Lemma fh_now_same {A} me (m : M A) s : (forall K, htH me K m TT) -> now (stof (m s)) = now s.
Proof. intros HH. exact (fh_now _ _ (proj1 (HH (Kh s) s (FH_start s)))). Qed.
Lemma ping_fire_okp me i s : alookup i (store s) <> None -> okp (cur i (stof (ping_fire cfg me i s))) = true.
Proof.
  intros EX. unfold ping_fire. rewrite stof_bind. change (stof (gsess i s)) with s. change (valof (gsess i s)) with (cur i s). cbv beta.
  destruct (s_closing (cur i s) || s_closed (cur i s)) eqn:D.
  - apply (fh_keep me); [intros K; fh_go|]. unfold okp. rewrite D. reflexivity.
  - rewrite stof_bind. apply (fh_keep me); [intros K; fh_go|].
    rewrite stof_getst_bind. rewrite stof_bind, stof_upd. apply (fh_keep me); [intros K; fh_go|].
    rewrite cur_psess_same. destruct (alookup i (store s)); [|contradiction]. unfold okp. cbn. apply orb_true_r.
Qed.

Lemma run_task_hb me e s : Good s -> HB s -> alookup me (tasks s) = Some e -> HB (stof (run_task cfg me e s)).
Proof.
  intros G B L. destruct (starts (t_task e)) eqn:NS.
  - destruct (t_task e) eqn:TK; try discriminate. eapply ping_start_hb; eassumption.
  - assert (E : entk s me = Some (t_task e)) by (apply entk_in; exact L).
    apply (step_hb me _ s noextra); auto.
    + exact (g_fresh _ G me _ E).
    + apply fr_run_task.
    + intros K. apply fh_run_task. exact NS.
    + apply ns_run_task.
    + intros i k E' H EX. assert (k = t_task e) by congruence. subst k. left.
      unfold run_task. destruct (t_task e) eqn:TK; try discriminate. cbn in H. apply andb_true_iff in H. destruct H as [H _]. apply N.eqb_eq in H. subst. apply ping_fire_okp. exact EX.
Qed.
Lemma run_task_now me e s : now (stof (run_task cfg me e s)) = now s.
Proof.
  destruct (starts (t_task e)) eqn:NS.
  - unfold run_task. destruct (t_task e) eqn:TK; try discriminate. rewrite stof_bind, stof_upd, stof_bind.
    unfold block, modst, new_timer, stof, valof. cbn. unfold psess, modst. cbn. destruct (alookup s0 (store s)); reflexivity.
  - apply (fh_now_same me). intros K. apply fh_run_task. exact NS.
Qed.

(* ---- composition ---- *)
Definition GH (s : st) : Prop := Good s /\ HB s.
Definition pgh {A} (m : M A) : Prop := forall s, GH s -> GH (stof (m s)).
Lemma pgh_bind {A B} (m : M A) (f : A -> M B) : pgh m -> (forall a, pgh (f a)) -> pgh (bind m f).
Proof. intros Hm Hf s G. rewrite stof_bind. apply Hf, Hm, G. Qed.
Lemma pgh_ret {A} (a : A) : pgh (ret a).  Proof. intros s G. exact G. Qed.
Lemma HB_same s s' : HB s -> store s' = store s -> (forall t, entk s' t = entk s t) -> (now s <= now s')%Z -> HB s'.
Proof.
  intros B E1 E2 LE i EX. rewrite E1 in EX. destruct (B i EX) as [OK|(t & k & E & H)].
  - left. unfold cur. rewrite E1. exact OK.
  - right. exists t, k. split; [rewrite E2; exact E | eapply hb_mono; [|exact H]; lia].
Qed.
Lemma pgh_same {A} (m : M A) : (forall s, store (stof (m s)) = store s /\ table (stof (m s)) = table s /\ ntid (stof (m s)) = ntid s /\ nsid (stof (m s)) = nsid s /\ tasks (stof (m s)) = tasks s /\ now (stof (m s)) = now s) -> pgh m.
Proof.
  intros H s [G B]. destruct (H s) as (E1 & E2 & E3 & E4 & E5 & E6).
  assert (EK : forall t, entk (stof (m s)) t = entk s t) by (intros t; unfold entk; rewrite E5; reflexivity).
  split; [eapply Good_same; eassumption | eapply HB_same; [exact B | exact E1 | exact EK | lia]].
Qed.
Lemma pgh_getst_dep {B} (f : st -> M B) : (forall s, GH s -> GH (stof (f s s))) -> pgh (bind getst f).
Proof. intros H s G. rewrite stof_getst_bind. apply H, G. Qed.
Lemma pgh_emit o : pgh (emit o).  Proof. apply pgh_same. intros s. cbn. auto 7. Qed.
Lemma pgh_pconn c x : pgh (pconn c x).  Proof. apply pgh_same. intros s. cbn. auto 7. Qed.
Lemma pgh_wake t : pgh (wake t).
Proof. apply pgh_same. intros s. unfold wake, modst, stof. cbn. destruct (alookup t (tasks s)); [destruct (nmem t (runq s))|]; cbn; auto 7. Qed.
Lemma entk_fire t s u : entk (stof (fire t s)) u = entk s u /\ store (stof (fire t s)) = store s /\ now (stof (fire t s)) = now s.
Proof.
  unfold fire. rewrite stof_bind. set (s1 := stof (modst _ s)).
  assert (X : entk s1 u = entk s u /\ store s1 = store s /\ now s1 = now s).
  { unfold s1, modst, stof. cbn [fst snd]. destruct (alookup t (tasks s)) as [e|] eqn:L; [|auto]. cbn. split; [|auto].
    unfold entk. cbn. destruct (N.eq_dec u t) as [->|N]; [rewrite alookup_aset_same, L; reflexivity | rewrite alookup_aset_other by exact N; reflexivity]. }
  destruct X as (X1 & X2 & X3). clearbody s1.
  unfold wake, modst, stof. cbn. unfold entk in *. destruct (alookup t (tasks s1)); [destruct (nmem t (runq s1))|]; cbn; auto.
Qed.
Lemma pgh_fire t : pgh (fire t).
Proof.
  intros s [G B]. split; [apply pg_fire; exact G|]. destruct (entk_fire t s 0) as (_ & E1 & E2).
  eapply HB_same; [exact B | exact E1 | intros u; apply (entk_fire t s u) | lia].
Qed.
Lemma pgh_fire_all l : pgh (fire_all l).
Proof. induction l as [|[t n] r IH]; cbn [fire_all]; [apply pgh_ret | apply pgh_bind; [apply pgh_fire | intros ?; exact IH]]. Qed.

Lemma settle_hb fuel : forall choices, pgh (settle cfg fuel choices).
Proof.
  induction fuel as [|f IH]; intros choices s G; cbn [settle]; rewrite stof_getst_bind.
  - destruct (runq s); [exact G | apply pgh_emit; exact G].
  - destruct (match choices with [] => (O, []) | c :: r => (c, r) end) as [k cs].
    destruct (nth_remove k (runq s)) as [[t rq]|]; [|exact G].
    rewrite stof_bind. set (s1 := stof (modst (set_runq rq) s)).
    assert (G1 : GH s1) by (apply (pgh_same (modst (set_runq rq))); [intros s0; cbn; auto 7 | exact G]).
    assert (L1 : tasks s1 = tasks s) by reflexivity. clearbody s1.
    destruct (alookup t (tasks s)) as [e|] eqn:L; [|apply IH; exact G1].
    rewrite stof_bind. apply IH. rewrite <- L1 in L. destruct G1 as [G1 B1]. split; [apply run_task_good; assumption | apply run_task_hb; assumption].
Qed.
Lemma settle_now fuel : forall choices s, now (stof (settle cfg fuel choices s)) = now s.
Proof.
  induction fuel as [|f IH]; intros choices s; cbn [settle]; rewrite stof_getst_bind.
  - destruct (runq s); reflexivity.
  - destruct (match choices with [] => (O, []) | c :: r => (c, r) end) as [k cs].
    destruct (nth_remove k (runq s)) as [[t rq]|]; [|reflexivity].
    rewrite stof_bind. set (s1 := stof (modst (set_runq rq) s)). assert (N1 : now s1 = now s) by reflexivity. clearbody s1.
    destruct (alookup t (tasks s)) as [e|]; [|rewrite IH; exact N1].
    rewrite stof_bind, IH, run_task_now. exact N1.
Qed.

Lemma set_now_gh s t : GH s -> (now s <= t)%Z -> GH (set_now t s).
Proof.
  intros [G B] LE. split.
  - eapply Good_same; [exact G | reflexivity..| intros; reflexivity].
  - apply (HB_same s); [exact B | reflexivity | intros; reflexivity | exact LE].
Qed.
Lemma fire_all_now l : forall s, now (stof (fire_all l s)) = now s.
Proof.
  induction l as [|[t n] r IH]; intros s; cbn [fire_all]; [reflexivity|]. rewrite stof_bind, IH. apply (entk_fire t s 0).
Qed.
Lemma advance_hb fuel target : forall s, GH s -> (now s <= target)%Z -> GH (stof (advance cfg fuel target s)).
Proof.
  induction fuel as [|f IH]; intros s G LE; cbn [advance]; [apply pgh_emit; exact G|].
  rewrite stof_bind. pose proof (settle_hb SETTLE_FUEL [] s G) as G1. pose proof (settle_now SETTLE_FUEL [] s) as N1.
  set (s1 := stof (settle cfg SETTLE_FUEL [] s)) in *. clearbody s1. rewrite stof_getst_bind.
  destruct (next_timer (tasks s1) None) as [[t tm]|]; [|apply set_now_gh; [exact G1 | lia]].
  destruct (Z.leb (fst tm) target) eqn:LT; [|apply set_now_gh; [exact G1 | lia]]. apply Z.leb_le in LT.
  rewrite stof_bind. change (stof (modst (fun s0 => set_now (Z.max (now s0) (fst tm)) s0) s1)) with (set_now (Z.max (now s1) (fst tm)) s1).
  assert (G2 : GH (set_now (Z.max (now s1) (fst tm)) s1)) by (apply set_now_gh; [exact G1 | lia]).
  assert (N2 : (now (set_now (Z.max (now s1) (fst tm)) s1) <= target)%Z) by (cbn; lia).
  set (s2 := set_now (Z.max (now s1) (fst tm)) s1) in *. clearbody s2.
  rewrite stof_bind. apply IH.
  - destruct (q_batch_timers (c_quirks cfg)); [|apply pgh_fire; exact G2].
    rewrite stof_bind. apply pgh_fire_all. destruct (due_at (fst tm) (tasks s1) []) as [|x [|y l]]; exact G2.
  - destruct (q_batch_timers (c_quirks cfg)); [|rewrite (proj2 (proj2 (entk_fire t s2 0))); exact N2].
    rewrite stof_bind, fire_all_now. destruct (due_at (fst tm) (tasks s1) []) as [|x [|y l]]; exact N2.
Qed.

(* ---- requests and API calls ---- *)
Ltac ns_step :=
  match goal with
  | |- ns (ret _) => apply ns_ret
  | |- ns (bind _ _) => apply ns_bind; [|intros ?]
  | |- ns (modst _) => apply ns_modst; intros ?; reflexivity
  | |- ns (psess _ _) => apply ns_psess
  | |- ns (wake _) => apply ns_wake
  | |- ns (if ?b then _ else _) => destruct b
  | |- ns (match ?x with _ => _ end) => destruct x
  | |- ns _ => first [ solve [intros ?; reflexivity] | solve [eauto with nsdb] ]
  end.
Ltac ns_go := repeat ns_step.
Hint Resolve fr_close_nowait fr_sock_send fr_get_socket fr_srv_send fr_close_wait fr_receive fr_receive_all fr_refuse_and_end fr_reap_if_closed
  fr_poll_start fr_finish_get fr_answer fr_lookup_view : fr.
Hint Resolve ns_answer ns_finish_get ns_finish ns_block ns_spawn ns_q_put ns_q_task_done ns_upd ns_wake_all ns_del_table : nsdb.
Hint Resolve ns_close_nowait ns_sock_send ns_get_socket ns_srv_send ns_close_wait ns_receive ns_receive_all ns_refuse_and_end ns_reap_if_closed ns_poll_start : nsdb.
Lemma add_task_gh s : GH s -> GH (add_task s) /\ ntid s < ntid (add_task s) /\ plain (add_task s) (ntid s) /\ hplain (add_task s) (ntid s).
Proof.
  intros [G B]. destruct (Good_add s G) as (G1 & L1 & P1). split; [split; [exact G1|] | split; [exact L1 | split; [exact P1|]]].
  - intros i EX. destruct (B i EX) as [OK|(t & k & E & H)]; [left; exact OK|]. right. exists t, k. split; [|exact H].
    pose proof (g_fresh _ G t k E) as LT. unfold entk, add_task. cbn. rewrite alookup_aset_other by lia. exact E.
  - intros i b k. unfold entk, add_task. cbn. rewrite alookup_aset_same. intros X. injection X as <-. reflexivity.
Qed.
Lemma neutral_hb {A} me (m : M A) s extra :
  Good s -> HB s -> me < ntid s -> hplain s me -> htF me (U0 s extra) (K0 s) m TT -> (forall K, htH me K m TT) -> ns m -> HB (stof (m s)).
Proof. intros G B L HP HF HH HN. apply (step_hb me m s extra); auto. intros i k E H. rewrite (HP i _ k E) in H. discriminate. Qed.

Lemma FR_resnap me U K s extra : FR me U K s -> FR me (U0 s extra) (K0 s) s.
Proof.
  intros [F1 F2 FX F3 F4 F5 F6 F7 F8]. split; try assumption.
  - intros i X. unfold U0. fold (upg i s) in X. rewrite X. reflexivity.
  - intros t k _ X. exact X.
  - intros i X. cbn in X. destruct (alookup i (store s)); discriminate.
  - intros j X. unfold U0. apply N.leb_le in X. rewrite X, orb_true_r. reflexivity.
Qed.

Lemma hc_hb_new me r q s : Good s -> me < ntid s -> HBat (stof (handle_connect cfg me r q s)) (nsid s).
Proof.
  intros G L. rewrite hc_split.
  pose proof (FR_start me s noextra G L) as F0.
  pose proof (proj1 (fr_hc_pre me _ _ s F0)) as F2. pose proof (ns_hc_pre s) as N2. set (s2 := stof (hc_pre s)) in *. clearbody s2.
  pose proof (proj1 (fr_new_session me _ _ s2 F2)) as F3.
  assert (V : valof (new_session s2) = nsid s2) by reflexivity. rewrite V, N2. set (i := nsid s) in *.
  set (s3 := stof (new_session s2)) in *. clearbody s3.
  unfold hc_rest. rewrite stof_bind. pose proof (proj1 (htF_emit me _ _ (ONewSession r i) s3 F3)) as F4. set (s4 := stof (emit (ONewSession r i) s3)) in *. clearbody s4.
  rewrite stof_bind. pose proof (proj1 (fr_sock_send cfg me _ _ i SOpen s4 F4)) as F5. set (s5 := stof (sock_send cfg i SOpen s4)) in *. clearbody s5.
  rewrite stof_bind. pose proof (proj1 (htF_spawn me _ _ (TPingStart i) s5 F5)) as F6.
  assert (E6 : entk (stof (spawn (TPingStart i) s5)) (ntid s5) = Some (TPingStart i)) by (unfold entk, spawn, stof; cbn; rewrite alookup_aset_same; reflexivity).
  pose proof (fr_me _ _ _ _ F5) as L5.
  set (s6 := stof (spawn (TPingStart i) s5)) in *. clearbody s6.
  pose proof (FR_resnap me _ _ s6 (fun j => N.eqb j i) F6) as F6'.
  assert (UI : U0 s6 (fun j => N.eqb j i) i = true) by (unfold U0; rewrite N.eqb_refl, orb_true_r; reflexivity).
  match goal with |- HBat (stof (?m s6)) _ => assert (HT : htF me (U0 s6 (fun j => N.eqb j i)) (K0 s6) m TT) by (fr_go; try (apply fr_ws_begin; exact UI)); pose proof (proj1 (HT s6 F6')) as F7 end.
  right. exists (ntid s5), (TPingStart i). split; [|cbn; apply N.eqb_refl].
  apply (fr_tasks _ _ _ _ F7); [lia | exact E6].
Qed.

Lemma hc_now me r q s : now (stof (handle_connect cfg me r q s)) = now s.
Proof.
  rewrite hc_split. rewrite (fh_now_same me); [|intros K; apply fh_hc_rest].
  pose proof (fh_now_same me hc_pre s (fun K => fh_hc_pre me K)) as N2. set (s2 := stof (hc_pre s)) in *. clearbody s2. exact N2.
Qed.
Lemma hc_okp me r q s i : i < nsid s -> okp (cur i s) = true -> okp (cur i (stof (handle_connect cfg me r q s))) = true.
Proof.
  intros LT O. rewrite hc_split. apply (fh_keep me); [intros K; apply fh_hc_rest|].
  pose proof (fh_keep me i hc_pre s (fun K => fh_hc_pre me K) O) as O2. pose proof (ns_hc_pre s) as N2. set (s2 := stof (hc_pre s)) in *. clearbody s2.
  unfold new_session, stof, cur. cbn. rewrite alookup_aset_other by lia. exact O2.
Qed.

Lemma connect_hb me r q s : Good s -> HB s -> me < ntid s -> plain s me -> hplain s me -> HB (stof (handle_connect cfg me r q s)).
Proof.
  intros G B L P HP i EX.
  pose proof (connect_request_good cfg me r q s G L P) as G'.
  pose proof (g_ids _ G' i EX) as LT. rewrite hc_nsid in LT.
  destruct (N.eq_dec i (nsid s)) as [->|NE]; [apply hc_hb_new; assumption|].
  assert (LT0 : i < nsid s) by lia.
  destruct (B i (g_all _ G i LT0)) as [OK|(t & k & E & H)].
  - left. apply hc_okp; assumption.
  - right. exists t, k. rewrite hc_now. split; [|exact H].
    destruct (fr_handle_connect cfg me _ _ r q s (FR_start me s noextra G L)) as [F' _].
    apply (fr_tasks _ _ _ _ F' t k); [|exact E]. intros ->. rewrite (HP i _ k E) in H. discriminate.
Qed.

Lemma request_gh me r q s : GH s -> me < ntid s -> plain s me -> hplain s me -> GH (stof (handle_request cfg me r q s)).
Proof.
  intros [G B] L P HP. split; [apply request_good; assumption|].
  unfold handle_request. rewrite stof_bind.
  destruct (sm_lookup_view cfg q s) as (E1 & E2 & E3 & E4 & E5).
  pose proof (fh_now_same me (lookup_view cfg q) s (fun K => fh_lookup_view me K q)) as E6.
  assert (G1 : Good (stof (lookup_view cfg q s))) by (eapply Good_sub; eassumption).
  assert (EK : forall t, entk (stof (lookup_view cfg q s)) t = entk s t) by (intros t; unfold entk; rewrite E2; reflexivity).
  assert (B1 : HB (stof (lookup_view cfg q s))) by (eapply HB_same; [exact B | exact E1 | exact EK | lia]).
  assert (L1 : me < ntid (stof (lookup_view cfg q s))) by (rewrite E3; exact L).
  assert (P1 : plain (stof (lookup_view cfg q s)) me) by (intros j k; rewrite EK; apply P).
  assert (HP1 : hplain (stof (lookup_view cfg q s)) me) by (intros j b k; rewrite EK; apply HP).
  set (s1 := stof (lookup_view cfg q s)) in *. clearbody s1. set (v := valof (lookup_view cfg q s)). clearbody v.
  destruct (decide cfg q v) as [x| | |i|i|i|i].
  - apply (neutral_hb me _ s1 noextra); auto. fr_go. intros K; fh_go. ns_go.
  - apply (neutral_hb me _ s1 noextra); auto. fr_go. intros K; fh_go. ns_go.
  - apply connect_hb; assumption.
  - apply (neutral_hb me _ s1 (fun j => N.eqb j i)); auto.
    + destruct (r_conn q); [apply fr_ws_begin; unfold U0; rewrite N.eqb_refl, orb_true_r; reflexivity | apply htF_emit].
    + intros K; fh_go.
    + destruct (r_conn q); [apply ns_ws_begin | ns_go].
  - apply (neutral_hb me _ s1 noextra); auto. fr_go. intros K; fh_go. ns_go.
  - apply (neutral_hb me _ s1 noextra); auto. fr_go. intros K; fh_go. ns_go.
  - apply (neutral_hb me _ s1 noextra); auto. fr_go. intros K; fh_go. ns_go.
Qed.

Lemma run_api_gh me a x s : GH s -> me < ntid s -> plain s me -> hplain s me -> GH (stof (run_api cfg me a x s)).
Proof.
  intros [G B] L P HP. split; [apply run_api_good; assumption|].
  apply (neutral_hb me _ s noextra); auto. apply fr_run_api. intros K; apply fh_run_api. apply ns_run_api.
Qed.

Lemma cancel_gh w i r k s : GH s -> entk s w = Some k -> hs_for i k = true -> (forall j, hs_for j k = true -> j = i) ->
  GH (stof (upgrade_fail w i r RRaised s)).
Proof.
  intros [G B] E H UQ. split; [eapply cancel_good; eassumption|].
  apply (neutral_hb w _ s noextra); auto.
  - exact (g_fresh _ G w k E).
  - intros j b k' E'. assert (k' = k) by congruence. subst k'. destruct k; cbn in H; try discriminate; reflexivity.
  - apply fr_upgrade_fail.
  - intros K. apply fh_upgrade_fail.
  - apply ns_upgrade_fail.
Qed.

Definition forward (o : op) : Prop := match o with OpAdvance dt => (0 <= dt)%Z | _ => True end.

Theorem apply_op_gh o ch s : forward o -> GH s -> GH (stof (apply_op cfg o ch s)).
Proof.
  intros FW. revert s. destruct o as [r q|c f|c|a x|c|r|dt]; cbn [apply_op].
  - apply pgh_bind; [destruct (r_conn q); [apply pgh_pconn | apply pgh_ret]|]. intros _. apply pgh_getst_dep. intros s G.
    destruct (add_task_gh s G) as (G1 & L1 & P1 & HP1). rewrite stof_bind. change (stof (modst _ s)) with (add_task s). rewrite stof_bind.
    apply settle_hb. apply request_gh; assumption.
  - apply pgh_bind; [apply pgh_same; intros s; cbn; auto 7|]. intros k. apply pgh_bind; [apply pgh_pconn|]. intros _. apply pgh_bind; [destruct (k_waiter k); [apply pgh_wake | apply pgh_ret]|]. intros _. apply settle_hb.
  - apply pgh_bind; [apply pgh_same; intros s; cbn; auto 7|]. intros k. apply pgh_bind; [apply pgh_pconn|]. intros _. apply pgh_bind; [destruct (k_waiter k); [apply pgh_wake | apply pgh_ret]|]. intros _. apply settle_hb.
  - apply pgh_getst_dep. intros s G.
    destruct (add_task_gh s G) as (G1 & L1 & P1 & HP1). rewrite stof_bind. change (stof (modst _ s)) with (add_task s). rewrite stof_bind.
    apply settle_hb. apply run_api_gh; assumption.
  - apply pgh_bind; [apply pgh_same; intros s; cbn; auto 7|]. intros k. destruct (k_waiter k) as [w|]; [|apply pgh_ret]. apply pgh_getst_dep. intros s G.
    destruct (alookup w (tasks s)) as [e|] eqn:L; [|exact G].
    assert (E : entk s w = Some (t_task e)) by (apply entk_in; exact L).
    destruct (t_task e) as [i0 [r0|c0 rd0] t0 | i0 c0 rd0 | r0 i0 c0 | r0 i0 c0 | r0 i0 c0 w0 t0 fresh0 | r0 i0 c0 w0 fresh0 | i0 k0 | i0 | i0 t0 | | t0 | rest0 iv0 t0 | i0 payload0 a0 | i0 parent0 | a0 pend0 sids0] eqn:TK; try exact G.
    + rewrite stof_bind. rewrite stof_bind. apply settle_hb.
      set (s1 := stof (pconn c _ s)). assert (G1 : GH s1) by (apply pgh_pconn; exact G). assert (E1 : entk s1 w = Some (TWsProbe r0 i0 c0)) by exact E.
      eapply cancel_gh; [exact G1 | exact E1 | cbn; apply N.eqb_refl | cbn; intros j X; apply N.eqb_eq in X; exact X].
    + rewrite stof_bind. rewrite stof_bind. apply settle_hb.
      set (s1 := stof (pconn c _ s)). assert (G1 : GH s1) by (apply pgh_pconn; exact G). assert (E1 : entk s1 w = Some (TWsUpgr r0 i0 c0)) by exact E.
      eapply cancel_gh; [exact G1 | exact E1 | cbn; apply N.eqb_refl | cbn; intros j X; apply N.eqb_eq in X; exact X].
  - destruct (q_timeout_wins (c_quirks cfg)); [|apply pgh_ret]. apply pgh_getst_dep. intros s G.
    destruct (find _ (tasks s)) as [[t e]|]; [|exact G]. rewrite stof_bind. apply settle_hb. apply pgh_fire. exact G.
  - apply pgh_getst_dep. intros s G. apply advance_hb; [exact G | cbn in FW; lia].
Qed.
End WithCfg.

(* ---- every reachable state, for every history in which the clock does not run backwards, and every schedule ---- *)
Lemma HB_init cfg : HB cfg (init cfg).
Proof. intros i X. exfalso. apply X. reflexivity. Qed.

Definition forward_history (ops : list (op * list nat)) : Prop := forall o ch, In (o, ch) ops -> forward o.

Theorem reachable_hb cfg ops : forward_history ops -> HB cfg (fst (run_sched cfg ops (init cfg) [])).
Proof.
  assert (H : forall ops s acc, forward_history ops -> GH cfg s -> GH cfg (fst (run_sched cfg ops s acc))).
  { induction ops0 as [|[o ch] r IH]; intros s acc FW G; cbn [run_sched]; [exact G|].
    pose proof (apply_op_gh cfg o ch s (FW o ch (or_introl eq_refl)) G) as P. unfold stof in P. destruct (apply_op cfg o ch s) as [[u s1] o1]. cbn in P. apply IH; [|exact P].
    intros o' ch' X. apply (FW o' ch'). right. exact X. }
  intros FW. apply (H ops (init cfg) [] FW). split; [apply Good_init | apply HB_init].
Qed.

Definition ping_pending (cfg : config) (s : st) (i : sid) : Prop :=
  exists t e, alookup t (tasks s) = Some e /\
    (t_task e = TPingStart i \/ exists tm, t_task e = TPing i tm /\ (fst tm <= now s + c_interval cfg)%Z).

Theorem heartbeat_never_stalls cfg ops : forward_history ops ->
  let s := fst (run_sched cfg ops (init cfg) []) in
  forall i ss, alookup i (store s) = Some ss -> s_closing ss = false -> s_closed ss = false ->
  (exists p, s_lastp ss = Some p) \/ ping_pending cfg s i.
Proof.
  intros FW s i ss L C1 C2. assert (EX : alookup i (store s) <> None) by (rewrite L; discriminate).
  destruct (reachable_hb cfg ops FW i EX) as [OK|(t & k & E & H)].
  - left. fold s in OK. unfold okp, cur in OK. rewrite L, C1, C2 in OK. cbn in OK. destruct (s_lastp ss) as [p|]; [exists p; reflexivity | discriminate].
  - right. fold s in E, H. unfold entk in E. destruct (alookup t (tasks s)) as [e|] eqn:LT; [|discriminate]. injection E as E. exists t, e. split; [exact LT|].
    destruct k; cbn in H; try discriminate.
    + apply N.eqb_eq in H. subst. left. exact E.
    + apply andb_true_iff in H. destruct H as [H1 H2]. apply N.eqb_eq in H1. apply Z.leb_le in H2. subst. right. exists t0. split; [exact E | exact H2].
Qed.

(* the statement is not vacuous: an open session waiting for its first PING, and the same session once the PING is outstanding *)
Example ex_waiting : let s := fst (run_sched ex_cfg [(OpReq 0 ex_open, [])] (init ex_cfg) []) in
  alookup 0 (store s) <> None /\ s_closing (cur 0 s) = false /\ s_closed (cur 0 s) = false /\ s_lastp (cur 0 s) = None /\
  exists t e, alookup t (tasks s) = Some e /\ t_task e = TPing 0 ((now s + c_interval ex_cfg)%Z, 1).
Proof. repeat split; try (vm_compute; congruence). exists 1, {| t_task := TPing 0 (1049600%Z, 1); t_tout := false |}. vm_compute. split; reflexivity. Qed.
Example ex_outstanding : let s := fst (run_sched ex_cfg [(OpReq 0 ex_open, []); (OpAdvance 25600, [])] (init ex_cfg) []) in
  s_closing (cur 0 s) = false /\ s_closed (cur 0 s) = false /\ s_lastp (cur 0 s) = Some (now s) /\ s_q (cur 0 s) = [QP SPing].
Proof. vm_compute. repeat split; reflexivity. Qed.
Example ex_forward : forward_history [(OpReq 0 ex_open, []); (OpAdvance 25600, [])].
Proof. intros o ch [X|[X|[]]]; injection X as <- <-; cbn; [exact I | discriminate]. Qed.
