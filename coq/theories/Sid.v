(* ---- Sid.v (model) ---- *)
From Coq Require Import ZArith NArith List Lia Bool.
Import ListNotations.
Open Scope N_scope.
Ltac Zify.zify_post_hook ::= Z.to_euclidean_division_equations.

(* --- base64 alphabet as code points, standard; then url-safe replacement as in generate_id --- *)
Definition b64char (s : N) : N :=
  if s <? 26 then 65 + s else if s <? 52 then 97 + (s - 26) else if s <? 62 then 48 + (s - 52)
  else if s =? 62 then 43 (* + *) else 47 (* / *).
Definition urlsafe (c : N) : N := if c =? 47 then 95 (* _ *) else if c =? 43 then 45 (* - *) else c.

Definition enc3 (a b c : N) : list N :=
  map b64char [a / 4; (a mod 4) * 16 + b / 16; (b mod 16) * 4 + c / 64; c mod 64].

(* b64encode for inputs whose length is a multiple of 3 (15 bytes here); other lengths -> padding, modelled elsewhere *)
Fixpoint b64_full (l : list N) : list N :=
  match l with
  | a :: b :: c :: r => enc3 a b c ++ b64_full r
  | _ => []
  end.

Definition be3 (n : N) : list N := [n / 65536; (n / 256) mod 256; n mod 256].

Definition generate_id (rnd : list N) (seqno : N) : list N := map urlsafe (b64_full (rnd ++ be3 seqno)).
Definition next_seq (seqno : N) : N := (seqno + 1) mod 16777216.

Definition is_byte (x : N) := x < 256.
Definition idchar (c : N) : bool :=
  ((65 <=? c) && (c <=? 90)) || ((97 <=? c) && (c <=? 122)) || ((48 <=? c) && (c <=? 57)) || (c =? 95) || (c =? 45).

