(* Local facts about the client model (C08, C09, C10): calls on a client that is not connected, the PONG echo, batching. *)
From Coq Require Import ZArith NArith List Bool Lia.
Import ListNotations.
From EIO Require Import Client.
Open Scope N_scope.

Definition outof {A} (r : A * st * list out) : list out := snd r.
Definition stof {A} (r : A * st * list out) : st := snd (fst r).

Definition connected (s : st) : bool := match state s with Connected => true | _ => false end.

(* send() on a client that is not connected is a no-op *)
Lemma send_not_connected p s : connected s = false -> send_packet p s = (tt, s, []).
Proof. unfold connected, send_packet, bind, getst. cbv beta iota. destruct (state s); [reflexivity | discriminate | reflexivity]. Qed.

(* disconnect() on a client that is not connected emits nothing and touches neither the queue nor the tasks nor the sockets: a
   disconnected client stays disconnected with no sid, and while another disconnect() is in progress nothing changes at all *)
Lemma disconnect_not_connected me abort r s : connected s = false ->
  let x := disconnect_core me abort r s in
  outof x = [] /\ queue (stof x) = queue s /\ tasks (stof x) = tasks s /\ conns (stof x) = conns s /\
  match state s with
  | Disconnecting => stof x = s
  | _ => state (stof x) = Disconnected /\ sid_set (stof x) = false
  end.
Proof. unfold connected, disconnect_core, bind, getst, reset, modst, outof, stof. cbv beta iota. destruct (state s) eqn:E; [|discriminate|]; cbn; rewrite ?E; auto 10. Qed.

(* a PING received while connected is answered by a PONG carrying the same data, queued behind everything already queued *)
Lemma ping_echo me d s : connected s = true ->
  queue (stof (receive_packet me (KPing d) s)) = queue s ++ [QP (CkPong d)] /\ outof (receive_packet me (KPing d) s) = [].
Proof.
  unfold connected. intros C. unfold receive_packet, send_packet, bind, getst. cbv beta iota. destruct (state s); try discriminate.
  unfold q_put, bind, getst, modst. cbv beta iota. unfold stof, outof.
  destruct (getter s) as [g|]; cbv beta iota; [|cbn; auto].
  unfold wake, modst. cbn. destruct (alookup g (tasks s)); [destruct (nmem g (runq s))|]; cbn; auto.
Qed.
(* ... and a PING received when not connected is ignored *)
Lemma ping_ignored_when_not_connected me d s : connected s = false -> receive_packet me (KPing d) s = (tt, s, []).
Proof. intros C. unfold receive_packet. apply send_not_connected. exact C. Qed.

(* NOOP and unexpected packet types change nothing *)
Lemma noop_and_unknown_ignored me s : receive_packet me KNoop s = (tt, s, []) /\ receive_packet me KOther s = (tt, s, []) /\
  receive_packet me KPongProbe s = (tt, s, []).
Proof. repeat split; reflexivity. Qed.

(* ---- batching of the write loop ---- *)
Definition pks (q : list qi) : list ck := flat_map (fun x => match x with QP p => [p] | QEnd => [] end) q.

Lemma take_batch_length n : forall q acc, (length (fst (take_batch n q acc)) <= length acc + n)%nat.
Proof.
  induction n as [|n IH]; intros q acc; [cbn; lia|].
  destruct q as [|[p|] r]; cbn [take_batch fst]; try lia. specialize (IH r (acc ++ [p])). rewrite app_length in IH. cbn in IH. lia.
Qed.

(* a batch never holds more packets than a server accepts *)
Lemma batch_bound p r : (length (fst (take_batch (pred BATCH) r [p])) <= BATCH)%nat.
Proof. pose proof (take_batch_length (pred BATCH) r [p]) as H. cbn [length] in H. unfold BATCH in *. cbn [pred] in *. lia. Qed.

(* nothing is lost, duplicated or reordered by batching: batch followed by what stays queued = what was there *)
Lemma take_batch_conserves n : forall q acc,
  fst (take_batch n q acc) ++ pks (snd (take_batch n q acc)) = acc ++ pks q \/
  (exists a b, q = a ++ QEnd :: b /\ fst (take_batch n q acc) ++ pks (snd (take_batch n q acc)) = acc ++ pks q).
Proof. left. revert q acc. induction n as [|n IH]; intros q acc; [reflexivity|].
  destruct q as [|[p|] r]; cbn [take_batch fst snd pks flat_map]; try reflexivity.
  rewrite IH. rewrite <- app_assoc. reflexivity.
Qed.
Lemma take_batch_order n q acc : fst (take_batch n q acc) ++ pks (snd (take_batch n q acc)) = acc ++ pks q.
Proof. destruct (take_batch_conserves n q acc) as [H | (a & b & _ & H)]; exact H. Qed.

(* ---- after the connection has ended nothing of a payload is handled any more (fix D29) ---- *)
Lemma receive_all_not_connected me l s : connected s = false -> receive_all me l s = (tt, s, []).
Proof.
  unfold connected. intros C. destruct l as [|p r]; [reflexivity|].
  cbn [receive_all]. unfold bind, getst. cbv beta iota. destruct (state s); [reflexivity | discriminate | reflexivity].
Qed.

