(* packet.py (and engineio/json.py's safe-int hook, as part of the `loads` oracle): the Engine.IO v4 packet codec.

   JSON itself is the Python standard library, not repository code: it is a Section variable (type J of JSON values
   with their kind, dumps, loads).  `digit` is Python's int() on a one-character string.  The theorems take the
   facts they need about these as hypotheses; for execution the correspondence harness instantiates them with tables
   of the real library's answers to exactly the queries the model makes. *)
From Coq Require Import NArith List Bool.
Import ListNotations.
From EIO Require Import Util Sid Base64.
Open Scope N_scope.

Definition text := list N.       (* code points *)
Definition bytes := list N.      (* each < 256 *)
Inductive wire := WText (t : text) | WBin (b : bytes).

Inductive kind := KNull | KBool | KInt | KFloat | KStr | KArr | KObj.
Definition int_like (k : kind) : bool := match k with KInt | KBool => true | _ => false end.   (* isinstance(x, int) *)

(* result of json.loads: a value; "not JSON" = ValueError (JSONDecodeError, over-long integer) or RecursionError (nesting too
   deep for the parser), both caught by Packet.decode since the fix of D20; or any other exception *)
Inductive lres (J : Type) := LVal (v : J) | LValueError | LOther.
Arguments LVal {J}. Arguments LValueError {J}. Arguments LOther {J}.

(* decimal numeral of a packet type, str(packet_type) *)
Fixpoint dec_fuel (fuel : nat) (n : N) (acc : text) : text :=
  match fuel with
  | O => acc
  | S f => if n <? 10 then (48 + n) :: acc else dec_fuel f (n / 10) ((48 + n mod 10) :: acc)
  end.
Definition str_N (n : N) : text := dec_fuel (S (N.size_nat n)) n [].

Definition MESSAGE : N := 4.

Section Codec.
  Variable J : Type.
  Variable jkind : J -> kind.
  Variable dumps : J -> text.            (* json.dumps(v, separators=(',', ':')) *)
  Variable loads : text -> lres J.       (* engineio.json.loads: json.loads with the 100-digit integer guard *)
  Variable digit : N -> option N.        (* int(c): Some value for a decimal digit character, None = ValueError *)

  Inductive pdata := DNone | DText (s : text) | DBin (b : bytes) | DJson (v : J).
  Record pkt := { ptype : N; pdat : pdata }.

  Definition is_bin (d : pdata) : bool := match d with DBin _ => true | _ => false end.

  (* Packet.__init__: binary data only for MESSAGE *)
  Definition mk_packet (ty : N) (d : pdata) : option pkt :=
    if is_bin d && negb (ty =? MESSAGE) then None else Some {| ptype := ty; pdat := d |}.

  (* what encode() computes when nothing is cached *)
  Definition encode_pure (b64 : bool) (p : pkt) : wire :=
    match pdat p with
    | DBin b => if b64 then WText (98 :: b64encode b) else WBin b
    | DNone => WText (str_N (ptype p))
    | DText s => WText (str_N (ptype p) ++ s)
    | DJson v => WText (str_N (ptype p) ++ dumps v)
    end.

  (* the packet object with its cache.  A cached value is used only when it is truthy (non-empty) and, since the
     fix of D1, only for non-binary packets, whose representation does not depend on the channel *)
  Record pobj := { o_pkt : pkt; o_cache : option wire }.
  Definition truthy (w : wire) : bool := match w with WText [] | WBin [] => false | _ => true end.
  Definition encode_obj (o : pobj) (b64 : bool) : wire * pobj :=
    match o_cache o with
    | Some w => if truthy w && negb (is_bin (pdat (o_pkt o))) then (w, o)
                else let w' := encode_pure b64 (o_pkt o) in (w', {| o_pkt := o_pkt o; o_cache := Some w' |})
    | None => let w' := encode_pure b64 (o_pkt o) in (w', {| o_pkt := o_pkt o; o_cache := Some w' |})
    end.
  Fixpoint encode_seq (o : pobj) (flags : list bool) : list wire :=
    match flags with [] => [] | f :: r => let '(w, o') := encode_obj o f in w :: encode_seq o' r end.

  (* the pre-fix behaviour (cache consulted whatever the packet kind), kept to state what was wrong *)
  Definition encode_obj_old (o : pobj) (b64 : bool) : wire * pobj :=
    match o_cache o with
    | Some w => if truthy w then (w, o)
                else let w' := encode_pure b64 (o_pkt o) in (w', {| o_pkt := o_pkt o; o_cache := Some w' |})
    | None => let w' := encode_pure b64 (o_pkt o) in (w', {| o_pkt := o_pkt o; o_cache := Some w' |})
    end.
  Fixpoint encode_seq_old (o : pobj) (flags : list bool) : list wire :=
    match flags with [] => [] | f :: r => let '(w, o') := encode_obj_old o f in w :: encode_seq_old o' r end.

  (* Packet.decode.  Result: (type, data, binary flag), or an exception *)
  Inductive dres := DOk (ty : N) (d : pdata) (binary : bool) | DErr.
  Definition decode (w : wire) : dres :=
    match w with
    | WBin b => DOk MESSAGE (DBin b) true
    | WText [] => DErr                                            (* 'Invalid empty packet received' *)
    | WText (c :: r) =>
      if c =? 98 then
        match b64decode r with Some b => DOk MESSAGE (DBin b) true | None => DErr end
      else match digit c with
        | None => DErr
        | Some ty =>
          match loads r with
          | LVal v => if int_like (jkind v) then DOk ty (DText r) false else DOk ty (DJson v) false
          | LValueError => DOk ty (DText r) false
          | LOther => DErr
          end
        end
    end.

  (* what a payload is expected to come back as *)
  Definition canon (d : pdata) : pdata :=
    match d with
    | DNone => DText []
    | DText s => match loads s with
                 | LVal v => if int_like (jkind v) then DText s else DJson v
                 | _ => DText s
                 end
    | d => d
    end.
End Codec.

Arguments DNone {J}. Arguments DText {J}. Arguments DBin {J}. Arguments DJson {J}.
Arguments DOk {J}. Arguments DErr {J}.
Arguments is_bin {J}. Arguments ptype {J}. Arguments pdat {J}. Arguments o_pkt {J}. Arguments o_cache {J}.
Arguments mk_packet {J}.
