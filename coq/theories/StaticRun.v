From Coq Require Import NArith List Bool.
Import ListNotations.
From EIO Require Import Util Strings Static.
Open Scope N_scope.
Definition target_eqb (a b : target) : bool :=
  match a, b with
  | Engine, Engine | Other, Other | NotFound, NotFound => true
  | File f c, File f' c' => eqbl f f' && eqbl c c'
  | _, _ => false
  end.
(* evaluation-only stand-in for the file system: lexical POSIX normalisation of an absolute path (drop empty and '.'
   segments, '..' pops), then membership in the list of regular files of the scratch tree *)
Fixpoint norm_segs (segs : list text) (stack : list text) : list text :=
  match segs with
  | [] => rev stack
  | s :: r => if eqbl s [] || eqbl s [46] then norm_segs r stack
              else if eqbl s [46; 46] then norm_segs r (tl stack) else norm_segs r (s :: stack)
  end.
Definition normpath (f : text) : text := flat_map (fun s => 47 :: s) (norm_segs (split_on 47 f) []).
Definition ex_of (l : list text) (f : text) : bool :=
  match f with 47 :: _ => negb (ends_slash f) && mem (normpath f) l | _ => false end.
(* (wsgi?, endpoint, mapping, has wrapped app, http scope?, path, existing files, what the implementation did) *)
Definition check_route (c : bool * option text * smap * bool * bool * text * list text * target) : bool :=
  let '(wsgi, ep, m, other, http, path, files, expect) := c in
  target_eqb (if wsgi then route_wsgi (ex_of files) (match ep with Some e => e | None => [] end) m other path
              else route_asgi (ex_of files) ep m other http path) expect.
Definition lout_eqb (a b : lout) : bool :=
  match a, b with StartupComplete, StartupComplete | StartupFailed, StartupFailed | ShutdownComplete, ShutdownComplete
  | ShutdownFailed, ShutdownFailed | Delegated, Delegated => true | _, _ => false end.
Definition check_lifespan (c : bool * option bool * option bool * list lev * list lout) : bool :=
  let '(other, s, t, evs, expect) := c in eqb_list lout_eqb (lifespan other s t evs) expect.
