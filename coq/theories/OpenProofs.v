From Coq Require Import ZArith NArith List Bool Lia.
Import ListNotations.
From EIO Require Import Util Strings Open Server.
Open Scope Z_scope.
Ltac Zify.zify_post_hook ::= Z.to_euclidean_division_equations.

Lemma ms_whole_seconds k : ms_of_ticks (1024 * k) = 1000 * k.
Proof. unfold ms_of_ticks. lia. Qed.
Lemma ms_exact t : 0 <= t -> 1024 * ms_of_ticks t <= 1000 * t < 1024 * (ms_of_ticks t + 1).
Proof. intros H. unfold ms_of_ticks. lia. Qed.
Lemma ms_half_seconds k : ms_of_ticks (512 * k) = 500 * k.
Proof. unfold ms_of_ticks. lia. Qed.

Lemma open_fields c ws :
  oi_ping_timeout (open_packet c ws) = ms_of_ticks (oc_timeout c) /\
  oi_ping_interval (open_packet c ws) = ms_of_ticks (oc_interval c + oc_grace c) /\
  oi_max_payload (open_packet c ws) = oc_maxbuf c /\
  (oi_upgrades (open_packet c ws) = true <->
     oc_allow_upgrades c = true /\ ws = false /\ oc_websocket c = true /\ oc_driver_ws c = true).
Proof.
  split; [reflexivity|]. split; [reflexivity|]. split; [reflexivity|].
  cbn [open_packet oi_upgrades]. unfold upgrades_adv. split.
  - intros X. apply andb_true_iff in X. destruct X as [X D]. apply andb_true_iff in X. destruct X as [X W].
    apply andb_true_iff in X. destruct X as [A N]. apply negb_true_iff in N. auto.
  - intros (-> & -> & -> & ->). reflexivity.
Qed.

(* an advertised upgrade is one the request handler lets through: the websocket transport is allowed *)
Lemma advertised_is_accepted (cfg : config) c ws :
  oc_websocket c = c_websocket cfg -> oi_upgrades (open_packet c ws) = true ->
  transport_allowed cfg TrWebsocket = true /\ ws = false.
Proof.
  intros E H. apply open_fields in H. destruct H as (_ & W & X & _). unfold transport_allowed. rewrite <- E, X. auto.
Qed.

Lemma cookie_iff c sid : cookie_header c sid <> None <-> c <> CkNone.
Proof. destruct c; cbn; split; intros H; try discriminate; try congruence; auto. Qed.

Lemma cookie_starts_with_name_sid c sid h : cookie_header c sid = Some h ->
  exists n rest, h = n ++ [61%N] ++ sid ++ rest /\
    match c with CkName x => n = x | CkDict (Some x) _ => n = x | CkDict None _ => n = t_io | CkNone => False end.
Proof.
  destruct c as [|n|n attrs]; cbn; intros H; [discriminate| |]; injection H as <-.
  - eexists; eexists; split; [reflexivity | reflexivity].
  - destruct n; eexists; eexists; (split; [reflexivity | reflexivity]).
Qed.

Lemma render_attrs_spec k v r : render_attrs ((k, v) :: r) =
  match v with
  | VBool true => semi_sp ++ k ++ render_attrs r
  | VBool false => render_attrs r
  | VStr s => semi_sp ++ k ++ [61%N] ++ s ++ render_attrs r
  end.
Proof. destruct v as [s|[|]]; reflexivity. Qed.
