(* executable comparison helpers for the C19 correspondence *)
From Coq Require Import NArith List Bool.
Import ListNotations.
From EIO Require Import Util Strings Jsonp Transform.
Open Scope N_scope.
Definition enc_eqb (a b : option enc) : bool :=
  match a, b with Some Gzip, Some Gzip | Some Deflate, Some Deflate | None, None => true | _, _ => false end.
(* compression decision: (compression, threshold, Accept-Encoding, body length) -> declared encoding *)
Definition check_pick (c : bool * N * option text * nat * option enc) : bool :=
  let '(comp, th, acc, len, expect) := c in
  enc_eqb (snd (transform (fun _ b => b) comp th acc (repeat 0 len))) expect.
(* JSONP body: (index text, payload, implementation's body text) *)
Definition check_jsonp (c : text * text * text) : bool :=
  let '(ix, payload, body) := c in
  eqbl (jsonp_wrap ix payload) body &&
  match parse_jsonp body with Some (i, us) => eqbl i ix && eqbl us (flat_map utf16 payload) | None => false end.
