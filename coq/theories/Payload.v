(* payload.py: polling payload framing.  urllib.parse.parse_qs (for the JSONP 'd=' form variant) is a
   standard-library oracle: form_d body = Some (parse_qs(body)['d'][0]), None when that raises. *)
From Coq Require Import NArith List Bool.
Import ListNotations.
From EIO Require Import Util Sid Base64 Packet.
Open Scope N_scope.

Definition SEP : N := 30.     (* U+001E record separator *)

(* str.split('\x1e'): always at least one segment *)
Fixpoint split_sep (l : text) : list text :=
  match l with
  | [] => [[]]
  | c :: r => if c =? SEP then [] :: split_sep r
              else match split_sep r with s :: ss => (c :: s) :: ss | [] => [[c]] end
  end.

Fixpoint join_sep (segs : list text) : text :=
  match segs with
  | [] => []
  | [s] => s
  | s :: ss => s ++ SEP :: join_sep ss
  end.

Definition starts_d_eq (l : text) : bool := match l with c :: e :: _ => (c =? 100) && (e =? 61) | _ => false end.   (* 'd=' *)

Section Payload.
  Variable J : Type.
  Variable jkind : J -> kind.
  Variable dumps : J -> text.
  Variable loads : text -> lres J.
  Variable digit : N -> option N.
  Variable form_d : text -> option text.

  (* text-channel encoding of one packet: encode(b64=True) is always a str *)
  Definition encode_text (p : pkt J) : text :=
    match encode_pure J dumps true p with WText t => t | WBin b => b end.

  (* Payload.encode() without JSONP *)
  Definition payload_encode (ps : list (pkt J)) : text := join_sep (map encode_text ps).

  Inductive perr := TooMany | BadPacket | BadForm.
  Inductive pres := POk (ps : list (N * pdata J * bool)) | PErr (e : perr).

  Fixpoint decode_all (segs : list text) : option (list (N * pdata J * bool)) :=
    match segs with
    | [] => Some []
    | s :: r => match decode J jkind loads digit (WText s) with
                | DErr => None
                | DOk ty d b => match decode_all r with Some l => Some ((ty, d, b) :: l) | None => None end
                end
    end.

  (* the JSONP POST variant: a body starting with 'd=' is a form; its field d is the payload *)
  Definition unform (body : text) : option text := if starts_d_eq body then form_d body else Some body.

  (* Payload.decode: the packet count is checked before any packet is decoded *)
  Definition payload_decode (limit : nat) (body : text) : pres :=
    match body with
    | [] => POk []
    | _ =>
      match unform body with
      | None => PErr BadForm
      | Some b =>
        let segs := split_sep b in
        if Nat.ltb limit (length segs) then PErr TooMany
        else match decode_all segs with Some l => POk l | None => PErr BadPacket end
      end
    end.
End Payload.
Arguments POk {J}. Arguments PErr {J}.
