From Coq Require Import ZArith NArith List Lia Bool.
Import ListNotations.
From EIO Require Import Util Sid SidProofs Base64 Base64Proofs Packet PacketProofs Payload.
Open Scope N_scope.

Definition nosep (s : text) := ~ In SEP s.

Lemma split_nosep s : nosep s -> split_sep s = [s].
Proof.
  induction s as [|c r IH]; intros H; [reflexivity|].
  cbn [split_sep]. destruct (N.eqb_spec c SEP) as [->|_]; [exfalso; apply H; left; reflexivity|].
  rewrite IH; [reflexivity | intros X; apply H; right; exact X].
Qed.

Lemma split_app_sep s r : nosep s -> split_sep (s ++ SEP :: r) = s :: split_sep r.
Proof.
  induction s as [|c t IH]; intros H.
  - cbn [app split_sep]. rewrite N.eqb_refl. reflexivity.
  - cbn [app split_sep]. destruct (N.eqb_spec c SEP) as [->|_]; [exfalso; apply H; left; reflexivity|].
    rewrite IH; [reflexivity | intros X; apply H; right; exact X].
Qed.

Lemma split_join segs : segs <> [] -> Forall nosep segs -> split_sep (join_sep segs) = segs.
Proof.
  induction segs as [|s ss IH]; intros NE F; [contradiction|].
  inversion F as [|? ? Hs Hss]; subst.
  destruct ss as [|s' ss'].
  - cbn [join_sep]. apply split_nosep; exact Hs.
  - change (join_sep (s :: s' :: ss')) with (s ++ SEP :: join_sep (s' :: ss')).
    rewrite split_app_sep by exact Hs. f_equal. apply IH; [discriminate | exact Hss].
Qed.

Lemma split_nonempty l : split_sep l <> [].
Proof. destruct l as [|c r]; cbn [split_sep]; [discriminate|]. destruct (c =? SEP); [discriminate|]. destruct (split_sep r); discriminate. Qed.

Section Payload.
  Variable J : Type.
  Variable jkind : J -> kind.
  Variable dumps : J -> text.
  Variable loads : text -> lres J.
  Variable digit : N -> option N.
  Variable form_d : text -> option text.

  Notation pkt := (pkt J).
  Notation encode_text := (encode_text J dumps).
  Notation payload_encode := (payload_encode J dumps).
  Notation payload_decode := (payload_decode J jkind loads digit form_d).
  Notation decode_all := (decode_all J jkind loads digit).
  Notation decode := (decode J jkind loads digit).

  (* ---- encode is the join of the text-channel encodings ---- *)
  Lemma encode_spec ps : payload_encode ps = join_sep (map encode_text ps).
  Proof. reflexivity. Qed.

  (* ---- limit: refused as a whole, whatever the packets are ---- *)
  Lemma limit_refuses limit body b : body <> [] ->
    unform form_d body = Some b ->
    (limit < length (split_sep b))%nat -> payload_decode limit body = PErr TooMany.
  Proof.
    intros NE F L. unfold payload_decode. destruct body; [contradiction|]. rewrite F.
    destruct (Nat.ltb_spec limit (length (split_sep b))); [reflexivity | lia].
  Qed.

  (* ---- all or nothing ---- *)
  Lemma decode_all_ok segs l : decode_all segs = Some l ->
    Forall2 (fun s p => decode (WText s) = DOk (fst (fst p)) (snd (fst p)) (snd p)) segs l.
  Proof.
    revert l. induction segs as [|s r IH]; intros l E; cbn [decode_all] in E.
    - injection E as <-. constructor.
    - destruct (decode (WText s)) as [ty d b|] eqn:D; [|discriminate].
      destruct (decode_all r) as [l'|]; [|discriminate]. injection E as <-.
      constructor; [exact D | apply IH; reflexivity].
  Qed.
  Lemma decode_all_fail segs s : In s segs -> decode (WText s) = DErr -> decode_all segs = None.
  Proof.
    induction segs as [|x r IH]; intros I D; [contradiction|]. cbn [decode_all].
    destruct I as [->|I]; [rewrite D; reflexivity|].
    destruct (decode (WText x)); [|reflexivity]. rewrite (IH I D). reflexivity.
  Qed.

  Lemma all_or_nothing limit body :
    (forall l, payload_decode limit body = POk l -> body = [] /\ l = [] \/
       exists b, unform form_d body = Some b /\ (length (split_sep b) <= limit)%nat /\
                 Forall2 (fun s p => decode (WText s) = DOk (fst (fst p)) (snd (fst p)) (snd p)) (split_sep b) l) /\
    (forall b s, body <> [] -> unform form_d body = Some b ->
       In s (split_sep b) -> decode (WText s) = DErr -> exists e, payload_decode limit body = PErr e).
  Proof.
    split.
    - intros l E. unfold payload_decode in E. destruct body as [|c r]; [left; injection E as <-; auto|].
      right. destruct (unform form_d (c :: r)) as [b|]; [|discriminate].
      exists b. split; [reflexivity|].
      destruct (Nat.ltb_spec limit (length (split_sep b))); [discriminate|].
      destruct (decode_all (split_sep b)) as [l'|] eqn:D; [|discriminate]. injection E as <-.
      split; [lia | apply decode_all_ok; exact D].
    - intros b s NE F I D. unfold payload_decode. destruct body; [contradiction|]. rewrite F.
      destruct (Nat.ltb limit (length (split_sep b))); [eexists; reflexivity|].
      rewrite (decode_all_fail _ s I D). eexists; reflexivity.
  Qed.

  (* ---- round trip ---- *)
  Hypothesis digit_ok : forall t, t < 10 -> digit (48 + t) = Some t.
  Hypothesis loads_dumps : forall v, jkind v = KArr \/ jkind v = KObj -> loads (dumps v) = LVal v.
  Hypothesis loads_empty : loads [] = LValueError.
  Hypothesis dumps_nosep : forall v, nosep (dumps v).            (* ensure_ascii output: no raw U+001E *)

  (* a packet that can travel in a payload: type < 10, acceptable data, text without the separator *)
  Definition sendable (p : pkt) : Prop :=
    ptype p < 10 /\ accepted J jkind (pdat p) /\ (is_bin (pdat p) = true -> ptype p = MESSAGE) /\
    match pdat p with DText s => nosep s /\ loads s <> LOther | _ => True end.

  Lemma encode_text_nosep p : sendable p -> nosep (encode_text p) /\ encode_text p <> [].
  Proof.
    intros (T & A & B & S). unfold encode_text, encode_pure. rewrite (str_N_digit _ T).
    assert (D : 48 + ptype p <> SEP) by (unfold SEP; lia).
    destruct (pdat p) as [|s|b|v]; cbn [app].
    - split; [|discriminate]. intros [X|[]]. exact (D X).
    - split; [|discriminate]. intros [X|X]; [exact (D X) | exact (proj1 S X)].
    - split; [|discriminate]. intros [X|X]; [discriminate X | exact (b64_no_sep b A X)].
    - split; [|discriminate]. intros [X|X]; [exact (D X) | exact (dumps_nosep v X)].
  Qed.

  Definition expected (p : pkt) : N * pdata J * bool :=
    (if is_bin (pdat p) then MESSAGE else ptype p, canon J jkind loads (pdat p), is_bin (pdat p)).

  Lemma decode_encode_text p : sendable p -> decode (WText (encode_text p)) = DOk (fst (fst (expected p))) (snd (fst (expected p))) (snd (expected p)).
  Proof.
    intros (T & A & B & S).
    assert (M : mk_packet (ptype p) (pdat p) = Some p).
    { unfold mk_packet. destruct (is_bin (pdat p)) eqn:E; cbn [andb].
      - pose proof (B eq_refl) as Bm. destruct p as [pt pd]. cbn [ptype] in Bm. subst pt. reflexivity.
      - destruct p; reflexivity. }
    pose proof (decode_encode J jkind dumps loads digit digit_ok loads_dumps loads_empty (ptype p) (pdat p) p true T A M) as R.
    assert (NO : forall s, pdat p = DText s -> loads s <> LOther).
    { intros s E. rewrite E in S. exact (proj2 S). }
    specialize (R NO). unfold encode_text.
    destruct (encode_pure J dumps true p) as [t|b] eqn:E.
    - rewrite R. unfold expected. cbn [fst snd]. destruct (is_bin (pdat p)) eqn:Bn; [rewrite (B eq_refl)|]; reflexivity.
    - exfalso. unfold encode_pure in E. destruct (pdat p); discriminate.
  Qed.

  Lemma decode_all_encoded ps : Forall sendable ps -> decode_all (map encode_text ps) = Some (map expected ps).
  Proof.
    induction ps as [|p r IH]; intros F; [reflexivity|]. inversion F as [|? ? Hp Hr]; subst.
    cbn [map decode_all]. rewrite (decode_encode_text p Hp), (IH Hr). destruct (expected p) as [[a b] c]. reflexivity.
  Qed.

  Lemma roundtrip limit ps : Forall sendable ps -> (length ps <= limit)%nat ->
    payload_decode limit (payload_encode ps) = POk (map expected ps).
  Proof.
    intros F L. destruct ps as [|p r]; [reflexivity|].
    assert (NS : Forall nosep (map encode_text (p :: r))).
    { apply Forall_forall. intros x Hx. apply in_map_iff in Hx. destruct Hx as (q & <- & Hq).
      exact (proj1 (encode_text_nosep q (proj1 (Forall_forall _ _) F q Hq))). }
    assert (SJ : split_sep (payload_encode (p :: r)) = map encode_text (p :: r)).
    { unfold payload_encode. apply split_join; [discriminate | exact NS]. }
    (* the body is non-empty and does not start with 'd=' since it starts with a digit or 'b' *)
    inversion F as [|? ? Hp Hr]; subst.
    destruct (encode_text_nosep p Hp) as [_ NE].
    assert (HD : exists c t, payload_encode (p :: r) = c :: t /\ c <> 100).
    { unfold payload_encode. cbn [map].
      assert (X : exists c t, encode_text p = c :: t /\ c <> 100).
      { destruct Hp as (T & A & B & S). unfold encode_text, encode_pure. rewrite (str_N_digit _ T).
        destruct (pdat p); cbn [app]; eexists; eexists; (split; [reflexivity|]); try lia; discriminate. }
      destruct X as (c & t & E & Nc). rewrite E. destruct (map encode_text r); cbn [join_sep app]; eexists; eexists; (split; [reflexivity | exact Nc]). }
    destruct HD as (c & t & E & Nc).
    unfold payload_decode. rewrite E.
    assert (SD : starts_d_eq (c :: t) = false).
    { unfold starts_d_eq. destruct t; [reflexivity|]. apply N.eqb_neq in Nc. rewrite Nc. reflexivity. }
    unfold unform. rewrite SD. rewrite <- E, SJ.
    rewrite map_length.
    destruct (Nat.ltb_spec limit (length (p :: r))); [lia|].
    rewrite (decode_all_encoded (p :: r) F). reflexivity.
  Qed.

  (* ---- the form-encoded variant decodes to the same packets ---- *)
  Lemma form_variant limit body x : x <> [] -> starts_d_eq body = true -> form_d body = Some x -> starts_d_eq x = false ->
    payload_decode limit body = payload_decode limit x.
  Proof.
    intros NE S F Sx. unfold payload_decode, unform. destruct body as [|c r]; [discriminate S|]. rewrite S, F.
    destruct x as [|c' r']; [contradiction|]. rewrite Sx. reflexivity.
  Qed.
End Payload.
